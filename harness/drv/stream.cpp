// groups rd / wr / copy (C12, C13, C14): histories of stream operations on the real classes
#include "drv.h"
#include "Stream/MemoryReader.h"
#include "Stream/FileReader.h"
#include "Stream/SliceReader.h"
#include "Stream/MemoryWriter.h"
#include "Stream/DynamicMemoryWriter.h"
#include "Stream/FileWriter.h"
#include <memory>
#include <sstream>
#include <cstring>
using namespace drv;
using namespace OP2Utility;
using namespace OP2Utility::Stream;

namespace {
std::vector<std::string> splitOn(const std::string& s, char c) {
  std::vector<std::string> out; std::string cur;
  for (char ch : s) { if (ch == c) { out.push_back(cur); cur.clear(); } else cur.push_back(ch); }
  out.push_back(cur); return out;
}
}
namespace drv {
// data argument: hex, or "gen:<len>:<seed>" for long pseudo-random content (same formula in the Lean driver)
std::string dataArg(const std::string& s) {
  if (s.rfind("gen:", 0) == 0) {
    auto p = splitOn(s, ':'); if (p.size() != 3) throw BadOp();
    uint64_t n = toU64(p[1]), seed = toU64(p[2]);
    std::string out(n, '\0');
    for (uint64_t i = 0; i < n; ++i) out[i] = static_cast<char>((i * 131 + seed * 7 + (i >> 8)) & 0xFF);
    return out;
  }
  return hexDecode(s);
}
}
namespace {
// keeps the backing storage alive next to the reader under test
struct ReaderObj {
  std::unique_ptr<std::string> data;                 // memory backends (heap: ASan red zones around it)
  std::unique_ptr<DynamicMemoryWriter> dyn;
  std::string path;                                   // file backends
  std::unique_ptr<BidirectionalReader> r;
};

ReaderObj makeReader(const std::string& backend, const std::string& bytes) {
  auto p = splitOn(backend, ':');
  ReaderObj o;
  auto nat = [&](std::size_t i) { if (i >= p.size()) throw BadOp(); return toU64(p[i]); };
  const std::string& k = p[0];
  if (k == "mem" || k == "mslice2" || k == "mslice1" || k == "mss") {
    o.data = std::make_unique<std::string>(bytes);
    MemoryReader base(o.data->data(), o.data->size());
    if (k == "mem") o.r = std::make_unique<MemoryReader>(base);
    else if (k == "mslice2") o.r = std::make_unique<MemoryReader>(base.Slice(nat(1), nat(2)));
    else if (k == "mslice1") { base.Seek(nat(1)); o.r = std::make_unique<MemoryReader>(base.Slice(nat(2))); }
    else { auto s1 = base.Slice(nat(1), nat(2)); o.r = std::make_unique<MemoryReader>(s1.Slice(nat(3), nat(4))); }
  } else if (k == "dyn") {
    o.dyn = std::make_unique<DynamicMemoryWriter>();
    o.dyn->Write(bytes.data(), bytes.size());
    o.r = std::make_unique<MemoryReader>(o.dyn->GetReader());
  } else if (k == "file" || k == "fslice" || k == "fss" || k == "fwrap") {
    o.path = freshDir() + "/data.bin";
    writeFile(o.path, bytes);
    if (k == "file") o.r = std::make_unique<FileReader>(o.path);
    else {
      FileReader base(o.path);
      FileSliceReader s1 = base.Slice(nat(1), nat(2));
      if (k == "fslice") o.r = std::make_unique<FileSliceReader>(s1);
      else if (k == "fss") o.r = std::make_unique<FileSliceReader>(s1.Slice(nat(3), nat(4)));
      else o.r = std::make_unique<SliceReader<FileSliceReader>>(s1, nat(3), nat(4));
    }
  } else throw BadOp();
  return o;
}

template <typename SizeT, typename C> std::string prefixedRead(BidirectionalReader& r) {
  C c; r.template Read<SizeT>(c);
  return showBytes(std::string(reinterpret_cast<const char*>(c.data()), c.size() * sizeof(typename C::value_type)));
}
template <typename C> std::string prefixedU(BidirectionalReader& r, uint64_t w) {
  switch (w) { case 1: return prefixedRead<uint8_t, C>(r); case 2: return prefixedRead<uint16_t, C>(r);
    case 4: return prefixedRead<uint32_t, C>(r); case 8: return prefixedRead<uint64_t, C>(r); default: throw BadOp(); }
}
template <typename C> std::string prefixedI(BidirectionalReader& r, uint64_t w) {
  switch (w) { case 1: return prefixedRead<int8_t, C>(r); case 2: return prefixedRead<int16_t, C>(r);
    case 4: return prefixedRead<int32_t, C>(r); case 8: return prefixedRead<int64_t, C>(r); default: throw BadOp(); }
}
}

// rd.hist <backend> <data> <op,op,...>
DRV_CMD(rd_hist, "rd.hist") {
  std::string bytes = dataArg(need(a,1));
  ReaderObj o;
  try { o = makeReader(need(a,0), bytes); }
  catch (const BadOp&) { throw; }
  catch (const std::exception&) { return "create-err"; }
  BidirectionalReader& r = *o.r;
  std::string out;
  if (need(a,2) == "-") return out;
  for (const auto& tok : splitOn(a[2], ',')) {
    if (tok.empty()) throw BadOp();
    char c = tok[0]; uint64_t n = tok.size() > 1 ? toU64(tok.substr(1)) : 0;
    std::string res; bool composite = (c == 'z' || c == 'q' || c == 'i' || c == 'v');
    std::vector<char> dst(64, '\x5a');                          // real destination; absurd sizes must be refused, not attempted
    try {
      switch (c) {
        case 'r': r.Read(dst.data(), n); res = hexEncode(dst.data(), n); break;
        case 'p': { std::size_t got = r.ReadPartial(dst.data(), n); res = hexEncode(dst.data(), got); break; }
        case 'k': r.Peek(dst.data(), n); res = hexEncode(dst.data(), n); break;
        case 's': r.Seek(n); res = "ok"; break;
        case 'f': r.SeekForward(n); res = "ok"; break;
        case 'b': r.SeekBackward(n); res = "ok"; break;
        case 'B': r.SeekBeginning(); res = "ok"; break;
        case 'E': r.SeekEnd(); res = "ok"; break;
        case 'u': {
          if (n == 1) { uint8_t v; r.Read(v); res = std::to_string(v); }
          else if (n == 2) { uint16_t v; r.Read(v); res = std::to_string(v); }
          else if (n == 4) { uint32_t v; r.Read(v); res = std::to_string(v); }
          else if (n == 8) { uint64_t v; r.Read(v); res = std::to_string(v); }
          else throw BadOp();
          break; }
        case 'z': res = hexEncode(r.ReadNullTerminatedString(n)); break;
        case 'q': res = prefixedU<std::string>(r, n); break;
        case 'i': res = prefixedI<std::string>(r, n); break;
        case 'v': res = prefixedU<std::vector<uint16_t>>(r, n); break;
        // strings of wider characters: n elements of 2 / 4 bytes each (the encoded size is n * sizeof(CharT))
        case 'W': { std::u16string v(n, u'\0'); r.Read(v); res = showBytes(std::string(reinterpret_cast<const char*>(v.data()), v.size() * 2)); break; }
        case 'X': { std::u32string v(n, U'\0'); r.Read(v); res = showBytes(std::string(reinterpret_cast<const char*>(v.data()), v.size() * 4)); break; }
        case 'c': { std::vector<uint32_t> v(n); r.Read(v); res = showBytes(std::string(reinterpret_cast<const char*>(v.data()), v.size() * 4)); break; }
        default: throw BadOp();
      }
    } catch (const BadOp&) { throw; }
    catch (const std::bad_alloc&) { return "err:alloc"; }
    catch (const std::length_error&) { return "err:alloc"; }
    catch (const std::exception&) { res = "err"; }
    if (!out.empty()) out += ",";
    if (res == "err" && composite) { out += res + ":?:" + std::to_string(r.Length()); return out; }
    out += res + ":" + std::to_string(r.Position()) + ":" + std::to_string(r.Length());
  }
  return out;
}

namespace {
struct WOpTok { char c; uint64_t n; std::string bytes; };
WOpTok parseW(const std::string& tok) {
  if (tok.empty()) throw BadOp();
  WOpTok t{tok[0], 0, {}};
  if (t.c == 'w') t.bytes = hexDecode(tok.substr(1)); else if (tok.size() > 1) t.n = toU64(tok.substr(1));
  return t;
}
template <class W> bool applyW(W& w, const WOpTok& t) {
  try {
    switch (t.c) {
      case 'w': w.Write(t.bytes.data(), t.bytes.size()); break;
      case 's': w.Seek(t.n); break;
      case 'f': w.SeekForward(t.n); break;
      case 'b': w.SeekBackward(t.n); break;
      case 'B': w.SeekBeginning(); break;
      case 'E': w.SeekEnd(); break;
      default: throw BadOp();
    }
    return true;
  } catch (const BadOp&) { throw; }
  catch (const std::bad_alloc&) { throw; }
  catch (const std::length_error&) { throw; }
  catch (const std::exception&) { return false; }
}
}

// wr.mem <initial buffer content> <ops> : fixed-buffer writer between two guard zones
DRV_CMD(wr_mem, "wr.mem") {
  std::string init = hexDecode(need(a,0));
  const std::size_t G = 16;
  std::vector<char> store(G + init.size() + G, '\xAB');
  std::memcpy(store.data() + G, init.data(), init.size());
  MemoryWriter w(store.data() + G, init.size());
  std::string out;
  if (need(a,1) == "-") return out;
  for (const auto& tok : splitOn(a[1], ',')) {
    bool ok = applyW(w, parseW(tok));
    for (std::size_t i = 0; i < G; ++i) if (store[i] != '\xAB' || store[G + init.size() + i] != '\xAB') return out + ",GUARD-ZONE-MODIFIED";
    if (!out.empty()) out += ",";
    out += std::string(ok ? "ok" : "err") + ":" + std::to_string(w.Position()) + ":" + std::to_string(w.Length()) + ":" + hexEncode(store.data() + G, init.size());
  }
  return out;
}

// wr.dyn <ops> : growing writer; content read back through GetReader() after every operation
DRV_CMD(wr_dyn, "wr.dyn") {
  DynamicMemoryWriter w;
  std::string out;
  if (need(a,0) == "-") return out;
  for (const auto& tok : splitOn(a[0], ',')) {
    bool ok;
    try { ok = applyW(w, parseW(tok)); } catch (const std::bad_alloc&) { return "err:alloc"; } catch (const std::length_error&) { return "err:alloc"; }
    auto rd = w.GetReader();
    std::string content(static_cast<std::size_t>(rd.Length()), '\0');
    rd.Read(&content[0], content.size());
    if (w.Position() != w.Length()) return out + ",POSITION-NOT-AT-END";
    if (!out.empty()) out += ",";
    out += std::string(ok ? "ok" : "err") + ":" + std::to_string(w.Length()) + ":" + showBytes(content);
  }
  return out;
}

// wr.prefixed <width> <n> <signed> : Write<uintW_t>(std::string(n,'x')) into a growing writer; refusal must write nothing
DRV_CMD(wr_prefixed, "wr.prefixed") {
  uint64_t w = toU64(need(a,0)), n = toU64(need(a,1)); bool sg = toU64(need(a,2)) != 0;
  std::string payload(n, 'x');
  DynamicMemoryWriter dw;
  try {
    if (!sg) switch (w) { case 1: dw.Write<uint8_t>(payload); break; case 2: dw.Write<uint16_t>(payload); break;
      case 4: dw.Write<uint32_t>(payload); break; case 8: dw.Write<uint64_t>(payload); break; default: throw BadOp(); }
    else switch (w) { case 1: dw.Write<int8_t>(payload); break; case 2: dw.Write<int16_t>(payload); break;
      case 4: dw.Write<int32_t>(payload); break; case 8: dw.Write<int64_t>(payload); break; default: throw BadOp(); }
  } catch (const BadOp&) { throw; }
  catch (const std::exception&) { return "err:" + std::to_string(dw.Length()); }
  auto rd = dw.GetReader(); std::string c(static_cast<std::size_t>(rd.Length()), '\0'); rd.Read(&c[0], c.size());
  return showBytes(c);
}

// copy <backend> <data> <start position> <chunk> : Writer::Write<chunk>(Reader&) from the reader's current position
DRV_CMD(copy_cmd, "copy") {
  std::string bytes = dataArg(need(a,1));
  ReaderObj o = makeReader(need(a,0), bytes);
  uint64_t start = toU64(need(a,2)), chunk = toU64(need(a,3));
  o.r->Seek(start);
  DynamicMemoryWriter w;
  switch (chunk) {
    case 1: w.Write<1>(*o.r); break; case 2: w.Write<2>(*o.r); break; case 3: w.Write<3>(*o.r); break;
    case 7: w.Write<7>(*o.r); break; case 16: w.Write<16>(*o.r); break; case 4096: w.Write<4096>(*o.r); break;
    case 131072: w.Write(*o.r); break;
    default: throw BadOp();
  }
  auto rd = w.GetReader(); std::string c(static_cast<std::size_t>(rd.Length()), '\0'); rd.Read(&c[0], c.size());
  return showBytes(c) + " " + std::to_string(o.r->Position());
}

// fw.open <flags 0..15> <exists 0|1> <bytes> : FileWriter(path, flags), one write, close; content on disk afterwards
DRV_CMD(fw_open, "fw.open") {
  unsigned flags = static_cast<unsigned>(toU64(need(a,0))); bool ex = toU64(need(a,1)) != 0; std::string bytes = hexDecode(need(a,2));
  std::string path = freshDir() + "/out.bin";
  if (ex) writeFile(path, "HELLO");
  bool ok = true;
  try {
    FileWriter w(path, static_cast<FileWriter::OpenMode>(flags));
    w.Write(bytes.data(), bytes.size());
  } catch (const std::exception&) { ok = false; }
  std::string after = exists(path) ? hexEncode(readFile(path)) : "absent";
  return std::string(ok ? "ok " : "refused ") + after;
}

// fw.opendir <flags 0..15> <bytes> : like fw.open with the target in a directory that does not exist yet; reports whether the
// directory exists afterwards and the content of the file
DRV_CMD(fw_opendir, "fw.opendir") {
  unsigned flags = static_cast<unsigned>(toU64(need(a,0))); std::string bytes = hexDecode(need(a,1));
  std::string dir = freshDir() + "/sub"; std::string path = dir + "/out.bin";
  bool ok = true;
  try {
    FileWriter w(path, static_cast<FileWriter::OpenMode>(flags));
    w.Write(bytes.data(), bytes.size());
  } catch (const std::exception&) { ok = false; }
  return std::string(ok ? "ok " : "refused ") + (exists(dir) ? "dir " : "nodir ") + (exists(path) ? hexEncode(readFile(path)) : "absent");
}

// fw.seq <flags 0..15> <existing content hex | absent> <ops> : FileWriter(path, flags), then a history of writes and seeks
// (Position() after every operation), close; content on disk afterwards
DRV_CMD(fw_seq, "fw.seq") {
  unsigned flags = static_cast<unsigned>(toU64(need(a,0))); bool ex = need(a,1) != "absent";
  std::string path = freshDir() + "/out.bin";
  if (ex) writeFile(path, hexDecode(a[1]));
  std::string out;
  try {
    FileWriter w(path, static_cast<FileWriter::OpenMode>(flags));
    out = "ok:" + std::to_string(w.Position());
    if (need(a,2) != "-") for (const auto& tok : splitOn(a[2], ',')) {
      bool ok = applyW(w, parseW(tok));
      out += std::string(",") + (ok ? "ok" : "err") + ":" + std::to_string(w.Position());
    }
  } catch (const BadOp&) { throw; }
  catch (const std::exception&) { out = "refused"; }
  return out + " " + (exists(path) ? showBytes(readFile(path)) : std::string("absent"));
}

// multi <mem|file> <data> <steps> : several live streams over one source, operations interleaved.
// step = "<obj>.<op>"; op = reader op token, or S<start>:<len> (two-argument Slice -> new object),
// H<len> (Slice at the current position -> new object), C (copy-construct -> new object).
// After every step: result, then position/length of EVERY live object.
DRV_CMD(multi_cmd, "multi") {
  std::string kind = need(a,0); std::string bytes = dataArg(need(a,1));
  std::unique_ptr<std::string> mem; std::string path;
  std::vector<std::unique_ptr<BidirectionalReader>> objs;
  if (kind == "mem") { mem = std::make_unique<std::string>(bytes); objs.push_back(std::make_unique<MemoryReader>(mem->data(), mem->size())); }
  else if (kind == "file") { path = freshDir() + "/data.bin"; writeFile(path, bytes); objs.push_back(std::make_unique<FileReader>(path)); }
  else throw BadOp();
  std::string out;
  if (need(a,2) == "-") return out;
  for (const auto& step : splitOn(a[2], ',')) {
    auto dot = step.find('.'); if (dot == std::string::npos) throw BadOp();
    std::size_t id = toU64(step.substr(0, dot)); std::string tok = step.substr(dot + 1);
    if (id >= objs.size() || tok.empty()) throw BadOp();
    BidirectionalReader& r = *objs[id];
    std::string res; std::vector<char> dst(64, '\x5a');
    try {
      char c = tok[0];
      if (c == 'S' || c == 'H' || c == 'C') {
        std::unique_ptr<BidirectionalReader> n;
        auto args = splitOn(tok.substr(1), ':');
        if (auto* m = dynamic_cast<MemoryReader*>(&r)) {
          if (c == 'S') n = std::make_unique<MemoryReader>(m->Slice(toU64(args.at(0)), toU64(args.at(1))));
          else if (c == 'H') n = std::make_unique<MemoryReader>(m->Slice(toU64(args.at(0))));
          else n = std::make_unique<MemoryReader>(*m);
        } else if (auto* f = dynamic_cast<FileReader*>(&r)) {
          if (c == 'S') n = std::make_unique<FileSliceReader>(f->Slice(toU64(args.at(0)), toU64(args.at(1))));
          else if (c == 'H') n = std::make_unique<FileSliceReader>(f->Slice(toU64(args.at(0))));
          else n = std::make_unique<FileReader>(*f);
        } else if (auto* s = dynamic_cast<FileSliceReader*>(&r)) {
          if (c == 'S') n = std::make_unique<FileSliceReader>(s->Slice(toU64(args.at(0)), toU64(args.at(1))));
          else if (c == 'H') n = std::make_unique<FileSliceReader>(s->Slice(toU64(args.at(0))));
          else n = std::make_unique<FileSliceReader>(*s);
        } else throw BadOp();
        objs.push_back(std::move(n)); res = "new";
      } else {
        uint64_t n = tok.size() > 1 ? toU64(tok.substr(1)) : 0;
        switch (c) {
          case 'r': r.Read(dst.data(), n); res = hexEncode(dst.data(), n); break;
          case 'p': { std::size_t got = r.ReadPartial(dst.data(), n); res = hexEncode(dst.data(), got); break; }
          case 'k': r.Peek(dst.data(), n); res = hexEncode(dst.data(), n); break;
          case 's': r.Seek(n); res = "ok"; break;
          case 'f': r.SeekForward(n); res = "ok"; break;
          case 'b': r.SeekBackward(n); res = "ok"; break;
          case 'B': r.SeekBeginning(); res = "ok"; break;
          case 'E': r.SeekEnd(); res = "ok"; break;
          default: throw BadOp();
        }
      }
    } catch (const BadOp&) { throw; }
    catch (const std::out_of_range&) { throw BadOp(); }
    catch (const std::exception&) { res = "err"; }
    if (!out.empty()) out += ",";
    out += res;
    for (auto& o : objs) out += ":" + std::to_string(o->Position()) + "/" + std::to_string(o->Length());
  }
  return out;
}
