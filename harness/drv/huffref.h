// shared by huff.cpp and lzh.cpp: FNV hash helper and the harness-side LZHUF-style reference tree
#pragma once
#include <vector>
#include <cstdint>
namespace drvref {
struct Hash { uint64_t h = 14695981039346656037ull; void add(uint64_t v) { for (int i = 0; i < 8; ++i) { h ^= (v >> (8 * i)) & 0xFF; h *= 1099511628211ull; } } };

// ---- independent reference: the classic LZHUF `update` (freq / prnt / son with a sentinel), own indexing ----------
struct RefTree {
  unsigned T, N, R;                       // symbols, nodes, root
  std::vector<unsigned> freq, prnt, son;
  explicit RefTree(unsigned t) : T(t), N(2 * t - 1), R(2 * t - 2), freq(N + 1), prnt(N + t), son(N) {
    for (unsigned i = 0; i < T; ++i) { freq[i] = 1; son[i] = i + N; prnt[i + N] = i; }
    unsigned i = 0, j = T;
    while (j <= R) { freq[j] = freq[i] + freq[i + 1]; son[j] = i; prnt[i] = prnt[i + 1] = j; i += 2; ++j; }
    freq[N] = 0xFFFFFFFFu;                // sentinel
    prnt[R] = 0;
  }
  void update(unsigned code) {
    unsigned c = prnt[code + N];
    for (;;) {
      unsigned k = ++freq[c];
      unsigned l = c + 1;
      if (c != R && k > freq[l]) {        // order disturbed: exchange with the last node of the block
        while (k > freq[l + 1]) ++l;
        freq[c] = freq[l]; freq[l] = k;
        unsigned i = son[c]; prnt[i] = l; if (i < N) prnt[i + 1] = l;
        unsigned j = son[l]; son[l] = i;
        prnt[j] = c; if (j < N) prnt[j + 1] = c;
        son[c] = j;
        c = l;
      }
      if (c == R) break;
      c = prnt[c];
    }
  }
  // preorder shape: (isLeaf, data, depth)
  void shape(unsigned node, unsigned depth, Hash& h, unsigned& visited, unsigned& leaves) const {
    ++visited;
    if (son[node] >= N) { ++leaves; h.add(1); h.add(son[node] - N); h.add(depth); return; }
    h.add(0); h.add(0); h.add(depth);
    shape(son[node], depth + 1, h, visited, leaves);
    shape(son[node] + 1, depth + 1, h, visited, leaves);
  }
};

}
