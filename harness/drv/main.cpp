#include "drv.h"
#include <iostream>
#include <sstream>
#include <fstream>
#include <cstring>
#include <cstdlib>
#include <csignal>
#include <unistd.h>
#include <sys/wait.h>
#include <sys/prctl.h>
#include <sys/stat.h>
#include <dirent.h>
#include <ftw.h>

namespace drv {
std::map<std::string, Handler>& registry() { static std::map<std::string, Handler> r; return r; }

static int hv(char c) {
  if (c >= '0' && c <= '9') return c - '0';
  if (c >= 'a' && c <= 'f') return c - 'a' + 10;
  if (c >= 'A' && c <= 'F') return c - 'A' + 10;
  throw BadOp();
}
std::string hexDecode(const std::string& s) {
  if (s == "-") return {};
  if (s.size() % 2) throw BadOp();
  std::string out; out.reserve(s.size() / 2);
  for (std::size_t i = 0; i < s.size(); i += 2) out.push_back(static_cast<char>(hv(s[i]) * 16 + hv(s[i + 1])));
  return out;
}
std::string hexEncode(const void* p, std::size_t n) {
  if (n == 0) return "-";
  static const char* d = "0123456789abcdef";
  const unsigned char* b = static_cast<const unsigned char*>(p);
  std::string out; out.reserve(n * 2);
  for (std::size_t i = 0; i < n; ++i) { out.push_back(d[b[i] >> 4]); out.push_back(d[b[i] & 15]); }
  return out;
}
std::string hexEncode(const std::string& bytes) { return hexEncode(bytes.data(), bytes.size()); }
uint64_t fnv1a(const void* p, std::size_t n) {
  uint64_t h = 14695981039346656037ull;
  const unsigned char* b = static_cast<const unsigned char*>(p);
  for (std::size_t i = 0; i < n; ++i) { h ^= b[i]; h *= 1099511628211ull; }
  return h;
}
std::string showBytes(const std::string& bytes) {
  if (bytes.size() <= 48) return hexEncode(bytes);
  return "#" + std::to_string(bytes.size()) + ":" + std::to_string(fnv1a(bytes.data(), bytes.size()));
}
uint64_t toU64(const std::string& s) {
  if (s.empty()) throw BadOp();
  for (char c : s) if (c < '0' || c > '9') throw BadOp();
  errno = 0; char* e = nullptr;
  unsigned long long v = strtoull(s.c_str(), &e, 10);
  if (errno || *e) throw BadOp();
  return v;
}
int64_t toI64(const std::string& s) {
  errno = 0; char* e = nullptr;
  long long v = strtoll(s.c_str(), &e, 10);
  if (s.empty() || errno || *e) throw BadOp();
  return v;
}
const std::string& need(const Args& a, std::size_t i) { if (i >= a.size()) throw BadOp(); return a[i]; }

static std::string g_scratch;
static int rmOne(const char* p, const struct stat*, int, struct FTW*) { return remove(p); }
static void cleanup() { if (!g_scratch.empty()) nftw(g_scratch.c_str(), rmOne, 64, FTW_DEPTH | FTW_PHYS); }
static pid_t g_mainPid = 0;
static void cleanupAtExit() { if (getpid() == g_mainPid) cleanup(); }
const std::string& scratchRoot() {
  if (g_scratch.empty()) {
    const char* base = getenv("OP2DRV_SCRATCH");
    std::string tmpl = std::string(base ? base : "/tmp") + "/op2drv.XXXXXX";
    std::vector<char> buf(tmpl.begin(), tmpl.end()); buf.push_back(0);
    if (!mkdtemp(buf.data())) { perror("mkdtemp"); _exit(3); }
    g_scratch = buf.data();
    g_mainPid = getpid();
    atexit(cleanupAtExit);
  }
  return g_scratch;
}
std::string freshDir() {
  static unsigned long counter = 0;
  std::string d = scratchRoot() + "/c" + std::to_string(getpid()) + "_" + std::to_string(counter++);
  mkdir(d.c_str(), 0700);
  return d;
}
void writeFile(const std::string& path, const std::string& bytes) {
  std::ofstream f(path, std::ios::binary | std::ios::trunc);
  f.write(bytes.data(), static_cast<std::streamsize>(bytes.size()));
  if (!f) throw std::runtime_error("harness: cannot write " + path);
}
std::string readFile(const std::string& path) {
  std::ifstream f(path, std::ios::binary);
  if (!f) throw std::runtime_error("harness: cannot read " + path);
  std::stringstream ss; ss << f.rdbuf(); return ss.str();
}
bool exists(const std::string& path) { struct stat st; return lstat(path.c_str(), &st) == 0; }
}

using namespace drv;

static std::string runCase(const std::string& cmd, const Args& args) {
  auto it = registry().find(cmd);
  if (it == registry().end()) return "bad-op";
  try { return it->second(args); }
  catch (const BadOp&) { return "bad-op"; }
  catch (const std::bad_alloc&) { return "err:alloc"; }
  catch (const std::length_error&) { return "err:alloc"; }
  catch (const std::exception&) { return "err"; }
}

static unsigned g_watchdog = 30;

// run one case in a forked child; classify how it ended
static std::string runIsolated(const std::string& cmd, const Args& args, unsigned watchdog) {
  int fds[2]; if (pipe(fds)) return "harness-error";
  int efds[2]; if (pipe(efds)) return "harness-error";
  fflush(stdout);
  pid_t pid = fork();
  if (pid < 0) return "harness-error";
  if (pid == 0) {
    close(fds[0]); close(efds[0]);
    dup2(efds[1], 2);
    prctl(PR_SET_PDEATHSIG, SIGKILL);   // never outlive the driver
    alarm(watchdog);
    std::string r = runCase(cmd, args);
    r.push_back('\n');
    ssize_t w = write(fds[1], r.data(), r.size()); (void)w;
    _exit(0);
  }
  close(fds[1]); close(efds[1]);
  std::string out, err; char buf[4096]; ssize_t n;
  while ((n = read(fds[0], buf, sizeof buf)) > 0) out.append(buf, static_cast<std::size_t>(n));
  while ((n = read(efds[0], buf, sizeof buf)) > 0) { if (err.size() < 65536) err.append(buf, static_cast<std::size_t>(n)); }
  close(fds[0]); close(efds[0]);
  int status = 0; waitpid(pid, &status, 0);
  if (WIFEXITED(status) && WEXITSTATUS(status) == 0 && !out.empty() && out.back() == '\n') { out.pop_back(); return out; }
  if (WIFSIGNALED(status) && WTERMSIG(status) == SIGALRM) return "hang";
  // sanitizer reports: classify by the first recognisable phrase on stderr
  auto has = [&](const char* s) { return err.find(s) != std::string::npos; };
  if (has("allocation-size-too-big") || has("out-of-memory") || has("requested allocation size")) return "err:alloc";
  if (has("AddressSanitizer")) return "fault:asan";
  if (has("runtime error")) return "fault:ubsan";
  if (has("Assertion") || has("__glibcxx_assert")) return "fault:assert";
  if (WIFSIGNALED(status)) return "fault:signal" + std::to_string(WTERMSIG(status));
  return "fault:exit" + std::to_string(WIFEXITED(status) ? WEXITSTATUS(status) : -1);
}

int main(int argc, char** argv) {
  std::ios::sync_with_stdio(false);
  prctl(PR_SET_PDEATHSIG, SIGKILL);     // a driver whose check was killed must not spin on (a violating library may loop forever)
  if (const char* w = getenv("OP2DRV_WATCHDOG")) g_watchdog = static_cast<unsigned>(atoi(w));
  std::istream* in = &std::cin; std::ifstream fin;
  if (argc > 1) { fin.open(argv[1]); if (!fin) { std::cerr << "cannot open " << argv[1] << "\n"; return 2; } in = &fin; }
  std::string line;
  while (std::getline(*in, line)) {
    std::istringstream ss(line); Args toks; std::string t;
    while (ss >> t) toks.push_back(t);
    if (toks.empty()) { std::cout << "bad-op\n"; continue; }
    std::string cmd = toks[0]; toks.erase(toks.begin());
    std::string r;
    if (!cmd.empty() && cmd[0] == '!') {
      // "!cmd" : forked with the default watchdog;  "!<secs>!cmd" : forked with a watchdog of its own (cases that
      // legitimately write gigabytes)
      std::string rest = cmd.substr(1); unsigned wd = g_watchdog;
      std::size_t bang = rest.find('!');
      if (bang != std::string::npos && bang > 0 && rest.find_first_not_of("0123456789") == bang) { wd = static_cast<unsigned>(atoi(rest.substr(0, bang).c_str())); rest = rest.substr(bang + 1); }
      r = runIsolated(rest, toks, wd);
    }
    else r = runCase(cmd, toks);
    std::cout << r << "\n";
  }
  std::cout.flush();
  return 0;
}
