// Part of op2drv (command layout.dump). Compiled against /repo's *current* headers on every run (g++ -fno-access-control).
// Prints Lean definitions: sizeof / offsetof of on-disk records, bit-field masks, public constants.
#include "drv.h"
#include <cstdio>
#include <string>
#include <cstring>
#include <cstddef>
#include <cstdint>
#include "Archive/VolFile.h"
#include "Archive/ClmFile.h"
#include "Archive/WaveFile.h"
#include "Map/MapHeader.h"
#include "Map/Tile.h"
#include "Map/TileMapping.h"
#include "Map/TerrainType.h"
#include "Map/SavedGameUnits.h"
#include "Rect.h"
#include "Bitmap/BmpHeader.h"
#include "Bitmap/ImageHeader.h"
#include "Bitmap/Color.h"
#include "Sprite/SectionHeader.h"
#include "Sprite/PaletteHeader.h"
#include "Sprite/TilesetHeaders.h"
#include "Sprite/TilesetLoader.h"
#include "Sprite/SectionHeader.h"
#include "Tag.h"
#include "Sprite/TilesetCommon.h"
#include "Sprite/ImageMeta.h"
#include "Sprite/Animation.h"
#include "Sprite/ArtFile.h"
#include "Stream/Writer.h"
#include <functional>
#include <new>
#include "Stream/DynamicMemoryWriter.h"
#include "Map/Map.h"
using namespace OP2Utility;
using namespace OP2Utility::Archive;

#define SZ(name, T) outf("def size_%s : Nat := %zu\n", name, sizeof(T))
#define OFF(name, T, f) outf("def off_%s : Nat := %zu\n", name, offsetof(T, f))
#define NAT(name, v) outf("def %s : Nat := %llu\n", name, static_cast<unsigned long long>(v))

// mask of a bit-field: zero the object, store all-ones in the field, dump the word
#define MASK32(name, T, f, ones) do { T t; std::memset(&t, 0, sizeof t); t.f = ones; uint32_t w = 0; std::memcpy(&w, &t, sizeof t < 4 ? sizeof t : 4); \
  outf("def mask_%s : Nat := %u\n", name, w); } while (0)


// ---- C18: which bytes of a freshly built record come from whatever the memory held before? ---------------------------
// Every record the library builds and then serialises is constructed here *in place* over storage pre-filled with a
// poison byte (guaranteed copy elision + NRVO construct the factory's local directly in that storage), and dumped.
namespace {
template <class T, class F> std::string builtOver(unsigned char fill, F make) {
  alignas(16) static unsigned char storage[sizeof(T) + 64];
  std::memset(storage, fill, sizeof storage);
  T* p = new (storage) T(make());
  std::string s(reinterpret_cast<const char*>(p), sizeof(T));
  p->~T();
  return s;
}
template <class T> std::string writtenOver(unsigned char fill) {       // objects with containers: build in poisoned storage, serialise
  alignas(16) static unsigned char storage[sizeof(T) + 64];
  std::memset(storage, fill, sizeof storage);
  T* p = new (storage) T();
  Stream::DynamicMemoryWriter w; p->Write(w);
  auto r = w.GetReader(); std::string s(static_cast<std::size_t>(r.Length()), '\0'); if (!s.empty()) r.Read(&s[0], s.size());
  p->~T();
  return s;
}
WaveFormatEx someFormat() { WaveFormatEx f; std::memset(&f, 0, sizeof f); f.wFormatTag = 1; f.nChannels = 2; f.nSamplesPerSec = 22050; f.nAvgBytesPerSec = 88200; f.nBlockAlign = 4; f.wBitsPerSample = 16; f.cbSize = 0; return f; }
struct Probe { const char* name; std::function<std::string(unsigned char)> run; };
const std::vector<Probe>& probes() {
  static const std::vector<Probe> v = {
#ifndef LAYOUT_PUBLIC_ONLY
    {"VolSectionHeader", [](unsigned char f) { return builtOver<VolFile::SectionHeader>(f, [] { return VolFile::SectionHeader(MakeTag("VBLK"), 0x1234u); }); }},
    {"VolIndexEntry", [](unsigned char f) { return builtOver<VolFile::IndexEntry>(f, [] { return VolFile::IndexEntry(); }); }},
    {"ClmHeader", [](unsigned char f) { return builtOver<ClmFile::ClmHeader>(f, [] { return ClmFile::ClmHeader::MakeHeader(someFormat(), 3); }); }},
    {"ClmIndexEntry", [](unsigned char f) { return builtOver<ClmFile::IndexEntry>(f, [] { return ClmFile::IndexEntry(); }); }},
#endif
    {"WaveHeader", [](unsigned char f) { return builtOver<WaveHeader>(f, [] { return WaveHeader::Create(someFormat(), 77); }); }},
    {"MapHeader", [](unsigned char f) { return builtOver<MapHeader>(f, [] { return MapHeader(); }); }},
    {"BmpHeader", [](unsigned char f) { return builtOver<BmpHeader>(f, [] { return BmpHeader::Create(1000, 54); }); }},
    {"ImageHeader", [](unsigned char f) { return builtOver<ImageHeader>(f, [] { return ImageHeader::Create(5, -3, 8); }); }},
    {"TilesetHeader", [](unsigned char f) { return builtOver<Tileset::TilesetHeader>(f, [] { return Tileset::TilesetHeader::Create(2); }); }},
    {"PpalHeader", [](unsigned char f) { return builtOver<Tileset::PpalHeader>(f, [] { return Tileset::PpalHeader::Create(); }); }},
    {"PaletteHeader", [](unsigned char f) { return builtOver<PaletteHeader>(f, [] { return PaletteHeader::CreatePaletteHeader(); }); }},
    {"SpriteSectionHeader", [](unsigned char f) { return builtOver<SectionHeader>(f, [] { return SectionHeader(MakeTag("PPAL"), 1048); }); }},
    {"DefaultMapWritten", [](unsigned char f) { return writtenOver<Map>(f); }},
    {"DefaultArtFileWritten", [](unsigned char f) { return writtenOver<ArtFile>(f); }},
  };
  return v;
}
}
// layout.poison <fill byte> : every probe's bytes when built over storage filled with that byte
DRV_CMD(layout_poison, "layout.poison") {
  unsigned char fill = static_cast<unsigned char>(drv::toU64(drv::need(a, 0)));
  std::string out;
  for (const auto& p : probes()) { if (!out.empty()) out += " "; out += std::string(p.name) + "=" + drv::showBytes(p.run(fill)); }
  return out;
}
static std::string uninitFacts() {
  std::string out;
  for (const auto& p : probes()) {
    std::string x = p.run(0x00), y = p.run(0xFF), z = p.run(0xA5);
    std::string list; std::size_t n = 0;
    std::size_t len = x.size() < y.size() ? x.size() : y.size();
    for (std::size_t i = 0; i < len; ++i) if (x[i] != y[i] || x[i] != z[i]) { if (n++) list += ", "; list += std::to_string(i); }
    if (x.size() != y.size() || x.size() != z.size()) { if (n++) list += ", "; list += std::to_string(len); }   // length itself depends on garbage
    out += std::string("def uninit_") + p.name + " : List Nat := [" + list + "]\n";
  }
  return out;
}

static std::string g_out;
static void outf(const char* fmt, ...) __attribute__((format(printf,1,2)));
#include <cstdarg>
static void outf(const char* fmt, ...) { char buf[512]; va_list ap; va_start(ap, fmt); vsnprintf(buf, sizeof buf, fmt, ap); va_end(ap); g_out += buf; }
DRV_CMD(layout_dump, "layout.dump") {
  (void)a; g_out.clear();
  outf("-- GENERATED by extract/layout_probe.cpp from /repo's current headers; do not edit\n");
  outf("namespace Op2.Gen.Layout\n");
#ifndef LAYOUT_PUBLIC_ONLY
  SZ("VolIndexEntry", VolFile::IndexEntry);
  OFF("VolIndexEntry_filenameOffset", VolFile::IndexEntry, filenameOffset);
  OFF("VolIndexEntry_dataBlockOffset", VolFile::IndexEntry, dataBlockOffset);
  OFF("VolIndexEntry_fileSize", VolFile::IndexEntry, fileSize);
  OFF("VolIndexEntry_compressionType", VolFile::IndexEntry, compressionType);
  SZ("VolSectionHeader", VolFile::SectionHeader);
  { VolFile::SectionHeader h; std::memset(&h, 0, sizeof h); h.length = 0x7FFFFFFF; uint32_t w; std::memcpy(&w, reinterpret_cast<char*>(&h) + 4, 4); outf("def mask_VolSectionHeader_length : Nat := %u\n", w); }
  { VolFile::SectionHeader h; std::memset(&h, 0, sizeof h); h.padding = VolFile::VolPadding::FourByte; uint32_t w; std::memcpy(&w, reinterpret_cast<char*>(&h) + 4, 4); outf("def mask_VolSectionHeader_padding : Nat := %u\n", w); }
#endif
  NAT("vol_Uncompressed", static_cast<uint16_t>(CompressionType::Uncompressed));
  NAT("vol_LZH", static_cast<uint16_t>(CompressionType::LZH));
#ifndef LAYOUT_PUBLIC_ONLY
  SZ("ClmHeader", ClmFile::ClmHeader);
  OFF("ClmHeader_waveFormat", ClmFile::ClmHeader, waveFormat);
  OFF("ClmHeader_unknown", ClmFile::ClmHeader, unknown);
  OFF("ClmHeader_packedFilesCount", ClmFile::ClmHeader, packedFilesCount);
  SZ("ClmIndexEntry", ClmFile::IndexEntry);
  OFF("ClmIndexEntry_dataOffset", ClmFile::IndexEntry, dataOffset);
  OFF("ClmIndexEntry_dataLength", ClmFile::IndexEntry, dataLength);
#endif
  SZ("WaveFormatEx", WaveFormatEx); SZ("RiffHeader", RiffHeader); SZ("FormatChunk", FormatChunk);
  SZ("ChunkHeader", ChunkHeader); SZ("WaveHeader", WaveHeader);
  SZ("MapHeader", MapHeader);
  OFF("MapHeader_versionTag", MapHeader, versionTag); OFF("MapHeader_bSavedGame", MapHeader, bSavedGame);
  OFF("MapHeader_lgWidthInTiles", MapHeader, lgWidthInTiles); OFF("MapHeader_heightInTiles", MapHeader, heightInTiles);
  OFF("MapHeader_tilesetCount", MapHeader, tilesetCount);
  NAT("MinMapVersion", MapHeader::MinMapVersion); NAT("CurrentMapVersion", MapHeader::CurrentMapVersion);
  SZ("Tile", Tile);
  MASK32("Tile_cellType", Tile, cellType, static_cast<CellType>(31));
  MASK32("Tile_tileMappingIndex", Tile, tileMappingIndex, 2047);
  MASK32("Tile_unitIndex", Tile, unitIndex, -1);
  MASK32("Tile_bLava", Tile, bLava, -1);
  MASK32("Tile_bLavaPossible", Tile, bLavaPossible, -1);
  MASK32("Tile_bExpansion", Tile, bExpansion, -1);
  MASK32("Tile_bMicrobe", Tile, bMicrobe, -1);
  MASK32("Tile_bWallOrBuilding", Tile, bWallOrBuilding, -1);
  NAT("CellType_Tube5", static_cast<unsigned>(CellType::Tube5));
  { Tile t; std::memset(&t, 0xFF, sizeof t); outf("def tile_cellType_allOnes_isNonNegative : Bool := %s\n", static_cast<long long>(t.cellType) >= 0 ? "true" : "false"); }
  SZ("TileMapping", TileMapping); OFF("TileMapping_tilesetIndex", TileMapping, tilesetIndex); OFF("TileMapping_tileGraphicIndex", TileMapping, tileGraphicIndex);
  SZ("TerrainType", TerrainType); SZ("Rect", Rect);
  SZ("ObjectType1", ObjectType1); SZ("UnitRecord", UnitRecord);
  NAT("savedGame_unitsArrayBytes", sizeof(SavedGameUnits::units)); NAT("savedGame_freeUnitsBytes", sizeof(SavedGameUnits::freeUnits));
  NAT("DefaultSizeOfUnit", DefaultSizeOfUnit);
  SZ("BmpHeader", BmpHeader); OFF("BmpHeader_size", BmpHeader, size); OFF("BmpHeader_pixelOffset", BmpHeader, pixelOffset);
  SZ("ImageHeader", ImageHeader); OFF("ImageHeader_width", ImageHeader, width); OFF("ImageHeader_height", ImageHeader, height);
  OFF("ImageHeader_planes", ImageHeader, planes); OFF("ImageHeader_bitCount", ImageHeader, bitCount); OFF("ImageHeader_compression", ImageHeader, compression);
  OFF("ImageHeader_usedColorMapEntries", ImageHeader, usedColorMapEntries); OFF("ImageHeader_importantColorCount", ImageHeader, importantColorCount);
  SZ("ImageHeaderV4", ImageHeaderV4); SZ("ImageHeaderV5", ImageHeaderV5);
  NAT("bmp_DefaultPlanes", ImageHeader::DefaultPlanes); NAT("bmp_DefaultImageSize", ImageHeader::DefaultImageSize);
  NAT("bmp_DefaultXResolution", ImageHeader::DefaultXResolution); NAT("bmp_DefaultYResolution", ImageHeader::DefaultYResolution);
  NAT("bmp_DefaultUsedColorMapEntries", ImageHeader::DefaultUsedColorMapEntries); NAT("bmp_DefaultImportantColorCount", ImageHeader::DefaultImportantColorCount);
  outf("def bmp_ValidBitCounts : List Nat := [");
  for (std::size_t i = 0; i < ImageHeader::ValidBitCounts.size(); ++i) outf("%s%u", i ? ", " : "", ImageHeader::ValidBitCounts[i]);
  outf("]\n");
  outf("def bmp_FileSignature : List Nat := [%u, %u]\n", static_cast<unsigned char>(BmpHeader::FileSignature[0]), static_cast<unsigned char>(BmpHeader::FileSignature[1]));
  SZ("Color", Color); OFF("Color_red", Color, red); OFF("Color_green", Color, green); OFF("Color_blue", Color, blue); OFF("Color_alpha", Color, alpha);
  SZ("SectionHeader", SectionHeader); SZ("PaletteHeader", PaletteHeader);
  SZ("TilesetHeader", Tileset::TilesetHeader); SZ("PpalHeader", Tileset::PpalHeader); SZ("Tag", Tag);
  NAT("ts_DefaultSectionSize", Tileset::TilesetHeader::DefaultSectionSize); NAT("ts_DefaultTagCount", Tileset::TilesetHeader::DefaultTagCount);
  NAT("ts_DefaultPixelWidth", Tileset::TilesetHeader::DefaultPixelWidth); NAT("ts_DefaultPixelHeightMultiple", Tileset::TilesetHeader::DefaultPixelHeightMultiple);
  NAT("ts_DefaultBitDepth", Tileset::TilesetHeader::DefaultBitDepth); NAT("ts_DefaultFlags", Tileset::TilesetHeader::DefaultFlags);
  NAT("ts_DefaultPpalSectionSize", Tileset::PpalHeader::DefaultPpalSectionSize); NAT("ts_DefaultHeadSectionSize", Tileset::PpalHeader::DefaultHeadSectionSize);
  NAT("ts_PpalDefaultTagCount", Tileset::PpalHeader::DefaultTagCount); NAT("ts_DefaultPaletteHeaderSize", Tileset::DefaultPaletteHeaderSize);
  // bmp family: remaining header offsets, tileset record offsets and section tags
  OFF("BmpHeader_fileSignature", BmpHeader, fileSignature); OFF("BmpHeader_reserved1", BmpHeader, reserved1); OFF("BmpHeader_reserved2", BmpHeader, reserved2);
  OFF("ImageHeader_headerSize", ImageHeader, headerSize); OFF("ImageHeader_imageSize", ImageHeader, imageSize);
  OFF("ImageHeader_xResolution", ImageHeader, xResolution); OFF("ImageHeader_yResolution", ImageHeader, yResolution);
  NAT("bmp_DefaultReserved1", BmpHeader::DefaultReserved1); NAT("bmp_DefaultReserved2", BmpHeader::DefaultReserved2);
  NAT("bmp_CompressionUncompressed", static_cast<uint32_t>(BmpCompression::Uncompressed));
  { Color c = DiscreteColor::Black; outf("def bmp_Black : List Nat := [%u, %u, %u, %u]\n", c.red, c.green, c.blue, c.alpha); }
  OFF("SectionHeader_tag", SectionHeader, tag); OFF("SectionHeader_length", SectionHeader, length);
  OFF("TilesetHeader_sectionHead", Tileset::TilesetHeader, sectionHead); OFF("TilesetHeader_tagCount", Tileset::TilesetHeader, tagCount);
  OFF("TilesetHeader_pixelWidth", Tileset::TilesetHeader, pixelWidth); OFF("TilesetHeader_pixelHeight", Tileset::TilesetHeader, pixelHeight);
  OFF("TilesetHeader_bitDepth", Tileset::TilesetHeader, bitDepth); OFF("TilesetHeader_flags", Tileset::TilesetHeader, flags);
  OFF("PpalHeader_ppal", Tileset::PpalHeader, ppal); OFF("PpalHeader_head", Tileset::PpalHeader, head); OFF("PpalHeader_tagCount", Tileset::PpalHeader, tagCount);
  { auto tagList = [&](const char* name, Tag t) { std::string x = static_cast<std::string>(t);
      outf("def %s : List Nat := [%u, %u, %u, %u]\n", name, (unsigned char)x[0], (unsigned char)x[1], (unsigned char)x[2], (unsigned char)x[3]); };
    tagList("ts_TagFileSignature", Tileset::TagFileSignature); tagList("ts_TagHead", Tileset::TilesetHeader::DefaultTagHead);
    tagList("ts_TagPpal", Tileset::PpalHeader::DefaultTagPpal); tagList("ts_TagPpalHead", Tileset::PpalHeader::DefaultTagHead);
    tagList("ts_TagData", Tileset::DefaultTagData); }
  SZ("ImageMeta", ImageMeta); OFF("ImageMeta_scanLineByteWidth", ImageMeta, scanLineByteWidth); OFF("ImageMeta_pixelDataOffset", ImageMeta, pixelDataOffset);
  OFF("ImageMeta_height", ImageMeta, height); OFF("ImageMeta_width", ImageMeta, width); OFF("ImageMeta_type", ImageMeta, type); OFF("ImageMeta_paletteIndex", ImageMeta, paletteIndex);
  SZ("Layer", Animation::Frame::Layer); SZ("LayerMetadata", Animation::Frame::LayerMetadata); SZ("UnknownContainer", Animation::UnknownContainer);
  { Animation::Frame::LayerMetadata m; std::memset(&m, 0, sizeof m); m.count = 127; uint8_t b; std::memcpy(&b, &m, 1); outf("def mask_LayerMetadata_count : Nat := %u\n", b); }
  { Animation::Frame::LayerMetadata m; std::memset(&m, 0, sizeof m); m.bReadOptionalData = 1; uint8_t b; std::memcpy(&b, &m, 1); outf("def mask_LayerMetadata_bReadOptionalData : Nat := %u\n", b); }
  // family prt
  { ImageMeta m; std::memset(&m, 0, sizeof m); m.type.isShadow = 1; uint16_t w; std::memcpy(&w, &m.type, 2); outf("def mask_ImageType_isShadow : Nat := %u\n", w); }
  SZ("Animation", Animation); SZ("Frame", Animation::Frame); SZ("Palette8Bit", Palette8Bit);
  OFF("PaletteHeader_sectionHeader", PaletteHeader, sectionHeader); OFF("PaletteHeader_remainingTagCount", PaletteHeader, remainingTagCount); OFF("PaletteHeader_dataHeader", PaletteHeader, dataHeader);
  OFF("Layer_bitmapIndex", Animation::Frame::Layer, bitmapIndex); OFF("Layer_unknown", Animation::Frame::Layer, unknown); OFF("Layer_frameIndex", Animation::Frame::Layer, frameIndex); OFF("Layer_pixelOffset", Animation::Frame::Layer, pixelOffset);
  { PaletteHeader h = PaletteHeader::CreatePaletteHeader(); unsigned char b[sizeof h]; std::memcpy(b, &h, sizeof h);
    outf("def prt_canonicalPaletteHeader : List Nat := ["); for (std::size_t i = 0; i < sizeof h; ++i) outf("%s%u", i ? ", " : "", b[i]); outf("]\n"); }
#ifndef LAYOUT_PUBLIC_ONLY
  { Tag t = ArtFile::TagPalette; unsigned char b[4]; std::memcpy(b, &t, 4); outf("def prt_TagPalette : List Nat := [%u, %u, %u, %u]\n", b[0], b[1], b[2], b[3]); }
#endif
  NAT("DefaultCopyChunkSize", Stream::Writer::DefaultCopyChunkSize);
#ifndef LAYOUT_PUBLIC_ONLY
  NAT("huffLZ_bufferSize", sizeof(HuffLZ::m_DecompressBuffer));
#endif
#ifndef LAYOUT_PUBLIC_ONLY
  outf("def layout_private_measured : Bool := true\n");
#else
  // the probes of private nested records did not compile against these headers: their facts keep the pinned values (extract.py)
  outf("def layout_private_measured : Bool := false\n");
#endif
  g_out += uninitFacts();
  outf("end Op2.Gen.Layout\n");
  if (!g_out.empty() && g_out.back() == '\n') g_out.pop_back();
  return g_out;
}
