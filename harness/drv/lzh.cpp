// group lzh / bits (C04): the real HuffLZ under drain schedules, the real BitStreamReader, LZH extraction through VolFile,
// next to an independent harness-side reference decoder (textbook LZSS over the unbounded history + LZHUF-style tree).
#include "drv.h"
#include "huffref.h"
#include "Archive/VolFile.h"   // brings in HuffLZ.h, AdaptiveHuffmanTree.h (neither has an include guard) and BitStreamReader.h
#include <memory>
#include <vector>
#include <cstring>
using namespace drv;
using namespace OP2Utility::Archive;
namespace drv { std::string dataArg(const std::string& s); }

namespace {
using drvref::RefTree;

// ---- independent reference decoder --------------------------------------------------------------------------------
struct RefBits {
  const std::string& d; uint64_t pos = 0;
  explicit RefBits(const std::string& s) : d(s) {}
  uint64_t size() const { return 8ull * d.size(); }
  unsigned at(uint64_t p) const { return p < size() ? (static_cast<unsigned char>(d[p >> 3]) >> (7 - (p & 7))) & 1u : 0u; }
  unsigned bit() { if (pos >= size()) return 0; return at(pos++); }
  unsigned byte() { if (pos >= size()) return 0; unsigned v = 0; for (int k = 0; k < 8; ++k) v = (v << 1) | at(pos + k); pos += 8; return v; }
  bool end() const { return pos >= size(); }
};
// returns decoded bytes; status "done" or "capacity"
std::string refDecode(const std::string& data, std::string& status, uint64_t* codes = nullptr) {
  RefTree tree(314); RefBits bits(data); std::string out;
  uint64_t dummy = 0; if (!codes) codes = &dummy; *codes = 0;
  static const unsigned char dLen[6] = {1, 2, 3, 4, 5, 6};
  for (;;) {
    unsigned node = tree.R;
    while (tree.son[node] < tree.N) node = tree.son[node] + bits.bit();
    unsigned code = tree.son[node] - tree.N;
    if (tree.freq[tree.R] == 65535u) { status = "capacity"; return out; }
    tree.update(code); ++*codes;
    if (code < 256) out.push_back(static_cast<char>(code));
    else {
      unsigned o = bits.byte(), cls, up;
      if (o < 0x20) { cls = 0; up = 0; } else if (o < 0x50) { cls = 1; up = ((o - 0x20) >> 4) + 1; }
      else if (o < 0x90) { cls = 2; up = ((o - 0x50) >> 3) + 4; } else if (o < 0xC0) { cls = 3; up = ((o - 0x90) >> 2) + 12; }
      else if (o < 0xF0) { cls = 4; up = ((o - 0xC0) >> 1) + 24; } else { cls = 5; up = o - 0xC0; }
      for (unsigned k = 0; k < dLen[cls]; ++k) o = (o << 1) | bits.bit();
      unsigned dist = ((up << 6) | (o & 0x3F)) + 1;
      for (unsigned len = code - 253; len; --len) out.push_back(dist <= out.size() ? out[out.size() - dist] : ' ');
    }
    if (bits.end()) { status = "done"; return out; }
  }
}

std::vector<std::string> splitOn(const std::string& s, char c) {
  std::vector<std::string> out; std::string cur;
  for (char ch : s) { if (ch == c) { out.push_back(cur); cur.clear(); } else cur.push_back(ch); }
  out.push_back(cur); return out;
}
}

// lzh.dec <data> <schedule> : schedule = items separated by ','; item = d<k> (GetData k) | i (GetInternalBuffer);
//   a trailing '*' on the LAST item repeats it until it delivers nothing; r<seed>* = random mix until nothing is delivered.
// prints: <ok|err@call> <bytes delivered> calls=<n> late=<0|1> ref=<done|capacity>:<1|0>
//   late=1 : a call delivered bytes after an earlier GetData came back short (the stream had not really ended)
//   ref    : how the harness reference decoder ended, and whether the delivered bytes are a prefix of (ok: equal to,
//            when drained to the end) its output
DRV_CMD(lzh_dec, "lzh.dec") {
  std::string data = dataArg(need(a, 0));
  auto items = splitOn(need(a, 1), ',');
  std::vector<char> in(data.begin(), data.end()); in.push_back(0);           // own heap block: ASan red zones around it
  HuffLZ dec(BitStreamReader(in.data(), data.size()));
  std::string out; uint64_t calls = 0; bool shortSeen = false, late = false, drained = false; std::string status = "ok";
  uint64_t rnd = 0;
  auto doData = [&](uint64_t k) -> uint64_t {
    uint64_t cap = k < (1u << 22) ? k : (1u << 22);                          // real buffer; absurd k is clipped to 4 MiB
    std::vector<char> buf(cap + 1);
    std::size_t n = dec.GetData(buf.data(), cap);
    ++calls; if (n && shortSeen) late = true; if (n < cap) shortSeen = true;
    out.append(buf.data(), n); return n;
  };
  auto doInternal = [&]() -> uint64_t {
    std::size_t n = 0; const char* p = dec.GetInternalBuffer(&n);
    ++calls; if (n && shortSeen) late = true; if (n == 0) shortSeen = true;
    out.append(p, n); return n;
  };
  try {
    for (std::size_t ix = 0; ix < items.size(); ++ix) {
      std::string it = items[ix]; bool star = false;
      if (!it.empty() && it.back() == '*') { if (ix + 1 != items.size()) throw BadOp(); star = true; it.pop_back(); }
      if (it.empty()) throw BadOp();
      if (it[0] == 'd') { uint64_t k = toU64(it.substr(1)); if (star && k == 0) throw BadOp();
        if (star) { while (doData(k)) {} drained = true; } else doData(k); }
      else if (it == "i") { if (star) { while (doInternal()) {} drained = true; } else doInternal(); }
      else if (it[0] == 'r' && star) {
        rnd = toU64(it.substr(1));
        static const uint64_t sizes[] = {1, 2, 3, 61, 62, 100, 4033, 4034, 4095, 4096, 4097, 10000};
        for (;;) {
          rnd = rnd * 6364136223846793005ull + 1442695040888963407ull;
          uint64_t pick = (rnd >> 33) % 15; uint64_t n = pick >= 12 ? doInternal() : doData(sizes[pick]);
          if (n == 0) break;
        }
        drained = true;
      } else throw BadOp();
    }
  } catch (const BadOp&) { throw; }
  catch (const std::exception&) { status = "err@" + std::to_string(calls); }
  std::string rs; std::string ref = refDecode(data, rs);
  bool prefixOk = out.size() <= ref.size() && std::memcmp(out.data(), ref.data(), out.size()) == 0;
  bool refOk = (status == "ok" && drained && rs == "done") ? (out == ref) : prefixOk;
  if (status == "ok" && drained && rs == "capacity") refOk = false;          // must have ended in an error
  return status + " " + showBytes(out) + " calls=" + std::to_string(calls) + " late=" + (late ? "1" : "0") + " ref=" + rs + ":" + (refOk ? "1" : "0");
}

// lzh.ref <data> : the reference decoder alone
DRV_CMD(lzh_ref, "lzh.ref") {
  std::string data = dataArg(need(a, 0)); std::string rs; std::string ref = refDecode(data, rs);
  return rs + " " + showBytes(ref);
}

// lzh.enc <tokens> : tokens l<byte> | m<len>:<dist> separated by ','.  The encoder is harness code, but the bit strings
// come from the REAL tree's GetEncodedBitString (root-side branch in the least significant bit).
DRV_CMD(lzh_enc, "lzh.enc") {
  AdaptiveHuffmanTree tree(314);
  std::vector<unsigned> bits;
  auto emitCode = [&](unsigned code) {
    unsigned n = 0; unsigned s = tree.GetEncodedBitString(static_cast<AdaptiveHuffmanTree::NodeData>(code), n);
    for (unsigned i = 0; i < n; ++i) { bits.push_back(s & 1); s >>= 1; }
    tree.UpdateCodeCount(static_cast<AdaptiveHuffmanTree::NodeData>(code));
  };
  auto emitBits = [&](unsigned k, unsigned v) { for (unsigned i = 0; i < k; ++i) bits.push_back((v >> (k - 1 - i)) & 1); };
  if (need(a, 0) != "-") for (auto& t : splitOn(a[0], ',')) {
    if (t.empty()) throw BadOp();
    if (t[0] == 'l') { uint64_t b = toU64(t.substr(1)); if (b > 255) throw BadOp(); emitCode(static_cast<unsigned>(b)); }
    else if (t[0] == 'm') {
      auto p = splitOn(t.substr(1), ':'); if (p.size() != 2) throw BadOp();
      uint64_t len = toU64(p[0]), dist = toU64(p[1]); if (len < 3 || len > 60 || dist < 1 || dist > 4096) throw BadOp();
      emitCode(static_cast<unsigned>(len + 253));
      unsigned off = static_cast<unsigned>(dist - 1), up = off >> 6, lo = off & 63;
      if (up == 0) emitBits(3, 0); else if (up < 4) emitBits(4, up + 1); else if (up < 12) emitBits(5, up + 6);
      else if (up < 24) emitBits(6, up + 24); else if (up < 48) emitBits(7, up + 72); else emitBits(8, up + 192);
      emitBits(6, lo);
    } else throw BadOp();
  }
  std::string out;
  for (std::size_t i = 0; i < bits.size(); i += 8) { unsigned v = 0; for (std::size_t k = 0; k < 8; ++k) v = (v << 1) | (i + k < bits.size() ? bits[i + k] : 0); out.push_back(static_cast<char>(v)); }
  return showBytes(out) + " " + hexEncode(out.substr(0, out.size() < 16 ? out.size() : 16));
}

// bits.ops <data> <ops> : ops over {b: ReadNextBit, 8: ReadNext8Bits, e: EndOfStream, p: GetBitReadPos}
DRV_CMD(bits_ops, "bits.ops") {
  std::string data = dataArg(need(a, 0)); const std::string& ops = need(a, 1);
  std::vector<char> in(data.begin(), data.end()); in.push_back(0);
  BitStreamReader r(in.data(), data.size());
  std::string out;
  for (char c : ops) {
    if (!out.empty()) out.push_back(',');
    if (c == 'b') out += r.ReadNextBit() ? "1" : "0";
    else if (c == '8') out += std::to_string(r.ReadNext8Bits());
    else if (c == 'e') out += r.EndOfStream() ? "E" : "n";
    else if (c == 'p') out += "@" + std::to_string(r.GetBitReadPos());
    else throw BadOp();
  }
  return out.empty() ? "-" : out;
}

// lzh.vol <data> : a volume with one LZH member holding <data>, extracted to disk through VolFile::ExtractFile
DRV_CMD(lzh_vol, "lzh.vol") {
  std::string data = dataArg(need(a, 0));
  auto put32 = [](std::string& s, uint32_t v) { for (int i = 0; i < 4; ++i) s.push_back(static_cast<char>((v >> (8 * i)) & 0xFF)); };
  std::string v;
  v += "VOL "; put32(v, 48u | 0x80000000u);
  v += "volh"; put32(v, 0u | 0x80000000u);
  v += "vols"; put32(v, 8u | 0x80000000u); put32(v, 2); v += std::string("a\0\0\0", 4);
  v += "voli"; put32(v, 14u | 0x80000000u);
  put32(v, 0); put32(v, 56); put32(v, 12345); v.push_back(0x03); v.push_back(0x01);   // name 0, block at 56, size (unused here), LZH = 0x103
  v += std::string(2, '\0');
  v += "VBLK"; put32(v, static_cast<uint32_t>(data.size()) | 0x80000000u);
  v += data; while (v.size() % 4) v.push_back(0);
  std::string dir = freshDir(); writeFile(dir + "/t.vol", v);
  std::string res;
  {
    VolFile vol(dir + "/t.vol");
    if (vol.GetCount() != 1 || vol.GetName(0) != "a") return "harness-error";
    try { vol.ExtractFile(0, dir + "/out.bin"); res = "ok"; } catch (const std::exception&) { res = "err"; }
  }
  std::string rs; std::string ref = refDecode(data, rs);
  if (res == "err") return std::string("err ref=") + rs;
  std::string got = readFile(dir + "/out.bin");
  return "ok " + showBytes(got) + " ref=" + rs + ":" + (got == ref ? "1" : "0");
}

// lzh.pay <data> <payload> <tokens> : <data> is the output of an independent encoder for <payload>, made of <tokens> codes.
// The real decoder (drained with GetData(4096)) must deliver the payload followed by the output of fewer than eight
// further codes. prints: <ok|err> prefix=<0|1> tail-bytes=<n> extra-codes=<n>
DRV_CMD(lzh_pay, "lzh.pay") {
  std::string data = dataArg(need(a, 0)), payload = dataArg(need(a, 1)); uint64_t tokens = toU64(need(a, 2));
  std::vector<char> in(data.begin(), data.end()); in.push_back(0);
  HuffLZ dec(BitStreamReader(in.data(), data.size()));
  std::string out; std::vector<char> buf(4096);
  try { for (;;) { std::size_t n = dec.GetData(buf.data(), buf.size()); if (!n) break; out.append(buf.data(), n); } }
  catch (const std::exception&) { return "err"; }
  bool prefix = out.size() >= payload.size() && std::memcmp(out.data(), payload.data(), payload.size()) == 0;
  std::string rs; uint64_t codes = 0; std::string ref = refDecode(data, rs, &codes);
  return std::string("ok prefix=") + (prefix ? "1" : "0") + " tail-bytes=" + std::to_string(prefix ? out.size() - payload.size() : 0)
    + " extra-codes=" + std::to_string(codes >= tokens ? codes - tokens : 999999) + " ref=" + (ref == out ? "1" : "0");
}
