// groups bmp / ts (C08, C09, C11_bmp): indexed bitmaps and tilesets through the public API of the real library
#include "drv.h"
#include "Bitmap/BitmapFile.h"
#include "Bitmap/ImageHeader.h"
#include "Sprite/TilesetLoader.h"
#include "Stream/MemoryReader.h"
#include "Stream/DynamicMemoryWriter.h"
#include <cstring>
using namespace drv;
using namespace OP2Utility;

namespace {
// long byte strings: full hex up to 65536 bytes (the oracles look at palette entries and pixel rows), else length + hash
std::string B(const void* p, std::size_t n) {
  if (n <= 65536) return hexEncode(p, n);
  return "#" + std::to_string(n) + ":" + std::to_string(fnv1a(p, n));
}
std::string B(const std::string& s) { return B(s.data(), s.size()); }

std::string dump(const BitmapFile& f) {
  const auto& b = f.bmpHeader; const auto& h = f.imageHeader;
  std::string s = hexEncode(b.fileSignature.data(), 2);
  s += "," + std::to_string(b.size) + "," + std::to_string(b.pixelOffset) + "," + std::to_string(b.reserved1) + "," + std::to_string(b.reserved2);
  s += "|" + std::to_string(h.headerSize) + "," + std::to_string(h.width) + "," + std::to_string(h.height) + "," + std::to_string(h.planes)
     + "," + std::to_string(h.bitCount) + "," + std::to_string(static_cast<uint32_t>(h.compression)) + "," + std::to_string(h.imageSize)
     + "," + std::to_string(h.xResolution) + "," + std::to_string(h.yResolution) + "," + std::to_string(h.usedColorMapEntries)
     + "," + std::to_string(h.importantColorCount);
  s += "|" + std::to_string(f.palette.size()) + ":" + B(f.palette.data(), f.palette.size() * sizeof(Color));
  s += "|" + std::to_string(f.pixels.size()) + ":" + B(f.pixels.data(), f.pixels.size());
  return s;
}
std::string writerBytes(Stream::DynamicMemoryWriter& w) {
  auto rd = w.GetReader();
  std::string all(static_cast<std::size_t>(rd.Length()), '\0');
  if (!all.empty()) rd.Read(&all[0], all.size());
  return all;
}
BitmapFile readBmp(const std::string& bytes) {
  Stream::MemoryReader r(bytes.data(), bytes.size());
  return BitmapFile::ReadIndexed(r);
}
BitmapFile readTs(const std::string& bytes) {
  Stream::MemoryReader r(bytes.data(), bytes.size());
  return Tileset::ReadTileset(r);
}
// each follow-up operation is tried on its own: an ordinary exception is the outcome "err" of that operation
template <typename F> std::string attempt(F f) {
  try { return f(); }
  catch (const std::bad_alloc&) { return "err:alloc"; }
  catch (const std::length_error&) { return "err:alloc"; }
  catch (const std::exception&) { return "err"; }
}
std::string writeIndexed(const BitmapFile& f) {
  return attempt([&] { Stream::DynamicMemoryWriter w; f.WriteIndexed(w); return B(writerBytes(w)); });
}
std::string writeIndexedRaw(const BitmapFile& f) { Stream::DynamicMemoryWriter w; f.WriteIndexed(w); return writerBytes(w); }
std::string writeCustom(const BitmapFile& f) {
  return attempt([&] { Stream::DynamicMemoryWriter w; Tileset::WriteCustomTileset(w, f); return B(writerBytes(w)); });
}
std::vector<Color> colorsOf(const std::string& bytes) {
  if (bytes.size() % 4) throw BadOp();
  std::vector<Color> out(bytes.size() / 4);
  if (!bytes.empty()) std::memcpy(out.data(), bytes.data(), bytes.size());
  return out;
}
// every public operation of a bitmap object, each on its own copy where it mutates
std::string battery(const BitmapFile& f) {
  std::string s = dump(f);
  s += " v=" + attempt([&] { f.Validate(); return std::string("ok"); });
  s += " pv=" + attempt([&] { f.VerifyIndexedPaletteSizeDoesNotExceedBitCount(); return std::string("ok"); });
  s += " xv=" + attempt([&] { f.VerifyPixelSizeMatchesImageDimensionsWithPitch(); return std::string("ok"); });
  s += " W=" + writeIndexed(f);
  s += " F=" + attempt([&] {
    std::string path = freshDir() + "/out.bmp";
    f.WriteIndexed(path);
    return B(readFile(path)); });
  s += " abs=" + attempt([&] { return std::to_string(f.AbsoluteHeight()); });
  s += std::string(" or=") + (f.GetScanLineOrientation() == ScanLineOrientation::TopDown ? "T" : "B");
  s += " I=" + attempt([&] { BitmapFile g = f; g.InvertScanLines(); return dump(g); });
  s += " S=" + attempt([&] { BitmapFile g = f; g.SwapRedAndBlue(); return B(g.palette.data(), g.palette.size() * sizeof(Color)); });
  s += " vt=" + attempt([&] { Tileset::ValidateTileset(f); return std::string("ok"); });
  s += " C=" + writeCustom(f);
  return s;
}
template <typename R> std::string prefixes(const std::string& bytes, R read) {
  std::string acc;
  for (std::size_t k = 0; k < bytes.size(); ++k) {
    std::string p = bytes.substr(0, k);
    bool ok = false;
    try { read(p); ok = true; } catch (const std::exception&) {}
    if (ok) { if (!acc.empty()) acc += ","; acc += std::to_string(k); }
  }
  return "n=" + std::to_string(bytes.size()) + " acc=" + (acc.empty() ? "-" : acc);
}
}

// bmp.read <hex> : ReadIndexed; field dump; outcome of the library's own Validate()
DRV_CMD(bmp_read, "bmp.read") {
  BitmapFile f = readBmp(hexDecode(need(a, 0)));
  return dump(f) + " v=" + attempt([&] { f.Validate(); return std::string("ok"); });
}
// bmp.rt <hex> : read (+ the library's own Validate), write, read again
DRV_CMD(bmp_rt, "bmp.rt") {
  BitmapFile f = readBmp(hexDecode(need(a, 0)));
  std::string s = dump(f) + " v=" + attempt([&] { f.Validate(); return std::string("ok"); }), w;
  try { w = writeIndexedRaw(f); } catch (const std::exception&) { return s + " W=err"; }
  s += " W=" + B(w);
  s += " R=" + attempt([&] { return dump(readBmp(w)); });
  return s;
}
// bmp.create <variant 1|2|3> <bits> <width:u32> <height:i32> <palette hex> <pixels hex>
DRV_CMD(bmp_create, "bmp.create") {
  uint64_t variant = toU64(need(a, 0));
  uint16_t bits = static_cast<uint16_t>(toU64(need(a, 1)));
  uint32_t w = static_cast<uint32_t>(toU64(need(a, 2)));
  int32_t h = static_cast<int32_t>(toI64(need(a, 3)));
  std::string pal = hexDecode(need(a, 4)), pix = hexDecode(need(a, 5));
  BitmapFile f;
  if (variant == 1) f = BitmapFile::CreateIndexed(bits, w, h);
  else if (variant == 2) f = BitmapFile::CreateIndexed(bits, w, h, colorsOf(pal));
  else if (variant == 3) f = BitmapFile::CreateIndexed(bits, w, h, colorsOf(pal), std::vector<uint8_t>(pix.begin(), pix.end()));
  else throw BadOp();
  std::string s = dump(f) + " v=" + attempt([&] { f.Validate(); return std::string("ok"); }), wr;
  try { wr = writeIndexedRaw(f); } catch (const std::exception&) { return s + " W=err"; }
  s += " W=" + B(wr);
  try { BitmapFile g = readBmp(wr); s += " R=" + dump(g) + " eq=" + (g == f ? "1" : "0"); }
  catch (const std::exception&) { s += " R=err eq=0"; }
  return s;
}
// bmp.invert <hex> : read; InvertScanLines once and twice
DRV_CMD(bmp_invert, "bmp.invert") {
  BitmapFile f = readBmp(hexDecode(need(a, 0)));
  std::string s = dump(f);
  BitmapFile g = f; g.InvertScanLines(); s += " I=" + dump(g);
  g.InvertScanLines(); s += " II=" + dump(g) + " eq=" + (g == f ? "1" : "0");
  return s;
}
// bmp.use <hex> : ReadIndexed, then every public operation on the returned object
DRV_CMD(bmp_use, "bmp.use") { return battery(readBmp(hexDecode(need(a, 0)))); }
// bmp.prefixes <hex> : ReadIndexed on every proper prefix; which lengths are accepted
DRV_CMD(bmp_prefixes, "bmp.prefixes") { return prefixes(hexDecode(need(a, 0)), [](const std::string& p) { readBmp(p); }); }
// bmp.pitch <bits> <width:i32> : the two public row-size formulas
DRV_CMD(bmp_pitch, "bmp.pitch") {
  uint16_t bits = static_cast<uint16_t>(toU64(need(a, 0))); int32_t w = static_cast<int32_t>(toI64(need(a, 1)));
  return std::to_string(ImageHeader::CalcPixelByteWidth(bits, w)) + " " + std::to_string(ImageHeader::CalculatePitch(bits, w));
}
// bmp.pitchgen: same observable; the model side prints the formulas translated from the source (Gen/Formulas.lean)
DRV_CMD(bmp_pitchgen, "bmp.pitchgen") {
  uint16_t bits = static_cast<uint16_t>(toU64(need(a, 0))); int32_t w = static_cast<int32_t>(toI64(need(a, 1)));
  return std::to_string(ImageHeader::CalcPixelByteWidth(bits, w)) + " " + std::to_string(ImageHeader::CalculatePitch(bits, w));
}
// bmp.pitchsweep <bits> <w0> <w1> : hash over all widths w0 <= w < w1
DRV_CMD(bmp_pitchsweep, "bmp.pitchsweep") {
  uint16_t bits = static_cast<uint16_t>(toU64(need(a, 0))); int64_t w0 = toI64(need(a, 1)), w1 = toI64(need(a, 2));
  uint64_t h = 14695981039346656037ull; uint64_t bad = 0;
  auto add = [&](uint64_t v) { for (int i = 0; i < 8; ++i) { h ^= (v >> (8 * i)) & 0xFF; h *= 1099511628211ull; } };
  for (int64_t w = w0; w < w1; ++w) {
    uint64_t p = ImageHeader::CalculatePitch(bits, static_cast<int32_t>(w)), q = ImageHeader::CalcPixelByteWidth(bits, static_cast<int32_t>(w));
    add(q); add(p);
    // the pitch law, evaluated where it is stated (non-negative widths): smallest multiple of four holding width*bits bits
    if (w >= 0) { uint64_t need_ = (static_cast<uint64_t>(w) * bits + 7) / 8; if (p % 4 != 0 || p < need_ || p >= need_ + 4 || q != need_) ++bad; }
  }
  return std::to_string(h) + " bad=" + std::to_string(bad);
}

// ts.peek <hex> <pos> : PeekIsCustomTileset at a stream position; the position afterwards
DRV_CMD(ts_peek, "ts.peek") {
  std::string bytes = hexDecode(need(a, 0)); uint64_t pos = toU64(need(a, 1));
  Stream::MemoryReader r(bytes.data(), bytes.size());
  r.Seek(pos);
  std::string res;
  try { res = Tileset::PeekIsCustomTileset(r) ? "1" : "0"; } catch (const std::exception&) { res = "err"; }
  return res + " " + std::to_string(r.Position());
}
// ts.load <hex> : the format-detecting loader
DRV_CMD(ts_load, "ts.load") { return dump(readTs(hexDecode(need(a, 0)))); }
// ts.save <bmp hex> : picture obtained with ReadIndexed; saved in both formats; both loaded through ReadTileset
DRV_CMD(ts_save, "ts.save") {
  BitmapFile p = readBmp(hexDecode(need(a, 0)));
  std::string s = dump(p);
  std::string c, wb;
  bool cok = true, bok = true;
  try { Stream::DynamicMemoryWriter w; Tileset::WriteCustomTileset(w, p); c = writerBytes(w); } catch (const std::exception&) { cok = false; }
  s += " C=" + (cok ? B(c) : std::string("err"));
  s += " LC=" + (cok ? attempt([&] { return dump(readTs(c)); }) : std::string("none"));
  try { wb = writeIndexedRaw(p); } catch (const std::exception&) { bok = false; }
  s += " Wb=" + (bok ? B(wb) : std::string("err"));
  s += " LB=" + (bok ? attempt([&] { return dump(readTs(wb)); }) : std::string("none"));
  return s;
}
// ts.specenc <bmp hex> : bytes of WriteCustomTileset for the picture (the model side prints the frozen format description)
DRV_CMD(ts_specenc, "ts.specenc") {
  BitmapFile p = readBmp(hexDecode(need(a, 0)));
  Stream::DynamicMemoryWriter w; Tileset::WriteCustomTileset(w, p);
  return B(writerBytes(w));
}
// ts.use <hex> : ReadTileset, then every public operation on the returned object
DRV_CMD(ts_use, "ts.use") { return battery(readTs(hexDecode(need(a, 0)))); }
DRV_CMD(ts_prefixes, "ts.prefixes") { return prefixes(hexDecode(need(a, 0)), [](const std::string& p) { readTs(p); }); }
