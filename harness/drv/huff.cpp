// group huff (C15): update histories on the real AdaptiveHuffmanTree, observed through its public interface only
// (root / child / isLeaf / data / encoded bit string), next to an independent LZHUF-style reference kept in the harness.
#include "drv.h"
#include "Archive/AdaptiveHuffmanTree.h"
#include "huffref.h"
#include <memory>
#include <vector>
#include <cstring>
using namespace drv;
using namespace OP2Utility::Archive;

namespace {
using drvref::Hash; using drvref::RefTree;
struct Digest { uint64_t codes = 0, shape = 0; unsigned mismatch = 0, visited = 0, leaves = 0; bool refEqual = true; };

// preorder walk of the real tree through its public interface; `budget` guards against a cyclic (broken) tree
void walkReal(AdaptiveHuffmanTree& t, unsigned node, unsigned depth, Hash& h, unsigned& visited, unsigned& leaves, unsigned& budget) {
  if (budget == 0) return;
  --budget; ++visited;
  if (t.IsLeaf(static_cast<AdaptiveHuffmanTree::NodeIndex>(node))) {
    ++leaves; h.add(1); h.add(t.GetNodeData(static_cast<AdaptiveHuffmanTree::NodeIndex>(node))); h.add(depth); return;
  }
  h.add(0); h.add(0); h.add(depth);
  walkReal(t, t.GetChildNode(static_cast<AdaptiveHuffmanTree::NodeIndex>(node), false), depth + 1, h, visited, leaves, budget);
  walkReal(t, t.GetChildNode(static_cast<AdaptiveHuffmanTree::NodeIndex>(node), true), depth + 1, h, visited, leaves, budget);
}

Digest digest(AdaptiveHuffmanTree& t, const RefTree& ref) {
  Digest d; unsigned T = t.TerminalNodeCount();
  Hash hc;
  for (unsigned c = 0; c < T; ++c) {
    unsigned bits = 0; unsigned str = t.GetEncodedBitString(static_cast<AdaptiveHuffmanTree::NodeData>(c), bits);
    hc.add(bits); hc.add(str);
    // decoder walk: the branch next to the root is the least significant bit
    unsigned node = t.GetRootNodeIndex(); unsigned s = str; bool bad = false;
    for (unsigned i = 0; i < bits; ++i) {
      if (t.IsLeaf(static_cast<AdaptiveHuffmanTree::NodeIndex>(node))) { bad = true; break; }
      node = t.GetChildNode(static_cast<AdaptiveHuffmanTree::NodeIndex>(node), (s & 1) != 0); s >>= 1;
    }
    if (bad || !t.IsLeaf(static_cast<AdaptiveHuffmanTree::NodeIndex>(node)) || t.GetNodeData(static_cast<AdaptiveHuffmanTree::NodeIndex>(node)) != c) ++d.mismatch;
  }
  d.codes = hc.h;
  Hash hs; unsigned budget = 4 * (2 * T - 1) + 8;
  walkReal(t, t.GetRootNodeIndex(), 0, hs, d.visited, d.leaves, budget);
  d.shape = hs.h;
  Hash hr; unsigned rv = 0, rl = 0; ref.shape(ref.R, 0, hr, rv, rl);
  d.refEqual = (hr.h == hs.h);
  return d;
}

struct Run {
  Hash all; unsigned mismatch = 0, refDiff = 0, badShape = 0; uint64_t digests = 0;
  void take(const Digest& d, unsigned T) {
    all.add(d.codes); all.add(d.shape); ++digests;
    mismatch += d.mismatch; if (!d.refEqual) ++refDiff;
    if (d.visited != 2 * T - 1 || d.leaves != T) ++badShape;
  }
  std::string str() const {
    return std::to_string(all.h) + " digests=" + std::to_string(digests) + " decode-mismatch=" + std::to_string(mismatch)
      + " ref-diff=" + std::to_string(refDiff) + " bad-shape=" + std::to_string(badShape);
  }
};

// applies one update to both trees; returns false when the real tree refused (reference is then not advanced)
bool step(AdaptiveHuffmanTree& t, RefTree& ref, unsigned code) {
  try { t.UpdateCodeCount(static_cast<AdaptiveHuffmanTree::NodeData>(code)); }
  catch (const std::exception&) { return false; }
  ref.update(code);
  return true;
}

std::vector<unsigned> parseCodes(const std::string& s) {
  std::vector<unsigned> out; if (s == "-") return out;
  std::string cur;
  for (char ch : s + ",") { if (ch == ',') { out.push_back(static_cast<unsigned>(toU64(cur))); cur.clear(); } else cur.push_back(ch); }
  return out;
}

unsigned genCode(const std::string& kind, unsigned T, uint64_t i, uint64_t& state) {
  if (kind == "single") return static_cast<unsigned>(state % T);
  if (kind == "roundrobin") return static_cast<unsigned>((i + state) % T);
  if (kind == "sawtooth") { uint64_t p = i % (2 * T); return static_cast<unsigned>(p < T ? p : 2 * T - 1 - p); }
  if (kind == "skew") { state = state * 6364136223846793005ull + 1442695040888963407ull; uint64_t r = (state >> 33) % 1000; return static_cast<unsigned>(r < 900 ? (r % 3) % T : (state >> 43) % T); }
  if (kind == "dom") {
    // one symbol far ahead of all the others (count differences beyond 2^15), then pseudo-random symbols
    if (i < 40000) return static_cast<unsigned>(state % T);
    uint64_t x = (i * 6364136223846793005ull + state * 1442695040888963407ull + 12345) ;
    return static_cast<unsigned>((x >> 33) % T);
  }
  if (kind == "fib") {
    // Fibonacci-like weights 200, 304, 504, 808, ... on symbols 0, 1, 2, ... (the deepest tree a history within capacity can build)
    uint64_t a = 200, b = 304, lo = 0; unsigned sym = 0;
    for (;;) { if (i < lo + a) return (sym + static_cast<unsigned>(state)) % T; lo += a; uint64_t c = a + b; a = b; b = c; ++sym; }
  }
  if (kind == "rand") { state = state * 6364136223846793005ull + 1442695040888963407ull; return static_cast<unsigned>((state >> 33) % T); }
  throw BadOp();
}
}

// huff.hist <T> <c1,c2,...|-> : digest after every update; a refused update ends the history
DRV_CMD(huff_hist, "huff.hist") {
  unsigned T = static_cast<unsigned>(toU64(need(a, 0)));
  if (T < 2 || T > 20000) throw BadOp();
  auto codes = parseCodes(need(a, 1));
  AdaptiveHuffmanTree t(static_cast<AdaptiveHuffmanTree::NodeType>(T)); RefTree ref(T);
  Run run; run.take(digest(t, ref), T);
  std::size_t k = 0;
  for (; k < codes.size(); ++k) {
    Digest before = digest(t, ref);
    if (!step(t, ref, codes[k])) {
      Digest after = digest(t, ref);
      bool same = before.codes == after.codes && before.shape == after.shape;
      return "refused@" + std::to_string(k) + " unchanged=" + (same ? "1" : "0") + " " + run.str();
    }
    run.take(digest(t, ref), T);
  }
  return "ok " + run.str();
}

// huff.gen <T> <kind> <len> <seed> <every> : long generated history; digest every `every` updates and at the end;
// reports the index of the first refused update (capacity) and that the refusal left the tree unchanged
DRV_CMD(huff_gen, "huff.gen") {
  unsigned T = static_cast<unsigned>(toU64(need(a, 0))); const std::string& kind = need(a, 1);
  uint64_t len = toU64(need(a, 2)), seed = toU64(need(a, 3)), every = toU64(need(a, 4));
  if (T < 2 || T > 20000 || every == 0) throw BadOp();
  AdaptiveHuffmanTree t(static_cast<AdaptiveHuffmanTree::NodeType>(T)); RefTree ref(T);
  // optional 6th argument k: k updates with out-of-range symbols first; each must be refused and must cost nothing
  // (the capacity of the tree is 65535 - T accepted updates whatever was refused before)
  if (a.size() > 5) {
    uint64_t k = toU64(a[5]);
    for (uint64_t j = 0; j < k; ++j) {
      uint64_t bad = T + (j * 37) % 1000; if (bad > 65535) bad = 65535;
      try { t.UpdateCodeCount(static_cast<AdaptiveHuffmanTree::NodeType>(bad)); return "bad-accepted@" + std::to_string(j); }
      catch (const std::exception&) {}
    }
  }
  Run run; uint64_t state = seed;
  for (uint64_t i = 0; i < len; ++i) {
    unsigned code = genCode(kind, T, i, state);
    bool near = (i + T + 4 >= 65535);          // around the capacity limit check every step
    Digest before; if (near) before = digest(t, ref);
    if (!step(t, ref, code)) {
      Digest after = digest(t, ref);
      if (!near) before = after;
      bool same = before.codes == after.codes && before.shape == after.shape;
      run.take(after, T);
      return "refused@" + std::to_string(i) + " unchanged=" + (same ? "1" : "0") + " " + run.str();
    }
    if ((i + 1) % every == 0 || near) run.take(digest(t, ref), T);
  }
  run.take(digest(t, ref), T);
  return "ok " + run.str();
}

namespace {
void enumRec(AdaptiveHuffmanTree& t, RefTree& ref, unsigned T, unsigned depth, Run& run) {
  if (depth == 0) return;
  for (unsigned c = 0; c < T; ++c) {
    AdaptiveHuffmanTree t2 = t; RefTree r2 = ref;
    if (!step(t2, r2, c)) { ++run.badShape; continue; }
    run.take(digest(t2, r2), T);
    enumRec(t2, r2, T, depth - 1, run);
  }
}
}
// huff.enum <T> <depth> [<prefix codes>] : ALL update sequences of length <= depth (after the prefix), digest after every update
DRV_CMD(huff_enum, "huff.enum") {
  unsigned T = static_cast<unsigned>(toU64(need(a, 0))), depth = static_cast<unsigned>(toU64(need(a, 1)));
  if (T < 2 || T > 64 || depth > 12) throw BadOp();
  AdaptiveHuffmanTree t(static_cast<AdaptiveHuffmanTree::NodeType>(T)); RefTree ref(T);
  if (a.size() > 2) for (unsigned c : parseCodes(a[2])) if (!step(t, ref, c)) return "refused-in-prefix";
  Run run; run.take(digest(t, ref), T);
  enumRec(t, ref, T, depth, run);
  return "ok " + run.str();
}

// huff.bad <T> <prefix codes|-> <op> <arg> : an out-of-range symbol or node must be refused and leave the tree unchanged
//   op: update | encode | child0 | child1 | isleaf | data
DRV_CMD(huff_bad, "huff.bad") {
  unsigned T = static_cast<unsigned>(toU64(need(a, 0)));
  if (T < 2 || T > 20000) throw BadOp();
  AdaptiveHuffmanTree t(static_cast<AdaptiveHuffmanTree::NodeType>(T)); RefTree ref(T);
  for (unsigned c : parseCodes(need(a, 1))) if (!step(t, ref, c)) return "refused-in-prefix";
  const std::string& op = need(a, 2); uint64_t arg64 = toU64(need(a, 3));
  if (arg64 > 65535) throw BadOp();
  auto arg = static_cast<AdaptiveHuffmanTree::NodeType>(arg64);
  Digest before = digest(t, ref);
  std::string r;
  try {
    if (op == "update") { t.UpdateCodeCount(arg); r = "ok"; }
    else if (op == "encode") { unsigned bits = 0; unsigned s = t.GetEncodedBitString(arg, bits); r = "ok:" + std::to_string(bits) + ":" + std::to_string(s); }
    else if (op == "child0") r = "ok:" + std::to_string(t.GetChildNode(arg, false));
    else if (op == "child1") r = "ok:" + std::to_string(t.GetChildNode(arg, true));
    else if (op == "isleaf") r = std::string("ok:") + (t.IsLeaf(arg) ? "1" : "0");
    else if (op == "data") r = "ok:" + std::to_string(t.GetNodeData(arg));
    else throw BadOp();
  } catch (const BadOp&) { throw; }
  catch (const std::exception&) { r = "err"; }
  if (op == "update" && r == "ok") ref.update(arg);
  Digest after = digest(t, ref);
  bool same = before.codes == after.codes && before.shape == after.shape;
  return r + " unchanged=" + (same ? "1" : "0") + " decode-mismatch=" + std::to_string(after.mismatch) + " ref-diff=" + (after.refEqual ? "0" : "1");
}

// huff.snapcheck: a self-check of the *model driver* (array freezing = unfrozen function-level run); nothing to do on
// this side, the answer the model must give is "1"
DRV_CMD(huff_snapcheck, "huff.snapcheck") { (void)a; return "1"; }
