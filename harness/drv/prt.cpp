// group prt (C10, C11_prt, C20_prt, D21/C18): PRT sprite metadata (ArtFile) and sprite extraction (SpriteLoader)
// through the public API of the real library only.  The library has no operator== for ArtFile: equality is equality of
// the full structural dump below (fixed field order, every public field, containers with their lengths).
#include "drv.h"
#include "Stream/MemoryWriter.h"
#include "Sprite/ArtFile.h"
#include "Sprite/SpriteLoader.h"
#include "Bitmap/Color.h"
#include "Stream/MemoryReader.h"
#include "Stream/DynamicMemoryWriter.h"
#include <cstring>
#include <memory>
#include <new>
using namespace drv;
using namespace OP2Utility;

namespace {
std::string u(uint64_t v) { return std::to_string(v); }

uint16_t typeWord(const ImageMeta& m) { uint16_t w; std::memcpy(&w, &m.type, 2); return w; }

// canonical text of an ArtFile (every public field; signed fields as their unsigned words)
std::string dumpText(const ArtFile& a) {
  std::string s = "pal:" + u(a.palettes.size());
  for (const auto& p : a.palettes) {
    std::string mem; mem.reserve(1024);
    for (const Color& c : p) { mem.push_back(static_cast<char>(c.red)); mem.push_back(static_cast<char>(c.green)); mem.push_back(static_cast<char>(c.blue)); mem.push_back(static_cast<char>(c.alpha)); }
    s += "," + u(fnv1a(mem.data(), mem.size()));
  }
  s += " img:" + u(a.imageMetas.size());
  for (const auto& m : a.imageMetas)
    s += "," + u(m.scanLineByteWidth) + "/" + u(m.pixelDataOffset) + "/" + u(m.height) + "/" + u(m.width) + "/" + u(typeWord(m)) + "/" + u(m.paletteIndex);
  s += " anim:" + u(a.animations.size());
  for (const auto& an : a.animations) {
    s += ",{" + u(an.unknown) + "/" + u(static_cast<uint32_t>(an.selectionRect.x1)) + "/" + u(static_cast<uint32_t>(an.selectionRect.y1)) + "/"
      + u(static_cast<uint32_t>(an.selectionRect.x2)) + "/" + u(static_cast<uint32_t>(an.selectionRect.y2)) + "/"
      + u(static_cast<uint32_t>(an.pixelDisplacement.x)) + "/" + u(static_cast<uint32_t>(an.pixelDisplacement.y)) + "/" + u(an.unknown2);
    s += ";fr:" + u(an.frames.size());
    for (const auto& f : an.frames) {
      s += ",<" + u(f.layerMetadata.count) + "/" + u(f.layerMetadata.bReadOptionalData) + "/" + u(f.unknownBitfield.count) + "/" + u(f.unknownBitfield.bReadOptionalData)
        + "/" + u(f.optional1) + "/" + u(f.optional2) + "/" + u(f.optional3) + "/" + u(f.optional4) + ":" + u(f.layers.size());
      for (const auto& l : f.layers)
        s += "," + u(l.bitmapIndex) + "/" + u(l.unknown) + "/" + u(l.frameIndex) + "/" + u(static_cast<uint16_t>(l.pixelOffset.x)) + "/" + u(static_cast<uint16_t>(l.pixelOffset.y));
      s += ">";
    }
    s += ";uc:" + u(an.unknownContainer.size());
    for (const auto& c : an.unknownContainer) s += "," + u(c.unknown1) + "/" + u(c.unknown2) + "/" + u(c.unknown3) + "/" + u(c.unknown4);
    s += "}";
  }
  s += " unk:" + u(a.unknownAnimationCount);
  return s;
}
std::string showText(const std::string& t) {
  if (t.size() <= 600) return t;
  return "#" + u(t.size()) + ":" + u(fnv1a(t.data(), t.size()));
}

struct Loaded { ArtFile art; uint64_t consumed; };
Loaded load(const std::string& bytes) {
  Stream::MemoryReader r(bytes.data(), bytes.size());
  Loaded l{ArtFile::Read(r), 0};
  l.consumed = r.Position();
  return l;
}
std::string writeBytes(const ArtFile& a) {
  Stream::DynamicMemoryWriter w; a.Write(w);
  auto rd = w.GetReader();
  std::string all(static_cast<std::size_t>(rd.Length()), '\0');
  if (!all.empty()) rd.Read(&all[0], all.size());
  return all;
}
uint32_t le32(const std::string& b, std::size_t off) {
  uint32_t v = 0; for (int i = 3; i >= 0; --i) v = (v << 8) | static_cast<unsigned char>(b.at(off + static_cast<std::size_t>(i))); return v;
}
std::vector<std::string> splitOn(const std::string& s, char c) {
  std::vector<std::string> out; std::string cur;
  for (char ch : s) { if (ch == c) { out.push_back(cur); cur.clear(); } else cur.push_back(ch); }
  out.push_back(cur); return out;
}

// in-memory edits of a loaded ArtFile (to build structures the reader would never return)
void applyOps(ArtFile& a, const std::string& ops) {
  if (ops == "-") return;
  for (const auto& op : splitOn(ops, ',')) {
    auto p = splitOn(op, ':');
    auto nat = [&](std::size_t i) { if (i >= p.size()) throw BadOp(); return toU64(p[i]); };
    auto img = [&]() -> ImageMeta& { uint64_t i = nat(1); if (i >= a.imageMetas.size()) throw BadOp(); return a.imageMetas[i]; };
    auto frm = [&]() -> Animation::Frame& {
      uint64_t i = nat(1), j = nat(2);
      if (i >= a.animations.size() || j >= a.animations[i].frames.size()) throw BadOp();
      return a.animations[i].frames[j]; };
    const std::string& k = p[0];
    if (k == "pi") img().paletteIndex = static_cast<uint16_t>(nat(2));
    else if (k == "sl") img().scanLineByteWidth = static_cast<uint32_t>(nat(2));
    else if (k == "w") img().width = static_cast<uint32_t>(nat(2));
    else if (k == "cnt") frm().layerMetadata.count = static_cast<uint8_t>(nat(3) & 127);
    else if (k == "lay") frm().layers.resize(nat(3), Animation::Frame::Layer{0, 0, 0, {0, 0}});
    else if (k == "pp") { if (a.palettes.empty()) throw BadOp(); a.palettes.pop_back(); }
    else if (k == "unk") a.unknownAnimationCount = static_cast<uint32_t>(nat(1));
    else throw BadOp();
  }
}
}

// prt.read <hex> : err | ok <bytes consumed> <dump>
DRV_CMD(prt_read, "prt.read") {
  auto l = load(hexDecode(need(a, 0)));
  return "ok " + u(l.consumed) + " " + showText(dumpText(l.art));
}

// prt.rules <hex> : err | ok <consumed> <paletteIndexOk> <scanLineOk> <layerCountsOk> <headerTotalsOk>
// the rules are evaluated here, on the returned object and the raw input, not by the library
DRV_CMD(prt_rules, "prt.rules") {
  std::string bytes = hexDecode(need(a, 0));
  auto l = load(bytes);
  const ArtFile& f = l.art;
  bool pidx = true, scan = true, lc = true, tot = true;
  for (const auto& m : f.imageMetas) {
    if (!(m.paletteIndex < f.palettes.size())) pidx = false;
    if (static_cast<uint64_t>(m.scanLineByteWidth) != (static_cast<uint64_t>(m.width) + 3) / 4 * 4) scan = false;
  }
  uint64_t frames = 0, layers = 0;
  for (const auto& an : f.animations) {
    frames += an.frames.size();
    for (const auto& fr : an.frames) { layers += fr.layers.size(); if (fr.layerMetadata.count != fr.layers.size()) lc = false; }
  }
  uint64_t off = 8 + 1052 * static_cast<uint64_t>(f.palettes.size()) + 4 + 20 * static_cast<uint64_t>(f.imageMetas.size());
  if (off + 16 > l.consumed) tot = false;
  else tot = le32(bytes, off) == f.animations.size() && le32(bytes, off + 4) == frames && le32(bytes, off + 8) == layers
    && le32(bytes, off + 12) == f.unknownAnimationCount && le32(bytes, 4) == f.palettes.size()
    && le32(bytes, 8 + 1052 * f.palettes.size()) == f.imageMetas.size();
  return "ok " + u(l.consumed) + " " + u(pidx) + " " + u(scan) + " " + u(lc) + " " + u(tot);
}

// prt.rt <hex> : err | ok <equal structure after write->read> <second write identical> <source unchanged> <written = input prefix> <bytes>
DRV_CMD(prt_rt, "prt.rt") {
  std::string bytes = hexDecode(need(a, 0));
  auto l = load(bytes);
  std::string d0 = dumpText(l.art);
  std::string w1;
  try { w1 = writeBytes(l.art); } catch (const std::exception&) { return "ok write-refused"; }
  std::string d1 = dumpText(l.art);
  std::string d2, w2;
  try { auto l2 = load(w1); d2 = dumpText(l2.art); w2 = writeBytes(l2.art); if (l2.consumed != w1.size()) d2 += " trailing"; }
  catch (const std::exception&) { return "ok reread-refused"; }
  bool isPrefix = w1.size() == l.consumed && bytes.compare(0, w1.size(), w1) == 0;
  return "ok " + u(d2 == d0) + " " + u(w2 == w1) + " " + u(d1 == d0) + " " + u(isPrefix) + " " + showBytes(w1);
}

// prt.wr <hex> <ops> : err-load | (ok|err) <source unchanged by Write> <bytes or ->
DRV_CMD(prt_wr, "prt.wr") {
  Loaded l = [&] { try { return load(hexDecode(need(a, 0))); } catch (const BadOp&) { throw; } catch (const std::exception&) { throw std::runtime_error("load"); } }();
  applyOps(l.art, need(a, 1));
  std::string d0 = dumpText(l.art), w; bool ok = true;
  try { w = writeBytes(l.art); } catch (const std::exception&) { ok = false; }
  std::string d1 = dumpText(l.art);
  return std::string(ok ? "ok " : "refused ") + u(d0 == d1) + " " + (ok ? showBytes(w) : std::string("-"));
}

// prt.wrfail <hex> <capacity> : Write into a fixed buffer of <capacity> bytes (fails when the file does not fit), then
//   report whether the object is unchanged and what a second, unrestricted Write produces
//   -> err-load | (ok|failed) <object unchanged 0|1> <bytes of the following full write>
DRV_CMD(prt_wrfail, "prt.wrfail") {
  Loaded l = [&] { try { return load(hexDecode(need(a, 0))); } catch (const BadOp&) { throw; } catch (const std::exception&) { throw std::runtime_error("load"); } }();
  uint64_t cap = toU64(need(a, 1)); if (cap > (1u << 24)) throw BadOp();
  std::string d0 = dumpText(l.art); bool ok = true;
  { std::vector<char> buf(cap + 1); Stream::MemoryWriter w(buf.data(), cap);
    try { l.art.Write(w); } catch (const std::exception&) { ok = false; } }
  std::string d1 = dumpText(l.art), again;
  try { again = showBytes(writeBytes(l.art)); } catch (const std::exception&) { again = "refused"; }
  return std::string(ok ? "ok " : "failed ") + u(d0 == d1) + " " + again;
}

namespace {
ArtFile oneFrameFile(uint64_t L, uint64_t c, uint64_t f1, uint64_t f2) {
  ArtFile art; art.unknownAnimationCount = 0;
  Animation an{}; an.unknown = 1; an.selectionRect = Rect{2, 3, 4, 5}; an.pixelDisplacement = Point32{6, 7}; an.unknown2 = 8;
  Animation::Frame fr{}; fr.layerMetadata.count = static_cast<uint8_t>(c & 127); fr.layerMetadata.bReadOptionalData = f1 & 1;
  fr.unknownBitfield.count = 5; fr.unknownBitfield.bReadOptionalData = f2 & 1;
  fr.optional1 = 11; fr.optional2 = 12; fr.optional3 = 13; fr.optional4 = 14;
  for (uint64_t i = 0; i < L; ++i) fr.layers.push_back(Animation::Frame::Layer{static_cast<uint16_t>(i + 1), 0, static_cast<uint8_t>(i), {static_cast<int16_t>(i), static_cast<int16_t>(-static_cast<int>(i))}});
  an.frames.push_back(fr); art.animations.push_back(an);
  return art;
}
}
// prt.lc <layers> <count> <flag1> <flag2> : refused | ok <bytes>      (one animation, one frame)
DRV_CMD(prt_lc, "prt.lc") {
  ArtFile art = oneFrameFile(toU64(need(a, 0)), toU64(need(a, 1)), toU64(need(a, 2)), toU64(need(a, 3)));
  std::string w;
  try { w = writeBytes(art); } catch (const std::exception&) { return "refused"; }
  return "ok " + showBytes(w);
}
// prt.lcsweep <maxLayers> : every list length 0..maxLayers against every 7-bit count, all four flag combinations of the first frame
//   -> <wrongly accepted> <wrongly refused> <refused> <written> <hash of all written outputs>
DRV_CMD(prt_lcsweep, "prt.lcsweep") {
  uint64_t maxL = toU64(need(a, 0)); if (maxL > 400) throw BadOp();
  uint64_t badAcc = 0, badRef = 0, refused = 0, written = 0, h = 14695981039346656037ull;
  for (uint64_t L = 0; L <= maxL; ++L) for (uint64_t c = 0; c < 128; ++c) {
    uint64_t fl = (L + c) & 3;
    ArtFile art = oneFrameFile(L, c, fl & 1, fl >> 1);
    std::string w; bool ok = true;
    try { w = writeBytes(art); } catch (const std::exception&) { ok = false; }
    if (ok) { ++written; if (L != c) ++badAcc; for (unsigned char ch : w) { h ^= ch; h *= 1099511628211ull; } }
    else { ++refused; if (L == c) ++badRef; }
  }
  return u(badAcc) + " " + u(badRef) + " " + u(refused) + " " + u(written) + " " + u(h);
}

// prt.prefixes <hex> : the reader on every proper prefix of the consumed part -> err | <consumed> <accepted prefixes> <shortest accepted or ->
DRV_CMD(prt_prefixes, "prt.prefixes") {
  std::string bytes = hexDecode(need(a, 0));
  auto l = load(bytes);
  uint64_t acc = 0; std::string first = "-";
  for (uint64_t k = 0; k < l.consumed; ++k) {
    // a fresh heap copy of exactly k bytes, so that ASan sees any read past the prefix
    std::unique_ptr<char[]> buf(new char[k ? k : 1]); std::memcpy(buf.get(), bytes.data(), k);
    try { Stream::MemoryReader r(buf.get(), k); ArtFile::Read(r); ++acc; if (first == "-") first = u(k); } catch (const std::exception&) {}
  }
  return u(l.consumed) + " " + u(acc) + " " + first;
}

// prt.use <prt hex> <pixel-file hex> <extra> : err | ok v=<o|e per index 0..count+extra> w=<bytes|refused> c=<images>/<animations>/<frames>/<layers>
//   x=<per index: e | o:<bmp bytes>>      every public follow-up operation on a loaded object
DRV_CMD(prt_use, "prt.use") {
  std::string bytes = hexDecode(need(a, 0)), pix = hexDecode(need(a, 1)); uint64_t extra = toU64(need(a, 2)); if (extra > 8) throw BadOp();
  std::unique_ptr<char[]> buf(new char[bytes.size() ? bytes.size() : 1]); std::memcpy(buf.get(), bytes.data(), bytes.size());
  Stream::MemoryReader r(buf.get(), bytes.size());
  auto art = std::make_shared<ArtFile>(ArtFile::Read(r));
  std::size_t n = art->imageMetas.size();
  std::string v;
  for (std::size_t i = 0; i <= n + extra; ++i) { try { art->VerifyImageIndexInBounds(i); v += 'o'; } catch (const std::exception&) { v += 'e'; } }
  std::string w; try { w = showBytes(writeBytes(*art)); } catch (const std::exception&) { w = "refused"; }
  std::string dir = freshDir(), pixPath = dir + "/art.bmp";
  writeFile(pixPath, pix);
  SpriteLoader loader(pixPath, art);
  uint64_t frames = 0, layers = 0;
  for (std::size_t i = 0; i < loader.AnimationCount(); ++i) { frames += loader.FrameCount(i); for (std::size_t j = 0; j < loader.FrameCount(i); ++j) layers += loader.LayerCount(i, j); }
  std::string x;
  for (std::size_t i = 0; i <= n + extra; ++i) {
    std::string out = dir + "/out" + u(i) + ".bmp";
    if (i) x += ',';
    try { loader.ExtractImage(i, out); x += "o:" + showBytes(readFile(out)); }
    catch (const std::bad_alloc&) { x += "a"; } catch (const std::length_error&) { x += "a"; }
    catch (const std::exception&) { x += "e"; }
  }
  return "ok v=" + v + " w=" + w + " c=" + u(loader.ImageCount()) + "/" + u(loader.AnimationCount()) + "/" + u(frames) + "/" + u(layers) + " x=" + x;
}

// prt.extract <prt hex> <index> <pixel-file hex> : err-load | e | a | o:<bmp bytes>
DRV_CMD(prt_extract, "prt.extract") {
  std::string bytes = hexDecode(need(a, 0)), pix = hexDecode(need(a, 2)); uint64_t idx = toU64(need(a, 1));
  std::shared_ptr<ArtFile> art;
  { Stream::MemoryReader r(bytes.data(), bytes.size()); try { art = std::make_shared<ArtFile>(ArtFile::Read(r)); } catch (const std::exception&) { return "err-load"; } }
  std::string dir = freshDir(), pixPath = dir + "/art.bmp", out = dir + "/out.bmp";
  writeFile(pixPath, pix);
  SpriteLoader loader(pixPath, art);
  try { loader.ExtractImage(idx, out); return "o:" + showBytes(readFile(out)); }
  catch (const std::bad_alloc&) { return "a"; } catch (const std::length_error&) { return "a"; }
  catch (const std::exception&) { return "e"; }
}

// prt.default <fill byte> : bytes written by a default-constructed ArtFile whose storage held <fill> before construction (D21 / C18)
DRV_CMD(prt_default, "prt.default") {
  uint64_t fill = toU64(need(a, 0)); if (fill > 255) throw BadOp();
  alignas(ArtFile) static unsigned char storage[sizeof(ArtFile)];
  std::memset(storage, static_cast<int>(fill), sizeof storage);
  ArtFile* art = new (storage) ArtFile;
  std::string w = writeBytes(*art);
  art->~ArtFile();
  return "ok " + showBytes(w);
}
