// op2drv — line-protocol driver calling the real OP2Utility library in-process.
// One case per input line: "<cmd> <arg> ..."; one canonical result per output line.
// A leading '!' on the command runs the case in a forked child with a watchdog, so that a
// sanitizer abort, a hang or an OOM is an outcome of that case ("fault:<kind>", "hang").
#pragma once
#include <string>
#include <vector>
#include <functional>
#include <map>
#include <cstdint>
#include <stdexcept>

namespace drv {
using Args = std::vector<std::string>;
using Handler = std::function<std::string(const Args&)>;

std::map<std::string, Handler>& registry();
struct Reg { Reg(const char* name, Handler h) { registry()[name] = std::move(h); } };

struct BadOp : std::exception {};

// argument decoding (throws BadOp on malformed input)
std::string hexDecode(const std::string& s);           // "-" is empty
std::string hexEncode(const std::string& bytes);       // empty -> "-"
std::string hexEncode(const void* p, std::size_t n);
uint64_t toU64(const std::string& s);
int64_t toI64(const std::string& s);
std::string showBytes(const std::string& bytes);        // short: hex, long: #len:fnv
uint64_t fnv1a(const void* p, std::size_t n);
const std::string& need(const Args& a, std::size_t i);

// scratch directory for cases that touch the file system (fresh per process, removed at exit)
const std::string& scratchRoot();
std::string freshDir();                                  // new empty sub-directory
void writeFile(const std::string& path, const std::string& bytes);
std::string readFile(const std::string& path);           // throws if missing
bool exists(const std::string& path);
}
#define DRV_CMD(ident, name) \
  static std::string ident(const drv::Args& a); \
  static drv::Reg reg_##ident(name, ident); \
  static std::string ident(const drv::Args& a)
