// group vol (C01, C02, C05_vol, C20_vol): VOL archives through the public API of the real library only
#include "drv.h"
#include "Archive/VolFile.h"
#include "Archive/CompressionType.h"
#include "Stream/BidirectionalReader.h"
#include <algorithm>
#include <cstring>
#include <map>
#include <memory>
#include <fcntl.h>
#include <unistd.h>
#include <dirent.h>
#include <sys/stat.h>
using namespace drv;
using namespace OP2Utility;
using namespace OP2Utility::Archive;

namespace drv { std::string dataArg(const std::string& s); }   // stream.cpp: hex or gen:<len>:<seed>

namespace {
std::vector<std::string> splitOn(const std::string& s, char c) {
  std::vector<std::string> out; std::string cur;
  for (char ch : s) { if (ch == c) { out.push_back(cur); cur.clear(); } else cur.push_back(ch); }
  out.push_back(cur); return out;
}
void mkdirs(const std::string& dir) {           // mkdir -p (lexical; "d/../d" creates d first)
  std::string cur;
  for (const std::string& part : splitOn(dir, '/')) {
    if (cur.empty() && part.empty()) { cur = "/"; continue; }
    cur += (cur.empty() || cur.back() == '/') ? part : "/" + part;
    if (!part.empty()) mkdir(cur.c_str(), 0700);
  }
}
std::string dirName(const std::string& p) { auto k = p.rfind('/'); return k == std::string::npos ? std::string() : p.substr(0, k); }
void makeSparse(const std::string& path, uint64_t size) {
  int fd = open(path.c_str(), O_CREAT | O_WRONLY | O_TRUNC, 0600);
  if (fd < 0) throw std::runtime_error("harness: cannot create " + path);
  if (ftruncate(fd, static_cast<off_t>(size)) != 0) { close(fd); throw std::runtime_error("harness: ftruncate " + path); }
  close(fd);
}
// content argument: hex | gen:<len>:<seed> | z:<len> (sparse zeros)
void putContent(const std::string& path, const std::string& spec) {
  if (spec.rfind("z:", 0) == 0) makeSparse(path, toU64(spec.substr(2)));
  else writeFile(path, dataArg(spec));
}
// every regular file below `root` (relative name -> size:hash), for before/after comparison
void snapshotInto(const std::string& root, const std::string& rel, std::map<std::string, std::string>& out) {
  std::string dir = rel.empty() ? root : root + "/" + rel;
  DIR* d = opendir(dir.c_str()); if (!d) return;
  std::vector<std::string> names;
  while (dirent* e = readdir(d)) { std::string n = e->d_name; if (n != "." && n != "..") names.push_back(n); }
  closedir(d);
  for (auto& n : names) {
    std::string r = rel.empty() ? n : rel + "/" + n; std::string full = root + "/" + r;
    struct stat st; if (lstat(full.c_str(), &st)) continue;
    if (S_ISDIR(st.st_mode)) snapshotInto(root, r, out);
    else if (st.st_size > (64 << 20)) out[r] = "big:" + std::to_string(st.st_size);     // sparse giants: size only
    else { std::string b = readFile(full); out[r] = std::to_string(b.size()) + ":" + std::to_string(fnv1a(b.data(), b.size())); }
  }
}
struct Cwd {   // the library takes relative paths: run inside the case's directory, restore afterwards
  int fd; explicit Cwd(const std::string& d) : fd(open(".", O_RDONLY)) { if (chdir(d.c_str())) throw std::runtime_error("harness: chdir"); }
  ~Cwd() { if (fd >= 0) { if (fchdir(fd)) {} close(fd); } }
};
std::string flipCase(std::string s) { for (auto& c : s) { if (c >= 'a' && c <= 'z') c -= 32; else if (c >= 'A' && c <= 'Z') c += 32; } return s; }
std::string upper(std::string s) { for (auto& c : s) if (c >= 'a' && c <= 'z') c -= 32; return s; }
std::string lower(std::string s) { for (auto& c : s) if (c >= 'A' && c <= 'Z') c += 32; return s; }

// whole member through the stream interface: Length() bytes must arrive (asked for piecewise, so that a stream that
// runs dry early is seen as such rather than as an error), then nothing more
std::string drain(Stream::BidirectionalReader& s) {
  uint64_t len = s.Length();
  if (len > (uint64_t(1) << 31)) return "toolong";
  std::string buf(static_cast<std::size_t>(len), '\0');
  std::size_t total = 0;
  while (total < buf.size()) {
    std::size_t n = s.ReadPartial(&buf[total], buf.size() - total);
    if (n == 0) break;
    total += n;
  }
  if (total != buf.size()) return "short:" + std::to_string(total) + "/" + std::to_string(len);
  char extra[4]; std::size_t more = s.ReadPartial(extra, sizeof extra);
  if (more != 0) return "long+" + std::to_string(more);
  return showBytes(buf);
}
std::string tryStr(const std::function<std::string()>& f) {
  try { return f(); }
  catch (const std::bad_alloc&) { return "err:alloc"; }
  catch (const std::length_error&) { return "err:alloc"; }
  catch (const std::exception&) { return "err"; }
}
}

// vol.pack <outHex> <preOut: '-'|'='|content> <pathHex> <content> ...
//   builds the input files in a fresh directory (relative paths as given), calls CreateArchive(out, paths in the given order),
//   then reopens the result and reports everything C01 talks about.
//   preOut: '-' nothing exists at out; '=' leave alone (out may be one of the inputs); otherwise pre-existing content.
DRV_CMD(vol_pack, "vol.pack") {
  std::string out = hexDecode(need(a, 0)); const std::string& pre = need(a, 1);
  if ((a.size() - 2) % 2) throw BadOp();
  std::string dir = freshDir();
  Cwd cwd(dir);
  std::vector<std::string> paths;
  for (std::size_t i = 2; i + 1 < a.size(); i += 2) {
    std::string p = hexDecode(a[i]); paths.push_back(p);
    std::string d = dirName(p); if (!d.empty()) mkdirs(d);
    putContent(p, a[i + 1]);
  }
  if (pre != "-" && pre != "=") { std::string d = dirName(out); if (!d.empty()) mkdirs(d); putContent(out, pre); }
  std::map<std::string, std::string> before, after;
  snapshotInto(dir, "", before);
  bool ok = true;
  try { VolFile::CreateArchive(out, paths); }
  catch (const std::exception&) { ok = false; }
  snapshotInto(dir, "", after);
  if (!ok) return std::string("err pre=") + (before == after ? "same" : "CHANGED");
  // success: exactly one file may differ (the archive itself)
  std::size_t changed = 0;
  for (auto& kv : after) { auto it = before.find(kv.first); if (it == before.end() || it->second != kv.second) ++changed; }
  for (auto& kv : before) if (!after.count(kv.first)) ++changed;
  std::string archive = readFile(out);
  std::string r = "ok " + showBytes(archive) + " pre=" + (changed <= 1 ? "same" : "CHANGED");
  VolFile v(out); ArchiveFile& av = v;     // by-name overloads live in the base class
  r += " n=" + std::to_string(v.GetCount());
  std::string exdir = dir + "/__extract_all"; mkdir(exdir.c_str(), 0700);
  std::string allOk = tryStr([&] { v.ExtractAllFiles(exdir); return std::string("ok"); });
  for (std::size_t i = 0; i < v.GetCount(); ++i) {
    std::string name = v.GetName(i);
    r += " " + hexEncode(name) + ":" + std::to_string(v.GetSize(i)) + ":" + std::to_string(static_cast<unsigned>(v.GetCompressionCode(i)));
    r += ":" + tryStr([&] { auto s = v.OpenStream(i); return drain(*s); });
    r += ":" + tryStr([&] { auto s = av.OpenStream(flipCase(name)); return drain(*s); });
    r += ":" + tryStr([&] { return allOk == "ok" ? showBytes(readFile(exdir + "/" + name)) : allOk; });
    r += ":" + tryStr([&] { std::string p = dir + "/__one.bin"; av.ExtractFile(upper(name), p); return showBytes(readFile(p)); });
    r += ":" + tryStr([&] { return std::to_string(v.GetIndex(lower(name))); });
    r += ":" + tryStr([&] { return std::to_string(v.GetIndex(upper(name))); });
    r += std::string(":") + (v.Contains(flipCase(name)) ? "1" : "0");
  }
  return r;
}

// vol.open <archive bytes> <L|F> <op,op,...>
//   L: one long-lived VolFile object for the whole sequence;  F: a fresh object for every call.
//   ops: c | n<i> | s<i> | k<i> | x<nameHex> | h<nameHex> | r<i> | q<nameHex> (stream by name) | e<i>
DRV_CMD(vol_open, "vol.open") {
  std::string bytes = dataArg(need(a, 0)); const std::string& mode = need(a, 1);
  std::vector<std::string> ops = need(a, 2) == "-" ? std::vector<std::string>() : splitOn(a[2], ',');
  if (mode != "L" && mode != "F") throw BadOp();
  std::string dir = freshDir(); std::string path = dir + "/a.vol";
  writeFile(path, bytes);
  std::unique_ptr<VolFile> v;
  try { v = std::make_unique<VolFile>(path); }
  catch (const std::bad_alloc&) { return "err:alloc"; }          // same spelling as an allocator abort in a forked case
  catch (const std::length_error&) { return "err:alloc"; }
  catch (const std::exception&) { return "open:err"; }
  std::string r = "open:ok"; unsigned k = 0;
  for (const std::string& op : ops) {
    if (op.empty()) throw BadOp();
    if (mode == "F") v = std::make_unique<VolFile>(path);
    char c = op[0]; std::string arg = op.substr(1);
    std::string res = tryStr([&]() -> std::string {
      switch (c) {
        case 'c': return std::to_string(v->GetCount());
        case 'n': return hexEncode(v->GetName(toU64(arg)));
        case 's': return std::to_string(v->GetSize(toU64(arg)));
        case 'k': return std::to_string(static_cast<unsigned>(v->GetCompressionCode(toU64(arg))));
        case 'x': return std::to_string(v->GetIndex(hexDecode(arg)));
        case 'h': return v->Contains(hexDecode(arg)) ? "1" : "0";
        case 'r': { auto s = v->OpenStream(static_cast<std::size_t>(toU64(arg))); return drain(*s); }
        case 'q': { ArchiveFile& av = *v; auto s = av.OpenStream(hexDecode(arg)); return drain(*s); }
        case 'e': {
          std::size_t i = static_cast<std::size_t>(toU64(arg));
          std::string p = dir + "/x" + std::to_string(k++) + ".bin";
          bool lzh = false;
          try { lzh = v->GetCompressionCode(i) == CompressionType::LZH; } catch (const std::exception&) {}
          if (lzh) {   // what the decoder makes of the stored bytes belongs to C04; here: the member's extent must be accepted first
            // (ExtractFile alone decides whether the stored block is acceptable: it loads the block itself and must refuse one
            // that is not inside the file.  A refusal that comes from the decoder - hostile data can exhaust the adaptive
            // tree's capacity - is C04's subject: it is told apart by the extent being acceptable to OpenStream.)
            try { v->ExtractFile(i, p); }
            catch (const std::bad_alloc&) { throw; } catch (const std::length_error&) { throw; }
            catch (const std::exception&) { auto s = v->OpenStream(i); (void)s; }
            return "lzh";
          }
          v->ExtractFile(i, p); return showBytes(readFile(p));
        }
        default: throw BadOp();
      }
    });
    r += "," + res;
  }
  return r;
}

// a forked case that was killed by the watchdog while a violating library wrote gigabytes leaves its out.vol behind
// (every forked case has its own scratch root under $OP2DRV_SCRATCH); remove those before starting the next one
static void purgeStaleOutputs() {
  const char* base = getenv("OP2DRV_SCRATCH"); if (!base) return;
  DIR* d = opendir(base); if (!d) return;
  std::vector<std::string> roots;
  while (dirent* e = readdir(d)) { std::string n = e->d_name; if (n.rfind("op2drv.", 0) == 0) roots.push_back(std::string(base) + "/" + n); }
  closedir(d);
  for (auto& r : roots) {
    DIR* c = opendir(r.c_str()); if (!c) continue;
    while (dirent* e = readdir(c)) { std::string n = e->d_name; if (n[0] == 'c') unlink((r + "/" + n + "/out.vol").c_str()); }
    closedir(c);
  }
}

// vol.big <preOut: '-'|content> <nameHex> <size> ...   (C20: members given by size only, as sparse files)
DRV_CMD(vol_big, "vol.big") {
  const std::string& pre = need(a, 0);
  if ((a.size() - 1) % 2) throw BadOp();
  purgeStaleOutputs();
  std::string dir = freshDir(); Cwd cwd(dir);
  std::vector<std::string> paths;
  for (std::size_t i = 1; i + 1 < a.size(); i += 2) {
    std::string p = "in/" + hexDecode(a[i]); mkdirs("in"); makeSparse(p, toU64(a[i + 1])); paths.push_back(p);
  }
  std::string out = "out.vol";
  if (pre != "-") putContent(out, pre);
  bool ok = true;
  try { VolFile::CreateArchive(out, paths); } catch (const std::exception&) { ok = false; }
  std::string state;
  if (!exists(out)) state = "absent";
  else if (pre == "-") state = "CREATED";
  else { struct stat st; stat(out.c_str(), &st); state = (static_cast<uint64_t>(st.st_size) == dataArg(pre).size() && readFile(out) == dataArg(pre)) ? "same" : "CHANGED"; }
  if (!ok) return "err dest=" + state;
  std::string r = "ok";          // C20 is about the refusals; what a successful archive looks like is C01/C02
  for (auto& p : paths) unlink(p.c_str());
  unlink(out.c_str());
  return r;
}
