// group res / arc (C17): name lookup in archives and resource resolution by the real ResourceManager on a real scratch
// directory.  The layout is given on the protocol line; archives are built with the library's own CreateArchive.
#include "drv.h"
#include "ResourceManager.h"
#include "Archive/VolFile.h"
#include "Archive/ClmFile.h"
#include "Archive/WaveFile.h"
#include "Stream/BidirectionalReader.h"
#include "XFile.h"
#include <algorithm>
#include <cstring>
#include <sys/stat.h>
using namespace drv;
using namespace OP2Utility;
using namespace OP2Utility::Archive;

namespace {
std::vector<std::string> splitOn(const std::string& s, char c) {
  std::vector<std::string> out; std::string cur;
  for (char ch : s) { if (ch == c) { out.push_back(cur); cur.clear(); } else cur.push_back(ch); }
  out.push_back(cur); return out;
}
std::string wavBytes(const std::string& pcm) {
  WaveFormatEx f; std::memset(&f, 0, sizeof f);
  f.wFormatTag = 1; f.nChannels = 1; f.nSamplesPerSec = 22050; f.nAvgBytesPerSec = 22050; f.nBlockAlign = 1; f.wBitsPerSample = 8; f.cbSize = 0;
  WaveHeader h = WaveHeader::Create(f, static_cast<uint32_t>(pcm.size()));
  return std::string(reinterpret_cast<const char*>(&h), sizeof h) + pcm;
}
struct Member { std::string name, content; };
struct Arch { std::string file; bool clm; std::vector<Member> members; };
struct Layout { std::string root; std::vector<Arch> archives; };

// layout items separated by ';' :  f:<name>:<content> | d:<name> | s:<dir>:<name>:<content> | v:<file>:<m>=<c>,<m>=<c> | c:<file>:<m>=<pcm>,...
Layout buildLayout(const std::string& spec) {
  Layout L; std::string base = freshDir(); L.root = base + "/root"; std::string stage = base + "/stage";
  mkdir(L.root.c_str(), 0700); mkdir(stage.c_str(), 0700);
  int k = 0;
  if (spec != "-") for (auto& item : splitOn(spec, ';')) {
    auto p = splitOn(item, ':'); if (p.empty()) throw BadOp();
    if (p[0] == "f" && p.size() == 3) writeFile(L.root + "/" + hexDecode(p[1]), hexDecode(p[2]));
    else if (p[0] == "d" && p.size() == 2) mkdir((L.root + "/" + hexDecode(p[1])).c_str(), 0700);
    else if (p[0] == "s" && p.size() == 4) { std::string d = L.root + "/" + hexDecode(p[1]); mkdir(d.c_str(), 0700); writeFile(d + "/" + hexDecode(p[2]), hexDecode(p[3])); }
    else if ((p[0] == "v" || p[0] == "c") && p.size() == 3) {
      Arch a; a.file = hexDecode(p[1]); a.clm = p[0] == "c";
      std::string sd = stage + "/a" + std::to_string(k++); mkdir(sd.c_str(), 0700);
      std::vector<std::string> paths;
      if (p[2] != "-") for (auto& m : splitOn(p[2], ',')) {
        auto q = splitOn(m, '='); if (q.size() != 2) throw BadOp();
        Member mem{hexDecode(q[0]), hexDecode(q[1])};
        std::string path = sd + "/" + mem.name + (a.clm ? ".wav" : "");
        writeFile(path, a.clm ? wavBytes(mem.content) : mem.content);
        paths.push_back(path); a.members.push_back(mem);
      }
      if (a.clm) ClmFile::CreateArchive(L.root + "/" + a.file, paths); else VolFile::CreateArchive(L.root + "/" + a.file, paths);
      L.archives.push_back(a);
    } else throw BadOp();
  }
  return L;
}
std::string baseName(const std::string& p) { auto i = p.rfind('/'); return i == std::string::npos ? p : p.substr(i + 1); }
std::string readAll(Stream::BidirectionalReader& r) { std::string s(static_cast<std::size_t>(r.Length()), '\0'); r.SeekBeginning(); if (!s.empty()) r.Read(&s[0], s.size()); return s; }
std::string listStr(std::vector<std::string> v) {
  std::sort(v.begin(), v.end());
  std::string out = "["; for (std::size_t i = 0; i < v.size(); ++i) { if (i) out += ","; out += hexEncode(v[i]); } return out + "]";
}
}

// res.q <layout> <queries> : queries separated by ';'
//   g:<name>:<0|1>  GetResourceStream            -> bytes | none | err
//   t:<ext>:<0|1>   GetAllFilenamesOfType        -> sorted list (hex)
//   p:<regex>:<0|1> GetAllFilenames              -> sorted list (hex)
//   a:<name>        FindContainingArchivePath    -> base name of the archive | -   (+ "!" if that archive does NOT contain the name)
//   n               GetArchiveFilenames          -> sorted base names
DRV_CMD(res_q, "res.q") {
  Layout L = buildLayout(need(a, 0));
  ResourceManager rm(L.root);
  std::string out;
  for (auto& q : splitOn(need(a, 1), ';')) {
    auto p = splitOn(q, ':'); if (p.empty()) throw BadOp();
    std::string r;
    try {
      if (p[0] == "g" && p.size() == 3) {
        auto s = rm.GetResourceStream(hexDecode(p[1]), p[2] == "1");
        r = s ? showBytes(readAll(*s)) + "." : "none";
      } else if (p[0] == "t" && p.size() == 3) {
        // which of two members equal ignoring case is listed depends on the archive load order (directory order):
        // the canonical form folds the names to upper case
        auto v = rm.GetAllFilenamesOfType(hexDecode(p[1]), p[2] == "1");
        for (auto& n : v) for (auto& ch : n) ch = static_cast<char>(::toupper(static_cast<unsigned char>(ch)));
        r = listStr(v);
      }
      else if (p[0] == "p" && p.size() == 3) r = listStr(rm.GetAllFilenames(hexDecode(p[1]), p[2] == "1"));
      else if (p[0] == "a" && p.size() == 2) {
        std::string name = hexDecode(p[1]); std::string path = rm.FindContainingArchivePath(name);
        if (path.empty()) r = "-";
        else {
          r = hexEncode(baseName(path));
          bool really = false;
          if (baseName(path).size() > 4 && baseName(path).substr(baseName(path).size() - 4) == ".clm") { ClmFile c(path); really = c.Contains(name); }
          else { VolFile v(path); really = v.Contains(name); }
          if (!really) r += "!";
        }
      } else if (p[0] == "n" && p.size() == 1) {
        std::vector<std::string> v; for (auto& f : rm.GetArchiveFilenames()) v.push_back(baseName(f)); r = listStr(v);
      } else throw BadOp();
    } catch (const BadOp&) { throw; }
    catch (const std::exception&) { r = "err"; }
    if (!out.empty()) out += " ";
    out += r;
  }
  return out;
}

// arc.lookup <v|c> <members m=c,...> <names n1,n2,...> : per name  contains:index:nameOf(index)   and afterwards the
// per-member calls on out-of-range indices count, count+1, 2^32, 2^64-1  (E = refused)
DRV_CMD(arc_lookup, "arc.lookup") {
  Layout L = buildLayout(need(a, 0) + ":" + hexEncode(std::string(need(a, 0) == "c" ? "x.clm" : "x.vol")) + ":" + need(a, 1));
  std::string path = L.root + "/" + L.archives[0].file;
  std::unique_ptr<ArchiveFile> ar; if (L.archives[0].clm) ar = std::make_unique<ClmFile>(path); else ar = std::make_unique<VolFile>(path);
  std::string out = "count=" + std::to_string(ar->GetCount());
  if (need(a, 2) != "-") for (auto& nh : splitOn(a[2], ',')) {
    std::string n = hexDecode(nh); bool c = ar->Contains(n); std::string idx = "E", nm = "-";
    try { std::size_t i = ar->GetIndex(n); idx = std::to_string(i); nm = hexEncode(ar->GetName(i)); } catch (const std::exception&) {}
    out += std::string(" ") + (c ? "1" : "0") + ":" + idx + ":" + nm;
  }
  std::size_t n = ar->GetCount();
  for (std::size_t bad : {n, n + 1, static_cast<std::size_t>(1ull << 32), static_cast<std::size_t>(~0ull)}) {
    std::string r;
    try { ar->GetName(bad); r += "n"; } catch (const std::exception&) { r += "E"; }
    try { ar->GetSize(bad); r += "s"; } catch (const std::exception&) { r += "E"; }
    try { ar->OpenStream(bad); r += "o"; } catch (const std::exception&) { r += "E"; }
    try { ar->ExtractFile(bad, L.root + "/out.bin"); r += "x"; } catch (const std::exception&) { r += "E"; }
    out += " " + r;
  }
  // duplicate-free archives: looking up the i-th name returns i
  std::string self;
  for (std::size_t i = 0; i < n; ++i) { try { self += ar->GetIndex(ar->GetName(i)) == i ? "=" : "#"; } catch (const std::exception&) { self += "E"; } }
  return out + " self=" + (self.empty() ? "-" : self);
}
