// group map (C06, C07): map / saved-game readers, writer and the public edits, through the public Map API only
#include "drv.h"
#include "Map/Map.h"
#include "Map/MapHeader.h"
#include "Map/CellType.h"
#include "Stream/MemoryReader.h"
#include "Stream/FileReader.h"
#include "Stream/DynamicMemoryWriter.h"
#include <cstring>
#include <sstream>
using namespace drv;
using namespace OP2Utility;

namespace {
std::vector<std::string> split(const std::string& s, char c) {
  std::vector<std::string> out; std::string cur;
  for (char ch : s) { if (ch == c) { out.push_back(cur); cur.clear(); } else cur.push_back(ch); }
  out.push_back(cur); return out;
}
// data expression: term(+term)*(~off:hex)*(@len)?   term = z<n> (zeros) | g<n>:<seed> (generated) | - | hex
std::string dataExpr(const std::string& s) {
  auto at = split(s, '@');
  if (at.size() > 2) throw BadOp();
  auto pt = split(at[0], '~');
  std::string out;
  for (const auto& t : split(pt[0], '+')) {
    if (t.empty()) throw BadOp();
    if (t[0] == 'z') out.append(static_cast<std::size_t>(toU64(t.substr(1))), '\0');
    else if (t[0] == 'g') {
      auto p = split(t.substr(1), ':'); if (p.size() != 2) throw BadOp();
      uint64_t n = toU64(p[0]), seed = toU64(p[1]);
      for (uint64_t i = 0; i < n; ++i) out.push_back(static_cast<char>((i * 131 + seed * 7 + (i >> 8)) & 0xFF));
    } else out += hexDecode(t);
  }
  for (std::size_t i = 1; i < pt.size(); ++i) {
    auto p = split(pt[i], ':'); if (p.size() != 2) throw BadOp();
    uint64_t off = toU64(p[0]); std::string b = hexDecode(p[1]);
    if (off + b.size() > out.size()) throw BadOp();
    std::memcpy(&out[off], b.data(), b.size());
  }
  if (at.size() == 2) { uint64_t k = toU64(at[1]); if (k < out.size()) out.resize(k); }
  return out;
}

template <typename V> std::string rawBytes(const V& v) {
  using T = typename V::value_type;
  std::string s(v.size() * sizeof(T), '\0');
  if (!v.empty()) std::memcpy(&s[0], v.data(), s.size());
  return s;
}

// every public field of a Map, canonical
std::string dump(const Map& m, uint64_t consumed) {
  std::ostringstream o;
  o << "ok n=" << consumed << " v=" << m.GetVersionTag() << " sg=" << (m.IsSavedGame() ? 1 : 0)
    << " w=" << m.WidthInTiles() << " h=" << m.HeightInTiles() << " tc=" << m.TileCount()
    << " tiles=" << showBytes(rawBytes(m.tiles))
    << " clip=" << hexEncode(&m.clipRect, sizeof(m.clipRect));
  o << " src=" << m.tilesetSources.size() << "[";
  for (std::size_t i = 0; i < m.tilesetSources.size(); ++i)
    o << (i ? ";" : "") << hexEncode(m.tilesetSources[i].tilesetFilename) << ":" << m.tilesetSources[i].numTiles;
  o << "] map=" << m.tileMappings.size() << ":" << showBytes(rawBytes(m.tileMappings))
    << " ter=" << m.terrainTypes.size() << ":" << showBytes(rawBytes(m.terrainTypes));
  o << " grp=" << m.tileGroups.size() << "[";
  for (std::size_t i = 0; i < m.tileGroups.size(); ++i) {
    const auto& g = m.tileGroups[i];
    o << (i ? ";" : "") << hexEncode(g.name) << ":" << g.tileWidth << ":" << g.tileHeight << ":" << showBytes(rawBytes(g.mappingIndices));
  }
  o << "]";
  return o.str();
}
// the same without the byte count (to compare two maps field by field)
std::string fields(const Map& m) { std::string d = dump(m, 0); return d; }

struct ReadResult { bool ok = false; Map map; uint64_t consumed = 0; };
ReadResult readAs(char kind, const std::string& bytes) {
  ReadResult r;
  Stream::MemoryReader rd(bytes.data(), bytes.size());
  try {
    if (kind == 'm') r.map = Map::ReadMap(rd); else if (kind == 's') r.map = Map::ReadSavedGame(rd); else throw BadOp();
    r.ok = true; r.consumed = rd.Position();
  } catch (const BadOp&) { throw; }
  catch (const std::bad_alloc&) { throw; }
  catch (const std::length_error&) { throw; }
  catch (const std::exception&) { r.ok = false; }
  return r;
}
bool writeMap(const Map& m, std::string& out) {
  try {
    Stream::DynamicMemoryWriter w; m.Write(w);
    auto rd = w.GetReader();
    out.assign(static_cast<std::size_t>(rd.Length()), '\0');
    if (!out.empty()) rd.Read(&out[0], out.size());
    return true;
  } catch (const std::bad_alloc&) { throw; }
  catch (const std::exception&) { return false; }
}
// written bytes, whether they read back to an equal map consuming everything, whether a second write is identical
std::string roundTrip(const Map& m) {
  std::string out;
  if (!writeMap(m, out)) return "out=err";
  std::string r = "out=" + showBytes(out);
  ReadResult again = readAs('m', out);
  if (!again.ok) return r + " rr=err";
  std::string out2; bool w2 = writeMap(again.map, out2);
  return r + " rr=ok same=" + (fields(again.map) == fields(m) ? "1" : "0") + " all=" + (again.consumed == out.size() ? "1" : "0")
    + " st=" + (w2 && out2 == out ? "1" : "0");
}
std::vector<uint64_t> numList(const std::string& s) {   // "a,b-c,d"
  std::vector<uint64_t> out;
  if (s == "-") return out;
  for (const auto& t : split(s, ',')) {
    auto r = split(t, '-');
    if (r.size() == 1) out.push_back(toU64(r[0]));
    else if (r.size() == 2) { uint64_t a = toU64(r[0]), b = toU64(r[1]); if (b < a || b - a > 10000000) throw BadOp(); for (uint64_t k = a; k <= b; ++k) out.push_back(k); }
    else throw BadOp();
  }
  return out;
}
char kindOf(const std::string& s) { if (s != "m" && s != "s") throw BadOp(); return s[0]; }
}

// map.read <m|s> <data> : every public field of the returned map and the number of bytes consumed
DRV_CMD(map_read, "map.read") {
  char kind = kindOf(need(a, 0)); std::string bytes = dataExpr(need(a, 1));
  ReadResult r = readAs(kind, bytes);
  return r.ok ? dump(r.map, r.consumed) : "err";
}

// map.readat <m|s> <skip> <data> : the reader is handed over at position <skip> (the map starts there); heap copy of exactly
// the given bytes, so a read beyond the stream is a sanitizer fault.  Then a second read from the same reader where the
// first one stopped ("2nd=": whatever follows must be parsed or refused on its own, the stream length is the limit).
DRV_CMD(map_readat, "map.readat") {
  char kind = kindOf(need(a, 0)); std::size_t skip = static_cast<std::size_t>(toU64(need(a, 1))); std::string bytes = dataExpr(need(a, 2));
  if (skip > bytes.size()) throw BadOp();
  std::vector<char> heap(bytes.begin(), bytes.end());
  Stream::MemoryReader rd(heap.data(), heap.size());
  rd.Seek(skip);
  auto once = [&]() -> std::string {
    uint64_t start = rd.Position();
    try {
      Map m = kind == 'm' ? Map::ReadMap(rd) : Map::ReadSavedGame(rd);
      if (rd.Position() > heap.size()) return "POSITION-BEYOND-END";
      return dump(m, rd.Position() - start);
    } catch (const std::bad_alloc&) { throw; } catch (const std::length_error&) { throw; }
    catch (const std::exception&) { return "err"; }
  };
  std::string first = once();
  if (first == "err" || first == "POSITION-BEYOND-END") return first;
  return first + " 2nd=" + once();
}

// map.file <m|s> <data> : the same through the file-name overloads (FileReader backend)
DRV_CMD(map_file, "map.file") {
  char kind = kindOf(need(a, 0)); std::string bytes = dataExpr(need(a, 1));
  std::string path = freshDir() + "/f.map"; writeFile(path, bytes);
  try {
    Map m = kind == 'm' ? Map::ReadMap(path) : Map::ReadSavedGame(path);
    return dump(m, 0);
  } catch (const std::bad_alloc&) { throw; } catch (const std::length_error&) { throw; }
  catch (const std::exception&) { return "err"; }
}

// map.rt <data> : read, dump, write, read again, write again
DRV_CMD(map_rt, "map.rt") {
  std::string bytes = dataExpr(need(a, 0));
  ReadResult r = readAs('m', bytes);
  if (!r.ok) return "err";
  return dump(r.map, r.consumed) + " " + roundTrip(r.map);
}

// map.edit <data> <ops> : read, apply the public edits in order, dump, round trip.
//   ops: c<x>:<y>:<v> SetCellType | l<x>:<y>:<0|1> SetLavaPossible | v<tag> SetVersionTag | t TrimTilesetSources
DRV_CMD(map_edit, "map.edit") {
  std::string bytes = dataExpr(need(a, 0));
  ReadResult r = readAs('m', bytes);
  if (!r.ok) return "err";
  std::string res;
  for (const auto& op : split(need(a, 1), ',')) {
    if (op.empty()) throw BadOp();
    auto p = split(op.substr(1), ':');
    try {
      if (op[0] == 'c' && p.size() == 3) r.map.SetCellType(static_cast<CellType>(static_cast<uint32_t>(toU64(p[2]))), toU64(p[0]), toU64(p[1]));
      else if (op[0] == 'l' && p.size() == 3) r.map.SetLavaPossible(toU64(p[2]) != 0, toU64(p[0]), toU64(p[1]));
      else if (op[0] == 'v' && p.size() == 1) r.map.SetVersionTag(static_cast<uint32_t>(toU64(p[0])));
      else if (op == "t") r.map.TrimTilesetSources();
      else throw BadOp();
      res.push_back('o');
    } catch (const BadOp&) { throw; } catch (const std::bad_alloc&) { throw; }
    catch (const std::exception&) { res.push_back('e'); }
  }
  return dump(r.map, r.consumed) + " ops=" + res + " " + roundTrip(r.map);
}

// map.cuts <m|s> <data> <k-list> : read every listed prefix; the shortest accepted one, and whether every accepted
// prefix gives the same map and byte count as the whole input
DRV_CMD(map_cuts, "map.cuts") {
  char kind = kindOf(need(a, 0)); std::string bytes = dataExpr(need(a, 1));
  ReadResult full = readAs(kind, bytes);
  std::string fullDump = full.ok ? dump(full.map, full.consumed) : "err";
  uint64_t okc = 0, errc = 0; bool same = true; std::string first = "none";
  for (uint64_t k : numList(need(a, 2))) {
    if (k > bytes.size()) throw BadOp();
    ReadResult r = readAs(kind, bytes.substr(0, static_cast<std::size_t>(k)));
    if (!r.ok) { ++errc; continue; }
    if (okc == 0) first = std::to_string(k);
    ++okc;
    if (dump(r.map, r.consumed) != fullDump) same = false;
  }
  return std::string("n=") + (full.ok ? std::to_string(full.consumed) : "err") + " firstok=" + first + " ok=" + std::to_string(okc)
    + " err=" + std::to_string(errc) + " same=" + (same ? "1" : "0");
}

// map.vals <m|s> <data> <offset> <width> <v1,v2,...> : overwrite the little-endian field with each value and read
DRV_CMD(map_vals, "map.vals") {
  char kind = kindOf(need(a, 0)); std::string bytes = dataExpr(need(a, 1));
  uint64_t off = toU64(need(a, 2)), width = toU64(need(a, 3));
  if (width < 1 || width > 8 || off + width > bytes.size()) throw BadOp();
  std::string out;
  for (uint64_t v : numList(need(a, 4))) {
    std::string b = bytes;
    for (uint64_t i = 0; i < width; ++i) b[static_cast<std::size_t>(off + i)] = static_cast<char>((v >> (8 * i)) & 0xFF);
    ReadResult r = readAs(kind, b);
    if (!out.empty()) out.push_back(' ');
    if (!r.ok) { out += "e"; continue; }
    std::string d = dump(r.map, r.consumed);
    out += "ok:" + std::to_string(r.map.WidthInTiles()) + ":" + std::to_string(r.map.HeightInTiles()) + ":" + std::to_string(r.map.TileCount())
      + ":" + std::to_string(r.consumed) + ":" + std::to_string(fnv1a(d.data(), d.size()));
  }
  return out.empty() ? "-" : out;
}

// map.default : the library's own default-constructed map, written and read back
DRV_CMD(map_default, "map.default") {
  Map m;
  std::string out;
  if (!writeMap(m, out)) return "out=err";
  ReadResult r = readAs('m', out);
  return "out=" + showBytes(out) + " " + (r.ok ? dump(r.map, r.consumed) : std::string("err"));
}
