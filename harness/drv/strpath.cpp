// groups str / path / bits (C19)
#include "drv.h"
#include "StringUtility.h"
#include "XFile.h"
#include "BitTwiddle.h"
#include "Archive/ArchiveFile.h"
#include <algorithm>
#include <cctype>
using namespace drv;
using namespace OP2Utility;

DRV_CMD(str_lt, "str.lt") { return StringUtility::IsEqualCaseInsensitive(hexDecode(need(a,0)), hexDecode(need(a,1))) ? "1" : "0"; }
DRV_CMD(str_eq, "str.eq") { return StringUtility::IsEqual(hexDecode(need(a,0)), hexDecode(need(a,1))) ? "1" : "0"; }
DRV_CMD(str_upper, "str.upper") { return hexEncode(StringUtility::ConvertToUpper(hexDecode(need(a,0)))); }
DRV_CMD(str_lower1, "str.lower1") { char c = static_cast<char>(toU64(need(a,0))); return std::to_string(::tolower(c)); }
DRV_CMD(str_sort, "str.sort") {
  std::vector<std::string> v; for (auto& s : a) v.push_back(hexDecode(s));
  std::sort(v.begin(), v.end(), StringUtility::IsEqualCaseInsensitive);
  std::string out; for (std::size_t i = 0; i < v.size(); ++i) { if (i) out += " "; out += hexEncode(v[i]); }
  return out;
}
DRV_CMD(path_eq, "path.eq") { return XFile::PathsAreEqual(hexDecode(need(a,0)), hexDecode(need(a,1))) ? "1" : "0"; }
DRV_CMD(path_filename, "path.filename") { return hexEncode(XFile::GetFilename(hexDecode(need(a,0)))); }
DRV_CMD(path_ext, "path.ext") { return hexEncode(XFile::GetFileExtension(hexDecode(need(a,0)))); }
DRV_CMD(path_dir, "path.dir") { return hexEncode(XFile::GetDirectory(hexDecode(need(a,0)))); }
DRV_CMD(path_hasroot, "path.hasroot") { return XFile::HasRootComponent(hexDecode(need(a,0))) ? "1" : "0"; }
DRV_CMD(path_append, "path.append") { return hexEncode(XFile::Append(hexDecode(need(a,0)), hexDecode(need(a,1)))); }
DRV_CMD(path_chext, "path.chext") { return hexEncode(XFile::ChangeFileExtension(hexDecode(need(a,0)), hexDecode(need(a,1)))); }
DRV_CMD(path_extmatch, "path.extmatch") { return XFile::ExtensionMatches(hexDecode(need(a,0)), hexDecode(need(a,1))) ? "1" : "0"; }
DRV_CMD(path_fnappend, "path.fnappend") { return hexEncode(XFile::GetFilename(XFile::Append(hexDecode(need(a,0)), hexDecode(need(a,1))))); }
DRV_CMD(path_rejoin, "path.rejoin") {
  std::string p = hexDecode(need(a,0));
  return XFile::PathsAreEqual(XFile::Append(XFile::GetDirectory(p), XFile::GetFilename(p)), p) ? "1" : "0";
}
DRV_CMD(path_chextmatch, "path.chextmatch") {
  return XFile::ExtensionMatches(XFile::ChangeFileExtension(hexDecode(need(a,0)), hexDecode(need(a,1))), hexDecode(need(a,2))) ? "1" : "0";
}
// the relation CreateArchive sorts with: ArchiveFile::ComparePathFilenames (protected static; reached through a derived class)
namespace { struct ExposeCompare : OP2Utility::Archive::ArchiveFile {
  static bool before(const std::string& a, const std::string& b) { return ComparePathFilenames(a, b); } }; }
DRV_CMD(path_cmpfn, "path.cmpfn") { return ExposeCompare::before(hexDecode(need(a,0)), hexDecode(need(a,1))) ? "1" : "0"; }
DRV_CMD(bits_pow2, "bits.pow2") { return IsPowerOf2(static_cast<uint32_t>(toU64(need(a,0)))) ? "1" : "0"; }
DRV_CMD(bits_log2, "bits.log2") { return std::to_string(Log2OfPowerOf2(static_cast<uint32_t>(toU64(need(a,0))))); }

// all 2^32 values of IsPowerOf2 against the closed form; prints the number of disagreements and the first one
DRV_CMD(bits_pow2_all, "bits.pow2all") {
  uint64_t bad = 0, first = 0, count = 0;
  for (uint64_t v = 0; v <= 0xFFFFFFFFull; ++v) {
    bool expect = false;
    for (int k = 0; k < 32; ++k) if (v == (1ull << k)) { expect = true; break; }
    bool got = IsPowerOf2(static_cast<uint32_t>(v));
    if (got) ++count;
    if (got != expect) { if (!bad) first = v; ++bad; }
  }
  return std::to_string(bad) + " " + std::to_string(first) + " " + std::to_string(count);
}
