// group tile (C16): tile addressing and accessors through the public Map API only
#include "drv.h"
#include "Map/Map.h"
#include "Map/MapHeader.h"
#include "Map/CellType.h"
#include "Stream/MemoryReader.h"
#include "Stream/DynamicMemoryWriter.h"
#include <cstring>
using namespace drv;
using namespace OP2Utility;

namespace {
void put32(std::string& s, uint32_t v) { for (int i = 0; i < 4; ++i) s.push_back(static_cast<char>((v >> (8 * i)) & 0xFF)); }
void put16(std::string& s, uint16_t v) { s.push_back(static_cast<char>(v & 0xFF)); s.push_back(static_cast<char>(v >> 8)); }

// a minimal map file around the given tile words, with `nmap` tile mappings (ts = 3j+1, img = 5j+2 mod 2^16)
std::string mapBytes(uint32_t lgw, uint32_t h, const std::vector<uint32_t>& tiles, uint32_t nmap) {
  std::string s;
  put32(s, 0x1011); put32(s, 0); put32(s, lgw); put32(s, h); put32(s, 0);
  for (uint32_t w : tiles) put32(s, w);
  for (int i = 0; i < 4; ++i) put32(s, 0);
  s.append("TILE SET\x1a", 10);
  put32(s, nmap);
  for (uint32_t j = 0; j < nmap; ++j) { put16(s, static_cast<uint16_t>(3 * j + 1)); put16(s, static_cast<uint16_t>(5 * j + 2)); put16(s, 0); put16(s, 0); }
  put32(s, 0);
  put32(s, 0x1011); put32(s, 0x1011);
  put32(s, 0); put32(s, 0);
  return s;
}
Map readMap(const std::string& bytes) {
  Stream::MemoryReader r(bytes.data(), bytes.size());
  return Map::ReadMap(r);
}
std::vector<uint32_t> tileWords(const Map& m) {
  Stream::DynamicMemoryWriter w; m.Write(w);
  auto rd = w.GetReader();
  std::string all(static_cast<std::size_t>(rd.Length()), '\0'); rd.Read(&all[0], all.size());
  std::vector<uint32_t> out(m.TileCount());
  std::memcpy(out.data(), all.data() + 20, out.size() * 4);
  return out;
}
std::vector<std::string> splitOn(const std::string& s, char c) {
  std::vector<std::string> out; std::string cur;
  for (char ch : s) { if (ch == c) { out.push_back(cur); cur.clear(); } else cur.push_back(ch); }
  out.push_back(cur); return out;
}
struct Hash { uint64_t h = 14695981039346656037ull; void add(uint64_t v) { for (int i = 0; i < 8; ++i) { h ^= (v >> (8 * i)) & 0xFF; h *= 1099511628211ull; } } };
}

// tile.addr <lgw> <h> : which tile each coordinate addresses, observed through the getters
DRV_CMD(tile_addr, "tile.addr") {
  uint32_t lgw = static_cast<uint32_t>(toU64(need(a,0))), h = static_cast<uint32_t>(toU64(need(a,1)));
  std::size_t n = (std::size_t(1) << lgw) * h;
  std::vector<uint32_t> lo(n), hi(n);
  for (std::size_t i = 0; i < n; ++i) {
    lo[i] = static_cast<uint32_t>((i & 31) | (((i >> 5) & 2047) << 5) | (((i >> 16) & 1) << 28));
    hi[i] = static_cast<uint32_t>((i >> 17) & 31);
  }
  Map m1 = readMap(mapBytes(lgw, h, lo, 0));
  Map m2 = readMap(mapBytes(lgw, h, hi, 0));
  Hash hs; std::vector<uint8_t> seen(n, 0); std::size_t distinct = 0, outOfRange = 0;
  for (std::size_t y = 0; y < h; ++y) for (std::size_t x = 0; x < (std::size_t(1) << lgw); ++x) {
    std::size_t idx = static_cast<std::size_t>(static_cast<uint32_t>(m1.GetCellType(x, y)) & 31)
      | (m1.GetTileMappingIndex(x, y) << 5) | (std::size_t(m1.GetLavaPossible(x, y) ? 1 : 0) << 16)
      | (static_cast<std::size_t>(static_cast<uint32_t>(m2.GetCellType(x, y)) & 31) << 17);
    hs.add(idx);
    if (idx >= n) ++outOfRange; else if (!seen[idx]) { seen[idx] = 1; ++distinct; }
  }
  return std::to_string(m1.WidthInTiles()) + " " + std::to_string(m1.HeightInTiles()) + " " + std::to_string(m1.TileCount())
    + " " + std::to_string(distinct) + " " + std::to_string(outOfRange) + " " + std::to_string(hs.h);
}

static uint32_t wordOf(std::size_t i, uint64_t seed) {
  if (seed == 0) return static_cast<uint32_t>(((i & 2047) << 5) | ((i >> 11) & 31));  // every mapping index in turn
  return static_cast<uint32_t>((i * 2654435761ull + seed * 40503ull + 12345ull) >> 7);
}

// tile.acc <lgw> <h> <seed> : getters over pseudo-random tile words, then setters at every coordinate
DRV_CMD(tile_acc, "tile.acc") {
  uint32_t lgw = static_cast<uint32_t>(toU64(need(a,0))), h = static_cast<uint32_t>(toU64(need(a,1)));
  uint64_t seed = toU64(need(a,2));
  std::size_t w = std::size_t(1) << lgw, n = w * h;
  std::vector<uint32_t> tiles(n);
  for (std::size_t i = 0; i < n; ++i) tiles[i] = wordOf(i, seed);
  Map m = readMap(mapBytes(lgw, h, tiles, 2048));
  Hash g;
  for (std::size_t y = 0; y < h; ++y) for (std::size_t x = 0; x < w; ++x) {
    g.add(static_cast<uint64_t>(static_cast<int64_t>(static_cast<int>(m.GetCellType(x, y)))));
    g.add(m.GetTileMappingIndex(x, y)); g.add(m.GetLavaPossible(x, y) ? 1 : 0);
    g.add(m.GetTilesetIndex(x, y)); g.add(m.GetImageIndex(x, y));
  }
  for (std::size_t y = 0; y < h; ++y) for (std::size_t x = 0; x < w; ++x) {
    m.SetCellType(static_cast<CellType>((x * 7 + y * 3 + seed) % 32), x, y);
    m.SetLavaPossible(((x + 2 * y + seed) % 3) == 0, x, y);
  }
  Hash s; for (uint32_t t : tileWords(m)) s.add(t);
  return std::to_string(g.h) + " " + std::to_string(s.h);
}

// tile.remap <lgw> <h> <x> <y> <ops> : the tile mapping index of every tile is rewritten in place (Map::tiles is public) between
// queries of one coordinate; ops: k<idx> = set every tile's mapping index, q = query (x,y), p = query (0,0).
// A query reports  mappingIndex:tilesetIndex:imageIndex  (mapping j is tileset 3j+1, image 5j+2).
DRV_CMD(tile_remap, "tile.remap") {
  uint32_t lgw = static_cast<uint32_t>(toU64(need(a,0))), h = static_cast<uint32_t>(toU64(need(a,1)));
  std::size_t x = static_cast<std::size_t>(toU64(need(a,2))), y = static_cast<std::size_t>(toU64(need(a,3)));
  std::size_t n = (std::size_t(1) << lgw) * h;
  Map m = readMap(mapBytes(lgw, h, std::vector<uint32_t>(n, 0), 2048));
  std::string out;
  for (const auto& tok : splitOn(need(a,4), ',')) {
    if (tok.empty()) throw BadOp();
    if (tok[0] == 'k') { uint32_t k = static_cast<uint32_t>(toU64(tok.substr(1))); if (k > 2047) throw BadOp(); for (auto& t : m.tiles) t.tileMappingIndex = k; continue; }
    std::size_t qx = tok[0] == 'q' ? x : 0, qy = tok[0] == 'q' ? y : 0;
    if (tok[0] != 'q' && tok[0] != 'p') throw BadOp();
    if (!out.empty()) out += ",";
    out += std::to_string(m.GetTileMappingIndex(qx, qy)) + ":" + std::to_string(m.GetTilesetIndex(qx, qy)) + ":" + std::to_string(m.GetImageIndex(qx, qy));
  }
  return out;
}

// tile.setcell <word> <v:int> : one setter call on a single tile; reports the resulting word (and whether refused)
DRV_CMD(tile_setcell, "tile.setcell") {
  uint32_t word = static_cast<uint32_t>(toU64(need(a,0))); int v = static_cast<int>(toI64(need(a,1)));
  std::vector<uint32_t> tiles(32, 0); tiles[0] = word; tiles[1] = ~word;
  Map m = readMap(mapBytes(5, 1, tiles, 0));
  std::string r;
  try { m.SetCellType(static_cast<CellType>(v), 0, 0); r = "ok"; } catch (const std::exception&) { r = "err"; }
  auto t = tileWords(m);
  int got = static_cast<int>(m.GetCellType(0, 0));
  return r + " " + std::to_string(t[0]) + " " + std::to_string(t[1]) + " " + std::to_string(got);
}
// tile.setlava <word> <b>
DRV_CMD(tile_setlava, "tile.setlava") {
  uint32_t word = static_cast<uint32_t>(toU64(need(a,0))); bool b = toU64(need(a,1)) != 0;
  std::vector<uint32_t> tiles(32, 0); tiles[0] = word; tiles[1] = ~word;
  Map m = readMap(mapBytes(5, 1, tiles, 0));
  m.SetLavaPossible(b, 0, 0);
  auto t = tileWords(m);
  return std::to_string(t[0]) + " " + std::to_string(t[1]) + " " + (m.GetLavaPossible(0, 0) ? "1" : "0");
}
