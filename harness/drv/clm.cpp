// group clm (C03, C05 part clm, C20 part clm): CLM archives of WAV tracks through the public ClmFile API only
//
//   clm.pack <file>...            file = <relpath-hex>=<content>      content = <hex>[+<n zero bytes>]  (sparse tail)
//       CreateArchive from the files in the given order, reopen, list, stream and extract every member
//       -> err | ok-big <archive length> | ok <archive bytes> <count> [<name-hex>|<size>|<stream bytes>|<wav header hex>/<wav payload>]...
//   clm.open <content> <op>,<op>,...
//       open the bytes as a CLM archive (one long-lived object), run the calls in order; then run every call again on a
//       fresh object and report whether each outcome is the same
//       ops: c | n<i> | z<i> | s<i> | x<i> | i<name-hex> | h<name-hex> | S<name-hex> | X
//       -> err | err:alloc | <r1>,<r2>,... fresh=<0|1>
#include "drv.h"
#include "Archive/ClmFile.h"
#include "Stream/BidirectionalReader.h"
#include <algorithm>
#include <memory>
#include <fstream>
#include <sys/stat.h>
#include <unistd.h>
#include <fcntl.h>
#include <ftw.h>
#include <csignal>
#include <sys/wait.h>
using namespace drv;
using namespace OP2Utility;

namespace {
std::vector<std::string> splitOn(const std::string& s, char c) {
  std::vector<std::string> out; std::string cur;
  for (char ch : s) { if (ch == c) { out.push_back(cur); cur.clear(); } else cur.push_back(ch); }
  out.push_back(cur); return out;
}

struct Content { std::string bytes; uint64_t zeros = 0; };
Content contentArg(const std::string& s) {
  Content c; auto p = splitOn(s, '+');
  if (p.size() > 2) throw BadOp();
  c.bytes = hexDecode(p[0]);
  if (p.size() == 2) c.zeros = toU64(p[1]);
  return c;
}
void writeContent(const std::string& path, const Content& c) {
  writeFile(path, c.bytes);
  if (c.zeros) {
    if (truncate(path.c_str(), static_cast<off_t>(c.bytes.size() + c.zeros)) != 0) throw std::runtime_error("harness: truncate");
  }
}
void mkdirs(const std::string& base, const std::string& rel) {
  std::string cur = base;
  auto parts = splitOn(rel, '/');
  for (std::size_t i = 0; i + 1 < parts.size(); ++i) { cur += "/" + parts[i]; mkdir(cur.c_str(), 0700); }
}
bool safeRel(const std::string& rel) {
  if (rel.empty() || rel[0] == '/' || rel.back() == '/') return false;
  for (auto& p : splitOn(rel, '/')) if (p == ".." || p.find('\0') != std::string::npos) return false;
  return rel.find('\0') == std::string::npos;
}
uint64_t fileSize(const std::string& path) { struct stat st; if (stat(path.c_str(), &st)) throw std::runtime_error("harness: stat"); return static_cast<uint64_t>(st.st_size); }

// every byte the stream offers: Length() bytes through Read, then the stream must be dry
std::string drain(Stream::BidirectionalReader& r) {
  uint64_t n = r.Length();
  if (n > (uint64_t(1) << 28)) return "big:" + std::to_string(n);
  std::string buf(static_cast<std::size_t>(n), '\0');
  r.Read(&buf[0], buf.size());
  char extra[4];
  std::size_t more = r.ReadPartial(extra, sizeof extra);
  return showBytes(buf) + (more ? "!over" + std::to_string(more) : "");
}
std::string tryStream(Archive::ClmFile& clm, std::size_t i) {
  try { auto s = clm.OpenStream(i); return drain(*s); } catch (const std::bad_alloc&) { return "err:alloc"; } catch (const std::exception&) { return "err"; }
}
// an extracted WAV is reported as <everything before the payload, hex>/<payload>, the payload being its last `size` bytes
std::string splitWav(const std::string& w, uint64_t size) {
  if (w.size() < size) return "short/" + showBytes(w);
  return hexEncode(w.substr(0, w.size() - size)) + "/" + showBytes(w.substr(w.size() - size));
}
std::string tryExtract(Archive::ClmFile& clm, std::size_t i, const std::string& dir) {
  std::string out = dir + "/x" + std::to_string(i) + ".wav";
  try { clm.ExtractFile(i, out); return splitWav(readFile(out), clm.GetSize(i)); } catch (const std::bad_alloc&) { return "err:alloc"; } catch (const std::exception&) { return "err"; }
}
bool safeName(const std::string& n) { return !n.empty() && n != "." && n != ".." && n.find('/') == std::string::npos; }

std::string runOp(Archive::ClmFile& clm, const std::string& op, const std::string& dir) {
  if (op.empty()) throw BadOp();
  char k = op[0]; std::string rest = op.substr(1);
  try {
    switch (k) {
      case 'c': return std::to_string(clm.GetCount());
      case 'n': return hexEncode(clm.GetName(static_cast<std::size_t>(toU64(rest))));
      case 'z': return std::to_string(clm.GetSize(static_cast<std::size_t>(toU64(rest))));
      case 's': { auto s = clm.OpenStream(static_cast<std::size_t>(toU64(rest))); return drain(*s); }
      case 'x': { std::string d = freshDir(); std::string out = d + "/x.wav"; std::size_t i = static_cast<std::size_t>(toU64(rest)); clm.ExtractFile(i, out); return splitWav(readFile(out), clm.GetSize(i)); }
      case 'i': return std::to_string(clm.GetIndex(hexDecode(rest)));
      case 'h': return clm.Contains(hexDecode(rest)) ? "1" : "0";
      case 'S': { Archive::ArchiveFile& base = clm; auto s = base.OpenStream(hexDecode(rest)); return drain(*s); }
      case 'X': {
        std::vector<std::string> names;
        for (std::size_t i = 0; i < clm.GetCount(); ++i) { names.push_back(clm.GetName(i)); if (!safeName(names.back())) return "skip"; }
        std::string d = freshDir();
        clm.ExtractAllFiles(d);
        // what is on disk afterwards, by name (a later member overwrites an earlier one of the same name)
        std::vector<std::string> uniq = names; std::sort(uniq.begin(), uniq.end()); uniq.erase(std::unique(uniq.begin(), uniq.end()), uniq.end());
        std::string out = "all";
        for (auto& n : uniq) out += ";" + hexEncode(n) + "=" + (exists(d + "/" + n) ? showBytes(readFile(d + "/" + n)) : std::string("missing"));
        return out;
      }
      default: throw BadOp();
    }
  }
  catch (const BadOp&) { throw; }
  catch (const std::bad_alloc&) { return "err:alloc"; }
  catch (const std::exception&) { return "err"; }
  (void)dir;
}
}

namespace {
// writes the files under <dir>/in, calls CreateArchive in the given order, returns the archive path
std::string packFiles(const Args& a, const std::string& dir) {
  mkdir((dir + "/in").c_str(), 0700); mkdir((dir + "/out").c_str(), 0700); mkdir((dir + "/x").c_str(), 0700);
  std::vector<std::string> paths;
  for (auto& arg : a) {
    auto eq = arg.find('=');
    if (eq == std::string::npos) throw BadOp();
    std::string rel = hexDecode(arg.substr(0, eq));
    if (!safeRel(rel)) throw BadOp();
    Content c = contentArg(arg.substr(eq + 1));
    mkdirs(dir + "/in", rel);
    std::string p = dir + "/in/" + rel;
    if (exists(p)) throw BadOp();
    writeContent(p, c);
    paths.push_back(p);
  }
  std::string arc = dir + "/out/out.clm";
  Archive::ClmFile::CreateArchive(arc, paths);
  return arc;
}
}

namespace {
std::string packReport(const Args& a, const std::string& dir);
int rmOne(const char* p, const struct stat*, int, struct FTW*) { return remove(p); }
}

// clm.packbig <seconds> <file>... : clm.pack in a child of its own with its own watchdog; whatever the child wrote
// (possibly gigabytes) is deleted before the command returns
DRV_CMD(clm_packbig, "clm.packbig") {
  unsigned secs = static_cast<unsigned>(toU64(need(a, 0)));
  Args files(a.begin() + 1, a.end());
  std::string dir = freshDir();
  int fds[2]; if (pipe(fds)) return "harness-error";
  fflush(stdout);
  pid_t pid = fork();
  if (pid < 0) return "harness-error";
  if (pid == 0) {
    close(fds[0]);
    alarm(secs);
    std::string r;
    try { r = packReport(files, dir); }
    catch (const BadOp&) { r = "bad-op"; }
    catch (const std::bad_alloc&) { r = "err:alloc"; }
    catch (const std::exception&) { r = "err"; }
    r.push_back('\n');
    ssize_t w = write(fds[1], r.data(), r.size()); (void)w;
    _exit(0);
  }
  close(fds[1]);
  std::string out; char buf[4096]; ssize_t n;
  while ((n = read(fds[0], buf, sizeof buf)) > 0) out.append(buf, static_cast<std::size_t>(n));
  close(fds[0]);
  int status = 0; waitpid(pid, &status, 0);
  nftw(dir.c_str(), rmOne, 64, FTW_DEPTH | FTW_PHYS);
  if (WIFEXITED(status) && WEXITSTATUS(status) == 0 && !out.empty() && out.back() == '\n') { out.pop_back(); if (out == "bad-op") throw BadOp(); return out; }
  if (WIFSIGNALED(status) && WTERMSIG(status) == SIGALRM) return "hang";
  return "fault:child";
}

DRV_CMD(clm_pack, "clm.pack") {
  return packReport(a, freshDir());
}

namespace {
std::string packReport(const Args& a, const std::string& dir) {
  std::string arc = packFiles(a, dir);
  uint64_t len = fileSize(arc);
  if (len > (uint64_t(1) << 26)) return "ok-big " + std::to_string(len);
  std::string out = "ok " + showBytes(readFile(arc));
  Archive::ClmFile clm(arc);
  out += " " + std::to_string(clm.GetCount());
  for (std::size_t i = 0; i < clm.GetCount(); ++i) {
    out += " " + hexEncode(clm.GetName(i)) + "|" + std::to_string(clm.GetSize(i)) + "|" + tryStream(clm, i) + "|" + tryExtract(clm, i, dir + "/x");
  }
  return out;
}
}

// clm.packlist <file>... : as clm.pack, but reports only the listing and the streams: ok <count> [<name-hex>|<size>|<stream bytes>]...
DRV_CMD(clm_packlist, "clm.packlist") {
  std::string dir = freshDir();
  std::string arc = packFiles(a, dir);
  Archive::ClmFile clm(arc);
  std::string out = "ok " + std::to_string(clm.GetCount());
  for (std::size_t i = 0; i < clm.GetCount(); ++i)
    out += " " + hexEncode(clm.GetName(i)) + "|" + std::to_string(clm.GetSize(i)) + "|" + tryStream(clm, i);
  return out;
}

DRV_CMD(clm_open, "clm.open") {
  Content c = contentArg(need(a, 0));
  auto ops = splitOn(need(a, 1), ',');
  std::string dir = freshDir();
  std::string arc = dir + "/a.clm";
  writeContent(arc, c);
  std::vector<std::string> longLived;
  {
    Archive::ClmFile clm(arc);
    for (auto& op : ops) longLived.push_back(runOp(clm, op, dir));
  }
  bool same = true;
  for (std::size_t i = 0; i < ops.size(); ++i) {
    Archive::ClmFile clm(arc);
    if (runOp(clm, ops[i], dir) != longLived[i]) same = false;
  }
  // the archive file itself must be untouched by any call
  Content after; after.bytes = c.zeros ? std::string() : readFile(arc);
  if (!c.zeros && after.bytes != c.bytes) same = false;
  std::string out;
  for (std::size_t i = 0; i < longLived.size(); ++i) { if (i) out += ","; out += longLived[i]; }
  return out + " fresh=" + (same ? "1" : "0");
}
