#!/usr/bin/env python3
"""tools/runall.py [quick|thorough] [IDs...] — runs the registered checks one after the other against /repo, prints a summary"""
import json, os, subprocess, sys, time
VERIF = os.path.dirname(os.path.dirname(os.path.abspath(__file__)))
tier = sys.argv[1] if len(sys.argv) > 1 else "quick"
m = json.load(open(os.path.join(VERIF, "MANIFEST.json")))
ids = sys.argv[2:] or [c["property_id"] for c in m["checks"]]
bad = 0
for pid in ids:
    t = time.time()
    r = subprocess.run(["./check.py", pid, "--tier", tier], cwd=VERIF, capture_output=True, text=True, env=dict(os.environ, VERIF_SEED=os.environ.get("VERIF_SEED", "0")))
    tail = r.stderr.strip().split("\n")[-1] if r.stderr.strip() else ""
    print(f"{pid} rc={r.returncode} {time.time()-t:.0f}s {tail}", flush=True)
    for l in r.stdout.split("\n"):
        if l.startswith(("VIOLATION", "KNOWN-FINDING")): print("   ", l)
    bad += r.returncode != 0
sys.exit(1 if bad else 0)
