#!/usr/bin/env python3
"""tools/changetest.py <breaking|harmless> <PROP> <dir with patch.diff [demo.cpp run_demo.sh] meta.json> <name>

Runs the quick checks against a source tree with the change applied and files the outcome under /verif/seeded/<name>/.
The tree is $OP2_REPO when set (a scratch worktree of /repo: the patch is applied there and reverted afterwards), else /repo
itself (applied, checked, `git checkout -- .`).  Evidence of these runs goes to a temporary directory, never to evidence/.

breaking: confirms the change first (141 tests pass with it, its demo fails with it and passes without), then expects the
          property's check to exit 1 with a VIOLATION line.
harmless: a behaviour-preserving edit; runs the check of <PROP> and of every property whose anchored files the patch touches and
          expects every one of them to exit 0 without a VIOLATION line."""
import json, os, shutil, subprocess, sys, tempfile
kind, prop, src, name = sys.argv[1:5]
VERIF = os.path.dirname(os.path.dirname(os.path.abspath(__file__)))
TREE = os.environ.get("OP2_REPO", "/repo")
patch = os.path.join(src, "patch.diff")
def sh(cmd, **kw): return subprocess.run(cmd, shell=True, capture_output=True, text=True, **kw)

def touched():
    out = set()
    for l in open(patch):
        if l.startswith("+++ b/") or l.startswith("--- a/"): out.add(l[6:].strip())
    return out

def props_for(files):
    ps = []
    for l in open(os.path.join(VERIF, "properties.jsonl")):
        p = json.loads(l)
        anchors = set(p.get("anchors", {}).get("files", []))
        # a header next to an anchored .cpp counts (Writer.h ~ Writer.cpp …): compare without extension
        stem = lambda f: os.path.splitext(f)[0]
        if {stem(f) for f in files} & {stem(a) for a in anchors}: ps.append(p["id"])
    return ps

res = {"property": prop, "kind": kind, "files": sorted(touched())}
if kind == "breaking":
    wt = tempfile.mkdtemp(prefix="seedchk."); os.rmdir(wt)
    assert sh(f"git -C /repo worktree add -q --detach {wt} HEAD").returncode == 0
    try:
        res["applies"] = sh(f"git -C {wt} apply {patch}").returncode == 0
        if res["applies"]:
            t = sh(f"cd {wt} && make -k -j8 check 2>&1 | tail -3")
            res["suite_with_change"] = t.stdout.strip().split("\n")[-1]
            d1 = sh(f"bash {src}/run_demo.sh {wt}")
            res["demo_with_change_exit"] = d1.returncode; res["demo_output"] = (d1.stdout + d1.stderr)[-400:]
            sh(f"git -C {wt} checkout -- .")
            res["demo_without_change_exit"] = sh(f"bash {src}/run_demo.sh {wt}").returncode
    finally:
        sh(f"git -C /repo worktree remove --force {wt}")
    res["confirmed"] = bool(res.get("applies") and "PASSED" in res.get("suite_with_change", "") and "141" in res.get("suite_with_change", "")
                            and res.get("demo_with_change_exit") not in (0, None) and res.get("demo_without_change_exit") == 0)
    run = [prop] if res["confirmed"] else []
else:
    run = sorted(set([prop] + props_for(touched())))

if run:
    assert sh(f"git -C {TREE} status --porcelain").stdout.strip() == "", f"{TREE} not clean"
    assert sh(f"git -C {TREE} apply {patch}").returncode == 0, "patch does not apply"
    res["checks"] = {}
    try:
        for p in run:
            c = sh(f"cd {VERIF} && VERIF_EVIDENCE_DIR=$(mktemp -d) ./check.py {p} --tier quick", timeout=3000)
            viol = [l for l in c.stdout.split("\n") if l.startswith("VIOLATION")][:6]
            r = {"exit": c.returncode, "violations": viol, "tail": c.stderr.strip().split("\n")[-1:]}
            if viol:
                rp = viol[0].split("replay=")[1].split()[0]
                try:
                    d = json.load(open(rp)); r["first_replay"] = {k: d.get(k) for k in ("kind", "why", "broken", "correspondence")}
                    r["first_replay"]["case"] = (d.get("cases") or [{}])[0].get("line", "")[:200]
                except Exception as e: r["first_replay"] = str(e)
            res["checks"][p] = r
    finally:
        sh(f"git -C {TREE} checkout -- .")
    if kind == "breaking":
        r = res["checks"][prop]
        res.update({"check_exit": r["exit"], "check_violations": r["violations"], "check_tail": r["tail"], "first_replay": r.get("first_replay")})
        res["detected"] = r["exit"] == 1 and bool(r["violations"])
        res["first_run_detected"] = res["detected"]
    else:
        res["silent"] = all(r["exit"] == 0 and not r["violations"] for r in res["checks"].values())
        res["first_run_silent"] = res["silent"]
dst = os.path.join(VERIF, "seeded", name)
os.makedirs(dst, exist_ok=True)
for f in ("patch.diff", "demo.cpp", "run_demo.sh"):
    if os.path.exists(os.path.join(src, f)): shutil.copy(os.path.join(src, f), dst)
meta = {}
try: meta = json.load(open(os.path.join(src, "meta.json")))
except Exception: pass
meta["verification"] = res
json.dump(meta, open(os.path.join(dst, "meta.json"), "w"), indent=1)
brief = {k: res.get(k) for k in ("kind", "confirmed", "detected", "silent")}
brief["checks"] = {p: (r["exit"], r["violations"][:1], r["tail"], str(r.get("first_replay"))[:300]) for p, r in res.get("checks", {}).items()}
print(name, json.dumps(brief))
