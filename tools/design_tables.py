#!/usr/bin/env python3
"""tools/design_tables.py — rewrite the generated tables of DESIGN.md §13 (between `<!-- BEGIN x -->` / `<!-- END x -->`
markers) from evidence/*.json and seeded/*/meta.json."""
import glob, json, os, re
V = os.path.dirname(os.path.dirname(os.path.abspath(__file__)))

def obligations():
    rows = ["| property | theorems audited (axioms ⊆ propext, Classical.choice, Quot.sound) | quick cases | wall (s) |", "|---|---|---|---|"]
    for i in range(1, 21):
        p = f"C{i:02d}"
        try: e = json.load(open(f"{V}/evidence/{p}.json"))
        except Exception: continue
        cov = e.get("coverage", {})
        rows.append(f"| {p} | {cov.get('discharged')}/{cov.get('obligations')} | {cov.get('evaluations', '?')} | {e.get('wall_s', '?')} |")
    return "\n".join(rows)

def clip(s, n):
    s = " ".join(str(s).split()).replace("|", "/")
    return s if len(s) <= n else s[:n - 1] + "…"

def seeded():
    rows = ["| id | change (summary by its author) | needs | first run | now reported by `./check.py <P> --tier quick` as |", "|---|---|---|---|---|"]
    def key(d): p, k = os.path.basename(d).split("-"); return (p, int(k))
    for d in sorted((x for x in glob.glob(f"{V}/seeded/C*-*") if os.path.basename(x).split("-")[1].isdigit()), key=key):
        try: m = json.load(open(d + "/meta.json"))
        except Exception: continue
        v = m.get("verification", {})
        first = v.get("first_run_detected", v.get("detected"))
        fr = v.get("first_replay") or {}
        how = "not reported" if not v.get("detected") else ("input: " + clip(fr.get("why") or "", 150) if isinstance(fr, dict) and fr.get("kind") == "input"
              else clip((v.get("check_violations") or ["?"])[0].split("replay=")[-1].split(" ", 1)[-1] if " " in (v.get("check_violations") or [""])[0].split("replay=")[-1] else "violation", 60)
                   + (" " + clip(fr.get("broken") or fr.get("correspondence") or "", 90) if isinstance(fr, dict) else ""))
        rows.append(f"| {os.path.basename(d)} | {clip(m.get('summary', ''), 230)} | {clip(m.get('needs', ''), 200)} | {'detected' if first else 'missed'} | {how} |")
    return "\n".join(rows)

def harmless():
    rows = ["| id | edit (summary by its author) | checks run | first run | now |", "|---|---|---|---|---|"]
    for d in sorted(glob.glob(f"{V}/seeded/C*-h*")):
        try: m = json.load(open(d + "/meta.json"))
        except Exception: continue
        v = m.get("verification", {})
        first = v.get("first_run_silent", v.get("silent"))
        alarms = [f"{p}: {clip(((r.get('first_replay') or {}).get('broken') or (r.get('first_replay') or {}).get('correspondence') or (r.get('first_replay') or {}).get('why') or 'violation'), 80)}"
                  for p, r in v.get("checks", {}).items() if r.get("exit") != 0 or r.get("violations")]
        first_alarms = v.get("first_run_alarms") or ([] if first else alarms)
        rows.append(f"| {os.path.basename(d)} | {clip(m.get('summary', ''), 260)} | {' '.join(sorted(v.get('checks', {})))} | "
                    f"{'silent' if first else 'alarm: ' + clip('; '.join(first_alarms), 160)} | {'silent' if v.get('silent') else 'alarm: ' + clip('; '.join(alarms), 160)} |")
    return "\n".join(rows)

def main():
    p = f"{V}/DESIGN.md"; s = open(p).read()
    for name, fn in (("obligations", obligations), ("seeded", seeded), ("harmless", harmless)):
        pat = re.compile(rf"(<!-- BEGIN {name} -->\n).*?(\n<!-- END {name} -->)", re.S)
        assert pat.search(s), name
        s = pat.sub(lambda m: m.group(1) + fn() + m.group(2), s)
    open(p, "w").write(s)

if __name__ == "__main__": main()
