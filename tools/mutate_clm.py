#!/usr/bin/env python3
"""mutation self-test for the clm family: apply one change to the repo worktree, run the checks, revert"""
import os, subprocess, sys, json, re, time
REPO = os.environ.get("OP2_REPO", "/tmp/b-clm/repo")   # a scratch worktree, never /repo itself: the script edits and reverts it with git checkout
VERIF = os.path.dirname(os.path.dirname(os.path.abspath(__file__)))
env = dict(os.environ, OP2_REPO=REPO)

def sub(path, old, new, count=1):
    p = os.path.join(REPO, path); s = open(p).read()
    assert old in s, (path, old)
    open(p, "w").write(s.replace(old, new, count))

MUT = {
 # --- C03
 "M1-copy-to-EOF(D8)": (["C03"], lambda: sub("src/Archive/ClmFile.cpp",
    "auto audioData = filesToPackReaders[i]->Slice(indexEntries[i].dataLength);\n\t\t\tclmFileWriter.Write(audioData);",
    "clmFileWriter.Write(*filesToPackReaders[i]);")),
 "M2-index-offset-from-header-only": (["C03"], lambda: sub("src/Archive/ClmFile.cpp",
    "uint64_t offset = headerSize + names.size() * sizeof(IndexEntry);", "uint64_t offset = headerSize;")),
 "M3-skip-format-comparison": (["C03"], lambda: sub("src/Archive/ClmFile.cpp",
    "CompareWaveFormats(waveFormats, filesToPack);", "// CompareWaveFormats(waveFormats, filesToPack);")),
 "M4-extracted-riff-size-without-data-header": (["C03"], lambda: sub("src/Archive/WaveFile.cpp",
    "sizeof(waveHeader.riffHeader.waveTag) + sizeof(FormatChunk) + sizeof(ChunkHeader) + dataLength", "sizeof(waveHeader.riffHeader.waveTag) + sizeof(FormatChunk) + dataLength")),
 "M5-cbSize-not-cleared-at-intake": (["C03"], lambda: sub("src/Archive/ClmFile.cpp", "waveFormats[i].cbSize = 0;", "")),
 "M6-name-field-strncpy-7": (["C03"], lambda: sub("src/Archive/ClmFile.cpp", "names[i].data(), sizeof(IndexEntry::filename));", "names[i].data(), sizeof(IndexEntry::filename) - 1);")),
 "M7-header-count-plus-one": (["C03"], lambda: sub("src/Archive/ClmFile.cpp", "ClmHeader::MakeHeader(waveFormat, static_cast<uint32_t>(names.size()));",
    "ClmHeader::MakeHeader(waveFormat, static_cast<uint32_t>(names.size()));\n\t\theader.unknown[4] = 2;")),
 # --- C05
 "M8-32bit-cursor(D9)": (["C05_clm"], lambda: sub("src/Archive/ClmFile.cpp", "uint64_t currentPosition = sizeof(RiffHeader);", "uint32_t currentPosition = sizeof(RiffHeader);")),
 "M9-drop-VerifyIndexInBounds-in-GetSize+OpenStream": (["C05_clm"], lambda: (
    sub("src/Archive/ClmFile.cpp", "uint32_t ClmFile::GetSize(std::size_t index)\n\t{\n\t\tVerifyIndexInBounds(index);", "uint32_t ClmFile::GetSize(std::size_t index)\n\t{"),
    sub("src/Archive/ClmFile.cpp", "OpenStream(std::size_t index)\n\t{\n\t\tVerifyIndexInBounds(index);", "OpenStream(std::size_t index)\n\t{"))),
 "M10-drop-SliceReader-end-check": (["C05_clm"], lambda: sub("src/Stream/SliceReader.h",
    "if (startingOffset + sliceLength > wrappedStream.Length()) {", "if (false) {")),
 "M11-FindChunk-no-minimum-size-check": (["C05_clm"], lambda: sub("src/Archive/ClmFile.cpp",
    "if (fileSize < sizeof(RiffHeader) + sizeof(ChunkHeader)) {", "if (false) {")),
 "M12-index-read-as-count+1-entries": (["C05_clm"], lambda: sub("src/Archive/ClmFile.cpp",
    "indexEntries = std::vector<IndexEntry>(m_Count);\n\t\tclmFileReader.Read(indexEntries);",
    "indexEntries = std::vector<IndexEntry>(m_Count);\n\t\tclmFileReader.Read(indexEntries.data(), (m_Count + 1) * sizeof(IndexEntry));")),
 # --- C20
 "M13-limit-UINT64_MAX": (["C20_clm"], lambda: sub("src/Archive/ClmFile.cpp", "indexEntries[i].dataLength > UINT32_MAX", "indexEntries[i].dataLength > UINT64_MAX")),
 "M14-drop-8-char-check": (["C20_clm", "C03"], lambda: sub("src/Archive/ClmFile.cpp", "if (name.size() > 8) {", "if (false) {")),
 "M15-name-limit-9": (["C20_clm"], lambda: sub("src/Archive/ClmFile.cpp", "if (name.size() > 8) {", "if (name.size() > 9) {")),
 # --- harmless
 "H1-message-texts": (["C03", "C05_clm", "C20_clm"], lambda: (
    sub("src/Archive/ClmFile.cpp", "Index Entry offset is too large to create CLM file", "index does not fit"),
    sub("src/Archive/ClmFile.cpp", "Unable to find the tag ", "no chunk "))),
 "H2-copy-chunk-4KiB": (["C03"], lambda: sub("src/Stream/Writer.h", "DefaultCopyChunkSize = 0x00020000", "DefaultCopyChunkSize = 0x00001000")),
 "H3-reorder-checks-name-length-before-format": (["C03", "C20_clm"], lambda: (
    sub("src/Archive/ClmFile.cpp", "\t\t// Check if all wave formats are the same\n\t\tCompareWaveFormats(waveFormats, filesToPack);\n", ""),
    sub("src/Archive/ClmFile.cpp", "\t\t// Allowing duplicate names when packing", "\t\tCompareWaveFormats(waveFormats, filesToPack);\n\t\t// Allowing duplicate names when packing"))),
 "H4-stable_sort": (["C03"], lambda: sub("src/Archive/ClmFile.cpp", "std::sort(filesToPack.begin()", "std::stable_sort(filesToPack.begin()")),
 "H5-cursor-size_t": (["C05_clm"], lambda: sub("src/Archive/ClmFile.cpp", "uint64_t currentPosition = sizeof(RiffHeader);", "std::size_t currentPosition = sizeof(RiffHeader);")),
 "H6-loop-rewritten-as-while": (["C05_clm", "C03"], lambda: sub("src/Archive/ClmFile.cpp",
    "\t\t\tcurrentPosition += header.length + sizeof(ChunkHeader);", "\t\t\tcurrentPosition = currentPosition + sizeof(ChunkHeader) + header.length;")),
}

def revert(): subprocess.run(["git", "-C", REPO, "checkout", "--", "."], check=True)

def run(check):
    t = time.time()
    p = subprocess.run(["./check.py", check, "--tier", "quick"], cwd=VERIF, env=env, capture_output=True, text=True)
    viol = [l for l in p.stdout.split("\n") if l.startswith("VIOLATION")]
    detail = ""
    if viol:
        m = re.search(r"replay=(\S+)", viol[0])
        try:
            d = json.load(open(m.group(1)))
            detail = d.get("kind", "") + ": " + (d.get("why") or str(d.get("broken") or d.get("correspondence")))[:160]
            if d.get("cases"): detail += " | " + d["cases"][0]["line"][:90]
        except Exception as e: detail = str(e)
    last = [l for l in p.stderr.split("\n") if l.startswith("[verif] C")][-1:]
    return p.returncode, len(viol), (" no-failing-input-found" in (viol[0] if viol else "")), detail, round(time.time() - t), last

only = sys.argv[1:]
res = []
for name, (checks, fn) in MUT.items():
    if only and not any(name.startswith(o) for o in only): continue
    revert()
    try:
        fn()
        # must still compile and pass the suite? (suite run is done separately for the breaking ones)
        for c in checks:
            rc, nv, nofail, detail, secs, last = run(c)
            line = f"{name:48s} {c:8s} rc={rc} violations={nv}{' (no-failing-input)' if nofail else ''} {secs}s :: {detail}"
            print(line, flush=True); res.append(line)
    finally:
        revert()
open(os.path.join(os.environ.get("TMPDIR", "/tmp"), "clm_mutation_results.txt"), "a").write("\n".join(res) + "\n")
