#!/usr/bin/env python3
"""tools/seedtest.py <PROP> <dir with patch.diff demo.cpp run_demo.sh meta.json> <name>
Confirms a seeded breaking change (suite passes, demo fails with / passes without), runs the property's quick check
against /repo with the change applied, reverts, and files everything under /verif/seeded/<name>/."""
import json, os, shutil, subprocess, sys, tempfile
prop, src, name = sys.argv[1], sys.argv[2], sys.argv[3]
VERIF = os.path.dirname(os.path.dirname(os.path.abspath(__file__)))
patch = os.path.join(src, "patch.diff")
def sh(cmd, **kw): return subprocess.run(cmd, shell=True, capture_output=True, text=True, **kw)
wt = tempfile.mkdtemp(prefix="seedchk.")
os.rmdir(wt)
assert sh(f"git -C /repo worktree add -q --detach {wt} HEAD").returncode == 0
res = {"property": prop}
try:
    a = sh(f"git -C {wt} apply {patch}")
    res["applies"] = a.returncode == 0
    if res["applies"]:
        t = sh(f"cd {wt} && make -k -j8 check 2>&1 | tail -3")
        res["suite_with_change"] = t.stdout.strip().split("\n")[-1]
        d1 = sh(f"bash {src}/run_demo.sh {wt}")
        res["demo_with_change_exit"] = d1.returncode
        res["demo_output"] = (d1.stdout + d1.stderr)[-400:]
        sh(f"git -C {wt} checkout -- .")
        d0 = sh(f"bash {src}/run_demo.sh {wt}")
        res["demo_without_change_exit"] = d0.returncode
finally:
    sh(f"git -C /repo worktree remove --force {wt}")
res["confirmed"] = bool(res.get("applies") and "PASSED" in res.get("suite_with_change", "") and "141" in res.get("suite_with_change", "")
                        and res.get("demo_with_change_exit") not in (0, None) and res.get("demo_without_change_exit") == 0)
if res["confirmed"]:
    assert sh("git -C /repo status --porcelain").stdout.strip() == "", "/repo not clean"
    assert sh(f"git -C /repo apply {patch}").returncode == 0
    try:
        c = sh(f"cd {VERIF} && VERIF_EVIDENCE_DIR=$(mktemp -d) ./check.py {prop} --tier quick", timeout=3000)
        res["check_exit"] = c.returncode
        res["check_violations"] = [l for l in c.stdout.split("\n") if l.startswith("VIOLATION")][:6]
        res["check_tail"] = c.stderr.strip().split("\n")[-1:]
        # keep one replay summary
        if res["check_violations"]:
            rp = res["check_violations"][0].split("replay=")[1].split()[0]
            try:
                d = json.load(open(rp)); res["first_replay"] = {k: d.get(k) for k in ("kind", "why", "broken", "correspondence")}
                res["first_replay"]["case"] = (d.get("cases") or [{}])[0].get("line", "")[:200]
            except Exception as e: res["first_replay"] = str(e)
    finally:
        sh("git -C /repo checkout -- .")
    res["detected"] = res.get("check_exit") == 1 and bool(res["check_violations"])
dst = os.path.join(VERIF, "seeded", name)
os.makedirs(dst, exist_ok=True)
for f in ("patch.diff", "demo.cpp", "run_demo.sh"):
    if os.path.exists(os.path.join(src, f)): shutil.copy(os.path.join(src, f), dst)
meta = {}
try: meta = json.load(open(os.path.join(src, "meta.json")))
except Exception: pass
meta["verification"] = res
json.dump(meta, open(os.path.join(dst, "meta.json"), "w"), indent=1)
print(json.dumps(res, indent=1))
