#!/usr/bin/env python3
"""tools/changesuite.py [-j N] [--only breaking|harmless] [NAME ...]

Regression suite of the machinery itself: re-runs the quick checks against every recorded change under seeded/ —
breaking changes (seeded/<P>-<k>) must be reported (exit 1 + VIOLATION), harmless edits (seeded/<P>-h<k>) must leave every
check whose anchored files they touch silent (exit 0).  Nothing touches /repo or /verif's own build: N private clones of /verif
and N scratch worktrees of /repo are made under a temporary directory, the changes are distributed over them, results are
printed (and written to seeded/suite_last.json), and everything is removed again.

Use it after changing a generator, an oracle, the translator or a bridging lemma: a new false alarm on a harmless edit or a
lost detection of a breaking change shows here."""
import glob, json, os, shutil, subprocess, sys, tempfile, threading, time
VERIF = os.path.dirname(os.path.dirname(os.path.abspath(__file__)))

def sh(cmd, **kw): return subprocess.run(cmd, shell=True, capture_output=True, text=True, **kw)

def touched(patch):
    out = set()
    for l in open(patch):
        if l.startswith("+++ b/") or l.startswith("--- a/"): out.add(l[6:].strip())
    return out

def props_for(files):
    stem = lambda f: os.path.splitext(f)[0]
    ps = []
    for l in open(os.path.join(VERIF, "properties.jsonl")):
        p = json.loads(l)
        if {stem(f) for f in files} & {stem(a) for a in p.get("anchors", {}).get("files", [])}: ps.append(p["id"])
    return ps

def run_change(clone, repo, name):
    d = os.path.join(VERIF, "seeded", name); patch = os.path.join(d, "patch.diff")
    prop = name.split("-")[0]; harmless = name.split("-")[1].startswith("h")
    run = sorted(set([prop] + props_for(touched(patch)))) if harmless else [prop]
    assert sh(f"git -C {repo} checkout -q -- . && git -C {repo} apply {patch}").returncode == 0, name
    res = {}
    try:
        for p in run:
            c = sh(f"cd {clone} && OP2_REPO={repo} VERIF_EVIDENCE_DIR=$(mktemp -d) ./check.py {p} --tier quick", timeout=3000)
            viol = [l for l in c.stdout.split("\n") if l.startswith("VIOLATION")]
            res[p] = {"exit": c.returncode, "violations": len(viol), "no_input": sum("no-failing-input-found" in v for v in viol),
                      "tail": c.stderr.strip().split("\n")[-1:]}
    finally:
        sh(f"git -C {repo} checkout -q -- .")
    if harmless: ok = all(r["exit"] == 0 and not r["violations"] for r in res.values())
    else: ok = res[prop]["exit"] == 1 and res[prop]["violations"] > 0
    return {"name": name, "kind": "harmless" if harmless else "breaking", "ok": ok,
            "with_input": (not harmless) and res[prop]["violations"] > res[prop]["no_input"], "checks": res}

def main():
    args = sys.argv[1:]; jobs = 4; only = None
    if "-j" in args: i = args.index("-j"); jobs = int(args[i + 1]); del args[i:i + 2]
    if "--only" in args: i = args.index("--only"); only = args[i + 1]; del args[i:i + 2]
    names = args or sorted(os.path.basename(d) for d in glob.glob(os.path.join(VERIF, "seeded", "C??-*")) if os.path.exists(d + "/patch.diff"))
    if only: names = [n for n in names if n.split("-")[1].startswith("h") == (only == "harmless")]
    root = tempfile.mkdtemp(prefix="changesuite.")
    workers = []
    try:
        for k in range(jobs):
            clone = f"{root}/verif{k}"; repo = f"{root}/repo{k}"
            assert sh(f"git clone -q {VERIF} {clone}").returncode == 0
            for sub in ("lean/.lake", "build"):
                if os.path.exists(os.path.join(VERIF, sub)): sh(f"mkdir -p {clone}/{os.path.dirname(sub)} && cp -r {VERIF}/{sub} {clone}/{sub}")
            # the clone must carry the working tree's uncommitted edits too
            sh(f"cd {VERIF} && git diff HEAD --binary > {root}/wt.diff; cd {clone} && git apply --allow-empty {root}/wt.diff")
            assert sh(f"git -C /repo worktree add -q --detach {repo} HEAD").returncode == 0
            workers.append((clone, repo))
        queue = list(names); results = []; lock = threading.Lock()
        def work(clone, repo):
            while True:
                with lock:
                    if not queue: return
                    n = queue.pop(0)
                t = time.time()
                try: r = run_change(clone, repo, n)
                except Exception as e: r = {"name": n, "ok": False, "error": f"{type(e).__name__}: {e}"}
                r["seconds"] = round(time.time() - t)
                with lock:
                    results.append(r)
                    bad = "" if r["ok"] else "   <<<<<< " + json.dumps({p: (c["exit"], c["tail"]) for p, c in r.get("checks", {}).items() if c["exit"] != (0 if r.get("kind") == "harmless" else 1)} or r.get("error"))
                    print(f"{r['name']:8s} {r.get('kind', '?'):8s} {'ok' if r['ok'] else 'FAIL'} {'' if r.get('kind') != 'breaking' else ('input' if r.get('with_input') else 'no-input')} {r['seconds']}s{bad}", flush=True)
        ts = [threading.Thread(target=work, args=w) for w in workers]
        for t in ts: t.start()
        for t in ts: t.join()
    finally:
        for k in range(jobs): sh(f"git -C /repo worktree remove --force {root}/repo{k}")
        sh("git -C /repo worktree prune"); shutil.rmtree(root, ignore_errors=True)
    results.sort(key=lambda r: r["name"])
    if args:    # a partial run updates the entries it re-ran and keeps the others
        try: old = {r["name"]: r for r in json.load(open(os.path.join(VERIF, "seeded", "suite_last.json")))}
        except Exception: old = {}
        old.update({r["name"]: r for r in results})
        json.dump(sorted(old.values(), key=lambda r: r["name"]), open(os.path.join(VERIF, "seeded", "suite_last.json"), "w"), indent=1)
    else:
        json.dump(results, open(os.path.join(VERIF, "seeded", "suite_last.json"), "w"), indent=1)
    b = [r for r in results if r.get("kind") == "breaking"]; h = [r for r in results if r.get("kind") == "harmless"]
    print(f"breaking: {sum(r['ok'] for r in b)}/{len(b)} reported ({sum(bool(r.get('with_input')) for r in b)} with an input); "
          f"harmless: {sum(r['ok'] for r in h)}/{len(h)} silent")
    sys.exit(0 if all(r["ok"] for r in results) else 1)

if __name__ == "__main__": main()
