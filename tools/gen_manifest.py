#!/usr/bin/env python3
"""Regenerates MANIFEST.json: a check entry for every property that has vlib/props/cNN.py and a LEVEL text below;
everything else goes to not_applicable with its reason.  Existing entries' texts are kept unless overridden here."""
import json, os, sys
VERIF = os.path.dirname(os.path.dirname(os.path.abspath(__file__)))
old = json.load(open(os.path.join(VERIF, "MANIFEST.json")))
old_checks = {c["property_id"]: c for c in old["checks"]}
NOTE = old_checks["C12"]["level_note"]
TECH = "Lean 4 theorem about an executable model + regenerated facts + differential correspondence"

LEVEL = {
 "C12": "refinement theorems in Lean 4: MemoryReader (u64 guards) and SliceReader<W> over any in-bounds-correct W equal the abstract N-arithmetic "
        "reader on every operation, every 64-bit argument and every finite history, nested to any depth; typed-helper size theorems; size-prefixed and NUL-terminated reads over every refining reader and over a live object of any backend; atomic failure on every implementation model from any state; the guards, "
        "cursor updates and memcpy extents of MemoryReader and SliceReader<FileReader> are re-translated from the clang AST on every run and "
        "proved equal to the model's on all 64-bit values (C12_gen_*); exhaustive short histories + random long ones on the real classes under "
        "ASan/UBSan compared with the compiled model and with an independent Python oracle; ReadNullTerminatedString(maxCount) proved against "
        "its description (NUL-free prefix, terminator consumed, never more than maxCount, error when the data ends first) for MemoryReader, "
        "FileReader, and slices nested to any depth",
 "C13": "slice-creation guard exactness (incl. wrap-around), window theorem to any nesting depth, slice-here and backend-equivalence theorems in "
        "Lean 4; the system of live reader objects (Sys) that the multi-object runs execute, with frame, projection (every interleaving), confinement, "
        "reachability (every object a window of the root) and refinement / backend-equivalence theorems for whole systems; SliceReader's constructor, Initialize and both Slice overloads re-translated from the clang AST on every run and proved equal to "
        "the model (C13_gen_*); real-class runs: creation lattice, interleaved multi-object histories with an independence oracle, "
        "same-history-on-every-backend runs, member streams of archives whose index size and block length differ",
 "C14": "fixed-writer refinement (all histories), frame and refusal theorems, growing-writer = history fold, prefix refusal, codec inverses, "
        "copy-loop theorem for every chunk size and every reader backend, little-endian codec laws for every width, size-prefixed write/read round trip, open-flag table by decide, Append keeps prior content as a prefix under every history of seeks "
        "and writes (C14_append_history); MemoryWriter / DynamicMemoryWriter guards re-translated from the clang AST on every run and proved equal "
        "to the model (C14_gen_*); guard-zoned buffers, exhaustive short histories, copy matrix, on-disk open-flag matrix and file-writer "
        "histories against the model and a Python oracle",
 "C19": "strict-weak-order, sort-uniqueness, duplicate-detection, path-equivalence (reflexive, symmetric, transitive, case and leading ./ "
        "insensitive), split/re-join, extension and file-name-of-join laws (the unrestricted join laws are refuted in Lean and the library "
        "agrees) and bit-helper theorems in Lean 4 over a model of StringUtility/XFile/BitTwiddle; IsPowerOf2/Log2OfPowerOf2 regenerated from "
        "the clang AST and proved equal to the model; exhaustive small-scope differential run of the compiled model against the real library "
        "plus direct oracles, incl. ArchiveFile::ComparePathFilenames against the stem comparison",
 "C18": "Lean 4 theorems: the masks of unassigned bytes of every record the library builds and serialises (14 records / default objects), "
        "re-measured from the current sources on every run by constructing each in place over 0x00 / 0xFF / 0xA5-filled storage, are empty, "
        "hence the serialised image is independent of the garbage oracle (with the converse: a non-empty mask makes it depend on it); VOL and "
        "CLM bytes invariant under permutation of the inputs; every scenario of the serialiser / parser families plus the default-constructed "
        "objects is executed in three processes with different heap fill and automatic-variable initialisation (separate builds, ASLR on) and "
        "must give identical canonical outputs equal to the model's; file sets packed in every order and through different path spellings",
 "C08": "Lean 4 theorems over a model of the indexed-BMP reader/writer/factories: the pitch law for all widths, read => valid (non-negative width, "
        "|height| rows of the minimal 4-byte multiple, palette <= 2^depth), write->read preserves geometry, palette and meaningful pixel bytes with "
        "zero padding, factory round trips for depths 1/4/8 and any dimensions, InvertScanLines reverses rows / negates height / is an involution; "
        "CalcPixelByteWidth and CalculatePitch regenerated from the clang AST and proved equal to the model on the whole int32 x uint16 range; "
        "field dumps and written bytes of the real BitmapFile compared with the compiled model over every residue of row bits mod 32, both "
        "orientations, full and partial palettes, files not written by the library",
 "C09": "Lean 4 theorems: writeCustom f = frozen Spec.encode (picture f) (so the bytes are a function of the picture alone and match the independent "
        "description), custom-format round trip to the top-down picture, same picture from a standard BMP, the detector looks only at the four "
        "signature bytes and does not move the stream (through the C12 reader model), invalid pictures refused on save and load; 34 measured "
        "layout facts and default constants bridged; real TilesetLoader on heights 0..1024, both orientations, distinct palettes, partial-palette "
        "BMP sources against the compiled model and byte-for-byte against the reference encoder",
 "C17": "Lean 4 theorems over a model of ArchiveFile::GetIndex/Contains and ResourceManager with the directory layout, archive load order and "
        "pattern predicate as parameters: contains <-> index, the index names an equal member, lookup invariant under PathsAreEqual-equal "
        "spellings (case), duplicate-free => index(name i) = i, out-of-range refused; resolution stated outright (rooted refused, loose file "
        "first, else first containing archive, else nothing, access off => loose only); containing archive really contains; exact "
        "characterisation of type and pattern listings incl. the de-duplication rule; real ResourceManager on scratch directories with loose "
        "files, sub-directories, 0-2 VOL + 0-1 CLM archives with overlapping names, every query in several spellings, against the compiled "
        "model and Python oracles computed from the layout alone",
 "C03": "Lean 4 theorems over a model of ClmFile create/open/stream/extract and the WAV chunk walk: C03_roundtrip (names without extension in "
        "case-insensitive order, size = data-chunk length, stream = exactly that chunk, extracted WAV self-consistent with the common format, "
        "for any chunks before/between/after fmt and data), C03_layout and C03_bytes_are_reference (archive = independent Clm.Spec encoding "
        "byte for byte), order independence, refusals; real pack/reopen/extract runs under ASan/UBSan over a chunk-layout grammar against the "
        "compiled model and structural oracles",
 "C05": "Lean 4 theorems for both readers: VOL open and every call sequence never fault in a model whose raw memory operations are bounds-checked "
        "primitives, failed calls are no-ops, streams deliver exactly the recorded extent or refuse (never short), history independence; CLM: the "
        "chunk walk terminates with fuel <= len/8+1 (and provably does not with the pinned 32-bit cursor), arbitrary bytes as WAVs never hang, "
        "stream/extract exactness, index bounds; forked, watchdogged ASan/UBSan runs on every prefix, every integer field x boundary values and "
        "coordinated corruptions of valid archives with all call sequences of length <= 3",
 "C06": "Lean 4 theorems over parser-combinator models of Map::ReadMap / Write and the four edits: the reader's result is well formed, "
        "write = frozen Spec.encode, read(write m) = m, byte stability, written bytes = consumed bytes up to the two normalised words, trailing "
        "bytes ignored (Local), per-edit frame theorems and round trip after every edit history, bad version tags refused; whole field dumps and "
        "written bytes of the real Map compared with the compiled model on reference-encoded maps and edit sequences",
 "C07": "Lean 4 theorems: no fault (checked shifts: no over-wide shift, no truncated product) on every byte string for map and saved-game "
        "readers, returned maps have width 2^k (k < 32) and exactly width*height tiles in N, every proper prefix cutting into the consumed part is "
        "refused (structural Local lemma), saved game and map file with the same embedded portion agree; forked ASan/UBSan runs over prefixes, "
        "field x boundary values (lg 31, 32, 40, heights crossing 2^32) against the compiled model",
 "C10": "Lean 4 theorems over a parser-combinator model of the PRT reader/writer: accepted input satisfies the cross-field rules in N, accepted "
        "input = encoding of the result ++ rest, write->read identity, byte stability, canonical palette headers => write = consumed bytes, "
        "palette order BGR in file / RGB in memory, writer refuses rule violations, write = frozen Spec.encode; full structural dumps of the real "
        "ArtFile and written bytes compared with the compiled model over reference-encoded files with all flag combinations and layer counts",
 "C11": "Lean 4 theorems for the three loaders (bitmap, tileset in both formats, PRT): no fault on load for every byte string (checked abs / negate / "
        "pitch arithmetic), every public operation and every sequence of them on a returned object is fault-free, every proper prefix refused; PRT: loader outcome depends on the consumed prefix only, every proper "
        "prefix refused, on every loaded object image extraction by any index against any pixel file never reaches a fault, index >= count is an "
        "ordinary error; forked ASan/UBSan runs over prefixes, field x boundary corruptions and every follow-up operation on every returned object",
 "C20": "Lean 4 refusal implications with converse non-vacuity lemmas: VOL member >= 2^31 bytes or accumulated offset beyond 32 bits refused before "
        "the destination is touched, CLM offset+length beyond 2^32-1 and names > 8 refused (exactly), frame layer list disagreeing with its 7-bit "
        "count refused; sparse multi-GiB files and boundary containers on the real writers with destination snapshots",
 "C01": "Lean 4 theorems over a model of VolFile::CreateArchive / open / per-member calls: C01_roundtrip (for every file list that fits: one member "
        "per input in case-insensitive order, exact sizes, 'uncompressed', stream and extraction return the input bytes), lookup in any letter "
        "case, C01_perm (bytes or refusal identical for every permutation of the inputs), refusal of duplicate names and of output = input, "
        "failure atomicity; layout constants and record layouts regenerated from the source with bridging lemmas; real pack/reopen/extract runs "
        "on scratch directories under ASan/UBSan (file counts, all size residues mod 4, chunk-size boundaries, all orderings of <= 4 files, path "
        "spellings) compared with the compiled model, with before/after snapshots of every pre-existing file",
 "C02": "independent format description Vol.Spec.StrictWF (proved sound and complete for its executable form, unique description), theorems "
        "C02_writer_conforms (every archive the writer model produces is StrictWF), C02_binary_search, C02_reader_accepts_ref (every archive of the "
        "independent reference encoder — unused trailing slots, over-long index sections, LZH and other compression codes — opens with the same "
        "names, sizes, kinds, payloads); real CreateArchive output checked by the executable StrictWF and reference-encoded archives opened by the "
        "real VolFile",
 "C04": "refinement theorem in Lean 4: for every input and every finite drain schedule (GetData of any sizes, GetInternalBuffer, mixed) the "
        "delivered bytes are exactly a prefix of the reference decoder's output (textbook LZSS over the unbounded history), calls fail only "
        "at the tree's capacity, the reference terminates on every input; window/queue invariants (all indices < 4096, maxFill + 60 < 4096 "
        "from the regenerated constant), offsets 12-bit; GetOffsetModifiers regenerated from the clang AST and proved equal to the model; "
        "real HuffLZ under ASan/UBSan on encoder output covering every match length / position code / window wrap / capacity crossing, "
        "random bytes, truncations, many drain schedules, LZH extraction through VolFile, against the compiled model and a harness-side "
        "reference decoder; encoder round trip decode(encode ts) = expand ts proved for the Lean encoder on token lists within capacity "
        "(C04_encoder_prefix), three independent encoders compared",
 "C15": "invariant WF proved for the constructor's tree (every T >= 2) and preserved by every accepted update, hence on every history; "
        "root count = T + updates so exactly 65535 - T updates are accepted and no 16-bit counter wraps; refusals return the old tree; "
        "WF => full binary prefix code, encoder bits drive the decoder walk to the symbol's leaf; LZHUF-style reference update proved "
        "equal on every history; the bounds-checked array tree (the executable model) proved to refine the function-level tree, i.e. every "
        "index the update touches is inside the tables; exhaustive update sequences (depth 5-11, T=2..6), long histories through capacity "
        "and out-of-range arguments on the real class under ASan/UBSan, with in-driver oracles decode(encode c)=c, full-binary shape, "
        "harness-side LZHUF reference",
}

# second-generation L2 ties (extract/gen_*.py plug-ins), appended to the level texts
EXTRA = {
 "C01": "; the guards of VolFile::PrepareHeader and ReadVolHeader are re-translated from the clang AST on every run and proved equal to the model's refusal conditions for all values (C01_gen_*)",
 "C02": "; ReadVolHeader's section-length guards re-translated from the clang AST and proved equal to the model's (C01_gen_readVolHeader_refuses)",
 "C03": "; ClmFile::PrepareIndex / CreateArchive guards re-translated from the clang AST and proved equal to the model's refusal conditions (C03_gen_*)",
 "C04": "; BitStreamReader (ReadNextBit, ReadNext8Bits, EndOfStream, constructor) and the loop-free members of HuffLZ (WriteCharToBuffer, GetInternalBuffer, fill guard, GetRepeatOffset) re-translated from the clang AST and proved equal to the model's steps on every state satisfying the invariant (C04_gen_*)",
 "C07": "; the dimension guard of Map::ReadMapBeginning and CheckMinVersionTag re-translated from the clang AST and proved equal to the model's (C07_gen_*)",
 "C08": "; ImageHeader::Validate with its helpers and the BitmapFile::Verify* checks re-translated from the clang AST and proved equal to the model's validation for all field values (C08_gen_*)",
 "C09": "; TilesetHeader::Validate, PpalHeader::Validate and Tileset::ValidateTileset re-translated from the clang AST and proved equal to the model's guards (C09_gen_*)",
 "C10": "; ArtFile::WriteFrame and ValidateImageMetadata guards re-translated from the clang AST and proved equal to the model's (C10_gen_*)",
 "C11": "; the bitmap factory guards (VerifyValidBitCount, VerifyDimensions) re-translated from the clang AST and proved equal to the model's (C11_gen_create_guards)",
 "C15": "; the tree's accessors, bounds checks and constructor arithmetic re-translated from the clang AST and proved equal to the array model (C15_gen_*)",
 "C18": "; archive bytes proved invariant under re-spelling of the input paths (C18_vol_spelling, C18_clm_spelling); every in-process scenario repeated after a different history must give the same output",
 "C20": "; the refusal guards of ClmFile::PrepareIndex / CreateArchive, VolFile::PrepareHeader and ArtFile::WriteFrame re-translated from the clang AST and proved equal to the model's for all values",
}

WIP = "check not built yet in this commit (work in progress; the technique applies — see DESIGN.md §6)"
NOT_APPLICABLE = {}   # property id -> reason, for properties the technique genuinely cannot decide

props = [json.loads(l)["id"] for l in open(os.path.join(VERIF, "properties.jsonl"))]
checks = []; na = []
for pid in props:
    has = os.path.exists(os.path.join(VERIF, "vlib", "props", pid.lower() + ".py"))
    text = LEVEL.get(pid) or (old_checks.get(pid, {}).get("level_claimed", {}).get("text"))
    if text and pid in EXTRA and EXTRA[pid] not in text: text = text.rstrip() + EXTRA[pid]
    if has and text and pid not in NOT_APPLICABLE:
        c = dict(old_checks.get(pid, {}))
        c.update({"property_id": pid, "quick_cmd": f"./check.py {pid} --tier quick", "thorough_cmd": f"./check.py {pid} --tier thorough",
                  "evidence_file": f"/verif/evidence/{pid}.json", "replay_cmd_template": f"./check.py {pid} --replay {{path}}",
                  "engine": "lean4-proof+correspondence",
                  "level_claimed": {"category": "proof", "text": text, "design_ref": f"§6 {pid}"},
                  "level_note": NOTE, "technique": TECH})
        checks.append(c)
    else:
        na.append({"property_id": pid, "reason": NOT_APPLICABLE.get(pid, WIP)})
old["checks"] = checks
old["not_applicable"] = na
old["engines"][0]["serves_properties"] = [c["property_id"] for c in checks]
json.dump(old, open(os.path.join(VERIF, "MANIFEST.json"), "w"), indent=1)
print("claimed:", [c["property_id"] for c in checks]); print("not claimed:", [x["property_id"] for x in na])
