#!/usr/bin/env python3
"""Regenerates MANIFEST.json: a check entry for every property that has vlib/props/cNN.py and a LEVEL text below;
everything else goes to not_applicable with its reason.  Existing entries' texts are kept unless overridden here."""
import json, os, sys
VERIF = os.path.dirname(os.path.dirname(os.path.abspath(__file__)))
old = json.load(open(os.path.join(VERIF, "MANIFEST.json")))
old_checks = {c["property_id"]: c for c in old["checks"]}
NOTE = old_checks["C12"]["level_note"]
TECH = "Lean 4 theorem about an executable model + regenerated facts + differential correspondence"

LEVEL = {
 "C01": "Lean 4 theorems over a model of VolFile::CreateArchive / open / per-member calls: C01_roundtrip (for every file list that fits: one member "
        "per input in case-insensitive order, exact sizes, 'uncompressed', stream and extraction return the input bytes), lookup in any letter "
        "case, C01_perm (bytes or refusal identical for every permutation of the inputs), refusal of duplicate names and of output = input, "
        "failure atomicity; layout constants and record layouts regenerated from the source with bridging lemmas; real pack/reopen/extract runs "
        "on scratch directories under ASan/UBSan (file counts, all size residues mod 4, chunk-size boundaries, all orderings of <= 4 files, path "
        "spellings) compared with the compiled model, with before/after snapshots of every pre-existing file",
 "C02": "independent format description Vol.Spec.StrictWF (proved sound and complete for its executable form, unique description), theorems "
        "C02_writer_conforms (every archive the writer model produces is StrictWF), C02_binary_search, C02_reader_accepts_ref (every archive of the "
        "independent reference encoder — unused trailing slots, over-long index sections, LZH and other compression codes — opens with the same "
        "names, sizes, kinds, payloads); real CreateArchive output checked by the executable StrictWF and reference-encoded archives opened by the "
        "real VolFile",
 "C04": "refinement theorem in Lean 4: for every input and every finite drain schedule (GetData of any sizes, GetInternalBuffer, mixed) the "
        "delivered bytes are exactly a prefix of the reference decoder's output (textbook LZSS over the unbounded history), calls fail only "
        "at the tree's capacity, the reference terminates on every input; window/queue invariants (all indices < 4096, maxFill + 60 < 4096 "
        "from the regenerated constant), offsets 12-bit; GetOffsetModifiers regenerated from the clang AST and proved equal to the model; "
        "real HuffLZ under ASan/UBSan on encoder output covering every match length / position code / window wrap / capacity crossing, "
        "random bytes, truncations, many drain schedules, LZH extraction through VolFile, against the compiled model and a harness-side "
        "reference decoder; three independent encoders compared",
 "C15": "invariant WF proved for the constructor's tree (every T >= 2) and preserved by every accepted update, hence on every history; "
        "root count = T + updates so exactly 65535 - T updates are accepted and no 16-bit counter wraps; refusals return the old tree; "
        "WF => full binary prefix code, encoder bits drive the decoder walk to the symbol's leaf; LZHUF-style reference update proved "
        "equal on every history; the bounds-checked array tree (the executable model) proved to refine the function-level tree, i.e. every "
        "index the update touches is inside the tables; exhaustive update sequences (depth 5-11, T=2..6), long histories through capacity "
        "and out-of-range arguments on the real class under ASan/UBSan, with in-driver oracles decode(encode c)=c, full-binary shape, "
        "harness-side LZHUF reference",
}
WIP = "check not built yet in this commit (work in progress; the technique applies — see DESIGN.md §6)"
NOT_APPLICABLE = {}   # property id -> reason, for properties the technique genuinely cannot decide

props = [json.loads(l)["id"] for l in open(os.path.join(VERIF, "properties.jsonl"))]
checks = []; na = []
for pid in props:
    has = os.path.exists(os.path.join(VERIF, "vlib", "props", pid.lower() + ".py"))
    text = LEVEL.get(pid) or (old_checks.get(pid, {}).get("level_claimed", {}).get("text"))
    if has and text and pid not in NOT_APPLICABLE:
        c = dict(old_checks.get(pid, {}))
        c.update({"property_id": pid, "quick_cmd": f"./check.py {pid} --tier quick", "thorough_cmd": f"./check.py {pid} --tier thorough",
                  "evidence_file": f"/verif/evidence/{pid}.json", "replay_cmd_template": f"./check.py {pid} --replay {{path}}",
                  "engine": "lean4-proof+correspondence",
                  "level_claimed": {"category": "proof", "text": text, "design_ref": f"§6 {pid}"},
                  "level_note": NOTE, "technique": TECH})
        checks.append(c)
    else:
        na.append({"property_id": pid, "reason": NOT_APPLICABLE.get(pid, WIP)})
old["checks"] = checks
old["not_applicable"] = na
old["engines"][0]["serves_properties"] = [c["property_id"] for c in checks]
json.dump(old, open(os.path.join(VERIF, "MANIFEST.json"), "w"), indent=1)
print("claimed:", [c["property_id"] for c in checks]); print("not claimed:", [x["property_id"] for x in na])
