#!/usr/bin/env python3
"""./check.py Cxx [--tier quick|thorough] [--replay file]  — see DESIGN.md §8"""
import os, sys
sys.path.insert(0, os.path.dirname(os.path.abspath(__file__)))
from vlib import framework
if __name__ == "__main__":
    sys.exit(framework.main())
