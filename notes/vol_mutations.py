#!/usr/bin/env python3
"""mutation self-test driver for the vol family (see notes/vol.md): needs a scratch clone of verif at /tmp/b-vol/mut/verif and a scratch repo worktree at /tmp/b-vol/mut/repo; applies one change, runs the four vol checks, reverts"""
import subprocess, os, sys, json, re, time
REPO="/tmp/b-vol/mut/repo"; VERIF="/tmp/b-vol/mut/verif"
V="src/Archive/VolFile.cpp"; A="src/Archive/ArchiveFile.cpp"; S="src/Stream/SliceReader.h"; F="src/Stream/FileReader.cpp"; W="src/Stream/Writer.h"
MUTS=[
 ("m01 block offset +11 -> +8", V, "previousIndex.fileSize + 11)", "previousIndex.fileSize + 8)"),
 ("m02 name-table pad +7 -> +4", V, "(volInfo.stringTableLength + 7) & ~3", "(volInfo.stringTableLength + 4) & ~3"),
 ("m03 drop zero padding after a member", V, "volWriter.Write(&padding, (-volInfo.indexEntries[i].fileSize) & 3);", "(void)padding;"),
 ("m04 sort descending", V, "std::sort(filesToPack.begin(), filesToPack.end(), ComparePathFilenames);", "std::sort(filesToPack.begin(), filesToPack.end(), [](const std::string& a, const std::string& b) { return ComparePathFilenames(b, a); });"),
 ("m05 voli length written padded", V, "volWriter.Write(SectionHeader(TagVOLI, volInfo.indexTableLength));", "volWriter.Write(SectionHeader(TagVOLI, volInfo.paddedIndexTableLength));"),
 ("m06 remove output-equals-input check", V, "if (XFile::PathsAreEqual(filename, path)) {", "if (false && XFile::PathsAreEqual(filename, path)) {"),
 ("m07 remove duplicate-name check", V, "VerifySortedContainerHasNoDuplicateNames(volInfo.names);", ""),
 ("m08 drop header containment check (string table fits header)", V, "if (m_HeaderLength < m_StringTableLength + sizeof(SectionHeader) * 2 + sizeof(m_StringTableLength)) {", "if (false) {"),
 ("m09 drop VerifyIndexInBounds in GetSectionHeader", V, "VerifyIndexInBounds(index);\n\n\t\tarchiveFileReader.Seek(m_IndexEntries[index].dataBlockOffset);", "archiveFileReader.Seek(m_IndexEntries[index].dataBlockOffset);"),
 ("m10 drop SliceReader::Initialize end check", S, "if (startingOffset + sliceLength > wrappedStream.Length()) {", "if (false) {"),
 ("m11 FileReader keeps failbit after failed read (D5 reverted)", F, "file.clear();\n\t\t\tfile.seekg(originalPosition);\n\t\t\tthrow", "throw"),
 ("m12 member size limit INT32_MAX -> UINT64_MAX", V, "if (fileSize > INT32_MAX) {", "if (fileSize > UINT64_MAX) {"),
 ("m13 drop block-offset overflow check", V, "if (dataBlockOffset > UINT32_MAX) {", "if (false) {"),
 ("m14 D6 reverted (read whole index section)", V, "archiveFileReader.Read(m_IndexEntries);", "archiveFileReader.Read(m_IndexEntries.data(), m_IndexTableLength);"),
 ("m15 D7 reverted (no names-vs-entries check)", V, "if (packedFileCount > m_StringTable.size()) {", "if (false) {"),
 ("m16 first block offset +32 -> +28", V, "volInfo.paddedIndexTableLength + 32;", "volInfo.paddedIndexTableLength + 28;"),
 ("m17 GetIndex compares case-sensitively", A, "if (XFile::PathsAreEqual(GetName(i), name)) {\n\t\t\t\treturn i;", "if (GetName(i) == name) {\n\t\t\t\treturn i;"),
 ("m18 CountValidEntries ignores the 0xFFFFFFFF marker", V, "if (m_IndexEntries[packedFileCount].filenameOffset == UINT_MAX) {", "if (false) {"),
 ("m19 block length taken from the index entry instead of the block header", V, "return std::make_unique<Stream::FileSliceReader>(archiveFileReader.Slice(archiveFileReader.Position(), static_cast<uint64_t>(sectionHeader.length)));", "return std::make_unique<Stream::FileSliceReader>(archiveFileReader.Slice(archiveFileReader.Position(), static_cast<uint64_t>(static_cast<uint32_t>(m_IndexEntries[index].fileSize))));"),
 ("m20 drop 'file holds the declared header' check", V, "if (archiveFileReader.Length() < m_HeaderLength + sizeof(SectionHeader)) {", "if (false) {"),
 ("m21 drop VBLK tag check", V, "if (sectionHeader.tag != TagVBLK) {", "if (false) {"),
 ("m22 GetName without VerifyIndexInBounds", V, "VerifyIndexInBounds(index);\n\n\t\treturn m_StringTable[index];", "return m_StringTable[index];"),
 ("h01 error message text changed", V, "is too large to fit inside a volume archive.", "exceeds the member size limit of a volume archive."),
 ("h02 DefaultCopyChunkSize 128 KiB -> 4 KiB", W, "DefaultCopyChunkSize = 0x00020000;", "DefaultCopyChunkSize = 0x00001000;"),
 ("h03 std::sort -> std::stable_sort", V, "std::sort(filesToPack.begin()", "std::stable_sort(filesToPack.begin()"),
 ("h04 ReadTag checks the padding flag before the tag", V, None, None),
 ("h05 offset check rewritten with a 64-bit running sum", V, "if (dataBlockOffset > UINT32_MAX) {", "if ((dataBlockOffset >> 32) != 0) {"),
]
def sh(cmd, cwd=None, env=None):
    return subprocess.run(cmd, shell=True, cwd=cwd, env=env, capture_output=True, text=True)
def apply(m):
    name, f, old, new = m
    p=os.path.join(REPO,f); s=open(p).read()
    if name.startswith("h04"):
        old1='''		if (tag.tag != tagName) {
			throw std::runtime_error("The tag " + tagName +
				" was not found in the proper position in volume " + m_ArchiveFilename);
		}

'''
        i=s.index(old1); s=s[:i]+s[i+len(old1):]
        anchor="		return tag.length;\n"
        j=s.index(anchor); s=s[:j]+old1+s[j:]
    else:
        assert s.count(old)==1, (name, s.count(old))
        s=s.replace(old,new)
    open(p,'w').write(s)
def main():
    only=sys.argv[1:] 
    env=dict(os.environ, OP2_REPO=REPO)
    results=[]
    for m in MUTS:
        if only and not any(m[0].startswith(o) for o in only): continue
        sh("git checkout -q .", cwd=REPO)
        apply(m)
        row={"mutation":m[0],"checks":{}}
        for chk in ("C01","C02","C05_vol","C20_vol"):
            t=time.time()
            r=sh(f"./check.py {chk} --tier quick", cwd=VERIF, env=env)
            viol=[l for l in r.stdout.split("\n") if l.startswith("VIOLATION")]
            why=""
            if viol:
                mm=re.search(r"replay=(\S+)", viol[0])
                try:
                    d=json.load(open(mm.group(1))); why=(d.get("why") or d.get("kind",""))[:160]+" | "+(d.get("cases",[{}])[0].get("line","")[:90] if d.get("cases") else str(d.get("broken",""))[:90])
                except Exception as e: why=str(e)
            row["checks"][chk]={"rc":r.returncode,"violations":len(viol),"concrete":sum(1 for v in viol if "no-failing-input-found" not in v),"first":why,"s":round(time.time()-t)}
            print(m[0],"|",chk,"| rc",r.returncode,"| viol",len(viol),"|",why[:200],flush=True)
        results.append(row)
        sh("git checkout -q .", cwd=REPO)
    json.dump(results,open("/tmp/b-vol/mut/results-" + "_".join(only)[:60] + ".json","w"),indent=1)
main()
