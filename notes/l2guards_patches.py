import sys
def sub(path, old, new, count=1):
    p='/tmp/b-l2grd/repo/src/'+path; s=open(p).read()
    assert s.count(old)>=1, ('pattern not found', path, old)
    s=s.replace(old,new,count); open(p,'w').write(s)
CLM='Archive/ClmFile.cpp'; VOL='Archive/VolFile.cpp'; MAPR='Map/MapReader.cpp'; MAP='Map/Map.cpp'; ARTF='Sprite/ArtFile.cpp'; ARTW='Sprite/ArtWriter.cpp'
G='if (offset + indexEntries[i].dataLength > UINT32_MAX) {'
M = {
 # ---------------- breaking
 'B1': lambda: sub(CLM, G, 'if (offset + indexEntries[i].dataLength >= UINT32_MAX) {'),
 'B2': lambda: sub(CLM, G, 'if (offset + indexEntries[i].dataLength > INT32_MAX) {'),
 'B3': lambda: sub(CLM, G, 'if (static_cast<uint32_t>(offset) + indexEntries[i].dataLength > UINT32_MAX) {'),
 'B4': lambda: sub(CLM, 'if (name.size() > 8) {', 'if (name.size() > 9) {'),
 'B5': lambda: sub(MAPR, 'if (mapHeader.lgWidthInTiles >= 32 ||\n\t\t\t(static_cast<uint64_t>', 'if ((static_cast<uint64_t>'),
 'B6': lambda: sub(VOL, 'if (fileSize > INT32_MAX) {', 'if (static_cast<uint32_t>(fileSize) > INT32_MAX) {'),
 'B7': lambda: sub(VOL, 'if (m_HeaderLength < m_StringTableLength + m_IndexTableLength + 24) {', 'if (m_HeaderLength <= m_StringTableLength + m_IndexTableLength + 24) {'),
 'B8': lambda: sub(ARTF, 'if (imageMeta.paletteIndex >= palettes.size()) {', 'if (imageMeta.paletteIndex > palettes.size()) {'),
 'B9': lambda: sub(VOL, 'const uint64_t dataBlockOffset = (static_cast<uint64_t>(previousIndex.dataBlockOffset) + previousIndex.fileSize + 11) & ~static_cast<uint64_t>(3);',
                        'const uint64_t dataBlockOffset = (previousIndex.dataBlockOffset + previousIndex.fileSize + 11) & ~3u;'),
 'B10': lambda: sub(MAP, 'if (versionTag < MapHeader::MinMapVersion)', 'if (versionTag <= MapHeader::MinMapVersion)'),
 'B11': lambda: sub(ARTF, '((static_cast<uint64_t>(imageMeta.width) + 3) & ~static_cast<uint64_t>(3))', '((imageMeta.width + 3) & ~3u)'),
 'B12': lambda: sub(VOL, 'if (archiveFileReader.Length() < m_HeaderLength + sizeof(SectionHeader)) {', 'if (archiveFileReader.Length() < m_HeaderLength) {'),
 # ---------------- harmless
 'H1': lambda: sub(CLM, G, 'if (offset > UINT32_MAX - indexEntries[i].dataLength) {'),
 'H2': lambda: (sub(CLM, '\t\tuint64_t offset = headerSize + names.size() * sizeof(IndexEntry);\n',
                    '\t\tuint64_t offset = headerSize + names.size() * sizeof(IndexEntry);\n\t\tconst auto endsBeyondLimit = [](uint64_t end) { return end > UINT32_MAX; };\n'),
                sub(CLM, G, 'if (endsBeyondLimit(offset + indexEntries[i].dataLength)) {')),
 'H3': lambda: sub(CLM, '\t\t\t' + G, '\t\t\tconst IndexEntry& entry = indexEntries[i];\n\t\t\tconst uint64_t dataEnd = offset + entry.dataLength;\n\t\t\tif (dataEnd > 0xFFFFFFFFull) {'),
 'H4': lambda: sub(CLM, '''			if (offset + indexEntries[i].dataLength > UINT32_MAX) {
				throw std::runtime_error("Index Entry offset is too large to create CLM file");
			}

			// Set the offset of the file
			indexEntries[i].dataOffset = static_cast<uint32_t>(offset);
			offset += indexEntries[i].dataLength;
''', '''			if (offset + indexEntries[i].dataLength <= UINT32_MAX) {
				// Set the offset of the file
				indexEntries[i].dataOffset = static_cast<uint32_t>(offset);
				offset += indexEntries[i].dataLength;
			}
			else {
				throw std::runtime_error("Index Entry offset is too large to create CLM file");
			}
'''),
 'H5': lambda: (sub(CLM, '\tvoid ClmFile::PrepareIndex(', '''	namespace {
		void RequireFitsIn32Bits(uint64_t value)
		{
			if (value > UINT32_MAX) {
				throw std::runtime_error("Index Entry offset is too large to create CLM file");
			}
		}
	}

	void ClmFile::PrepareIndex('''),
                sub(CLM, '''			if (offset + indexEntries[i].dataLength > UINT32_MAX) {
				throw std::runtime_error("Index Entry offset is too large to create CLM file");
			}
''', '''			RequireFitsIn32Bits(offset + indexEntries[i].dataLength);
''')),
 'H6': lambda: sub(CLM, 'if (name.size() > 8) {', 'if (!(name.size() <= 8)) {'),
 'H7': lambda: (sub(MAPR, '\tMap Map::ReadMapBeginning(Stream::Reader& stream)\n', '''	namespace {
		bool TileCountFitsIn32Bits(uint32_t lgWidth, uint32_t height)
		{
			return lgWidth < 32 && height <= (UINT32_MAX >> lgWidth);
		}
	}

	Map Map::ReadMapBeginning(Stream::Reader& stream)
'''),
                sub(MAPR, '''		if (mapHeader.lgWidthInTiles >= 32 ||
			(static_cast<uint64_t>(mapHeader.heightInTiles) << mapHeader.lgWidthInTiles) > UINT32_MAX) {''',
                    '''		if (!TileCountFitsIn32Bits(mapHeader.lgWidthInTiles, mapHeader.heightInTiles)) {''')),
 'H8': lambda: (sub(VOL, '\tvoid VolFile::PrepareHeader(', '''	static bool ExceedsUint32(uint64_t value) { return value > 4294967295ull; }

	void VolFile::PrepareHeader('''),
                sub(VOL, 'if (static_cast<uint64_t>(volInfo.stringTableLength) + volInfo.names[i].size() + 1 > UINT32_MAX) {', 'if (ExceedsUint32(static_cast<uint64_t>(volInfo.stringTableLength) + volInfo.names[i].size() + 1)) {'),
                sub(VOL, 'if (static_cast<uint64_t>(volInfo.fileCount()) * sizeof(IndexEntry) > UINT32_MAX) {', 'if (ExceedsUint32(static_cast<uint64_t>(volInfo.fileCount()) * sizeof(IndexEntry))) {'),
                sub(VOL, 'if (dataBlockOffset > UINT32_MAX) {', 'if (ExceedsUint32(dataBlockOffset)) {'),
                sub(VOL, 'if (fileSize > INT32_MAX) {', 'if (fileSize >= 0x80000000u) {')),
 'H9': lambda: sub(ARTF, '''		for (const auto& imageMeta : imageMetas) {
			// Bitwise operation rounds up to the next 4 byte interval (in 64 bits, so widths near UINT32_MAX do not wrap to 0)
			if (imageMeta.scanLineByteWidth != ((static_cast<uint64_t>(imageMeta.width) + 3) & ~static_cast<uint64_t>(3))) {''',
   '''		for (std::size_t index = 0; index < imageMetas.size(); ++index) {
			const ImageMeta& imageMeta = imageMetas[index];
			const uint64_t paddedWidth = (static_cast<uint64_t>(imageMeta.width) + 3) / 4 * 4;
			if (imageMeta.scanLineByteWidth != paddedWidth) {'''),
 'H10': lambda: sub(VOL, '''		uint32_t volhSize = ReadTag(TagVOLH);
		if (volhSize != 0) {
			throw std::runtime_error("The length associated with tag volh is not zero in volume " + m_ArchiveFilename);
		}

		m_StringTableLength = ReadTag(TagVOLS);

		if (m_HeaderLength < m_StringTableLength + sizeof(SectionHeader) * 2 + sizeof(m_StringTableLength)) {
			throw std::runtime_error("The string table does not fit in the header of volume " + m_ArchiveFilename);
		}
''', '''		const uint32_t volhSize = ReadTag(TagVOLH);
		m_StringTableLength = ReadTag(TagVOLS);
		const uint64_t stringSectionEnd = uint64_t(m_StringTableLength) + 2 * sizeof(SectionHeader) + sizeof(uint32_t);

		if (volhSize > 0 || stringSectionEnd > m_HeaderLength) {
			throw std::runtime_error("The volh length is not zero or the string table does not fit in the header of volume " + m_ArchiveFilename);
		}
'''),
 'H11': lambda: sub(ARTW, 'if (frame.layerMetadata.count != frame.layers.size()) {', 'const std::size_t writtenLayers = frame.layers.size();\n\t\tif (!(writtenLayers == frame.layerMetadata.count)) {'),
 'H12': lambda: sub(CLM, '''		for (const auto& name : names) {
			if (name.size() > 8) {
				throw std::runtime_error("Filename " + name + " for packing into archive " + archiveFilename + " must be at most 8 characters in length excluding the extension");
			}
		}
''', '''		const auto tooLong = std::find_if(names.begin(), names.end(), [](const std::string& candidate) { return candidate.size() > 8; });
		if (tooLong != names.end()) {
			throw std::runtime_error("Filename " + *tooLong + " for packing into archive " + archiveFilename + " must be at most 8 characters in length excluding the extension");
		}
'''),
 'H13': lambda: sub(MAPR, '''		if (mapHeader.lgWidthInTiles >= 32 ||
			(static_cast<uint64_t>(mapHeader.heightInTiles) << mapHeader.lgWidthInTiles) > UINT32_MAX) {''',
   '''		const uint32_t lgWidth = mapHeader.lgWidthInTiles;
		const uint64_t tileCount64 = lgWidth > 31 ? UINT64_MAX : static_cast<uint64_t>(mapHeader.heightInTiles) << lgWidth;
		if ((tileCount64 >> 32) != 0) {'''),
}
M[sys.argv[1]]()
