#!/bin/sh
# MANIFEST.setup_cmd — build the framework from files on disk only (offline).
set -e
cd "$(dirname "$0")"
(cd lean && lake build Op2Model Op2Proofs Driver op2model)
python3 - <<'PY'
import sys, os
sys.path.insert(0, os.getcwd())
from vlib import build
exe, err = build.build_driver()
if not exe:
    print(err); sys.exit(1)
print("driver:", exe)
# C18 runs every scenario on two more builds (different automatic-variable initialisation); build them now
for name, flags in (("zero", ["-ftrivial-auto-var-init=zero"]), ("pattern", ["-ftrivial-auto-var-init=pattern"])):
    e2, err2 = build.build_driver(variant=name, extra_flags=flags)
    print("driver[%s]:" % name, e2 or err2[-500:])
PY
