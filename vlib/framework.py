"""The check pipeline shared by all properties (DESIGN §2.2, §2.3).

  1. build op2drv from /repo's current working tree (sanitizers on)
  2. L2: regenerate lean/Op2Model/Gen from the source; lake build the property's theorems; audit axioms
  3. L3: run the property's cases through the real library and through the compiled Lean model; diff
  4. direct oracles on the implementation's own outputs
  5. classify; search for a failing input when a proof or the correspondence broke
  6. known findings; evidence; VIOLATION lines
"""
import hashlib, importlib, json, os, random, re, subprocess, sys, time
from . import build
from .common import *

ALLOWED_AXIOMS = {"propext", "Classical.choice", "Quot.sound"}
FORBIDDEN = re.compile(r"\bsorry\b|\badmit\b|^\s*axiom\s|native_decide|bv_decide|implemented_by|\bunsafe\s|maxHeartbeats\s+0")

class Case:
    """one line of the protocol.  `expect`: exact output the *property* demands of the implementation
    (a direct oracle, independent of the model) or None.  `tag`: class of the case for the distribution."""
    __slots__ = ("line", "expect", "tag", "check", "nomodel")
    def __init__(self, line, expect=None, tag="", check=None, nomodel=False):
        self.line = line; self.expect = expect; self.tag = tag; self.check = check; self.nomodel = nomodel

class Result:
    def __init__(self):
        self.violations = []      # dicts
        self.notes = []

def run_lines(exe, lines, env=None, timeout=3000):
    if not lines:
        return [], 0, ""
    e = dict(os.environ, ASAN_OPTIONS="detect_leaks=0:allocator_may_return_null=0:max_allocation_size_mb=1024",
             UBSAN_OPTIONS="print_stacktrace=0")
    if env: e.update(env)
    with scratch_dir() as d:
        e.setdefault("OP2DRV_SCRATCH", d)
        try:
            p = subprocess.run([exe], input="\n".join(lines) + "\n", capture_output=True, text=True, env=e, timeout=timeout)
            so, rc, se = p.stdout, p.returncode, p.stderr
        except subprocess.TimeoutExpired as te:
            so = te.stdout or ""; se = (te.stderr or ""); rc = -999
            if isinstance(so, bytes): so = so.decode(errors="replace")
            if isinstance(se, bytes): se = se.decode(errors="replace")
            se += "\n[verif] batch timed out"
            # complete lines only
            if so and not so.endswith("\n"): so = so[: so.rfind("\n") + 1]
    out = so.split("\n")
    if out and out[-1] == "": out.pop()
    return out, rc, se

BATCH_TIMEOUT = 900

def run_impl(exe, lines, env=None, chunk=20000):
    """runs lines through op2drv; a crash of the whole batch (only possible for non-isolated commands) is
    localised by bisection so that it becomes the outcome `fault:crash` of one line."""
    outs = []
    i = 0
    while i < len(lines):
        part = lines[i:i + chunk]
        o, rc, err = run_lines(exe, part, env, timeout=BATCH_TIMEOUT)
        if len(o) == len(part) and rc == 0:
            outs += o; i += len(part); continue
        # the process died while executing line len(o) of this part (or wrote a partial line)
        k = min(len(o), len(part) - 1)
        # outputs before k are complete only if each ended with newline; be conservative: re-run singly around k
        outs += o[:k]
        kind = "fault:crash"
        if rc == -999: kind = "hang"
        elif "AddressSanitizer" in err: kind = "fault:asan"
        elif "runtime error" in err: kind = "fault:ubsan"
        elif "ssert" in err: kind = "fault:assert"
        outs.append(kind)
        i += k + 1
    return outs

def _chunks(lines, n):
    """strided chunks (part j = lines[j::n]) so that runs of heavy cases are spread over the workers"""
    n = max(1, min(n, len(lines)))
    return [lines[j::n] for j in range(n)]

def _unchunk(parts_out, total):
    n = len(parts_out); out = [None] * total
    for j, part in enumerate(parts_out):
        for k, v in enumerate(part):
            if j + k * n < total: out[j + k * n] = v
    return out

def run_impl_par(exe, lines, env=None, jobs=None):
    """run_impl over contiguous chunks on several processes (outputs stay in input order)"""
    jobs = jobs or max(1, NCPU // 2)
    if len(lines) < 64 or jobs == 1:
        return run_impl(exe, lines, env)
    import concurrent.futures
    parts = _chunks(lines, jobs)
    with concurrent.futures.ThreadPoolExecutor(len(parts)) as ex:
        outs = list(ex.map(lambda part: run_impl(exe, part, env), parts))
    return _unchunk(outs, len(lines))

def run_model_par(exe, lines, jobs=None):
    """the model driver over contiguous chunks; returns (outputs, stderr) — len(outputs) != len(lines) on failure"""
    jobs = jobs or max(1, NCPU // 2)
    if len(lines) < 64 or jobs == 1:
        o, rc, err = run_lines(exe, lines)
        return o, err
    import concurrent.futures
    parts = _chunks(lines, jobs)
    with concurrent.futures.ThreadPoolExecutor(len(parts)) as ex:
        res = list(ex.map(lambda part: run_lines(exe, part), parts))
    errs = ""
    for part, (o, rc, err) in zip(parts, res):
        if len(o) != len(part): errs += err[-500:]
    if errs: return [], errs
    return _unchunk([o for o, _, _ in res], len(lines)), errs

def theorem_names(module):
    path = os.path.join(LEAN, module.replace(".", "/") + ".lean")
    names = []; ns = []
    with open(path) as f:
        for ln, line in enumerate(f, 1):
            m = re.match(r"\s*namespace\s+(\S+)", line)
            if m: ns.append(m.group(1))
            m = re.match(r"\s*end\s+(\S+)", line)
            if m and ns and ns[-1] == m.group(1): ns.pop()
            m = re.match(r"\s*(?:private\s+)?theorem\s+(\S+)", line)
            if m: names.append((".".join(ns + [m.group(1)]), ln))
    return names

def closure_files(modules):
    """source files of our own modules imported (transitively) by the given modules"""
    seen = {}; todo = list(modules)
    while todo:
        m = todo.pop()
        if m in seen: continue
        p = os.path.join(LEAN, m.replace(".", "/") + ".lean")
        if not os.path.exists(p): continue
        seen[m] = p
        with open(p) as f:
            for line in f:
                mm = re.match(r"\s*import\s+(\S+)", line)
                if mm: todo.append(mm.group(1))
    return seen

def strip_comments(text):
    text = re.sub(r"/-.*?-/", "", text, flags=re.S)
    return re.sub(r"--.*", "", text)

def lean_obligations(prop_id, modules, thorough=False):
    """returns dict: ok, obligations, discharged, broken (list of theorem names), detail, axioms"""
    res = {"ok": True, "obligations": 0, "discharged": 0, "broken": [], "detail": "", "axioms": {}, "machinery_error": None}
    t0 = time.time()
    r = build.lake(["build"] + modules)
    names = []
    for m in modules: names += [(n, ln, m) for n, ln in theorem_names(m)]
    res["obligations"] = len(names)
    if r.returncode != 0:
        res["ok"] = False
        out = r.stdout + r.stderr
        res["detail"] = out[-4000:]
        broken = set()
        for mm in re.finditer(r"error: ([^:\s]+\.lean):(\d+):\d+", out):
            f, ln = mm.group(1), int(mm.group(2))
            mod = os.path.relpath(os.path.join(LEAN, f) if not os.path.isabs(f) else f, LEAN)[:-5].replace("/", ".")
            cands = [(n, l) for n, l in theorem_names(mod) if l <= ln] if os.path.exists(os.path.join(LEAN, mod.replace(".", "/") + ".lean")) else []
            broken.add(cands[-1][0] if cands else mod)
        res["broken"] = sorted(broken) or ["lake build " + " ".join(modules)]
        res["discharged"] = max(0, len(names) - len(broken))
        return res
    # audit: forbidden constructs in the import closure
    for m, p in closure_files(modules).items():
        with open(p) as f: txt = strip_comments(f.read())
        for ln, line in enumerate(txt.split("\n"), 1):
            if FORBIDDEN.search(line):
                res["ok"] = False; res["machinery_error"] = f"forbidden construct in {p}:{ln}: {line.strip()[:80]}"
    # audit: axioms of every property theorem
    with scratch_dir() as d:
        src = os.path.join(d, "Audit.lean")
        with open(src, "w") as f:
            for m in modules: f.write(f"import {m}\n")
            for n, _, _ in names: f.write(f"#print axioms {n}\n")
        a = run(["lake", "env", "lean", src], cwd=LEAN)
    if a.returncode != 0:
        res["ok"] = False; res["machinery_error"] = "axiom audit failed: " + (a.stdout + a.stderr)[-1500:]
        return res
    txt = a.stdout.replace("\n  ", " ")
    for n, _, _ in names:
        m = re.search(r"'" + re.escape(n) + r"' depends on axioms: \[([^\]]*)\]", txt)
        if m:
            ax = [x.strip() for x in m.group(1).split(",") if x.strip()]
        elif re.search(r"'" + re.escape(n) + r"' does not depend on any axioms", txt):
            ax = []
        else:
            res["ok"] = False; res["machinery_error"] = f"no axiom report for {n}"; continue
        res["axioms"][n] = ax
        if set(ax) <= ALLOWED_AXIOMS: res["discharged"] += 1
        else:
            res["ok"] = False; res["machinery_error"] = f"{n} depends on {ax}"
    if thorough:
        for m in modules:
            c = run(["lake", "env", "leanchecker", m], cwd=LEAN)
            if c.returncode != 0:
                res["ok"] = False; res["machinery_error"] = f"leanchecker {m}: " + (c.stdout + c.stderr)[-500:]
    res["wall_s"] = time.time() - t0
    return res

def load_known(prop_id):
    out = []
    p = os.path.join(VERIF, "known_findings.jsonl")
    if os.path.exists(p):
        with open(p) as f:
            for line in f:
                line = line.strip()
                if line and not line.startswith("#"):
                    d = json.loads(line)
                    if d.get("property") == prop_id: out.append(d)
    return out

def write_replay(prop_id, payload):
    os.makedirs(REPLAYS, exist_ok=True)
    h = hashlib.sha256(json.dumps(payload, sort_keys=True).encode()).hexdigest()[:12]
    path = os.path.join(REPLAYS, f"{prop_id}-{h}.json")
    with open(path, "w") as f: json.dump(payload, f, indent=1)
    return path

def shrink_line(exe, case_line, failing):
    """generic shrinker hook: properties may supply their own; default returns the line unchanged"""
    return case_line

def main(argv=None):
    import argparse
    ap = argparse.ArgumentParser()
    ap.add_argument("prop")
    ap.add_argument("--tier", default=os.environ.get("VERIF_TIER", "quick"), choices=["quick", "thorough"])
    ap.add_argument("--replay")
    ap.add_argument("--no-lean", action="store_true", help="skip the proof re-check (debugging only; evidence says so)")
    args = ap.parse_args(argv)
    seed = int(os.environ.get("VERIF_SEED", "0"))
    part = args.prop            # e.g. "C05" or a family part "C05_vol" (development aid; same pipeline)
    pid = part.split("_")[0]
    mod = importlib.import_module(f"vlib.props.{part.lower()}")
    t0 = time.time()
    violations = []        # (replay payload, suffix)
    notes = []
    evidence_path = os.path.join(EVIDENCE, f"{part}.json")
    if args.replay:      # a replay is not a run of the check: keep the evidence of the last real run
        os.makedirs(REPLAYS, exist_ok=True)
        evidence_path = os.path.join(REPLAYS, f"{part}.replay-evidence.json")
    os.makedirs(EVIDENCE, exist_ok=True)

    # 1. build from the current tree
    drv, err = build.build_driver()
    if not drv:
        # the brief only asks about trees that compile; report as machinery failure
        print(f"[verif] /repo does not compile with the harness:\n{err[-3000:]}", file=sys.stderr)
        print(f"VIOLATION property={pid} replay={write_replay(pid, {'property': pid, 'kind': 'build', 'detail': err[-3000:]})} no-failing-input-found")
        return 1
    # 2. L2 + proofs
    from extract import extract as ex
    gen_info = ex.regenerate(drv)
    model, merr = build.build_model()
    if not model:
        # a regenerated fact can break the *model's* compilation only through Gen; treat like a broken obligation
        lean = {"ok": False, "obligations": 1, "discharged": 0, "broken": ["lake build op2model"], "detail": merr[-3000:], "axioms": {}, "machinery_error": None}
    elif args.no_lean:
        lean = {"ok": True, "obligations": 0, "discharged": 0, "broken": [], "detail": "skipped", "axioms": {}, "machinery_error": None}
    else:
        lean = lean_obligations(pid, mod.LEAN_MODULES, thorough=(args.tier == "thorough"))
    if lean.get("machinery_error"):
        print(f"[verif] MACHINERY ERROR (not a property violation): {lean['machinery_error']}", file=sys.stderr)
        _write_evidence(evidence_path, pid, args.tier, seed, lean, {}, [], time.time() - t0, 0, mod, gen_info, machinery_error=lean["machinery_error"])
        return 2

    # 3./4. cases
    if args.replay:
        with open(args.replay) as f: rp = json.load(f)
        cases = [Case(c["line"], c.get("expect"), c.get("tag", "replay")) for c in rp.get("cases", [])]
    else:
        rng = random.Random(f"{pid}:{seed}")
        cases = list(mod.cases(args.tier, rng))
        for c in _corpus_cases(pid): cases.insert(0, c)
    known = load_known(pid)
    for k in known:
        for w in k.get("witness", []):
            cases.append(Case(w["line"], w.get("expect"), "known:" + k.get("status", "")))
    lines = [c.line for c in cases]
    impl = run_impl_par(drv, lines, getattr(mod, "ENV", None))
    # a `hang` is a watchdog expiry: on a loaded machine a slow but terminating case can trip it.  Confirm before believing: the
    # (first few) hanging forked cases are run again, with nothing else of this check running, under a watchdog three times
    # as long; only a case that hangs again keeps the outcome.  (A genuinely looping library still hangs.)
    hung = [i for i, (c, o) in enumerate(zip(cases, impl)) if o == "hang" and c.line.startswith("!")]
    if hung:
        env2 = dict(getattr(mod, "ENV", None) or {}); base = int(env2.get("OP2DRV_WATCHDOG", "30"))
        env2["OP2DRV_WATCHDOG"] = str(3 * base)
        def again(i):
            line = cases[i].line
            m = re.match(r"^!(\d+)!(.*)$", line)
            if m: line = f"!{3 * int(m.group(1))}!{m.group(2)}"
            o2, rc2, err2 = run_lines(drv, [line], env2, timeout=BATCH_TIMEOUT)
            return o2[0] if len(o2) == 1 else "hang"
        import concurrent.futures
        pick = hung[:8]
        with concurrent.futures.ThreadPoolExecutor(len(pick)) as ex: outs2 = list(ex.map(again, pick))
        confirmed = 0
        for i, o2 in zip(pick, outs2):
            if o2 != "hang": impl[i] = o2
            else: confirmed += 1
        log(f"{len(hung)} hang outcome(s); re-ran {len(pick)} of them with a 3x watchdog and nothing else running: {confirmed} confirmed")
    if model:
        mlines = [re.sub(r"^!(\d+!)?", "", c.line) for c in cases]
        mo, merr2 = run_model_par(model, mlines)
        if len(mo) != len(mlines):
            print(f"[verif] MACHINERY ERROR: model driver returned {len(mo)} lines for {len(mlines)}: {merr2[-500:]}", file=sys.stderr)
            return 2
    else:
        mo = [None] * len(lines)
    stats = {"evaluations": len(cases), "tags": {}, "impl_err": 0, "impl_ok": 0, "distinct_outputs": 0}
    distinct = set(); nontrivial = set()
    diverged = []; oracle_fail = []
    for c, a, b in zip(cases, impl, mo):
        stats["tags"][c.tag] = stats["tags"].get(c.tag, 0) + 1
        if a.startswith("err"): stats["impl_err"] += 1
        else: stats["impl_ok"] += 1
        distinct.add(a)
        if a not in ("bad-op",): nontrivial.add(c.line)
        bad = None
        if a.startswith("fault:") or a == "hang" or a == "harness-error":
            bad = f"implementation outcome {a}"
        elif a == "bad-op":
            bad = None; notes.append(f"bad-op on impl: {c.line[:100]}")
        elif c.expect is not None and a != c.expect:
            bad = f"direct oracle: property demands {c.expect!r}, implementation returned {a!r}"
        elif c.check is not None:
            msg = c.check(a)
            if msg: bad = "direct oracle: " + msg
        if bad:
            oracle_fail.append((c, a, b, bad))
        elif b is not None and not c.nomodel and a != b:
            diverged.append((c, a, b))
    if hasattr(mod, "relational_oracles"):
        for c, a, msg in mod.relational_oracles(cases, impl):
            oracle_fail.append((c, a, None, "direct oracle: " + msg))
    stats["distinct_outputs"] = len(distinct)
    stats["distinct_nontrivial"] = len(nontrivial)

    # 5. classification
    def is_known(c):
        for k in known:
            if k.get("status") == "known" and any(w["line"] == c.line for w in k.get("witness", [])):
                return k
        return None
    reported = set()
    for c, a, b, why in oracle_fail:
        k = is_known(c)
        if k:
            print(f"KNOWN-FINDING: property={pid} {k.get('what','')} [{c.line[:80]}]")
            continue
        key = why.split(":")[0] + c.tag
        if key in reported or len(violations) >= 6: continue
        reported.add(key)
        violations.append(({"property": pid, "kind": "input", "why": why, "cases": [{"line": c.line, "expect": c.expect, "tag": c.tag}],
                            "impl": a, "model": b, "seed": seed}, ""))
    if not violations and (diverged or not lean["ok"]):
        # a broken tie: look harder for an input on which the *property* fails
        found = None
        if hasattr(mod, "search"):
            found = mod.search(drv, model, diverged, lean, random.Random(f"{pid}:{seed}:search"))
        if found:
            c, a, why = found
            violations.append(({"property": pid, "kind": "input", "why": why, "cases": [{"line": c.line, "expect": c.expect, "tag": c.tag}],
                                "impl": a, "seed": seed, "found_by": "search after broken tie"}, ""))
        else:
            if not lean["ok"]:
                violations.append(({"property": pid, "kind": "theorem", "broken": lean["broken"], "detail": lean["detail"][-2000:],
                                    "gen": gen_info, "seed": seed}, " no-failing-input-found"))
            if diverged:
                c, a, b = diverged[0]
                violations.append(({"property": pid, "kind": "correspondence", "correspondence": "corr:" + c.line.split()[0].lstrip("!"),
                                    "count": len(diverged), "cases": [{"line": d[0].line, "tag": d[0].tag} for d in diverged[:10]],
                                    "impl": [d[1] for d in diverged[:10]], "model": [d[2] for d in diverged[:10]], "seed": seed},
                                   " no-failing-input-found"))
    # known findings that no longer reproduce are just noted
    for k in known:
        if k.get("status") == "known":
            hit = any(c.line == w["line"] for c, _, _, _ in oracle_fail for w in k.get("witness", []))
            if not hit: notes.append(f"known finding no longer reproduces: {k.get('what')}")
    rc = 0
    for payload, suffix in violations:
        path = write_replay(pid, payload)
        print(f"VIOLATION property={pid} replay={path}{suffix}")
        rc = 1
    samples = [{"line": c.line[:300], "impl": a[:200], "model": (b or "")[:200]} for c, a, b in list(zip(cases, impl, mo))[:: max(1, len(cases) // 6)][:8]]
    _write_evidence(evidence_path, pid, args.tier, seed, lean, stats, samples, time.time() - t0, len(violations), mod, gen_info, notes=notes[:20])
    for n in notes[:10]: log(n)
    log(f"{pid} {args.tier}: {len(cases)} cases, {len(diverged)} divergences, {len(oracle_fail)} oracle failures, "
        f"{lean['discharged']}/{lean['obligations']} obligations, {time.time()-t0:.1f}s")
    return rc

def _corpus_cases(pid):
    d = os.path.join(CORPUS, pid)
    out = []
    if os.path.isdir(d):
        for fn in sorted(os.listdir(d)):
            with open(os.path.join(d, fn)) as f:
                for line in f:
                    line = line.rstrip("\n")
                    if not line or line.startswith("#"): continue
                    if "\t=>\t" in line:
                        l, e = line.split("\t=>\t"); out.append(Case(l, e, "corpus"))
                    else:
                        out.append(Case(line, None, "corpus"))
    return out

def _write_evidence(path, pid, tier, seed, lean, stats, samples, wall, nviol, mod, gen_info, notes=None, machinery_error=None):
    cov = {
        "obligations": max(1, lean.get("obligations", 0)),
        "discharged": lean.get("discharged", 0),
        "checker_cmd": "lake build " + " ".join(getattr(mod, "LEAN_MODULES", [])) + " && lake env lean <#print axioms of every property theorem>"
                       + (" && lake env leanchecker <module>" if tier == "thorough" else ""),
        "trusted_base": ["Lean 4.33.0 kernel", "axioms: propext, Classical.choice, Quot.sound (audited per theorem; no native_decide/bv_decide/sorry)",
                         "extract/ (clang-14 AST translator, layout probe, literal scraper)",
                         "harness: op2drv (C++), op2model (Lean exe), vlib (Python)"] + list(getattr(mod, "TRUSTED", [])),
        "theorems": sorted(lean.get("axioms", {}).keys()),
        "broken_obligations": lean.get("broken", []),
        "generated_facts": gen_info,
        "evaluations": stats.get("evaluations", 0),
        "distinct_nontrivial": stats.get("distinct_nontrivial", 0),
        "rule": getattr(mod, "RULE", ""),
        "samples": samples,
        "traces_validated_against_impl": stats.get("evaluations", 0),
        "input_distribution": stats.get("tags", {}),
        "impl_success": stats.get("impl_ok", 0), "impl_error": stats.get("impl_err", 0),
        "distinct_outputs": stats.get("distinct_outputs", 0),
        "proved": getattr(mod, "PROVED", ""), "partial": getattr(mod, "PARTIAL", ""),
    }
    if notes: cov["notes"] = notes
    if machinery_error: cov["machinery_error"] = machinery_error
    ev = {"property_id": pid, "tier": tier, "seed": seed, "level": "proof", "coverage": cov,
          "assumptions": list(getattr(mod, "ASSUMPTIONS", [])), "wall_s": round(wall, 2), "violations": nviol}
    with open(path, "w") as f: json.dump(ev, f, indent=1)
