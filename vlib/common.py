"""Shared plumbing for the OP2Utility verification checks (paths, locks, hashing, process helpers)."""
import contextlib, fcntl, hashlib, json, os, shutil, subprocess, sys, tempfile, time

VERIF = os.path.dirname(os.path.dirname(os.path.abspath(__file__)))
REPO = os.environ.get("OP2_REPO", "/repo")
LEAN = os.path.join(VERIF, "lean")
BUILD = os.path.join(VERIF, "build")
HARNESS = os.path.join(VERIF, "harness")
EVIDENCE = os.environ.get("VERIF_EVIDENCE_DIR") or os.path.join(VERIF, "evidence")   # seeded-change runs write theirs elsewhere
REPLAYS = os.path.join(VERIF, "replays")
CORPUS = os.path.join(VERIF, "corpus")
GUARD = "OP2UTILITY_VERIF"
NCPU = os.cpu_count() or 4

def log(*a):
    print("[verif]", *a, file=sys.stderr, flush=True)

@contextlib.contextmanager
def locked(name):
    os.makedirs(BUILD, exist_ok=True)
    path = os.path.join(BUILD, name + ".lock")
    with open(path, "w") as f:
        fcntl.flock(f, fcntl.LOCK_EX)
        try:
            yield
        finally:
            fcntl.flock(f, fcntl.LOCK_UN)

def sha_files(paths, extra=b""):
    h = hashlib.sha256(extra)
    for p in sorted(paths):
        h.update(p.encode()); h.update(b"\0")
        with open(p, "rb") as f:
            h.update(f.read())
        h.update(b"\0")
    return h.hexdigest()

def walk_files(root, exts):
    out = []
    for d, _, fs in os.walk(root):
        if "/.build" in d or "/.git" in d:
            continue
        for f in fs:
            if f.endswith(exts):
                out.append(os.path.join(d, f))
    return sorted(out)

def run(cmd, **kw):
    kw.setdefault("capture_output", True)
    kw.setdefault("text", True)
    return subprocess.run(cmd, **kw)

@contextlib.contextmanager
def scratch_dir(prefix="op2verif."):
    base = os.environ.get("OP2_SCRATCH_BASE") or tempfile.gettempdir()
    d = tempfile.mkdtemp(prefix=prefix, dir=base)
    try:
        yield d
    finally:
        shutil.rmtree(d, ignore_errors=True)

def hexs(b: bytes) -> str:
    return b.hex() if b else "-"

def unhex(s: str) -> bytes:
    return b"" if s == "-" else bytes.fromhex(s)
