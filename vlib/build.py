"""Builds: the sanitizer-instrumented C++ driver from /repo's *current working tree*, and the Lean side."""
import concurrent.futures, glob, os, shutil, subprocess, time
from .common import *

CXX = os.environ.get("OP2_CXX", "g++")
BASE_FLAGS = ["-std=c++17", "-O1", "-g1", "-D" + GUARD, "-D_GLIBCXX_ASSERTIONS",
              "-fsanitize=address,undefined", "-fno-sanitize=nonnull-attribute",
              "-fno-sanitize-recover=all", "-fno-omit-frame-pointer"]
VARIANTS = {
    "san": [],
    # C18: stack poisoned with two different patterns (automatic variables that the code never
    # initialises get visibly different garbage); built with clang because g++ 12 ignores the flag for some aggregates
}

def _src_files():
    return walk_files(os.path.join(REPO, "src"), (".cpp", ".h"))

def driver_key(variant="san", extra_flags=()):
    files = _src_files() + walk_files(os.path.join(HARNESS, "drv"), (".cpp", ".h"))
    return sha_files(files, (" ".join(BASE_FLAGS + list(extra_flags)) + variant + CXX).encode())[:20]

def _compile(args):
    src, obj, flags = args
    os.makedirs(os.path.dirname(obj), exist_ok=True)
    r = run([CXX] + flags + ["-c", src, "-o", obj])
    return src, r.returncode, r.stderr

def build_driver(variant="san", extra_flags=(), cxx=None):
    """Returns (path to op2drv, None) or (None, compiler-output) when /repo does not compile."""
    global CXX
    if cxx: CXX = cxx
    key = driver_key(variant, extra_flags)
    outdir = os.path.join(BUILD, "drv-" + variant + "-" + key)
    exe = os.path.join(outdir, "op2drv")
    with locked("drv-" + variant):
        if os.path.exists(exe):
            os.utime(outdir)
            return exe, None
        t0 = time.time()
        _prune("drv-" + variant + "-", keep=3)
        tmp = outdir + ".tmp"
        shutil.rmtree(tmp, ignore_errors=True)
        os.makedirs(tmp)
        flags = BASE_FLAGS + list(extra_flags) + ["-I" + os.path.join(REPO, "src"), "-I" + os.path.join(HARNESS, "drv")]
        jobs = []
        for s in walk_files(os.path.join(REPO, "src"), (".cpp",)):
            jobs.append((s, os.path.join(tmp, "repo", os.path.relpath(s, REPO) + ".o"), flags))
        for s in walk_files(os.path.join(HARNESS, "drv"), (".cpp",)):
            f2 = flags + (["-fno-access-control"] if os.path.basename(s) == "layout.cpp" else [])
            jobs.append((s, os.path.join(tmp, "drv", os.path.basename(s) + ".o"), f2))
        errs = []
        with concurrent.futures.ThreadPoolExecutor(NCPU) as ex:
            for (src, rc, err), job in zip(ex.map(_compile, jobs), jobs):
                if rc != 0 and os.path.basename(src) == "layout.cpp":
                    # the layout probes of PRIVATE nested records / members need -fno-access-control and the members' names; if
                    # those were renamed or moved the probes are left out (their facts keep the pinned values, see extract.py)
                    src, rc, err = _compile((job[0], job[1], job[2] + ["-DLAYOUT_PUBLIC_ONLY"]))
                    if rc == 0: log("layout.cpp: private probes do not compile against this tree; built without them")
                if rc != 0:
                    errs.append(f"{src}:\n{err}")
        if errs:
            shutil.rmtree(tmp, ignore_errors=True)
            return None, "\n".join(errs)
        objs = [j[1] for j in jobs]
        r = run([CXX] + BASE_FLAGS + list(extra_flags) + objs + ["-lstdc++fs", "-o", os.path.join(tmp, "op2drv")])
        if r.returncode != 0:
            shutil.rmtree(tmp, ignore_errors=True)
            return None, r.stderr
        shutil.rmtree(os.path.join(tmp, "repo"), ignore_errors=True)
        shutil.rmtree(os.path.join(tmp, "drv"), ignore_errors=True)
        shutil.rmtree(outdir, ignore_errors=True)
        os.rename(tmp, outdir)
        log(f"built op2drv[{variant}] in {time.time()-t0:.1f}s -> {exe}")
        return exe, None

def _prune(prefix, keep):
    ds = sorted(glob.glob(os.path.join(BUILD, prefix + "*")), key=lambda d: os.path.getmtime(d))
    for d in ds[:-keep] if len(ds) > keep else []:
        shutil.rmtree(d, ignore_errors=True)

def lake(args, timeout=3000):
    with locked("lake"):
        return run(["lake"] + args, cwd=LEAN, timeout=timeout)

def build_model():
    """lake build op2model; returns (exe, None) or (None, output)."""
    r = lake(["build", "op2model"])
    exe = os.path.join(LEAN, ".lake", "build", "bin", "op2model")
    if r.returncode != 0 or not os.path.exists(exe):
        return None, r.stdout + r.stderr
    return exe, None
