"""C12 — readers deliver exactly the addressed bytes and fail atomically at bounds."""
import itertools
from ..framework import Case
from ..common import hexs
from .streamref import *

LEAN_MODULES = ["Op2Proofs.Props.C12", "Op2Proofs.Props.C12_Gen"]
RULE = ("all operation histories of length <= 2 (thorough: <= 3 on the 5-byte source) over {Read, ReadPartial, Peek, Seek, "
        "SeekForward, SeekBackward, SeekBeginning, SeekEnd} with arguments {0,1,2,len-1,len,len+1,2^31,2^32,2^63,2^64-2,2^64-1,"
        "2^64-len} on sources of length 0,1,5, for memory readers, memory slices, file slices, slices of file slices and "
        "SliceReader<FileSliceReader>; random histories of length up to 40; typed helpers on crafted encodings. A real 64-byte "
        "destination is passed for absurd sizes (a wrongly accepted read is an ASan report). Every line's expected output is "
        "computed by an independent Python rendering of the abstract reader (direct oracle).")
PROVED = ("MemoryReader model = abstract reader on every op with every 64-bit argument and every finite history; SliceReader<W> "
          "= abstract reader over its window for ANY wrapped stream that is correct on in-bounds calls (so slices are safe even "
          "over a sloppy backend); instances for MemoryReader and FileReader; nesting to any depth by induction; clauses of the "
          "property read off the spec (exact bytes, partial = min, peek keeps position, position <= length, failure is a no-op, "
          "fails iff out of bounds); size-prefixed reads consume exactly prefix+payload and reject negative/unsatisfiable sizes; ReadNullTerminatedString(maxCount) over the MemoryReader model delivers exactly the NUL-free prefix of the first maxCount bytes ahead of the cursor, consumes the terminator when it met one, never more than maxCount bytes, and is an error (never a short string) when the data ends first — for every content, cursor and maxCount (C12_null_terminated, _found, _maxcount, _runs_out, _fuel_cut); the same loop over ANY reader whose Read(1) refines the abstract reader runs in agreement with it (readNT_sim, readNT_refined), hence over SliceReader<W> for any in-bounds-correct W (C12_null_terminated_slice: result = ntSpec of the window ahead of the slice's cursor, slice stays well-formed over the same window, Position() advanced by exactly the consumed count, window ending first = bounds error, bytes outside the window never looked at), memory slices and file slices written out (C12_null_terminated_memory_slice, _file_slice), the FileReader model (C12_null_terminated_file), file slices nested to any depth (C12_null_terminated_nested), and with the driver's fuel cut on slice backends (C12_null_terminated_slice_fuel_cut); size-prefixed reads over every refining reader — SliceReader<W> of any in-bounds-correct stream, file slices nested to any depth, the MemoryReader model — decide, deliver and advance exactly as over the abstract reader (C12_prefixed_slice, _nested, _memory; simulation readPrefixed_sim); a refused Read / Peek / Seek / slice creation leaves the object exactly as it was on every implementation model (memory, file, file slice, slice of a file slice) from ANY state and for ANY argument (C12_failure_is_noop_every_backend, C12_refused_request_is_noop); the typed helpers exactly as the run executes them — readNT / readPrefixed over Rd.read of a live object of ANY backend — run as over the abstract reader of what the object exposes (C12_null_terminated_every_backend, C12_prefixed_every_backend; Op2Proofs/SysTyped.lean); L2: guards and cursor updates of MemoryReader (Seek/SeekForward/SeekBackward/ReadImplementation/ReadPartial/Slice) and SliceReader<FileReader> (ReadImplementation/ReadPartial/Seek/SeekForward/SeekBackward/Position) are re-translated from the C++ on every run (Gen/Streams.lean) and proved equal to the models' on all 64-bit values (C12_gen_*)")
PARTIAL = ("ReadNullTerminatedString is a theorem for every reader model: MemoryReader, FileReader, and every slice (memory slices, file "
           "slices nested to any depth; C12_null_terminated*, side conditions: position <= length < 2^64 resp. the slice invariant "
           "sliceGood); std::ifstream's in-bounds behaviour is trusted base (FileR), exercised by the file-slice groups")
TRUSTED = ["in-bounds behaviour of std::ifstream (read/seekg/tellg/gcount) as modelled by Stream.FileR"]
ASSUMPTIONS = ["stream lengths < 2^64", "typed-helper atomicity is NOT claimed (the property does not ask for it)"]

SRC = {0: b"", 1: b"\x07", 5: bytes([1, 2, 3, 4, 5])}

def backends_for(n, rng=None):
    """(backend spec, parent data) pairs whose window has length n"""
    out = []
    w = SRC[n]
    out.append(("mem", w))
    out.append(("dyn", w))
    parent = b"\xAA\xBB" + w + b"\xCC"
    out.append((f"mslice2:2:{n}", parent))
    out.append((f"fslice:2:{n}", parent))
    out.append((f"fss:1:{n + 2}:1:{n}", parent))
    out.append((f"fwrap:1:{n + 2}:1:{n}", parent))
    out.append((f"mss:1:{n + 2}:1:{n}", parent))
    out.append((f"mslice1:2:{n}", parent))
    return out

def hist_case(backend, parent, ops, tag):
    w = window(parent, backend)
    exp = spec_hist(w, ops) if w is not None else "create-err"
    return Case(f"rd.hist {backend} {hexs(parent)} {','.join(ops) if ops else '-'}", expect=exp, tag=tag)

def cases(tier, rng):
    thorough = tier == "thorough"
    for n in (0, 1, 5):
        ops = all_ops(n)
        for backend, parent in backends_for(n):
            kind = backend.split(":")[0]
            for o1 in ops:
                yield hist_case(backend, parent, [o1], f"{kind}-len1")
            if kind in ("mem", "fslice", "fss", "mslice2") or thorough:
                for o1 in ops:
                    for o2 in ops:
                        yield hist_case(backend, parent, [o1, o2], f"{kind}-len2")
    if thorough:
        ops = all_ops(5, [0, 1, 4, 5, 6, 1 << 32, 1 << 63, M64, (1 << 64) - 5])
        for backend, parent in backends_for(5)[:4]:
            kind = backend.split(":")[0]
            for h in itertools.product(ops, repeat=3):
                yield hist_case(backend, parent, list(h), f"{kind}-len3")
    # random longer histories, mostly in-bounds with out-of-bounds and wrap-around arguments mixed in
    for _ in range(6000 if thorough else 1200):
        n = rng.choice([0, 1, 5, 5, 5, 17, 40])
        data = bytes(rng.randrange(256) for _ in range(n))
        pre = rng.randrange(0, 4); post = rng.randrange(0, 4)
        parent = bytes(rng.randrange(256) for _ in range(pre)) + data + bytes(rng.randrange(256) for _ in range(post))
        backend = rng.choice([f"mslice2:{pre}:{n}", f"fslice:{pre}:{n}", "mem", f"mslice1:{pre}:{n}"])
        if backend == "mem": parent = data
        ops = []
        for _ in range(rng.randrange(1, 40)):
            c = rng.choice("rrppkksfbBE")
            if c in "BE": ops.append(c); continue
            a = rng.choice(boundary_args(n)) if rng.random() < 0.25 else rng.randrange(0, n + 2)
            ops.append(c + str(a))
        yield hist_case(backend, parent, ops, "random-history")
    # typed helpers: fixed-size values, containers, size-prefixed containers, NUL-terminated strings
    def le(v, w): return v.to_bytes(w, "little")
    for backend_kind in ("mem", "fslice"):
        def mk(data, ops, expect, tag, isolated=False):
            parent = b"\x99" + data
            backend = "mem" if backend_kind == "mem" else f"fslice:1:{len(data)}"
            p = data if backend_kind == "mem" else parent
            return Case(("!" if isolated else "") + f"rd.hist {backend} {hexs(p)} {ops}", expect=expect, tag=tag)
        n = 12; d = bytes(range(1, n + 1))
        for w in (1, 2, 4, 8):
            v = int.from_bytes(d[:w], "little")
            yield mk(d, f"u{w},r1", f"{v}:{w}:{n},{hexs(d[w:w+1])}:{w+1}:{n}", "typed-fixed")
            yield mk(d[:w - 1], f"u{w}", f"err:0:{w-1}", "typed-fixed-short")
        for w in (1, 2, 4):
            for cnt in (0, 1, 3):
                payload = bytes(range(65, 65 + cnt))
                data = le(cnt, w) + payload + b"ZZ"
                L = len(data)
                yield mk(data, f"q{w},r1", f"{hexs(payload)}:{w+cnt}:{L},5a:{w+cnt+1}:{L}", "typed-prefixed")
                yield mk(data, f"i{w},r1", f"{hexs(payload)}:{w+cnt}:{L},5a:{w+cnt+1}:{L}", "typed-prefixed-signed")
                data2 = le(cnt, w) + bytes(range(1, 2 * cnt + 1)) + b"Z"
                yield mk(data2, f"v{w},r1", f"{hexs(data2[w:w+2*cnt])}:{w+2*cnt}:{len(data2)},5a:{w+2*cnt+1}:{len(data2)}", "typed-prefixed-vector")
            # negative sizes with a signed prefix are rejected
            for neg in (-1, -2, -(1 << (8 * w - 1))):
                data = le(neg & ((1 << (8 * w)) - 1), w) + b"abcdef"
                yield mk(data, f"i{w}", f"err:?:{len(data)}", "typed-negative-size")
            # a size the stream cannot satisfy
            data = le(5, w) + b"abc"
            yield mk(data, f"q{w}", f"err:?:{len(data)}", "typed-unsatisfiable")
        # sizes beyond max_size()/allocation cap: an ordinary error, never an attempt
        yield mk(le((1 << 63) + 5, 8) + b"abc", "q8", f"err:?:11", "typed-oversize", isolated=True)
        yield mk(le(M64, 8) + b"abc", "i8", f"err:?:11", "typed-negative-size", isolated=True)
        yield mk(le(0xFFFFFFFF, 4) + b"abc", "v4", "err:alloc", "typed-attacker-alloc", isolated=True)
        # containers read into a pre-sized vector
        yield mk(d, "c2,r1", f"{hexs(d[:8])}:8:{n},09:9:{n}", "typed-container")
        yield mk(d, "c4", f"err:0:{n}", "typed-container-short")
        # strings of 2- and 4-byte characters consume n * sizeof(CharT) bytes, and are refused whole when those are not there
        yield mk(d, "W3,r1", f"{hexs(d[:6])}:6:{n},{hexs(d[6:7])}:7:{n}", "typed-wide-string")
        yield mk(d, "r1,W2,X1,r1", f"{hexs(d[:1])}:1:{n},{hexs(d[1:5])}:5:{n},{hexs(d[5:9])}:9:{n},{hexs(d[9:10])}:10:{n}", "typed-wide-string")
        yield mk(d, "X2,r1", f"{hexs(d[:8])}:8:{n},{hexs(d[8:9])}:9:{n}", "typed-wide-string")
        yield mk(d[:5], "W3", "err:0:5", "typed-wide-string-short")
        yield mk(d[:7], "X2,r1", f"err:0:7,{hexs(d[:1])}:1:7", "typed-wide-string-short")
        # NUL-terminated strings: bounded, unbounded, missing terminator
        s = b"ab\x00cd\x00ef"
        yield mk(s, "z9,z9", f"6162:3:{len(s)},6364:6:{len(s)}", "typed-nts")
        yield mk(s, "z1,z1,z5", f"61:1:{len(s)},62:2:{len(s)},-:3:{len(s)}", "typed-nts-bounded")
        yield mk(s, "s6,z9", f"ok:6:{len(s)},err:?:{len(s)}", "typed-nts-unterminated")
        yield mk(s, f"z{M64}", f"6162:3:{len(s)}", "typed-nts")
        yield mk(s, "z0,r1", f"-:0:{len(s)},61:1:{len(s)}", "typed-nts-bounded")
