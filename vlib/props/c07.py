"""C07 — map and saved-game readers are safe and self-consistent on arbitrary bytes."""
from ..framework import Case, run_impl
from ..common import hexs
from . import mapref as R

LEAN_MODULES = ["Op2Proofs.Props.C07"]
RULE = ("every case runs in a forked child under ASan+UBSan with a watchdog. (a) EVERY prefix of valid map files (one sweep per "
        "file) and, for saved games (~370 KB), every prefix length within 2 bytes of a field boundary plus a stride: the shortest "
        "accepted prefix must be exactly the consumed length and every accepted prefix must give the same map; (b) every 32-bit "
        "header / length / count field of maps and saved games x boundary values {0,1,2,3,7,8,9,31,32,33,255,256,0x100F,0x1010,"
        "0x1011,2^16-1,2^16,2^31-1,2^31,2^31+1,2^32-2,2^32-1}; (c) (log-width,height) pairs incl. lg in {31,32,33,40,63,64,2^32-1}, "
        "heights whose product with the width crosses 2^32 and pairs whose TRUNCATED product is small and satisfied by the file; "
        "(d) well-framed invalid files (name length 9..12, tag mismatch, low tags, marker corrupted at each byte, unit size != 120); "
        "(e) saved game vs map file holding the same embedded portion; (f) the FileReader backend. Oracle on every returned map: "
        "width a power of two and tile count = width x height in N; no fault / hang")
PROVED = ("for ALL byte strings, map and saved-game reader: never a fault (the checked shifts cannot fire behind the header guard); "
          "a returned map has width 2^k, k<32, and exactly width*height tiles in N; every proper prefix cutting into the consumed "
          "part is refused and trailing bytes are ignored (both readers are Local parsers); a saved game and a map file holding "
          "the same embedded portion give the same dimensions, tiles, clip rectangle, sources, mappings, terrain types")
PARTIAL = ("allocation of attacker-sized tables (tiles.resize(n) ...) is runtime behaviour: the model answers with the bounds error of "
           "the read that follows; the real process answers err:alloc under the harness cap. Termination is Lean totality of the "
           "model plus the watchdog on the real code.")
TRUSTED = ["ASan/UBSan/_GLIBCXX_ASSERTIONS as detectors of memory errors and undefined arithmetic in the real library"]
# symbolize=0: an ASan abort on an attacker-sized allocation otherwise spends 0.1 s per case in the symbolizer
ENV = {"ASAN_OPTIONS": "detect_leaks=0:allocator_may_return_null=0:max_allocation_size_mb=1024:symbolize=0"}
ASSUMPTIONS = []

def field_cases(kind, expr, raw, fields, tagbase, values=R.BOUNDARY32):
    """field x boundary values.  A changed field usually desynchronises the rest of the file, so what the reader then asks the
    allocator for is predicted by the reference reader on the patched bytes: attacker-sized requests (the real process is
    stopped by the harness cap: err:alloc) get one forked case each, the rest go into one forked sweep per field."""
    for off, width, name, _ in fields:
        sweep = []
        for v in values:
            patched = raw[:off] + R.u32(v) + raw[off + 4:]
            res = R.parse(patched, kind)
            if res[0] == "alloc":
                yield Case(f"!map.read {kind} {expr}~{off}:{hexs(R.u32(v))}", nomodel=True, tag=f"{tagbase}-huge",
                           check=lambda o: None if o in ("err", "err:alloc") else f"attacker-sized table not refused: {o[:100]}")
            elif res[-1] <= (1 << 24):                           # larger ones allocate for real: slow, nothing to learn
                sweep.append(v)
        low_tag = name in ("versionTag", "tag2", "tag3")
        def chk(o, sweep=sweep, low_tag=low_tag):
            if o == "err:alloc":
                return ("the reader asked for an attacker-sized allocation on an input for which the format's reference reader asks for "
                        "none: it kept reading where the format says stop (one of the listed values was accepted)")
            toks = o.split()
            if len(toks) != len(sweep): return f"unexpected output {o[:100]!r}"
            for v, t in zip(sweep, toks):
                if t == "e": continue
                p = t.split(":")
                if p[0] != "ok" or len(p) != 6: return f"unexpected token {t!r}"
                w, h, tc = int(p[1]), int(p[2]), int(p[3])
                if w <= 0 or w & (w - 1): return f"value {v}: returned width {w} is not a power of two"
                if tc != w * h: return f"value {v}: returned map has {tc} tiles for {w} x {h}"
                if low_tag and v < R.MIN_VERSION: return f"value {v}: version tag below MinMapVersion accepted"
            return None
        if sweep:
            yield Case(f"!map.vals {kind} {expr} {off} {width} {','.join(map(str, sweep))}", check=chk, tag=f"{tagbase}-fields")

def cuts_case(kind, expr, n, ks, total, tag):
    ks = sorted(set(k for k in ks if 0 <= k <= total))
    below = sum(1 for k in ks if k < n)
    return Case(f"!map.cuts {kind} {expr} {','.join(map(str, ks))}", tag=tag,
                expect=f"n={n} firstok={n if any(k >= n for k in ks) else 'none'} ok={len(ks) - below} err={below} same=1")

def dims_cases(rng):
    """(lg, height) pairs: over-wide shifts, products crossing 2^32, truncated products that the file satisfies"""
    pairs = [(31, 0), (31, 1), (31, 2), (31, 4), (30, 4), (30, 8), (29, 8), (16, 65536), (1, 1 << 31), (1, (1 << 31) + 1), (5, (1 << 27) + 1),
             (32, 0), (32, 1), (33, 1), (40, 1), (63, 1), (64, 1), (65, 3), (255, 1), (256, 1), (1 << 31, 1), (R.M32, 1), (R.M32, R.M32),
             (0, R.M32), (1, R.M32), (20, 4096), (20, 4097), (10, 1 << 22), (10, (1 << 22) + 1), (12, 1 << 20), (31, R.M32), (16, 65535), (16, 65537)]
    for lg, h in pairs:
        true = (h << lg) if lg < 64 else None
        trunc = ((h << lg) & R.M32) if lg < 32 else 0
        ntiles = trunc if trunc <= 64 else 0
        m = R.MapV(0, 0, tiles=[rng.randrange(1 << 32) for _ in range(ntiles)])
        m.lg = lg; m.h = h
        b = m.encode()                                              # header says (lg, h); file holds the truncated count of tiles
        fits = lg < 32 and true is not None and true <= R.M32
        req = 4 * true if fits else 0
        if req > R.ALLOC_CAP:
            yield Case(f"!map.read m {hexs(b)}", nomodel=True, tag="dims-huge",
                       check=lambda o: None if o in ("err", "err:alloc") else f"attacker-sized tile array not refused: {o[:100]}")
        elif req > (1 << 24):
            continue
        else:
            yield Case(f"!map.read m {hexs(b)}", check=R.shape_check, tag="dims-pairs")
            e, n = R.SavedGame(m).pieces()
            yield Case(f"!map.read s {e}", check=R.shape_check, tag="dims-pairs-saved")

def cases(tier, rng):
    thorough = tier == "thorough"
    # (a) every prefix of valid maps
    for i in range(40 if thorough else 12):
        m = R.rnd_map(rng, big=(i % 3 == 0))
        b = m.encode()
        junk = b"tail" if i % 2 else b""
        yield cuts_case("m", hexs(b + junk), len(b), range(0, len(b) + len(junk) + 1), len(b + junk), "prefix-map")
        yield Case(f"!map.read m {hexs(b + junk)}", expect=m.dump(len(b)), tag="valid-map")
    # (e) + prefixes of saved games at and around every field boundary
    for i in range(10 if thorough else 4):
        m = R.rnd_map(rng, big=(i == 0))
        ua = dict(unitCount=rng.choice([0, 0, 5]), sizeOfUnit=120, nextFree=rng.choice([0, 9]), firstFree=rng.choice([0, 9, 10]),
                  c1=rng.choice([0, 1, 2]), c2=rng.choice([0, 1, 5]))
        if i == 1: ua.update(unitCount=0, sizeOfUnit=77)             # a unit size other than 120 is fine while there are no units
        sg = R.SavedGame(m, rest=R.rnd_bytes(rng, rng.choice([0, 3, 50])), **ua)
        fields = []
        expr, n = sg.pieces(fields)
        total = n + len(sg.rest)
        yield Case(f"!map.read s {expr}", expect=sg.dump(n), tag=f"pair-sg:{i}")
        mm = m.copy(); mm.grps = []; mm.unknown = None
        b = mm.encode()
        yield Case(f"!map.read m {hexs(b)}", expect=mm.dump(len(b)), tag=f"pair-map:{i}")
        ks = {0, 1, R.SKIP - 1, R.SKIP, R.SKIP + 1, R.SKIP + 19, R.SKIP + 20, n - R.UNITS_ARRAY, n, n - 1, n - 2, n - 3, n - 4, n - 5, n + 1, total}
        for off, w, _, _ in fields: ks |= {off - 1, off, off + 1, off + w - 1, off + w, off + w + 1}
        ks |= set(range(R.SKIP, n, 1 + (n - R.SKIP) // (60 if thorough else 25)))
        ks |= set(range(R.SKIP, min(n, R.SKIP + len(m.beginning()) + 8)))
        yield cuts_case("s", expr, n, ks, total, "prefix-saved")
        # (b) field x boundary values on the saved game (every field of the embedded map and of the unit block)
        if i < (4 if thorough else 2):
            yield from field_cases("s", expr, sg.bytes_, fields, "saved")
    # (f) the reader is handed over at a non-zero position (a map embedded behind other data), and is read again where the
    #     first read stopped: the stream's end is the limit wherever the cursor started
    for i in range(6 if thorough else 3):
        m = R.rnd_map(rng, big=(i == 0)); b = m.encode()
        for skip in (1, 64, 4097):
            want = m.dump(len(b))
            yield Case(f"!map.readat m {skip} g{skip}:3+{hexs(b)}", tag="map-behind-prefix",
                       check=(lambda o, want=want: None if o == want + " 2nd=err" else f"property demands {want + ' 2nd=err'!r}, implementation returned {o[:200]!r}"))
            for cut in sorted({0, 1, len(b) // 2, len(b) - 1}):
                yield Case(f"!map.readat m {skip} g{skip}:3+{hexs(b)}@{skip + cut}", expect="err", tag="truncated-map-behind-prefix")
        sg = R.SavedGame(m, rest=b"", unitCount=0, sizeOfUnit=120, nextFree=0, firstFree=0, c1=0, c2=0)
        expr, n = sg.pieces([])
        for skip in (1, 64):
            want = sg.dump(n)
            yield Case(f"!map.readat s {skip} g{skip}:3+{expr}", tag="saved-behind-prefix",
                       check=(lambda o, want=want: None if o == want + " 2nd=err" else f"property demands {want + ' 2nd=err'!r}, implementation returned {o[:200]!r}"))
            for cut in sorted({0, 40, R.SKIP - skip, R.SKIP - 1, R.SKIP, R.SKIP + 3, n - 1}):
                if 0 <= cut < n:
                    yield Case(f"!map.readat s {skip} g{skip}:3+{expr}@{skip + cut}", expect="err", tag="truncated-saved-behind-prefix")
    # (b) field x boundary values on maps
    for i in range(12 if thorough else 4):
        m = R.rnd_map(rng, lg=rng.choice([0, 1, 3]), h=rng.choice([1, 2, 3]))
        if i == 0:
            m.srcs = [R.Src(b"well0001", 3), R.Src(b"", 0), R.Src(b"ab", 9)]
            m.grps = [R.Grp(b"rock", 2, 3), R.Grp(b"", 0, 5), R.Grp(b"cliff", 1, 1)]
            m.maps = [R.rnd_bytes(rng, 8) for _ in range(3)]; m.ters = [R.rnd_bytes(rng, 264)]
        fields = []
        b = m.encode(fields)
        yield from field_cases("m", hexs(b + b"\0" * 8), b + b"\0" * 8, fields, "map")
    # (c) dimensions
    yield from dims_cases(rng)
    # (d) well-framed invalid files
    base = R.rnd_map(rng, 2, 2); base.srcs = [R.Src(b"well0001", 5), R.Src(b"", 0)]; base.tag = 0x1011
    must_err = lambda why: (lambda o: None if o.startswith("err") else f"{why} accepted: {o[:100]}")
    for ln in (9, 10, 12, 16, 255):
        m = base.copy(); m.srcs[0] = R.Src(bytes([65] * ln), 5)
        yield Case(f"!map.read m {hexs(m.encode())}", tag="invalid-name-length")          # model: refused (documented limit of 8)
    for ln in range(0, 9):
        m = base.copy(); m.srcs[0] = R.Src(bytes([66] * ln), 5 if ln else 0); b = m.encode()
        yield Case(f"!map.read m {hexs(b)}", expect=m.dump(len(b)), tag="valid-name-length")
    fields = []; b = base.encode(fields)
    offs = {name: off for off, _, name, _ in fields}
    for name in ("versionTag", "tag2", "tag3"):
        for v in (0, 1, 0x100F, 0x1010, 0x1012, R.M32):
            bb = bytearray(b); bb[offs[name]:offs[name] + 4] = R.u32(v)
            ok_all = (v == base.tag)
            yield Case(f"!map.read m {hexs(bytes(bb))}", tag="tags",
                       check=(must_err("version tag below MinMapVersion") if v < R.MIN_VERSION else R.shape_check))
    # coordinated: all three tags carry the same value (a single low tag is refused by the equality test alone)
    for v in (0, 1, 0x100F, 0x1010, R.M32):
        m = base.copy(); m.tag = v; bb = m.encode()
        e, n = R.SavedGame(m).pieces()
        if v < R.MIN_VERSION:
            yield Case(f"!map.read m {hexs(bb)}", tag="tags-coordinated", check=must_err("version tag below MinMapVersion (all three tags)"))
            yield Case(f"!map.read s {e}", tag="tags-coordinated", check=must_err("version tag below MinMapVersion (all three tags)"))
        else:
            yield Case(f"!map.read m {hexs(bb)}", tag="tags-coordinated", expect=m.dump(len(bb)))
            yield Case(f"!map.read s {e}", tag="tags-coordinated", expect=R.SavedGame(m).dump(n))
    mpos = b.index(R.MARKER)
    for k in range(10):
        bb = bytearray(b); bb[mpos + k] ^= 0x20
        yield Case(f"!map.read m {hexs(bytes(bb))}", tag="marker")
    sg = R.SavedGame(base, unitCount=3, sizeOfUnit=119); e, n = sg.pieces()
    yield Case(f"!map.read s {e}", tag="unit-size")
    sg = R.SavedGame(base, unitCount=3, sizeOfUnit=120, c1=1, c2=2, nextFree=1, firstFree=2); e, n = sg.pieces()
    yield Case(f"!map.read s {e}", expect=sg.dump(n), tag="valid-saved")
    # the map reader on a saved game and vice versa, empty input, short inputs
    yield Case(f"!map.read m {e}", check=R.shape_check, tag="cross")
    yield Case(f"!map.read s {hexs(b)}", check=R.shape_check, tag="cross")
    for d in ("-", "00", "z19", "z20", "z4096", f"z{R.SKIP}", f"z{R.SKIP + 19}", f"z{R.SKIP + 20}", "g4096:1", "g400000:3"):
        for kind in "ms":
            yield Case(f"!map.read {kind} {d}", check=R.shape_check, tag="short")
    # random byte-level mutations of valid files
    for _ in range(300 if thorough else 60):
        m = R.rnd_map(rng); bb = bytearray(m.encode())
        for _ in range(rng.randrange(1, 4)):
            p = rng.randrange(len(bb)); bb[p] = rng.choice([0, 1, 0xFF, 0x80, bb[p] ^ (1 << rng.randrange(8))])
        res = R.parse(bytes(bb))
        if res[0] == "alloc":                      # attacker-sized table: the real process answers err:alloc under the harness cap
            yield Case(f"!map.read m {hexs(bytes(bb))}", tag="mutated-huge", nomodel=True,
                       check=lambda o: None if o in ("err", "err:alloc") else f"attacker-sized table not refused: {o[:100]}")
        elif res[-1] <= (1 << 24):
            yield Case(f"!map.read m {hexs(bytes(bb))}", tag="mutated", check=R.shape_check)
    # (f) FileReader backend
    m = R.rnd_map(rng, 3, 2); b = m.encode()
    yield Case(f"!map.file m {hexs(b)}", expect=m.dump(0), tag="file-backend")
    yield Case(f"!map.file m {hexs(b[:-1])}", expect="err", tag="file-backend")
    sg = R.SavedGame(m); e, n = sg.pieces()
    yield Case(f"!map.file s {e}", expect=sg.dump(0), tag="file-backend")
    yield Case(f"!map.file s {e}@{n - 1}", expect="err", tag="file-backend")
    yield Case(f"!map.file s {e}@{R.SKIP - 5}", expect="err", tag="file-backend")

def relational_oracles(cases_, impl):
    """a saved game and a map file holding the same embedded portion give the same map part"""
    sg = {}; mp = {}
    for c, a in zip(cases_, impl):
        if c.tag.startswith("pair-sg:"): sg[c.tag[8:]] = (c, a)
        elif c.tag.startswith("pair-map:"): mp[c.tag[9:]] = (c, a)
    for k, (c, a) in sg.items():
        if k not in mp: continue
        d1 = R.parse_dump(a); d2 = R.parse_dump(mp[k][1])
        if d1 is None or d2 is None: continue          # the expect oracles of the two cases report that
        for f in ("w", "h", "tc", "tiles", "clip", "src", "map", "ter"):
            if d1.get(f) != d2.get(f):
                yield c, a, f"saved game and map file with the same embedded portion differ in {f}: {d1.get(f)} vs {d2.get(f)}"
                break

def _oracle_failures(drv, cs):
    outs = run_impl(drv, [c.line for c in cs])
    for c, a in zip(cs, outs):
        if a.startswith("fault:") or a == "hang": return c, a, f"implementation outcome {a}"
        if c.expect is not None and a != c.expect: return c, a, f"direct oracle: property demands {c.expect[:200]!r}, implementation returned {a[:200]!r}"
        if c.check is not None:
            msg = c.check(a)
            if msg: return c, a, "direct oracle: " + msg
    for c, a, msg in relational_oracles(cs, outs): return c, a, "direct oracle: " + msg
    return None

def search(drv, model, diverged, lean, rng):
    import random
    for s in range(2):
        r = random.Random(f"C07-search-{s}-{rng.random()}")
        f = _oracle_failures(drv, list(cases("thorough" if s == 0 else "quick", r)))
        if f: return f
    return None

# L2 guard-sequence fragment (extract/gen_guards.py -> lean/Op2Model/Gen/Guards.lean; notes/l2guards.md)
LEAN_MODULES = LEAN_MODULES + ["Op2Proofs.Props.C07_Gen"]
PROVED = PROVED + ("; " +
          "L2 guard fragment (Gen/Guards.lean): C07_gen_dims_refuses (the dimension guard of ReadMapBeginning regenerated from the clang AST refuses iff Map.dimsOk is false, for all uint32 lg and height), C07_gen_minVersion_refuses (CheckMinVersionTag refuses iff tag < Map.minMapVersion)")
