"""C05 (VOL part) — the VOL reader is safe on arbitrary bytes; failed calls change nothing; streams are exact or refused."""
import itertools, struct
from ..framework import Case
from ..common import hexs
from . import volref as V
from . import c01

LEAN_MODULES = ["Op2Proofs.Props.C05_Vol"]
RULE = ("one case = one byte string written to a file, opened with VolFile in a forked child under ASan/UBSan with a watchdog, "
        "followed by a call sequence over {count, name, size, kind, index, contains, stream+drain, stream by name, extract} with "
        "indices {0, 1, count-1, count, 2^32, 2^64-1}; inputs: EVERY prefix of each base archive (0-3 members, unused slots, LZH "
        "member), EVERY integer field x {0,1,2,2^31-1,2^31,2^31+1,2^32-2,2^32-1, +-1 around the true value, and the values "
        "that put the dependent extent exactly at / one past the end of the file}, coordinated corruptions (index length not a "
        "multiple of 14, more valid entries than names, actual name length beyond the padded length, block offset/length beyond "
        "EOF, header length vs table lengths wrapping 2^32), random byte flips; each input once with one long-lived object and "
        "once with a fresh object per call (outputs must agree); within a sequence the same call must give the same answer "
        "wherever it stands (a failed call changes nothing); a stream that is delivered must equal the file bytes at the extent "
        "the archive records, which must lie inside the file")
PROVED = ("for ALL byte strings and ALL call sequences: C05_open_no_fault, C05_calls_no_fault, C05_no_fault (the checked primitives copyInto / "
          "vecIdx never fail: no out-of-bounds copy or vector index; the model is total, so every call returns); C05_open_inv "
          "(count <= names and entries); C05_history_independent (answers do not depend on the shared reader position); "
          "C05_failed_call_is_noop (any call, failed or not, leaves every later answer unchanged); C05_stream_exact (a delivered "
          "stream is exactly file[extent recorded by index entry and block header], extent inside the file); C05_stream_never_short "
          "(extent not inside the file => ordinary error); the pinned code's defects as theorems (C05_pinned_D6_faults, C05_pinned_D7_faults)")
PARTIAL = ("real heap layout, allocator behaviour and std::ifstream are outside the model (sanitizer run + C12/C13); the LZH decoder's "
           "behaviour on hostile data is C04's; attacker-sized allocations are canonicalised to err:alloc")
TRUSTED = ["std::ifstream (seek past the end succeeds, short read sets failbit) as used by FileReader — C12/C13 correspondence groups"]
ASSUMPTIONS = ["attacker-sized allocations above the harness cap (1 GiB) are ordinary errors (err:alloc)"]

M32 = (1 << 32) - 1
BOUNDARY = [0, 1, 2, (1 << 31) - 1, 1 << 31, (1 << 31) + 1, M32 - 1, M32]
IDX = lambda n: sorted({0, 1, max(n - 1, 0), n, 1 << 32, (1 << 64) - 1})

def base_archives(rng):
    mk = lambda n, k, comp=V.UNCOMPRESSED, size=None: V.Member(n, bytes((37 * i + k) & 0xFF for i in range(k)), size=size, comp=comp)
    return [
        ("empty", [], 0, 0),
        ("one", [mk(b"a.txt", 5)], 0, 0),
        ("two", [mk(b"A", 3), mk(b"bc.d", 8)], 0, 0),
        ("three-unused", [mk(b"a", 0), mk(b"B", 1), mk(b"c.x", 6)], 2, 0),
        ("lzh-slack", [mk(b"k.lz", 7, V.LZH, 100), mk(b"z", 2)], 0, 3),
    ]

def op_sequence(names, n, rng, long=True):
    """a call sequence that issues every kind of call at every boundary index, with repeats (so that 'same call, same answer'
    is observable) and failing calls in between"""
    qs = [nm.swapcase() for nm in names[:2]] + [b"nope", b"", b"./" + (names[0] if names else b"x"), b"a/b"]
    ops = ["c"]
    for i in IDX(n):
        ops += [f"n{i}", f"s{i}", f"k{i}", f"r{i}", f"e{i}"]
    for q in qs: ops += [f"x{hexs(q)}", f"h{hexs(q)}", f"q{hexs(q)}"]
    # interleave: every good call again after the failing ones
    again = [o for o in ops if o[0] in "nskrxhq"]
    rng.shuffle(again)
    return ops + again[:24] + ["c"]

def parse_ops(line):
    return line.split()[3].split(",") if line.split()[3] != "-" else []

def make_check(arc, line):
    """direct oracles on one output line (no reference to the model)"""
    ops = parse_ops(line)
    def chk(out):
        if out in ("open:err", "err:alloc"): return None        # refused at construction (err:alloc: attacker-sized allocation)
        parts = out.split(",")
        if parts[0] != "open:ok" or len(parts) != len(ops) + 1: return f"malformed output {out[:120]!r}"
        seen = {}
        for op, r in zip(ops, parts[1:]):
            if op in seen and seen[op] != r:
                return f"call {op} answered {seen[op]!r} earlier and {r!r} later in the same sequence (a failed call must change nothing)"
            seen.setdefault(op, r)
            if op[0] in "re" and not r.startswith("err"):
                # (an LZH member's extraction is reported as "lzh": its decoded bytes belong to C04, but the stored block it was
                # decoded from must lie inside the file all the same — a short block must be refused, not decoded)
                ext = V.recorded_extent(arc, int(op[1:]))
                if ext is None: return f"call {op} delivered {r!r} but the archive's records for it are not inside the file"
                start, ln = ext
                if start + ln > len(arc): return f"call {op} delivered {r!r} although the recorded extent [{start},{start + ln}) exceeds the file ({len(arc)} bytes)"
                if r != "lzh" and r != V.show(arc[start:start + ln]): return f"call {op} delivered {r!r}, the file bytes at the recorded extent are {V.show(arc[start:start + ln])!r}"
        return None
    return chk

def corruptions(name, ms, unused, slack, rng, thorough):
    fields = []; arc = V.encode(ms, unused, slack, fields)
    L = len(arc); out = []
    def put(off, width, val, tag):
        b = bytearray(arc); b[off:off + width] = (val & ((1 << (8 * width)) - 1)).to_bytes(width, "little"); out.append((bytes(b), tag))
    # every prefix
    for k in range(L): out.append((arc[:k], "prefix"))
    out.append((arc + b"\0", "one-trailing-byte")); out.append((arc + bytes(range(1, 9)), "trailing-bytes"))
    # every integer field x boundary values
    for off, width, fname in fields:
        true = int.from_bytes(arc[off:off + width], "little")
        vals = set(BOUNDARY if width == 4 else [0, 1, 2, 0x100, 0x101, 0x102, 0x103, 0x104, 0x7FFF, 0x8000, 0xFFFF])
        vals |= {true + 1, true - 1, true ^ (1 << 31)} if width == 4 else set()
        flag = (1 << 31) if ("len" in fname and "actual" not in fname) else 0
        # values that put the dependent extent exactly at / one past the end of the file
        for v in (L, L - 1, L + 1, L - off, L - off - 4, L - off - 3, L - 8, L - 7, L - 9):
            if v >= 0: vals.add(v | flag)
        for v in list(vals):
            if flag and width == 4: vals.add((v & 0x7FFFFFFF) | flag)
        if not thorough and len(fields) > 14:
            keep = set(BOUNDARY[:2] + BOUNDARY[3:6] + BOUNDARY[-1:]) | {true + 1, true - 1}
            vals = {v for v in vals if v in keep or rng.random() < 0.35}
        for v in sorted(x for x in vals if 0 <= x < (1 << (8 * width)) and x != true):
            put(off, width, v, "field-" + fname.split(".")[-1] + "-boundary")
    fo = {n: o for o, w, n in fields}
    # coordinated corruptions
    for il in (1, 13, 15, 27, 29, 14 * (len(ms) + unused) + 1, 14 * (len(ms) + unused + 1)):
        put(fo["voli.len"], 4, il | (1 << 31), "index-length-not-multiple-of-14")
    if ms:
        first = len(ms[0].name) + 1
        for a in (0, 1, first - 1, first, first + 1):
            put(fo["vols.actual"], 4, a, "more-valid-entries-than-names")
        sl = V.pad4(4 + sum(len(m.name) + 1 for m in ms))
        for a in (sl - 4, sl - 3, sl, sl + 1, sl + 10, L, M32, M32 - 3, (1 << 30) - 1, 1 << 30):
            put(fo["vols.actual"], 4, a, "actual-name-length-beyond-padded")
        for k in range(len(ms)):
            for v in (L - 8, L - 7, L - 4, L, L + 1, M32 - 7, M32 - 8):
                put(fo[f"e{k}.dataOff"], 4, v, "block-offset-at-or-beyond-eof")
            true = len(ms[k].payload); boff = fo[f"b{k}.len"]
            room = L - (boff + 4)
            for v in (room, room + 1, room - 1, 0x7FFFFFFF, 0x7FFFFFFE, true + 4, 0):
                if v >= 0: put(boff, 4, (v & 0x7FFFFFFF) | (1 << 31), "block-length-at-or-beyond-eof")
            put(boff, 4, true, "block-flag-cleared")
            b = bytearray(arc); b[boff - 4] ^= 0x20; out.append((bytes(b), "block-tag-damaged"))
    # header length against the table lengths, including sums that wrap 2^32
    for hl, sl2, il2 in ((0, None, None), (19, None, None), (None, 0x7FFFFFFF, None), (None, None, 0x7FFFFFFF), (0x7FFFFFFF, 0x7FFFFFFF, 0x7FFFFFFF),
                         (0x7FFFFFFF, 0x7FFFFFF0, 0x7FFFFFFF), (L - 8, 0x7FFFFFEC, None), (None, 0x7FFFFFFF, 0x7FFFFFFF)):
        b = bytearray(arc)
        if hl is not None: struct.pack_into("<I", b, fo["VOL.len"], hl | (1 << 31))
        if sl2 is not None: struct.pack_into("<I", b, fo["vols.len"], sl2 | (1 << 31))
        if il2 is not None: struct.pack_into("<I", b, fo["voli.len"], il2 | (1 << 31))
        out.append((bytes(b), "header-length-cross-checks"))
    for fname in ("VOL.len", "volh.len", "vols.len", "voli.len"):
        put(fo[fname], 4, int.from_bytes(arc[fo[fname]:fo[fname] + 4], "little") & 0x7FFFFFFF, "two-byte-padding-flag")
    # random damage
    for _ in range(60 if thorough else 12):
        b = bytearray(arc)
        for _ in range(rng.randrange(1, 4)):
            if b: b[rng.randrange(len(b))] = rng.choice([0, 0xFF, 0x80, rng.randrange(256)])
        out.append((bytes(b), "random-bytes-changed"))
    return arc, out

def cases(tier, rng):
    thorough = tier == "thorough"
    seen = set()
    for name, ms, unused, slack in base_archives(rng):
        arc, cor = corruptions(name, ms, unused, slack, rng, thorough)
        n = len(ms); names = [m.name for m in ms]
        ops = ",".join(op_sequence(names, n, rng))
        for data, tag in [(arc, "valid-archive")] + cor:
            if (data, ops) in seen: continue
            seen.add((data, ops))
            for mode in ("L", "F"):
                line = f"!vol.open {hexs(data)} {mode} {ops}"
                yield Case(line, check=make_check(data, line), tag=tag + ("" if mode == "L" else "/fresh-object-per-call"))
        # all call sequences of length <= 2 (thorough: 3) over a reduced alphabet on the valid archive and two damaged ones
        alpha = ["c", "n0", f"n{n}", "s0", "k0", "r0", f"r{max(n - 1, 0)}", f"r{n}", "e0", f"e{(1 << 64) - 1}", f"x{hexs(names[0].swapcase() if names else b'x')}", f"h{hexs(b'nope')}", f"q{hexs(b'nope')}"]
        damaged = [d for d, t in cor if t in ("block-offset-at-or-beyond-eof", "block-length-at-or-beyond-eof")][:2]
        for data in [arc] + damaged:
            seqs = [",".join(s) for k in (2, 3 if thorough else 2) for s in itertools.product(alpha, repeat=k)]
            if not thorough: seqs = rng.sample(seqs, min(len(seqs), 40))
            elif len(seqs) > 600: seqs = rng.sample(seqs, 600)
            for sq in seqs:
                line = f"!vol.open {hexs(data)} L {sq}"
                yield Case(line, check=make_check(data, line), tag="all-short-call-sequences")
    # arbitrary short byte strings
    for b in [b"", b"V", b"VOL ", b"VOL \0\0\0\x80", bytes(8), bytes(32), b"VOL " + bytes(28), b"\xff" * 40]:
        line = f"!vol.open {hexs(b)} L c,n0,r0,e0"
        yield Case(line, check=make_check(b, line), tag="arbitrary-bytes")

def relational_oracles(cases_, impl):
    """one long-lived object and a fresh object per call must answer identically"""
    by = {}
    for c, o in zip(cases_, impl):
        p = c.line.split()
        if p[0] != "!vol.open" or len(p) != 4: continue
        by.setdefault((p[1], p[3]), {})[p[2]] = (c, o)
    for key, d in by.items():
        if "L" in d and "F" in d and d["L"][1] != d["F"][1]:
            lo, fo = d["L"][1].split(","), d["F"][1].split(",")
            ops = parse_ops(d["L"][0].line)
            k = next((i for i, (x, y) in enumerate(zip(lo, fo)) if x != y), 0)
            # extraction reports are compared too: same archive, same call
            yield d["L"][0], d["L"][1], (f"call #{k} ({ops[k - 1] if 0 < k <= len(ops) else '?'}) answers {lo[k] if k < len(lo) else '?'!r} on the long-lived "
                                        f"object but {fo[k] if k < len(fo) else '?'!r} on a fresh object (an earlier call left the archive object changed)")

def search(drv, model, diverged, lean, rng):
    from ..framework import run_impl
    cs = list(cases("thorough", rng))
    outs = run_impl(drv, [c.line for c in cs])
    for c, o in zip(cs, outs):
        if o.startswith("fault:") or o == "hang": return c, o, f"implementation outcome {o}"
        if c.check is not None:
            m = c.check(o)
            if m: return c, o, "direct oracle: " + m
    for c, o, m in relational_oracles(cs, outs): return c, o, "direct oracle: " + m
    return None
