"""C20 — writers refuse quantities that do not fit their on-disk fields (family parts glued together)."""
from .combine import combine
import os
_parts = [p for p in ("c20_vol", "c20_clm", "c20_prt", "c20_stream", "c20_map") if os.path.exists(os.path.join(os.path.dirname(__file__), p + ".py"))]
combine(globals(), _parts)
