"""C20, part clm — CLM creation refuses a data extent that does not fit 32 bits and a name longer than 8 characters."""
import shutil, struct, tempfile
from ..framework import Case, run_impl
from .clmref import *
from . import c03

LEAN_MODULES = ["Op2Proofs.Props.C20_Clm"]
RULE = ("sparse WAV files (header bytes + a hole of up to 4 GiB - 77 zero bytes) so that data offset + length of some member sits "
        "at / just beyond 2^32-1: one track of 2^32-76 bytes (one byte too many), two tracks of 2^31, two tracks whose end is "
        "exactly 2^32, four tracks of 2^30, a small track before / after a huge one, a huge track followed by an empty or a "
        "1-byte one; every over-limit set must be refused (and is refused at once: nothing is copied); thorough tier also packs "
        "the sets that end exactly at 2^32-1 (4 GiB really written, then deleted) and demands success with the exact length; "
        "names of 8 (accepted, full reference comparison) and 9..16 characters (refused), alone and inside larger sets")
PROVED = ("C20_clm_prepareIndex_exact: PrepareIndex refuses iff the index is non-empty and its end exceeds 2^32-1; "
          "C20_clm_offset_overflow_refused: create = err whenever intake succeeds and header+index+announced data exceed the limit; "
          "C20_clm_fits_accepted (converse) with the 2^32-1 / 2^32 boundary example; C20_clm_no_wrapped_fields: every archive create "
          "returns is <= 2^32-1 bytes and its stored offsets are the true running sums; C20_clm_long_name_refused with 8/9-character "
          "examples; a sparse 4 GiB set evaluated in the kernel; bridging lemmas for UINT32_MAX and the name limit 8")
PARTIAL = "the refusal leaves a partially written destination file (header only); the statement demands untouched destinations for volumes only"
TRUSTED = ["sparse files read back as zero bytes"]
ASSUMPTIONS = []

FMT = c03.FMT_A
LIMIT = (1 << 32) - 1

def sparse(name, L, lead=b""):
    """a WAV whose data chunk is `lead` followed by a hole; returns the file argument"""
    hdr = b"RIFF" + u32(4 + 24 + 8 + L) + b"WAVE" + chunk(b"fmt ", FMT) + b"data" + u32(L) + lead
    return file_arg(name + b".wav", hdr, L - len(lead))

def total(lens): return 60 + 16 * len(lens) + sum(lens)

def big_case(lens, secs, tag):
    """expected outcome straight from the statement: refused iff some member's offset + length does not fit 32 bits"""
    names = [b"t%d" % i for i in range(len(lens))]
    off = 60 + 16 * len(lens); fits = True
    for L in lens:
        if off + L > LIMIT: fits = False
        off += L
    line = f"clm.packbig {secs} " + " ".join(sparse(n, L, b"\x01\x02") if L >= 2 else sparse(n, L) for n, L in zip(names, lens))
    return Case(line, expect=(f"ok-big {total(lens)}" if fits else "err"), tag=tag)

def cases(tier, rng):
    thorough = tier == "thorough"
    G = 1 << 30
    over = [
        [(1 << 32) - 76], [(1 << 32) - 60], [(1 << 32) - 45],           # one track: 76 + L = 2^32, and the longest a RIFF size field allows
        [1 << 31, 1 << 31], [(1 << 31) - 46, (1 << 31) - 46],           # two tracks ending at 2^33-ish / exactly 2^32
        [G, G, G, G], [G, G, G, G - 124],                               # four tracks; the last ends at exactly 2^32
        [10, (1 << 32) - 100], [(1 << 32) - 100, 10], [(1 << 32) - 92, 0], [(1 << 32) - 93, 1], [0, 0, (1 << 32) - 107],
        [(1 << 31) + 5, (1 << 31) + 5, 7], [3 * G, G + 1000, 0],
    ]
    for lens in over:
        yield big_case(lens, 15, "over-limit-refused")      # refused at once on a conforming tree; the watchdog only bounds a violating one
    if thorough and shutil.disk_usage(tempfile.gettempdir()).free > (12 << 30):
        yield big_case([(1 << 31) - 46, (1 << 31) - 47], 600, "ends-at-limit-accepted")     # total = 2^32 - 1
    # far below the limit the same shape succeeds (keeps the refusals above from being vacuous on a tree that refuses everything)
    yield big_case([1 << 26], 120, "well-below-limit-accepted")
    if thorough: yield big_case([1 << 28, 1 << 27, 5], 200, "well-below-limit-accepted")
    # names
    for n in (b"abcdefgh", b"A2345678", b"________"):
        yield c03.pack_case([c03.Track(n, b"xy")], "name-8-accepted")
        yield c03.pack_case([c03.Track(b"b", b"1"), c03.Track(n, b"xy"), c03.Track(b"zz", b"2")], "name-8-accepted")
    for n in (b"abcdefghi", b"A23456789", b"_________", b"abcdefghij", b"abcdefghijklmnop"):
        for ext in (b".wav", b"", b".WAV"):
            yield c03.pack_case([c03.Track(n, b"xy", ext=ext)], "name-9-refused", expect="err")
        yield c03.pack_case([c03.Track(b"b", b"1"), c03.Track(n, b"xy"), c03.Track(b"zz", b"2")], "name-9-refused", expect="err")
        yield c03.pack_case([c03.Track(n, b"xy"), c03.Track(b"b", b"1")], "name-9-refused", expect="err")

def search(drv, model, diverged, lean, rng):
    cs = list(cases("quick", rng))
    outs = run_impl(drv, [c.line for c in cs])
    for c, o in zip(cs, outs):
        if c.expect is not None and o != c.expect:
            return c, o, f"direct oracle: property demands {c.expect!r}, implementation returned {o[:200]!r}"
        if c.check is not None:
            msg = c.check(o)
            if msg: return c, o, "direct oracle: " + msg
    return None

# L2 guard-sequence fragment (extract/gen_guards.py -> lean/Op2Model/Gen/Guards.lean; notes/l2guards.md)
LEAN_MODULES = LEAN_MODULES + ["Op2Proofs.Props.C03_Gen"]
PROVED = PROVED + ("; " +
          "L2 guard fragment: C03_gen_prepareIndex_guard, C03_gen_prepareIndex_model, C03_gen_nameMax_guard (the guards of PrepareIndex / CreateArchive regenerated from the clang AST equal the model's refusals for all values of the C++ types — beside the scraped literals)")
