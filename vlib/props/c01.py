"""C01 — VOL pack, reopen, extract returns exactly the files that went in; refusals happen before anything is modified."""
import itertools
from ..framework import Case
from ..common import hexs
from . import volref as V

LEAN_MODULES = ["Op2Proofs.Props.C01"]
RULE = ("one case = one CreateArchive call on a fresh directory followed by reopening: archive bytes, count, and per member name, "
        "size, kind, stream bytes (by index and by flipped-case name), ExtractAllFiles and ExtractFile(NAME) bytes, GetIndex in "
        "lower and upper case, Contains in flipped case; the whole line is demanded exactly as computed from the inputs by an "
        "independent Python encoder (itself compared with the Lean refEncode/strictWF on every description). File counts 0-12 "
        "(thorough: to 300), sizes {0,1,2,3,4,5,7,8,131071,131072,131073,262145}+random, names over letters/digits/punctuation "
        "on both sides of the letter ranges, every residue of name-table length mod 4, all orderings of <= 4 files, path spellings "
        "x ./x d/x ./d/x d/../d/x, pre-existing destination; refusals: duplicate names ignoring case (adjacent or not, any "
        "directories), destination = input up to case and leading ./, each with a before/after snapshot of every file")
PROVED = ("for ALL output paths and file lists: C01_roundtrip (names distinct ignoring case, members < 2^31, block offsets < 2^32, output not an "
          "input => the archive is created, reopening lists one member per input in the sorted order with exact name/size/kind, "
          "stream and extraction return the input bytes); C01_lookup_any_case (GetIndex/Contains find member i under every flipping of "
          "letter case); C01_perm (archive bytes or refusal identical for every permutation of the inputs); C01_refuse_dup, "
          "C01_refuse_self, C01_failure_is_atomic (refusal => file system unchanged); C01_order (listing = sorted permutation); the "
          "u32/u64 layout arithmetic of PrepareHeader equals the declarative layout (mask lemmas via testBit); the chunked copy "
          "delivers the content for every chunk size; bridging lemmas for all scraped constants / measured layouts")
PARTIAL = ("hypotheses of C01_roundtrip beyond the statement: names contain no NUL and no 0xFF byte, header below the harness' 1 GiB "
           "allocation cap (about 76 million members); ExtractAllFiles' path join and the OS file system are covered by the "
           "correspondence run only; 'refusal precedes creation' is structural in the model (createFs writes only after plan "
           "succeeded) and is tied to the code by the before/after snapshots of the run")
TRUSTED = ["model of std::experimental::filesystem::path (Op2Model/Path.lean)", "glibc C-locale tolower/toupper (Op2Model/Str.lean)",
           "std::sort returns a sorted permutation (the theorems hold for every such result)"]
ASSUMPTIONS = ["input files exist and are readable; the destination directory is writable; no other process touches the directory"]

SIZES = [0, 1, 2, 3, 4, 5, 7, 8, 131071, 131072, 131073, 262145]
ALPHA = b"abcxyzABCXYZ019_-.@[`{~!#$ +"

def content(rng, n, small_hex=True):
    if n <= 24 and small_hex: return bytes(rng.randrange(256) for _ in range(n))
    return V.Gen(n, rng.randrange(1, 200))

def rand_name(rng, used, n=None):
    for _ in range(1000):
        k = n if n is not None else rng.choice([1, 1, 2, 3, 4, 5, 8, 12])
        nm = bytes(rng.choice(ALPHA) for _ in range(k))
        if nm in (b".", b"..") or nm.lower() in used or nm.startswith(b"__") or nm.lower() in (b"out.vol", b"d", b"e", b"f", b"sub", b"in"): continue
        used.add(nm.lower()); return nm
    raise RuntimeError("name space exhausted")

SPELL = [lambda n: n, lambda n: b"./" + n, lambda n: b"d/" + n, lambda n: b"./d/" + n, lambda n: b"d/../d/" + n, lambda n: b"e/f/" + n]

def pack_cases(tier, rng):
    thorough = tier == "thorough"
    out = []
    def add(files, tag, outp=b"out.vol", pre="-"): out.append(V.PackCase(outp, files, pre, tag))
    add([], "count-0")
    add([], "count-0-preexisting", pre="deadbeef")
    # every size class alone and in pairs with every residue class
    for s in SIZES: add([(b"a.bin", content(rng, s))], "one-file-size-class")
    for s1 in (0, 1, 2, 3, 4, 5, 7):
        for s2 in (0, 1, 2, 3):
            add([(b"B", content(rng, s1)), (b"a", content(rng, s2))], "two-files-residues")
    # name-table residues: 1-4 names of lengths 1-4
    combos = [c for k in range(1, 5) for c in itertools.product(range(1, 5), repeat=k)]
    if not thorough: combos = [c for c in combos if len(c) <= 2] + rng.sample([c for c in combos if len(c) > 2], 40)
    for c in combos:
        used = set(); add([(rand_name(rng, used, n), content(rng, rng.choice([0, 1, 2, 3, 5]))) for n in c], f"name-table-residue-{(sum(c) + len(c)) % 4}")
    # all orderings of <= 4 files
    for k in (2, 3, 4):
        used = set(); base = [(SPELL[rng.randrange(len(SPELL))](rand_name(rng, used)), content(rng, rng.choice([0, 1, 3, 6, 9]))) for _ in range(k)]
        for perm in itertools.permutations(base): add(list(perm), f"all-orderings-{k}")
    # ordering corners: punctuation between the letter ranges, prefixes, case pairs of different names
    corner = [b"_", b"a", b"Z", b"[", b"`", b"{", b"@", b"A1", b"a0", b"ab", b"aB_", b"0", b"~"]
    for _ in range(6 if not thorough else 40):
        pick = rng.sample(corner, rng.randrange(2, 8)); add([(n, content(rng, rng.randrange(0, 9))) for n in pick], "ordering-corners")
    # names that differ only by 0x20 at a NON-letter ('[' / '{', '@' / '`', ']' / '}', '^' / '~', '_' / DEL, '\\' / '|', 0xC1 / 0xE1):
    # not equal ignoring case, so they pack side by side — whatever shortcut the library takes for folding case
    for x, y in ((b"[", b"{"), (b"@", b"`"), (b"]", b"}"), (b"^", b"~"), (b"_", b"\x7f"), (b"\\", b"|"), (b"\xc1", b"\xe1"), (b"0", b"\x10")):
        add([(b"r" + x + b"1.t", content(rng, 3)), (b"d/r" + y + b"1.t", content(rng, 2)), (b"q", content(rng, 1))], "distinct-at-distance-0x20")
        add([(y, content(rng, 1)), (x, content(rng, 4))], "distinct-at-distance-0x20")
    # a backslash is an ordinary character of a POSIX file name (it is part of the final component, of the sort key and of
    # the stored name alike)
    for pick in ([b"m.txt", b"z\\a.txt"], [b"x\\k", b"y\\j", b"a"], [b"b\\", b"\\a", b"B", b"c\\c\\c"]):
        add([(n, content(rng, rng.randrange(0, 9))) for n in pick], "backslash-in-name")
    # path spellings
    for sp in SPELL:
        add([(sp(b"x.txt"), content(rng, 5)), (b"Y", content(rng, 2))], "path-spelling")
    add([(b"d/OUT.VOL", content(rng, 3)), (b"a", content(rng, 1))], "input-named-like-output-elsewhere")
    add([(b"a", content(rng, 3))], "preexisting-destination", pre="00112233445566778899")
    add([(b"a", content(rng, 3))], "destination-in-subdirectory", outp=b"sub/out.vol")
    # counts up to 12 (thorough: to 300) with mixed size classes
    for k in (list(range(3, 13)) if not thorough else list(range(3, 13)) + [17, 33, 64, 100, 300]):
        used = set(); files = []
        for _ in range(k):
            s = rng.choice(SIZES[:8] + [rng.randrange(0, 70)]) if rng.random() < 0.93 else rng.choice(SIZES[8:])
            files.append((SPELL[rng.randrange(len(SPELL))](rand_name(rng, used)), content(rng, s)))
        add(files, f"count-{k}" if k <= 12 else "count-large")
    for _ in range(20 if not thorough else 300):
        used = set(); k = rng.randrange(1, 7)
        add([(SPELL[rng.randrange(len(SPELL))](rand_name(rng, used)), content(rng, rng.choice([rng.randrange(0, 40), rng.choice(SIZES)]))) for _ in range(k)], "random-sets")
    return out

def refusal_cases(tier, rng):
    R = []
    def add(outp, files, tag, pre="-"): R.append(Case(V.PackCase(outp, files, pre).line(), expect="err pre=same", tag=tag))
    c = lambda n: content(rng, n)
    # duplicates ignoring case: same directory impossible on disk for equal spelling, so different directories / cases
    add(b"out.vol", [(b"a.txt", c(1)), (b"d/A.TXT", c(2))], "refuse-duplicate")
    add(b"out.vol", [(b"a.txt", c(1)), (b"d/a.txt", c(2))], "refuse-duplicate")
    add(b"out.vol", [(b"x", c(1)), (b"d/x", c(2))], "refuse-duplicate", pre="cafe")
    add(b"out.vol", [(b"a.txt", c(1)), (b"a.txt", c(1))], "refuse-duplicate-same-path")
    add(b"out.vol", [(b"a.txt", c(1)), (b"./a.txt", c(1))], "refuse-duplicate-same-file")
    add(b"out.vol", [(b"b", c(3)), (b"q", c(0)), (b"d/B", c(2)), (b"z", c(4)), (b"a", c(1))], "refuse-duplicate-non-adjacent-in-input")
    add(b"out.vol", [(b"m_", c(3)), (b"M_", c(0))], "refuse-duplicate-punctuation")
    add(b"out.vol", [(b"x\\k", c(3)), (b"y\\k", c(1)), (b"X\\K", c(0))], "refuse-duplicate-with-backslash", pre="0102")
    for k in (5, 12):
        used = set(); files = [(rand_name(rng, used), c(rng.randrange(0, 6))) for _ in range(k)]
        dup = files[rng.randrange(k)][0]; files.insert(rng.randrange(k + 1), (b"e/f/" + dup.swapcase(), c(2)))
        add(b"out.vol", files, "refuse-duplicate-among-many", pre="0102")
    # destination is one of the inputs
    for outp, inp in ((b"x.vol", b"x.vol"), (b"x.vol", b"./x.vol"), (b"./x.vol", b"x.vol"), (b"./sub/x.vol", b"sub/x.vol"), (b"sub/x.vol", b"./sub/x.vol"),
                      (b"X.VOL", b"x.vol"), (b"./d/a.vol", b"d/A.VOL"), (b"././x.vol", b"x.vol")):
        add(outp, [(inp, c(9)), (b"other", c(2))], "refuse-output-is-input", pre="=")
        add(outp, [(b"first", c(1)), (inp, c(9))], "refuse-output-is-input", pre="=")
    return R

def cases(tier, rng):
    pcs = pack_cases(tier, rng)
    archives = V.check_against_lean([(pc.members(), 0, 0) for pc in pcs], strict=True)
    for pc, arc in zip(pcs, archives):
        yield Case(pc.line(), check=V.pack_check(pc, arc), tag=pc.tag)
    yield from refusal_cases(tier, rng)

def search(drv, model, diverged, lean, rng):
    """a proof obligation or the correspondence broke: run the thorough generator and report the first direct-oracle failure"""
    from ..framework import run_impl
    cs = list(cases("thorough", rng))
    outs = run_impl(drv, [c.line for c in cs])
    for c, o in zip(cs, outs):
        if o.startswith("fault:") or o == "hang": return c, o, f"implementation outcome {o}"
        if c.expect is not None and o != c.expect: return c, o, f"direct oracle: property demands {c.expect!r}, implementation returned {o[:200]!r}"
        if c.check is not None:
            m = c.check(o)
            if m: return c, o, "direct oracle: " + m
    return None

# L2 guard-sequence fragment (extract/gen_guards.py -> lean/Op2Model/Gen/Guards.lean; notes/l2guards.md)
LEAN_MODULES = LEAN_MODULES + ["Op2Proofs.Props.C01_Gen"]
PROVED = PROVED + ("; " +
          "L2 guard fragment (refusal conditions regenerated from the clang AST, Gen/Guards.lean): C01_gen_prepareHeader_refuses (the four throws of VolFile::PrepareHeader = refusals of Vol.prepLoop / the index-table test of Vol.plan / Vol.offLoop, for all values of the C++ types), C01_gen_readVolHeader_refuses (the five header tests of VolFile::ReadVolHeader = those of Vol.openWith), C01_gen_open_accepted_not_refused (whatever Vol.openWith accepts, the regenerated ReadVolHeader does not refuse on the lengths the model read)")
