"""C09 — tilesets load to the same picture from custom and standard formats."""
from ..framework import Case, run_impl
from .bmpref import *

LEAN_MODULES = ["Op2Proofs.Props.C09", "Op2Proofs.Props.C09_Gen"]
RULE = ("pictures obtained through the public reader from Python-encoded BMPs: heights 0, 32, ..., 256, 2048, 2080 (thorough: ... 1024, 4096, 8224) x both "
        "scan-line orientations x palettes with 256 distinct random colours, partial colour tables (1..255 entries) x random pixels; "
        "each saved in the custom format and as a standard bitmap and loaded back through the format-detecting loader (ts.save); "
        "custom bytes compared with an independent Python encoder and (ts.specenc) with the frozen Lean description "
        "Tileset.Spec.encode; Python-encoded custom files loaded (ts.load); pictures and custom headers violating each tileset "
        "constraint; the detector at every position of streams built from the signature, its one-byte variants, prefixes, "
        "shifted copies and random words (ts.peek)")
PROVED = ("C09_bytes (for every valid picture object: writeCustom f = Spec.encode (picture f), the frozen independent description) and "
          "C09_bytes_function_of_picture; C09_custom_rt (save custom, ReadTileset: the object built from the same picture, top-down, palette = "
          "original padded with black, picture equal); C09_bmp_same (WriteIndexed then ReadTileset: same picture, same signed height, same pixels); "
          "C09_peek (on every MemoryReader state satisfying its invariant: answer = next four bytes are PBMP, error iff fewer than four remain, "
          "reader returned exactly as it was - through the u64 guards of the C12 model); C09_dispatch; C09_refuse (constraint-violating picture: save "
          "refused; ReadTileset never returns one from ANY bytes in either format; stored as a standard bitmap it is refused on load); "
          "Tileset.spec_read (the loader accepts every Spec-encoded file).  Bridging: C09_gen_layout (34 measured offsets/sizes/constants/tags), "
          "C09_spec_constants; Props/C09_Gen.lean (translated from the current source, for ALL field values): C09_gen_validateTileset "
          "(Tileset::ValidateTileset = validateTs), C09_gen_tilesetHeader_validate, C09_gen_ppalHeader_validate (TilesetHeader::Validate / "
          "PpalHeader::Validate = returns (tilesetHeaderOk ..) / returns (ppalHeaderOk ..): the NAMED model predicates the reader Rd.custom calls as "
          "its header guards, tags as their four bytes); C09_reader_checks_headers (model only, every byte string b: readCustom b = ok -> both "
          "predicates hold of the fields decoded at offsets 8..27 / 36..55 of b; either predicate false -> readCustom b is an error; and = err format "
          "when b holds the header (36 / 56 bytes) and everything before the guard is accepted); C09_gen_reader_headers (both halves: on b of >= 56 "
          "bytes the translated C++ functions applied to the stored fields return exactly when the predicates hold; a file the model's reader accepts "
          "is one on which both return; a file with an accepted signature section on whose header TilesetHeader::Validate throws is refused with format)")
PARTIAL = ("C09_custom_rt assumes 32*|height| <= the 1 GiB harness allocation cap; C09_bmp_same is stated for objects with the reader's invariants "
           "(everything ReadIndexed / ReadTileset / the factories return), not for hand-assembled records; the PBMP length formula and the pixel "
           "section length are tied to the source by the byte comparison only (not extracted)")
TRUSTED = []
ASSUMPTIONS = ["streams are MemoryReader / DynamicMemoryWriter (C12/C14 carry the statement to the other backends)"]

BLACK = bytes(4)

def distinct_palette(rng, n=256):
    idx = list(range(256)); rng.shuffle(idx)
    return [bytes([idx[i], rng.randrange(256), (idx[i] * 7 + 3) % 256, rng.choice([0, 0, 255, rng.randrange(256)])]) for i in range(n)]

def topdown(h, rows):
    return rows if h < 0 else list(reversed(rows))

def picture_bytes(d):
    """(256 colours, top-down pixel bytes) of the picture a dumped 8-bit 32-wide bitmap shows"""
    cols = d.colors() + [BLACK] * (256 - d.npal)
    rows = [d.pix[i * 32:(i + 1) * 32] for i in range(abs(d.h))]
    return cols, b"".join(topdown(d.h, rows))

def is_valid_picture(d):
    return d.bits == 8 and d.w == 32 and d.h % 32 == 0

def check_save(out):
    if out.startswith("err"): return None          # the standard-bitmap reader refused the input: no picture
    p, kv = parse_out(out)
    if p is None: return f"unparseable output {out[:80]!r}"
    C, LC, LB = kv.get("C"), kv.get("LC"), kv.get("LB")
    if not is_valid_picture(p):
        if C != "err": return f"a picture violating the tileset constraints ({p.w}x{p.h}, {p.bits} bit) was saved in the custom format"
        if LB not in ("err", "none"): return f"a picture violating the tileset constraints ({p.w}x{p.h}, {p.bits} bit) was loaded as a tileset"
        return None
    if p.pal is None or p.pix is None: return None
    cols, pix = picture_bytes(p)
    if C in (None, "err"): return "a valid tileset picture was refused on save"
    want = enc_custom(abs(p.h), [tuple(c) for c in cols], pix)
    if C != showB(want):
        got = unB(C)
        where = next((i for i in range(min(len(got), len(want))) if got[i] != want[i]), min(len(got), len(want))) if got is not None else "?"
        return f"custom-format bytes differ from the independent description of the format (first difference at offset {where})"
    lc = parse_dump(LC or "")
    if lc is None: return f"the saved custom tileset does not load (LC={str(LC)[:40]})"
    if (lc.w, lc.h, lc.bits) != (32, -abs(p.h), 8): return f"custom load returned {lc.w}x{lc.h} {lc.bits} bit, not the top-down picture"
    if lc.colors() != cols: return "custom save/load changed a colour"
    if lc.pix != pix: return "custom save/load changed the pixels (rows must come back top-down)"
    lb = parse_dump(LB or "")
    if lb is None: return f"the picture stored as a standard bitmap does not load as a tileset (LB={str(LB)[:40]})"
    if (lb.w, lb.h, lb.bits) != (p.w, p.h, p.bits): return "standard-bitmap load changed the geometry"
    c2, x2 = picture_bytes(lb)
    if c2 != cols or x2 != pix: return "the loader returns a different picture from the standard bitmap than from the custom format"
    return None

def check_load_custom(h, cols, pix):
    def chk(out):
        d = parse_dump(out)
        if d is None: return f"a custom tileset matching the format description was not loaded ({out[:40]})"
        if (d.w, d.h, d.bits) != (32, -h, 8): return f"loaded {d.w}x{d.h} {d.bits} bit instead of 32x{-h} 8 bit"
        if d.pal is None or d.pix is None: return None   # only hashes were printed (larger than the drivers' hex limit)
        if d.colors() != cols: return "a colour differs (stored order is blue, green, red, alpha)"
        if d.pix != pix: return "pixels differ"
        return None
    return chk

def check_peek(data, pos):
    def chk(out):
        p = out.split()
        if len(p) != 2: return f"unexpected output {out!r}"
        if int(p[1]) != pos: return f"the detector moved the stream position from {pos} to {p[1]}"
        if pos + 4 <= len(data):
            want = "1" if data[pos:pos + 4] == b"PBMP" else "0"
            if p[0] != want: return f"signature {data[pos:pos+4]!r} classified as {p[0]}"
        return None
    return chk

def pictures(tier, rng):
    thorough = tier == "thorough"
    # (heights from 2048 on: 32 * height no longer fits 16 bits — a length computed in a narrower type shows there)
    hs = [0, 32, 64, 96, 128, 160, 256, 2048, 2080] + ([192, 224, 320, 512, 1024, 4096, 8224] if thorough else [])
    for H in hs:
        for sign in (1, -1):
            for variant in ("full", "partial", "partial1"):
                if not thorough and H > 128 and variant == "partial1": continue
                if H >= 2048 and (variant != "full" or (sign == 1 and not thorough)): continue
                k = {"full": 0, "partial": rng.randrange(2, 256), "partial1": 1}[variant]
                pal = distinct_palette(rng, k if k else 256)
                rows = [bytes(rng.randrange(256) for _ in range(32)) for _ in range(H)]
                yield variant, enc_bmp(8, 32, sign * H, pal, rows, used=k, important=rng.choice([0, 3]))

def cases(tier, rng):
    thorough = tier == "thorough"
    for variant, f in pictures(tier, rng):
        yield Case(f"ts.save {hexs(f)}", check=check_save, tag="save-" + variant)
        yield Case(f"ts.specenc {hexs(f)}", tag="spec-" + variant)
    # one picture, several representations: the custom bytes must be the same (each equals the independent encoding)
    for _ in range(6 if thorough else 3):
        H = rng.choice([32, 64]); k = rng.randrange(1, 200)
        pal = distinct_palette(rng, k); rows = [bytes(rng.randrange(256) for _ in range(32)) for _ in range(H)]
        reps = [enc_bmp(8, 32, -H, pal, rows, used=k), enc_bmp(8, 32, H, pal, list(reversed(rows)), used=k),
                enc_bmp(8, 32, -H, pal + [BLACK] * (256 - k), rows, used=0),
                enc_bmp(8, 32, -H, pal, rows, used=k, important=1, extra_header={"xResolution": 2835, "compression": 0})]
        want = showB(enc_custom(H, [tuple(c) for c in pal + [BLACK] * (256 - k)], b"".join(rows)))
        for f in reps:
            yield Case(f"ts.specenc {hexs(f)}", expect=want, tag="bytes-function-of-picture")
    # custom files written by the independent encoder
    for H in [0, 32, 64, 96, 2048] + ([128, 512, 4128] if thorough else []):
        cols = distinct_palette(rng); pix = bytes(rng.randrange(256) for _ in range(32 * H))
        cu = enc_custom(H, [tuple(c) for c in cols], pix)
        yield Case(f"ts.load {hexs(cu)}", check=check_load_custom(H, cols, pix), tag="load-custom")
    # constraint violations: pictures
    for bits, w, h in ((8, 31, 32), (8, 33, 32), (8, 0, 32), (8, 64, 32), (8, 32, 31), (8, 32, 33), (8, 32, -16), (8, 32, 1), (8, 32, -1),
                       (4, 32, 32), (1, 32, 32), (4, 64, 32), (1, 256, -32), (8, 8, 8)):
        rows = [bytes(rng.randrange(256) for _ in range(row_bytes(bits, w))) for _ in range(abs(h))]
        f = enc_bmp(bits, w, h, [bytes(rng.randrange(256) for _ in range(4)) for _ in range(1 << bits)], rows)
        yield Case(f"ts.save {hexs(f)}", check=check_save, tag="refuse-picture")
        yield Case(f"ts.load {hexs(f)}", expect="err", tag="refuse-picture-load")
    # constraint violations: custom headers
    cols = distinct_palette(rng); pix = bytes(rng.randrange(256) for _ in range(32 * 32))
    base = enc_custom(32, [tuple(c) for c in cols], pix)
    for name, vals in (("pixelWidth", (0, 16, 31, 33, 64)), ("pixelHeight", (1, 16, 31, 33)), ("bitDepth", (0, 1, 4, 7, 9, 16, 24, 32))):
        for v in vals:
            yield Case(f"!ts.load {hexs(subst_ts(base, name, v))}", expect="err", tag="refuse-custom-" + name)
    for v, n in ((16, 16 * 32), (33, 33 * 32), (48, 48 * 32)):   # pixel data of the matching size, height not a multiple of 32
        bad = enc_custom(v, [tuple(c) for c in cols], bytes(n))
        yield Case(f"!ts.load {hexs(bad)}", expect="err", tag="refuse-custom-pixelHeight")
    # the detector
    sigs = [b"PBMP", b"pBMP", b"PBMp", b"PBM", b"PB", b"P", b"", b"BMPB", b"PBMQ", b"QBMP", b"PBNP", b"PCMP", b"BM\0\0", b"PPAL", b"head", b"data",
            b"\0PBMP", b"xxPBMPyy", b"PBMPPBMP", b"PBMPBMP", b"PBPBMPMP"]
    sigs += [bytes(rng.randrange(256) for _ in range(rng.randrange(4, 9))) for _ in range(256 if thorough else 64)]
    sigs += [bytes([b"PBMP"[i] ^ (1 << rng.randrange(8)) if i == j else b"PBMP"[i] for i in range(4)]) + b"zz" for j in range(4) for _ in range(4)]
    for s in sigs:
        for pos in range(0, len(s) + 1):
            yield Case(f"ts.peek {hexs(s)} {pos}", check=check_peek(s, pos), tag="peek")
    yield Case(f"ts.peek {hexs(base)} 0", check=check_peek(base, 0), tag="peek")
    yield Case(f"ts.peek {hexs(base)} {len(base) - 4}", check=check_peek(base, len(base) - 4), tag="peek")

def search(drv, model, diverged, lean, rng):
    for rnd in range(3):
        cs = list(cases("thorough" if rnd else "quick", rng))
        outs = run_impl(drv, [c.line for c in cs])
        for c, o in zip(cs, outs):
            if o.startswith("fault:") or o == "hang": return c, o, f"implementation outcome {o}"
            if c.expect is not None and o != c.expect: return c, o, f"direct oracle: property demands {c.expect!r}, implementation returned {o!r}"
            if c.check is not None:
                m = c.check(o)
                if m: return c, o, "direct oracle: " + m
    return None
