"""C08 — indexed bitmaps read back valid and round-trip pixels, palette, geometry."""
from ..framework import Case, run_impl
from .bmpref import *

LEAN_MODULES = ["Op2Proofs.Props.C08", "Op2Proofs.Props.C08_Gen"]
RULE = ("files built by an independent Python BMP encoder (never by the library): depths 1/4/8 x widths 0..70 (every residue of the "
        "row bits mod 32, twice) x heights {-3..3, 17, -17} with random pixels in every row, NON-ZERO padding bytes in the file, "
        "full and partial colour tables (usedColorMapEntries 1..2^bits), odd-but-legal header fields (compression, resolutions, "
        "important colours, reserved words, size larger than the stream); each goes through bmp.rt (read, Validate, write, read) and "
        "bmp.invert (flip once and twice); all three factories over the same lattice plus large dimensions, partial palettes, "
        "pixel arrays with clean padding; the two row-size formulas swept over widths -70..5000 per depth inside one case and at "
        "the 32-bit boundaries; distinct = distinct protocol lines")
PROVED = ("for ALL byte strings b: C08_read_valid (read b = ok f => Validate passes, width >= 0, |pixels| = pitchN*|height| with exactly |height| rows of "
          "pitchN = 4*ceil(w*bits/32) bytes whose concatenation is the pixel array, palette <= 2^bits, bits in {1,4,8}); C08_pitch_law (pitchN is a "
          "multiple of 4, holds w*bits bits, and no smaller multiple of 4 does - all w, bits) and C08_pitch_model (the size_t formula of the code = "
          "pitchN for every non-negative int32 width and uint16 depth); C08_rt (write succeeds and reads back with equal width, signed height, depth, "
          "palette extended entry-for-entry to 2^bits, every row = its meaningful bytes ++ zero padding); C08_factory_rt1/2/3 (all three factories, "
          "every (bits,w,h) for which they return an object: write then read gives the SAME object; for the pixel-array factory under CleanPadding, "
          "with a decide-checked witness that this hypothesis cannot be dropped); C08_invert (one flip = rows reversed, height negated, all else "
          "unchanged; two flips = original).  Bridging: C08_gen_pitch (CalcPixelByteWidth/CalculatePitch as translated from the current source = model "
          "formulas on the WHOLE int32 x uint16 range), C08_gen_layout (36 measured offsets/sizes/defaults/ValidBitCounts/signature/Black), "
          "C08_enc_lengths; Props/C08_Gen.lean (validation functions translated from the current source into Gen/Validate.lean, each equal to the "
          "model's decision for ALL values of the C++ field types): C08_gen_imageHeader_validate (ImageHeader::Validate with VerifyValidBitCount / "
          "VerifyDimensions / CalcMaxIndexedPaletteSize inlined = ImageHeader.Valid), C08_gen_isValidBitCount, C08_gen_isIndexedImage, "
          "C08_gen_calcMaxIndexedPaletteSize, C08_gen_verifyPixelSize (composed with the translated CalculatePitch = verifyPixelSize), "
          "C08_gen_verifyPaletteSize (= verifyPalette), C08_gen_verifyIndexedForSerialization")
PARTIAL = ("nothing of the statement is left unproved for the model.  operator== of the C++ objects is structural equality of the model records "
           "(checked by the eq= flag of bmp.create / bmp.invert on every case); the accepted-file theorems carry the harness allocation cap "
           "(pixel section <= 1 GiB) inside `read`")
TRUSTED = []
ASSUMPTIONS = ["streams are MemoryReader / DynamicMemoryWriter (C12/C14 carry the statement to the other backends)",
               "allocations above the harness cap of 1 GiB are reported as ordinary errors"]

HEIGHTS = [-3, -2, -1, 0, 1, 2, 3, 17, -17]

def rand_rows(rng, bits, w, h):
    return [bytes(rng.randrange(256) for _ in range(row_bytes(bits, w))) for _ in range(abs(h))]

def rand_pal(rng, n):
    return [bytes(rng.randrange(256) for _ in range(4)) for _ in range(n)]

# ---- direct oracles -------------------------------------------------------------------------------------------------

def check_read_valid(d, kv):
    if kv.get("v") != "ok": return f"accepted bitmap fails the library's own Validate() (v={kv.get('v')})"
    if d.w < 0: return f"accepted bitmap has negative width {d.w}"
    if d.bits not in (1, 4, 8): return None  # nothing stated about other depths
    if d.npix != pitch(d.bits, d.w) * abs(d.h):
        return f"pixel array has {d.npix} bytes, |height| rows of the smallest multiple of four holding {d.w}x{d.bits} bits need {pitch(d.bits, d.w) * abs(d.h)}"
    if d.npal > (1 << d.bits): return f"palette of {d.npal} entries exceeds 2^{d.bits}"
    return None

def check_rt(out):
    if out.startswith("err"): return None
    d, kv = parse_out(out)
    if d is None: return f"unparseable output {out[:80]!r}"
    m = check_read_valid(d, kv)
    if m: return m
    if kv.get("W") in (None, "err"): return "an accepted bitmap could not be written"
    r = parse_dump(kv.get("R", ""))
    if r is None: return f"the written bitmap does not read back (R={kv.get('R', '')[:40]})"
    if (r.w, r.h, r.bits) != (d.w, d.h, d.bits): return f"geometry changed in the round trip: {(d.w, d.h, d.bits)} -> {(r.w, r.h, r.bits)}"
    if d.pal is not None and r.pal is not None:
        if r.pal[:len(d.pal)] != d.pal: return "a palette entry changed in the round trip"
    if d.pix is not None and r.pix is not None and d.bits in (1, 4, 8):
        rb = row_bytes(d.bits, d.w)
        a, b = d.rows(), r.rows()
        if len(a) != len(b): return "row count changed in the round trip"
        for i, (x, y) in enumerate(zip(a, b)):
            if x[:rb] != y[:rb]: return f"pixel bytes of stored row {i} changed in the round trip"
            if any(y[rb:]): return f"row padding of stored row {i} was not written as zero"
    return None

def check_create(clean_padding):
    def chk(out):
        if out.startswith("err"): return None
        d, kv = parse_out(out)
        if d is None: return f"unparseable output {out[:80]!r}"
        if not clean_padding: return None
        if kv.get("W") in (None, "err"): return "a factory-made bitmap could not be written"
        if kv.get("eq") != "1": return f"factory-made bitmap does not round-trip to an equal object (R={kv.get('R', '')[:60]})"
        return None
    return chk

def check_invert(out):
    if out.startswith("err"): return None
    d, kv = parse_out(out)
    if d is None: return f"unparseable output {out[:80]!r}"
    i1, i2 = parse_dump(kv.get("I", "")), parse_dump(kv.get("II", ""))
    if i1 is None or i2 is None: return "InvertScanLines output unparseable"
    if i1.h != -d.h: return f"one flip turned height {d.h} into {i1.h}"
    if (i1.w, i1.bits, i1.pal) != (d.w, d.bits, d.pal): return "a flip changed width, depth or palette"
    if d.pix is not None and i1.pix is not None and d.bits in (1, 4, 8):
        if i1.rows() != list(reversed(d.rows())) or len(i1.pix) != len(d.pix): return "one flip did not exactly reverse the rows"
    if i2.raw != d.raw or kv.get("eq") != "1": return "two flips did not restore the original"
    return None

def expect_pitch(bits, w):
    return f"{row_bytes(bits, w)} {pitch(bits, w)}"

# ---- cases ----------------------------------------------------------------------------------------------------------

def valid_files(tier, rng):
    """(tag, bytes) of well-formed files in the widest sense the reader accepts"""
    thorough = tier == "thorough"
    widths = list(range(0, 71)) + ([100, 127, 128, 129, 255, 256, 257, 1000] if thorough else [127, 256])
    for bits in (1, 4, 8):
        for w in widths:
            hs = HEIGHTS if (thorough or w % 3 == 0 or w < 12) else [rng.choice(HEIGHTS), rng.choice([-2, 3])]
            for h in hs:
                rows = rand_rows(rng, bits, w, h)
                n = 1 << bits
                k = rng.choice([0, 0, 1, n, rng.randrange(1, n + 1)])
                pal = rand_pal(rng, k if k else n)
                pad = rng.choice([0xAA, 0xFF, 0x01])
                yield f"b{bits}-{'full' if k == 0 else 'partial'}", enc_bmp(bits, w, h, pal, rows, used=k, padbyte=pad)
    # odd but legal headers
    for _ in range(120 if thorough else 40):
        bits = rng.choice([1, 4, 8]); w = rng.randrange(0, 40); h = rng.choice(HEIGHTS)
        n = 1 << bits; k = rng.choice([0, rng.randrange(1, n + 1)])
        base = enc_bmp(bits, w, h, rand_pal(rng, k if k else n), rand_rows(rng, bits, w, h), used=k, padbyte=0x5A,
                       important=rng.choice([0, 1, n]))
        which = rng.choice(["compression", "imageSize", "xResolution", "yResolution", "reserved1", "reserved2", "shift", "bigsize"])
        if which == "shift":
            d = rng.randrange(1, 1000)
            base = subst_bmp(subst_bmp(base, "size", len(base) + d), "pixelOffset", int.from_bytes(base[10:14], "little") + d)
        elif which == "bigsize":
            # size and pixelOffset both 2^32-ish: their difference is what the reader uses
            d = (1 << 32) - len(base)
            base = subst_bmp(subst_bmp(base, "size", len(base) + d - 1), "pixelOffset", int.from_bytes(base[10:14], "little") + d - 1)
        else:
            base = subst_bmp(base, which, rng.choice([1, 2, 3, 0xFFFF, 0x7FFFFFFF, 0xFFFFFFFF]))
        yield "odd-header", base

def cases(tier, rng):
    thorough = tier == "thorough"
    for tag, f in valid_files(tier, rng):
        yield Case(f"bmp.rt {hexs(f)}", check=check_rt, tag="rt-" + tag)
        # the same file with slack after the last scan line (size field and stream length include it): whatever the
        # reader does with it, what it returns must still be a valid bitmap of exactly |height| rows
        if tag != "odd-header" and (thorough or rng.random() < 0.12):
            for k in rng.sample([1, 2, 3, 4, 5, 8, 64], 2):
                g = subst_bmp(f + bytes(rng.randrange(256) for _ in range(k)), "size", len(f) + k)
                yield Case(f"bmp.rt {hexs(g)}", check=check_rt, tag="rt-trailing-slack")
                yield Case(f"bmp.rt {hexs(f + bytes(k))}", check=check_rt, tag="rt-trailing-bytes-not-in-size")
        if thorough or rng.random() < 0.5:
            yield Case(f"bmp.invert {hexs(f)}", check=check_invert, tag="invert-" + tag)
    # factories
    for bits in (1, 4, 8):
        for w in list(range(0, 71)) + [255, 1000, 4097]:
            hs = HEIGHTS if (thorough or w % 5 == 0) else [rng.choice(HEIGHTS)]
            for h in hs:
                yield Case(f"bmp.create 1 {bits} {w} {h} - -", check=check_create(True), tag=f"factory1-b{bits}")
                n = 1 << bits
                pal = b"".join(rand_pal(rng, rng.choice([0, 1, n, rng.randrange(0, n + 1)])))
                yield Case(f"bmp.create 2 {bits} {w} {h} {hexs(pal)} -", check=check_create(True), tag=f"factory2-b{bits}")
                if w <= 70 or thorough:
                    rows = rand_rows(rng, bits, w, h)
                    pz = pitch(bits, w) - row_bytes(bits, w)
                    px = b"".join(r + bytes(pz) for r in rows)
                    yield Case(f"bmp.create 3 {bits} {w} {h} {hexs(pal)} {hexs(px)}", check=check_create(True), tag=f"factory3-b{bits}")
                    if pz and rows and rng.random() < 0.3:
                        dirty = b"".join(r + bytes([0x77]) * pz for r in rows)   # nothing demanded: equality and zero padding exclude each other
                        yield Case(f"bmp.create 3 {bits} {w} {h} {hexs(pal)} {hexs(dirty)}", check=check_create(False), tag="factory3-dirty-padding")
    for h in (30000, -30000):
        for w in (0, 1):
            yield Case(f"!bmp.create 1 8 {w} {h} - -", check=check_create(True), tag="factory-large")
    yield Case("!bmp.create 1 1 65536 200 - -", check=check_create(True), tag="factory-large")
    # dimensions outside the signed range, unsupported depths: created => must round-trip; otherwise model only
    for bits, w, h in ((8, 1 << 31, 0), (8, (1 << 32) - 1, 8), (1, (1 << 32) - 1, 5), (4, (1 << 31) + 5, 0), (8, 0, INT_MIN), (8, 3, INT_MIN), (1, 0, INT_MIN)):
        for v in (1, 2):
            yield Case(f"!bmp.create {v} {bits} {w} {h} - -", check=check_create(True), tag="factory-out-of-range")
    for bits in (0, 2, 3, 5, 7, 9, 16, 24, 32, 33):
        yield Case(f"bmp.create 1 {bits} 3 2 - -", check=check_create(True), tag="factory-unsupported-depth")
        yield Case(f"bmp.create 2 {bits} 3 2 01020304 -", check=check_create(True), tag="factory-unsupported-depth")
    for bits in (1, 4, 8):   # palette longer than the depth allows, pixel array of the wrong size
        n = 1 << bits
        yield Case(f"bmp.create 2 {bits} 3 2 {hexs(bytes(4 * (n + 1)))} -", check=check_create(True), tag="factory-refusal")
        yield Case(f"bmp.create 3 {bits} 3 2 - {hexs(bytes(7))}", check=check_create(True), tag="factory-refusal")
        yield Case(f"bmp.create 3 {bits} 3 2 - {hexs(bytes(9))}", check=check_create(True), tag="factory-refusal")
    # the row-size formulas
    for bits in (1, 4, 8):
        yield Case(f"bmp.pitchsweep {bits} -70 {20000 if thorough else 5000}", check=lambda o: None if o.endswith(" bad=0") else f"pitch law violated: {o}", tag="pitch-sweep")
        for w in list(range(0, 40)) + [2147483647, 2147483646, 2147483640, 1 << 30, (1 << 30) + 1, 268435455, 268435456, 268435457, 65535, 65536]:
            yield Case(f"bmp.pitch {bits} {w}", expect=expect_pitch(bits, w), tag="pitch-nonneg")
            yield Case(f"bmp.pitchgen {bits} {w}", expect=expect_pitch(bits, w), tag="pitch-translated")
        for w in (-1, -2, -7, -8, -9, -31, -32, -33, -2147483648, -2147483647):
            yield Case(f"bmp.pitch {bits} {w}", tag="pitch-negative")
            yield Case(f"bmp.pitchgen {bits} {w}", tag="pitch-translated")
    for bits in (16, 24, 32, 3, 65535):
        yield Case(f"bmp.pitchsweep {bits} -40 600", tag="pitch-sweep-other-depth")
        for w in (0, 1, 2147483647, -1, -2147483648):
            yield Case(f"bmp.pitchgen {bits} {w}", tag="pitch-translated")

def search(drv, model, diverged, lean, rng):
    """after a broken tie: the thorough lattice with fresh randomness, evaluated with the direct oracles only"""
    for rnd in range(3):
        cs = list(cases("thorough" if rnd else "quick", rng))
        outs = run_impl(drv, [c.line for c in cs])
        for c, o in zip(cs, outs):
            if o.startswith("fault:") or o == "hang": return c, o, f"implementation outcome {o}"
            if c.expect is not None and o != c.expect: return c, o, f"direct oracle: property demands {c.expect!r}, implementation returned {o!r}"
            if c.check is not None:
                m = c.check(o)
                if m: return c, o, "direct oracle: " + m
    return None
