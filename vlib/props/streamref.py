"""The abstract reader of C12 in Python — the property itself, used as the *direct oracle* on the
implementation's outputs (independent of the Lean model): ℕ arithmetic, failure is a no-op."""
from ..common import hexs

M64 = (1 << 64) - 1

def boundary_args(n):
    return sorted({0, 1, max(n - 1, 0), n, n + 1, 2, 1 << 31, 1 << 32, 1 << 63, M64, M64 - 1, (1 << 64) - n if n else M64})

def spec_hist(data: bytes, ops, pos=0):
    """ops: list of tokens r<k> p<k> k<k> s<p> f<d> b<d> B E ; returns the expected output string"""
    n = len(data); out = []
    for t in ops:
        c = t[0]; a = int(t[1:]) if len(t) > 1 else 0
        res = None
        if c == 'r':
            if pos + a <= n: res = hexs(data[pos:pos + a]); pos += a
            else: res = "err"
        elif c == 'p':
            k = min(a, n - pos); res = hexs(data[pos:pos + k]); pos += k
        elif c == 'k':
            res = hexs(data[pos:pos + a]) if pos + a <= n else "err"
        elif c == 's':
            if a <= n: pos = a; res = "ok"
            else: res = "err"
        elif c == 'f':
            if pos + a <= n: pos += a; res = "ok"
            else: res = "err"
        elif c == 'b':
            if a <= pos: pos -= a; res = "ok"
            else: res = "err"
        elif c == 'B': pos = 0; res = "ok"
        elif c == 'E': pos = n; res = "ok"
        else: raise ValueError(t)
        out.append(f"{res}:{pos}:{n}")
    return ",".join(out)

OPKINDS = "rpksfb"

def all_ops(n, args=None):
    args = args if args is not None else boundary_args(n)
    return [c + str(a) for c in OPKINDS for a in args] + ["B", "E"]

def window(data, backend):
    """the bytes a backend spec exposes, or None if creation must fail"""
    p = backend.split(":"); k = p[0]; v = [int(x) for x in p[1:]]
    n = len(data)
    if k in ("mem", "dyn", "file"): return data
    if k in ("mslice2", "fslice"):
        s, l = v; return data[s:s + l] if s + l <= n else None
    if k == "mslice1":
        pp, l = v
        if pp > n: return None
        return data[pp:pp + l] if pp + l <= n else None
    if k in ("mss", "fss", "fwrap"):
        s1, l1, s2, l2 = v
        if s1 + l1 > n: return None
        w = data[s1:s1 + l1]
        return w[s2:s2 + l2] if s2 + l2 <= l1 else None
    raise ValueError(backend)
