"""C20 part stream — a container longer than its size prefix is refused instead of written with a truncated or wrapped prefix
(Writer::Write<SizeType>(container), src/Stream/Writer.h)."""
from ..framework import Case
from .c14 import show

LEAN_MODULES = ["Op2Proofs.Props.C14"]
RULE = ("size-prefixed writes with unsigned and signed prefixes of 1 and 2 bytes at 0, 1, limit-1, limit, limit+1, limit+2, 2*limit+1, "
        "2*limit+2 elements (limit = the prefix type's maximum: 255, 65535, 127, 32767), and 4-byte prefixes at 70000: the bytes written, or "
        "the refusal with nothing written")
PROVED = ("C14_prefix_refuses / C14_prefix_accepts: for every width, signedness, payload and count, the model of Write<SizeType> refuses "
          "exactly the counts above the prefix type's maximum and otherwise writes the prefix followed by the payload")
PARTIAL = "prefix types of 8 bytes cannot be exceeded by a real container; MapWriter's 32-bit container size needs a 4 GiB string (not run)"
TRUSTED = []
ASSUMPTIONS = []

def cases(tier, rng):
    for w, sg, lim in ((1, 0, 255), (2, 0, 65535), (1, 1, 127), (2, 1, 32767)):
        for n in (0, 1, lim - 1, lim, lim + 1, lim + 2, 2 * lim + 1, 2 * lim + 2, 200, 40000):
            exp = show(n.to_bytes(w, "little") + b"x" * n) if n <= lim else "err:0"
            yield Case(f"wr.prefixed {w} {n} {sg}", expect=exp, tag=f"prefix-{'i' if sg else 'u'}{8*w}")
    for sg in (0, 1):
        yield Case(f"wr.prefixed 4 70000 {sg}", expect=show((70000).to_bytes(4, "little") + b"x" * 70000), tag="prefix-32")
