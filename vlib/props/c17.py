"""C17 — name lookup and resource resolution are case-blind, consistent, loose-file-first."""
import re
from ..framework import Case, run_impl_par
from ..common import hexs

LEAN_MODULES = ["Op2Proofs.Props.C17"]
RULE = ("archives (VOL and CLM, built by the library itself) with 0..6 members; every member name queried as-is, upper, lower, "
        "mixed case, with a leading './', with a directory prefix, plus absent names; out-of-range indices count, count+1, 2^32, "
        "2^64-1 on every per-member call, and on reference-encoded VOLs whose index table has unused trailing slots every index from count to beyond the slot count on name/size/kind/stream/extract; resource directories with loose files, a sub-directory, a directory named like an "
        "archive, 0..2 VOL and 0..1 CLM archives with overlapping member names and loose files shadowing members in other letter "
        "cases; queries GetResourceStream (both access modes, rooted names), GetAllFilenamesOfType (extension with/without dot, "
        "both cases), GetAllFilenames (literal / anchored patterns), FindContainingArchivePath, GetArchiveFilenames. Direct oracles "
        "are computed in Python from the layout alone. distinct = distinct protocol lines")
PROVED = ("contains <-> index succeeds; the index found names a member equal to the query under PathsAreEqual; lookup is invariant "
          "under PathsAreEqual-equivalent spellings of the query (letter case, leading ./); duplicate-free => index(name i) = i; "
          "out-of-range indices refused by name/stream, and on the VOL object (member count < slot count allowed) by name/size/kind/stream/extract (C17_vol_out_of_range); resolution stated outright: rooted => refused, loose file => its bytes, else "
          "(access) first archive containing => that member's bytes, else none, access off => loose only; a reported containing "
          "archive contains the name; type listing = loose names with that extension followed by members admitted one by one unless "
          "an already listed name equals them ignoring case (no two admitted members equal ignoring case; loose names all kept); "
          "pattern listing = loose names satisfying the pattern ++ member names satisfying it")
PARTIAL = ("directory iteration order (hence archive load order) and std::regex are parameters of the model: theorems hold for every "
           "order and every pattern predicate; the run uses a small literal/anchored pattern language on both sides; the bytes of the "
           "archive files themselves as loose files are not modelled (never queried)")
TRUSTED = ["std::experimental::filesystem::exists / is_regular_file / directory_iterator on the scratch directory", "std::regex for literal / anchored patterns"]
ASSUMPTIONS = ["query names have no '..' component and at most one directory level (what the model's file-system view covers)"]

def h(s): return hexs(s if isinstance(s, bytes) else s.encode("latin1"))

def variants(n):
    out = {n, n.upper(), n.lower(), "./" + n, "./" + n.upper(), ".//" + n.swapcase(), n.swapcase(), "././" + n}
    return sorted(out)

def strip_dots(q):
    comps = [c for c in q.split("/") if c != ""]
    while comps and comps[0] == ".": comps.pop(0)
    return "/".join(comps)

def lookup_case(kind, members, queries, tag):
    ms = ",".join(f"{h(n)}={h(c)}" for n, c in members) or "-"
    qs = ",".join(h(q) for q in queries) or "-"
    names_sorted = None
    def chk(out):
        p = out.split()
        if not p or not p[0].startswith("count="): return f"unexpected output {out!r}"
        cnt = int(p[0][6:])
        if cnt != len(members): return f"archive lists {cnt} members, {len(members)} were packed"
        res = p[1:1 + len(queries)]
        if len(res) != len(queries): return f"unexpected output {out!r}"
        upper = {n.upper() for n, _ in members}
        for q, r in zip(queries, res):
            c, idx, nm = r.split(":")
            if (c == "1") != (idx != "E"): return f"Contains and GetIndex disagree on {q!r}: {r}"
            expect = strip_dots(q).upper() in upper and "/" not in strip_dots(q)
            if expect and idx == "E": return f"member {q!r} (case / leading ./ variant of a member name) was not found"
            if idx != "E":
                got = bytes.fromhex(nm).decode("latin1") if nm != "-" else ""
                if got.upper() != strip_dots(q).upper(): return f"lookup of {q!r} returned index {idx} which names {got!r}"
        bad = p[1 + len(queries):5 + len(queries)]
        if bad != ["EEEE"] * 4: return f"an out-of-range index was accepted by a per-member call: {bad}"
        self_ = p[-1]
        if not self_.startswith("self=") or set(self_[5:]) - set("=-"): return f"looking up the i-th name did not return i: {self_}"
        return None
    return Case(f"!arc.lookup {kind} {ms} {qs}", check=chk, tag=tag)

class Lay:
    def __init__(self): self.loose = {}; self.dirs = []; self.sub = {}; self.vols = []; self.clms = []
    def spec(self):
        items = [f"f:{h(n)}:{h(c)}" for n, c in self.loose.items()] + [f"d:{h(d)}" for d in self.dirs]
        items += [f"s:{h(d)}:{h(n)}:{h(c)}" for (d, n), c in self.sub.items()]
        for f, ms in self.vols: items.append(f"v:{h(f)}:" + (",".join(f"{h(n)}={h(c)}" for n, c in ms) or "-"))
        for f, ms in self.clms: items.append(f"c:{h(f)}:" + (",".join(f"{h(n)}={h(c)}" for n, c in ms) or "-"))
        return ";".join(items) or "-"
    def archives(self):
        return [(f, ms) for f, ms in self.vols if f.endswith(".vol")] + [(f, ms) for f, ms in self.clms if f.endswith(".clm")]
    def loose_names(self):
        return list(self.loose) + [f for f, _ in self.vols] + [f for f, _ in self.clms]

def show(b):
    if len(b) <= 48: return hexs(b)
    hh = 14695981039346656037
    for x in b: hh = ((hh ^ x) * 1099511628211) % (1 << 64)
    return f"#{len(b)}:{hh}"

def expect_stream(L, name, access):
    """the set of acceptable answers according to the property (any member of that name from a loaded archive)"""
    if name.startswith("/"): return {"err"}
    comps = [c for c in name.split("/") if c not in ("", ".")]
    if len(comps) == 1 and comps[0] in L.loose: return {show(L.loose[comps[0]]) + "."}
    if len(comps) == 2 and (comps[0], comps[1]) in L.sub: return {show(L.sub[(comps[0], comps[1])]) + "."}
    if not access: return {"none"}
    cands = set()
    key = strip_dots(name).upper()
    for f, ms in L.archives():
        for n, c in ms:
            if n.upper() == key: cands.add(show(c) + ".")
    return cands or {"none"}

def pat_match(pat, name): return re.search(pat, name, re.I) is not None

def res_case(L, queries, tag, nomodel=False):
    """queries: list of tuples; builds the line and a direct oracle over the whole answer vector"""
    qs = []
    for q in queries:
        if q[0] in "gtp": qs.append(f"{q[0]}:{h(q[1])}:{1 if q[2] else 0}")
        elif q[0] == "a": qs.append(f"a:{h(q[1])}")
        else: qs.append("n")
    def chk(out):
        rs = out.split(" ")
        if len(rs) != len(queries): return f"unexpected output {out!r}"
        for q, r in zip(queries, rs):
            if q[0] == "g":
                exp = expect_stream(L, q[1], q[2])
                if r not in exp: return f"GetResourceStream({q[1]!r}, access={q[2]}) returned {r}, the property demands one of {sorted(exp)}"
            elif q[0] == "a":
                if r.endswith("!"): return f"FindContainingArchivePath({q[1]!r}) names an archive that does not contain it"
                has = any(n.upper() == strip_dots(q[1]).upper() for _, ms in L.archives() for n, _ in ms)
                if has and r == "-": return f"FindContainingArchivePath({q[1]!r}) found nothing although a loaded archive has that member"
                if not has and r != "-": return f"FindContainingArchivePath({q[1]!r}) reported {r} although no loaded archive has that member"
            elif q[0] == "n":
                exp = "[" + ",".join(sorted(h(f) for f, _ in L.archives())) + "]"
                if r != exp: return f"GetArchiveFilenames returned {r}, loaded archives are {exp}"
            elif q[0] == "p":
                names = [n for n in L.loose_names() if pat_match(q[1], n)]
                if q[2]: names += [n for _, ms in L.archives() for n, _ in ms if pat_match(q[1], n)]
                exp = "[" + ",".join(sorted(h(n) for n in names)) + "]"
                if r != exp: return f"GetAllFilenames({q[1]!r}, access={q[2]}) returned {r}; the names matching the pattern are {exp}"
            elif q[0] == "t":
                # names arrive folded to upper case (which of two members equal ignoring case is listed depends on load order)
                got = [] if r == "[]" else [bytes.fromhex(x).decode("latin1") for x in r[1:-1].split(",")]
                ext = q[1]
                loose_up = [n.upper() for n in L.loose_names()]
                allnames = set(loose_up) | ({n.upper() for _, ms in L.archives() for n, _ in ms} if q[2] else set())
                for g in got:
                    if g not in allnames: return f"type listing contains {g!r} which is neither a loose file nor a member"
                for n in L.loose_names():
                    if ext.startswith(".") and n.endswith(ext) and n.rfind(".") == len(n) - len(ext) and n.upper() not in got:
                        return f"loose file {n!r} has extension {ext!r} but is not listed"
                # completeness for archive members: a member whose extension is the requested one (ignoring case; the request may
                # omit the leading dot; the empty request means "no extension") is listed whenever archives are searched
                if q[2]:
                    want = ext if (ext == "" or ext.startswith(".")) else "." + ext
                    for _, ms in L.archives():
                        for n, _ in ms:
                            mext = n[n.rfind("."):] if "." in n else ""
                            if mext.upper() == want.upper() and n.upper() not in got:
                                return f"archive member {n!r} has extension {want!r} but the type listing for {ext!r} omits it"
                from collections import Counter
                cnt = Counter(got); lc = Counter(x for x in loose_up if x in cnt)
                for g, k in cnt.items():
                    if k > max(1, lc.get(g, 0)): return f"{g!r} is listed {k} times: an archive member equal (ignoring case) to a name already listed was added"
        return None
    return Case(f"!res.q {L.spec()} {';'.join(qs)}", check=chk, tag=tag, nomodel=nomodel)

NAMES = ["a.txt", "B.TXT", "c.bmp", "Data.Map", "e", "f.wav", "G.Bmp", "h_1.txt", "zz.vol.txt",
         # characters between 'Z' and 'a' order differently under upper- and lower-case folding
         "a_b.txt", "aab.txt", "WELL_002.bmp", "wellA003.bmp", "_under.txt", "a^b.txt", "a[1].txt", "aZ.txt", "a`.txt"]
CLMN = ["snd1", "SND2", "eden", "a"]

def rand_layout(rng, overlap=False):
    """overlap=False: no member name (ignoring case) occurs in two archives, so every answer is independent of the
    archive load order (= directory iteration order) and can be compared with the model, which is given one order"""
    L = Lay(); used = set()
    for n in rng.sample(NAMES, rng.randrange(0, 5)): L.loose[n] = bytes(rng.randrange(256) for _ in range(rng.randrange(0, 70)))
    if rng.random() < 0.6:
        d = rng.choice(["sub", "Dir", "x.vol.d"])
        L.dirs.append(d)
        if rng.random() < 0.7: L.sub[(d, rng.choice(NAMES))] = bytes(rng.randrange(256) for _ in range(rng.randrange(0, 20)))
    if rng.random() < 0.3: L.dirs.append(rng.choice(["dir.vol", "dir.clm"]))     # a directory named like an archive is not loaded
    for k in range(rng.randrange(0, 3)):
        ms = []
        for n in rng.sample(NAMES, rng.randrange(0, 8)):
            n2 = rng.choice([n, n.upper(), n.lower()])
            if n2.upper() in {m.upper() for m, _ in ms}: continue
            if not overlap and n2.upper() in used: continue
            used.add(n2.upper())
            ms.append((n2, bytes(rng.randrange(256) for _ in range(rng.randrange(0, 90)))))
        L.vols.append((rng.choice(["art", "Maps", "x"]) + str(k) + rng.choice([".vol", ".vol", ".vol", ".VOL", ".vol2"]), ms))
    if rng.random() < 0.5:
        ms = [(n, bytes(rng.randrange(256) for _ in range(2 * rng.randrange(0, 30)))) for n in rng.sample(CLMN, rng.randrange(0, 4))
              if overlap or n.upper() not in used]
        L.clms.append(("music" + rng.choice([".clm", ".clm", ".CLM"]), ms))
    return L

def cases(tier, rng):
    thorough = tier == "thorough"
    # archive lookup
    for _ in range(120 if thorough else 40):
        kind = rng.choice("vvc")
        pool = CLMN if kind == "c" else NAMES
        ms = []
        for n in rng.sample(pool, rng.randrange(0, min(9, len(pool)) + 1)):
            n2 = rng.choice([n, n.upper(), n.lower()])
            ms.append((n2, bytes(rng.randrange(256) for _ in range(2 * rng.randrange(0, 20)))))
        qs = []
        for n, _ in ms: qs += rng.sample(variants(n), 3)
        qs += [rng.choice(pool) for _ in range(2)] + ["nope", "dir/" + (ms[0][0] if ms else "a"), "x" + (ms[0][0] if ms else "a")]
        yield lookup_case(kind, ms, qs, f"lookup-{'clm' if kind == 'c' else 'vol'}")
    # out-of-range indices on archives the library did not write: the index table of a VOL may have unused trailing slots, so the
    # number of slots exceeds the member count — every per-member call must still refuse every index >= GetCount()
    from . import volref as V
    import random as _random
    import os as _os
    shared_rng = rng; rng = _random.Random(170817 + int(_os.environ.get("VERIF_SEED", "0") or 0))     # own stream: the sections below keep theirs
    for unused in ((1, 2, 5, 9) if thorough else (1, 3)):
        for k in (0, 1, 3):
            ms = [V.Member(bytes([97 + i]) + b".dat", bytes(rng.randrange(256) for _ in range(rng.choice([1, 4, 7])))) for i in range(k)]
            arc = V.encode(ms, unused=unused, slack=0)
            ops = ["c"]; exp = ["open:ok", str(k)]
            for i in sorted({k, k + 1, k + unused - 1, k + unused, 1 << 32, (1 << 64) - 1}):
                for o in "nskre": ops.append(f"{o}{i}"); exp.append("err")
            for i in range(k): ops += [f"n{i}", f"s{i}"]; exp += [hexs(ms[i].name), str(len(ms[i].payload))]
            yield Case(f"!vol.open {hexs(arc)} L {','.join(ops)}", expect=",".join(exp), tag="out-of-range-with-unused-slots")
    rng = shared_rng
    # member names shared between archives, deterministically: the same name (in different letter cases) in two or three loaded
    # archives, with and without a loose file of that name — a type listing shows every name once (ignoring case), whichever
    # archive is loaded first
    for names, loose in (([("both.txt", "BOTH.TXT")], []), ([("three.txt", "THREE.txt", "Three.TXT")], []),
                         ([("shared.txt", "Shared.TXT")], ["SHARED.txt"]), ([("a.txt", "A.TXT"), ("b.bmp", "B.BMP")], ["c.txt"])):
        L = Lay()
        for n in loose: L.loose[n] = b"loose-" + n.encode()
        k = max(len(t) for t in names)
        for j in range(k):
            ms = [(t[j], bytes([65 + j]) * (3 + j)) for t in names if j < len(t)] + [(f"only{j}.txt", b"x" * j)]
            L.vols.append((f"arc{j}.vol", ms))
        qs = [("t", ".txt", True), ("t", ".TXT", True), ("t", "txt", True), ("t", ".bmp", True), ("t", ".txt", False), ("n",)]
        for t in names: qs += [("g", t[0], True), ("g", t[-1].swapcase(), True), ("a", t[0])]
        yield res_case(L, qs, "resolution-same-name-in-several-archives", nomodel=True)
    # resource resolution
    for it in range(300 if thorough else 90):
        overlap = it % 3 == 0       # member names shared between archives: answers may depend on the load order -> Python oracle only
        L = rand_layout(rng, overlap)
        allm = [n for _, ms in L.vols + L.clms for n, _ in ms]
        pool = list(L.loose) + allm + NAMES[:3] + [f"{d}/{n}" for (d, n) in L.sub]
        qs = []
        for _ in range(rng.randrange(3, 9)):
            n = rng.choice(pool) if pool else "a.txt"
            n = rng.choice([n, n, n.upper(), n.lower(), "./" + n, "/" + n, "//" + n])
            qs.append(("g", n, rng.random() < 0.7))
        for _ in range(2):
            qs.append(("t", rng.choice([".txt", ".TXT", "txt", ".bmp", ".Bmp", ".vol", ".map", ".wav", "", ".clm"]), rng.random() < 0.7))
        for _ in range(2):
            qs.append(("p", rng.choice(["a", "^a", "txt$", "^c\\.bmp$", "[.]bmp", "\\.TXT$", "_1", "zz", "^snd", "root", "^e$", "vol"]), rng.random() < 0.7))
        for _ in range(2):
            n = rng.choice(pool) if pool else "a"
            qs.append(("a", rng.choice([n, n.upper(), "./" + n])))
        qs.append(("n",))
        yield res_case(L, qs, "resolution-overlapping-archives" if overlap else "resolution", nomodel=overlap)

def search(drv, model, diverged, lean, rng):
    extra = list(cases("thorough", rng))
    outs = run_impl_par(drv, [c.line for c in extra])
    for c, a in zip(extra, outs):
        msg = (c.check(a) if c.check else None) if not (a.startswith("fault") or a == "hang") else f"implementation outcome {a}"
        if msg: return c, a, "direct oracle: " + msg
    return None
