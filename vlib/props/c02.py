"""C02 — written VOLs obey an independent description of the format; archives from an independent encoder are read back."""
import itertools
from ..framework import Case
from ..common import hexs
from . import volref as V
from . import c01

LEAN_MODULES = ["Op2Proofs.Props.C02"]
RULE = ("(writer) one case = one CreateArchive call whose bytes must equal, byte for byte (hash for long ones), the encoding "
        "of the sorted inputs by the independent Python encoder, which on every run is compared with the Lean refEncode and checked "
        "by the executable Lean strictWF (tags/lengths tile the header, name table in index order at recorded offsets, aligned "
        "contiguous zero-padded blocks ending at EOF), and whose listing must be found member by member by a _stricmp-style "
        "binary search; (reader) one case = one reference-encoded archive (member counts 0-9, names, payload sizes in every "
        "residue class, 0-3 unused trailing slots, index slack 0-13 and beyond behind an unused slot, compression codes "
        "0x100/0x101/0x102/0x103/0/0xFFFF with size fields unrelated to the stored length) opened by the real VolFile: count, "
        "names, sizes, kinds, stored payloads by index and by name in flipped case, extraction of uncompressed members")
PROVED = ("C02_writer_conforms: for ALL inputs, create ok => the bytes are the reference encoding of a strict description (StrictWF: tags "
          "and lengths tile the header, name table in index order at recorded offsets, 4-aligned contiguous zero-padded blocks whose "
          "tag/length match the entry, last block ends at EOF, names strictly increasing in the _stricmp order); C02_strictWF_sound "
          "+ C02_strictWF_complete (the executable check decides StrictWF exactly; the encoder is injective on strict descriptions); C02_binary_search (+ _sound): on every strict description binary search by the "
          "unsigned case-insensitive order finds member i under every case flipping and nothing else; C02_reader_accepts_ref: for "
          "EVERY well-formed description (unused slots, slack, any compression codes, size fields unrelated to stored length) "
          "Vol.open (refEncode d) returns the same names, sizes, kinds and stored payloads; spec order = library order away from 0xFF")
PARTIAL = ("C02_writer_conforms assumes names without NUL/0xFF bytes and a header below 2 GiB; C02_reader_accepts_ref assumes the header "
           "below the 1 GiB allocation cap (proved false above it: open_refEncode_alloc); decompression of LZH members "
           "belongs to C04")
TRUSTED = c01.TRUSTED
ASSUMPTIONS = ["names are non-empty, contain no NUL or '/' and are not '.' or '..' (what a file name can be)"]

CODES = [V.UNCOMPRESSED, V.LZH, V.RLE, V.LZ, 0, 0xFFFF]

def ref_descs(tier, rng):
    thorough = tier == "thorough"
    D = []
    def add(ms, unused=0, slack=0, tag=""): D.append((ms, unused, slack, tag))
    add([], tag="ref-empty")
    for u in (1, 2, 3): add([], unused=u, tag="ref-empty-unused-slots")
    for s in (1, 2, 3, 13): add([], slack=s, tag="ref-empty-slack")
    mk = lambda n, k, comp=V.UNCOMPRESSED, size=None: V.Member(n, c01.content(rng, k), size=size, comp=comp)
    for k in (0, 1, 2, 3, 4, 5, 7, 8, 131073):
        add([mk(b"a.bin", k)], tag="ref-one-member")
    for u, s in itertools.product((0, 1, 2, 3), (0, 1, 2, 3, 4, 13)):
        add([mk(b"A", 3), mk(b"b.txt", 6)], unused=u, slack=s, tag="ref-unused-and-slack")
    for s in (14, 15, 28, 30): add([mk(b"A", 3), mk(b"b.txt", 6)], unused=1, slack=s, tag="ref-long-slack-behind-unused-slot")
    for comp in CODES:
        add([mk(b"c0", 5, comp, size=rng.choice([0, 5, 77, (1 << 31) - 1, (1 << 32) - 1])), mk(b"p", 2)], tag=f"ref-compression-{comp:#x}")
    for _ in range(40 if not thorough else 600):
        used = set(); k = rng.randrange(0, 10)
        names = sorted((c01.rand_name(rng, used) for _ in range(k)), key=V.sort_key)
        ms = []
        for n in names:
            comp = rng.choice(CODES) if rng.random() < 0.4 else V.UNCOMPRESSED
            plen = rng.choice([rng.randrange(0, 40), rng.choice(c01.SIZES[:8])]) if rng.random() < 0.97 else 131072
            ms.append(mk(n, plen, comp, size=None if comp == V.UNCOMPRESSED else rng.randrange(1 << 32)))
        u = rng.choice([0, 0, 1, 2, 3]); s = rng.choice([0, 0, 1, 2, 3, 13]) if u == 0 else rng.randrange(0, 40)
        add(ms, unused=u, slack=s, tag="ref-random")
    return D

def ref_case(ms, unused, slack, tag, arc):
    ops = ["c"]; exp = ["open:ok", str(len(ms))]
    for i, m in enumerate(ms):
        ops += [f"n{i}", f"s{i}", f"k{i}", f"r{i}", f"q{hexs(m.name.swapcase())}", f"x{hexs(m.name.swapcase())}", f"h{hexs(m.name.upper())}"]
        exp += [hexs(m.name), str(m.size), str(m.comp), V.show(m.payload), V.show(m.payload), str(i), "1"]
        if m.comp == V.UNCOMPRESSED: ops.append(f"e{i}"); exp.append(V.show(m.payload))
        elif m.comp == V.LZH: ops.append(f"e{i}"); exp.append("lzh")
        else: ops.append(f"e{i}"); exp.append("err")
    ops += [f"n{len(ms)}", f"r{len(ms)}", f"h{hexs(b'no-such-member')}"]; exp += ["err", "err", "0"]
    data = hexs(arc) if len(arc) < 4000 else None
    return data, ",".join(ops), ",".join(exp)

def cases(tier, rng):
    # writer side: the C01 generator with this property's own random stream
    pcs = c01.pack_cases(tier, rng)
    archives = V.check_against_lean([(pc.members(), 0, 0) for pc in pcs], strict=True)
    for pc, arc in zip(pcs, archives):
        yield Case(pc.line(), check=V.pack_check(pc, arc), tag="writer-" + pc.tag)
    # writer side, inputs the library should refuse (names equal ignoring case): C02 does not demand the refusal (C01 does) —
    # but WHATEVER the library writes must list its members so that a case-insensitive binary search finds every one of them
    for c in c01.refusal_cases(tier, rng):
        if "duplicate" in c.tag:
            yield Case(c.line, check=written_is_searchable, tag="writer-" + c.tag)
    # reader side
    D = ref_descs(tier, rng)
    encs = V.check_against_lean([(ms, u, s) for ms, u, s, _ in D], strict=False)
    for (ms, u, s, tag), arc in zip(D, encs):
        data, ops, exp = ref_case(ms, u, s, tag, arc)
        if data is None: data = big_arg(ms, u, s, arc)
        if data is None: continue
        yield Case(f"!vol.open {data} L {ops}", expect=exp, tag=tag)
        yield Case(f"!vol.open {data} F {ops}", expect=exp, tag=tag + "-fresh-object-per-call")

def written_is_searchable(out):
    """oracle for a pack of any input set: an error is fine; a written archive must be searchable by name"""
    if not out.startswith("ok "): return None
    fields = out.split(" ")[4:]
    try: names = [bytes.fromhex(f.split(":")[0]) for f in fields]
    except ValueError: return f"unreadable listing {out[:200]!r}"
    for i, n in enumerate(names):
        if V.bsearch_ci(names, n) != i:
            return (f"the library wrote an archive listing {names!r}: a case-insensitive binary search for {n!r} does not find "
                    f"member {i} (entries are not strictly ascending)")
    return None

def big_arg(ms, u, s, arc):
    return hexs(arc)      # both drivers take plain hex of any length

def search(drv, model, diverged, lean, rng):
    from ..framework import run_impl
    cs = list(cases("thorough", rng))
    outs = run_impl(drv, [c.line for c in cs])
    for c, o in zip(cs, outs):
        if o.startswith("fault:") or o == "hang": return c, o, f"implementation outcome {o}"
        if c.expect is not None and o != c.expect: return c, o, f"direct oracle: property demands {c.expect[:200]!r}, implementation returned {o[:200]!r}"
        if c.check is not None:
            m = c.check(o)
            if m: return c, o, "direct oracle: " + m
    return None
