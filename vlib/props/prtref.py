"""Python reference description of the PRT (ArtFile) format: encoder with a field map, the canonical structural dump
printed by both drivers, and structured generators.  Written from the format, independent of the library and of the
Lean model (the Lean `Prt.Spec` is the second, frozen description)."""
import struct

M32 = (1 << 32) - 1
CANON_HDR = b"PPAL" + struct.pack("<I", 1048) + b"head" + struct.pack("<I", 4) + struct.pack("<I", 1) + b"data" + struct.pack("<I", 1024)

def fnv1a(b):
    h = 14695981039346656037
    for x in b:
        h = ((h ^ x) * 1099511628211) & ((1 << 64) - 1)
    return h

def show_bytes(b):
    if len(b) == 0: return "-"
    return b.hex() if len(b) <= 48 else f"#{len(b)}:{fnv1a(b)}"

def show_text(t):
    return t if len(t) <= 600 else f"#{len(t)}:{fnv1a(t.encode())}"

class Layer:
    def __init__(self, bi=0, unk=0, fi=0, px=0, py=0): self.bi, self.unk, self.fi, self.px, self.py = bi, unk, fi, px, py
class Frame:
    def __init__(self, count=0, flag=0, ucount=0, uflag=0, o=(0, 0, 0, 0), layers=None):
        self.count, self.flag, self.ucount, self.uflag = count, flag, ucount, uflag
        self.o = list(o); self.layers = layers if layers is not None else []
class Anim:
    def __init__(self, head=(0,) * 8, frames=None, uc=None):
        self.head = list(head); self.frames = frames or []; self.uc = uc or []     # head: unknown, x1,y1,x2,y2, dx,dy, unknown2 (u32 words)
class Image:
    def __init__(self, scan=0, off=0, h=0, w=0, ty=0, pidx=0): self.scan, self.off, self.h, self.w, self.ty, self.pidx = scan, off, h, w, ty, pidx
class Art:
    def __init__(self, palettes=None, images=None, anims=None, unk=0):
        self.palettes = palettes or []   # each: 1024 bytes in MEMORY order (red, green, blue, alpha per colour)
        self.images = images or []; self.anims = anims or []; self.unk = unk

def swap_rb(p):
    b = bytearray(p)
    for i in range(0, len(b) - 3, 4): b[i], b[i + 2] = b[i + 2], b[i]
    return bytes(b)

def encode(a, headers=None, totals=None, fields=None):
    """bytes of the PRT file.  headers: per-palette 28-byte header (default canonical); totals: override of
    (animations, frames, layers).  `fields` (list) receives (offset, width, name) of every integer field."""
    out = bytearray()
    def put(v, w, name):
        if fields is not None: fields.append((len(out), w, name))
        out.extend(int(v & ((1 << (8 * w)) - 1)).to_bytes(w, "little"))
    out.extend(b"CPAL"); put(len(a.palettes), 4, "palCount")
    for i, p in enumerate(a.palettes):
        h = headers[i] if headers else CANON_HDR
        if fields is not None:
            o = len(out)
            fields += [(o + 4, 4, f"pal{i}.overallLen"), (o + 12, 4, f"pal{i}.headLen"), (o + 16, 4, f"pal{i}.tagCount"), (o + 24, 4, f"pal{i}.dataLen")]
        out.extend(h); out.extend(swap_rb(p))
    put(len(a.images), 4, "imgCount")
    for i, m in enumerate(a.images):
        put(m.scan, 4, f"img{i}.scan"); put(m.off, 4, f"img{i}.off"); put(m.h, 4, f"img{i}.h"); put(m.w, 4, f"img{i}.w")
        put(m.ty, 2, f"img{i}.type"); put(m.pidx, 2, f"img{i}.pidx")
    nf = sum(len(x.frames) for x in a.anims); nl = sum(len(f.layers) for x in a.anims for f in x.frames)
    t = totals or (len(a.anims), nf, nl)
    put(t[0], 4, "animCount"); put(t[1], 4, "frameTotal"); put(t[2], 4, "layerTotal"); put(a.unk, 4, "unknownCount")
    for i, an in enumerate(a.anims):
        for k, v in enumerate(an.head): put(v, 4, f"an{i}.head{k}")
        put(len(an.frames), 4, f"an{i}.frameCount")
        for j, f in enumerate(an.frames):
            put(f.count | (f.flag << 7), 1, f"an{i}.fr{j}.meta"); put(f.ucount | (f.uflag << 7), 1, f"an{i}.fr{j}.ubits")
            if f.flag: put(f.o[0], 1, f"an{i}.fr{j}.o1"); put(f.o[1], 1, f"an{i}.fr{j}.o2")
            if f.uflag: put(f.o[2], 1, f"an{i}.fr{j}.o3"); put(f.o[3], 1, f"an{i}.fr{j}.o4")
            for k, l in enumerate(f.layers):
                put(l.bi, 2, f"an{i}.fr{j}.l{k}.bi"); put(l.unk, 1, f"an{i}.fr{j}.l{k}.unk"); put(l.fi, 1, f"an{i}.fr{j}.l{k}.fi")
                put(l.px, 2, f"an{i}.fr{j}.l{k}.px"); put(l.py, 2, f"an{i}.fr{j}.l{k}.py")
        put(len(an.uc), 4, f"an{i}.ucCount")
        for k, c in enumerate(an.uc):
            for q in range(4): put(c[q], 4, f"an{i}.uc{k}.{q}")
    return bytes(out)

def dump_text(a):
    s = f"pal:{len(a.palettes)}" + "".join(f",{fnv1a(p)}" for p in a.palettes)
    s += f" img:{len(a.images)}" + "".join(f",{m.scan}/{m.off}/{m.h}/{m.w}/{m.ty}/{m.pidx}" for m in a.images)
    s += f" anim:{len(a.anims)}"
    for an in a.anims:
        s += ",{" + "/".join(str(v) for v in an.head) + f";fr:{len(an.frames)}"
        for f in an.frames:
            o = f.o if True else None
            o1, o2 = (f.o[0], f.o[1]) if f.flag else (0, 0)
            o3, o4 = (f.o[2], f.o[3]) if f.uflag else (0, 0)
            s += f",<{f.count}/{f.flag}/{f.ucount}/{f.uflag}/{o1}/{o2}/{o3}/{o4}:{len(f.layers)}"
            s += "".join(f",{l.bi}/{l.unk}/{l.fi}/{l.px}/{l.py}" for l in f.layers) + ">"
        s += f";uc:{len(an.uc)}" + "".join(f",{c[0]}/{c[1]}/{c[2]}/{c[3]}" for c in an.uc) + "}"
    return s + f" unk:{a.unk}"

def round4(w): return (w + 3) // 4 * 4

# ---------------------------------------------------------------- generators
def gen_palette(rng, kind=None):
    kind = kind if kind is not None else rng.randrange(3)
    if kind == 0: return bytes((i * 7 + k * 31 + 1) & 255 for i in range(256) for k in range(4))   # r,g,b,a all different
    if kind == 1: return bytes(rng.randrange(256) for _ in range(1024))
    return bytes([255, 0, 1, 2] * 256)                                                               # red only: swap visible at once

def gen_layer(rng):
    return Layer(rng.choice([0, 1, 65535, rng.randrange(65536)]), rng.randrange(256), rng.randrange(256), rng.randrange(65536), rng.choice([0, 65535, 32768, rng.randrange(65536)]))

def gen_frame(rng, nl, flag, uflag):
    return Frame(nl, flag, rng.choice([0, 1, 127, rng.randrange(128)]), uflag, [rng.randrange(256) for _ in range(4)], [gen_layer(rng) for _ in range(nl)])

def gen_anim(rng, nframes, layer_counts=(0, 1, 2), nuc=None):
    frames = []
    for j in range(nframes):
        fl = (j + rng.randrange(4)) & 3
        frames.append(gen_frame(rng, rng.choice(layer_counts), fl & 1, fl >> 1))
    nuc = rng.choice([0, 1, 3]) if nuc is None else nuc
    head = [rng.choice([0, 1, M32, 1 << 31, rng.randrange(1 << 32)]) for _ in range(8)]
    return Anim(head, frames, [[rng.randrange(1 << 32) for _ in range(4)] for _ in range(nuc)])

def gen_image(rng, npal, w=None):
    w = rng.choice([0, 1, 2, 3, 4, 5, 7, 8, 9, 31, 32, 33, 100, 640]) if w is None else w
    return Image(round4(w), rng.choice([0, 1, 100, rng.randrange(1 << 20)]), rng.choice([0, 1, 2, 3, 7, 16]), w,
                 rng.choice([0, 1, 4, 5, 64, 0xFFFB, 0xFFFF, rng.randrange(65536)]), rng.randrange(npal))

def gen_art(rng, npal=None, nimg=None, nanim=None, layer_counts=(0, 1, 2)):
    npal = rng.randrange(4) if npal is None else npal
    nimg = (rng.randrange(6) if npal else 0) if nimg is None else nimg
    nanim = rng.randrange(4) if nanim is None else nanim
    a = Art([gen_palette(rng) for _ in range(npal)], [gen_image(rng, npal) for _ in range(nimg)],
            [gen_anim(rng, rng.choice([0, 1, 2, 4]), layer_counts) for _ in range(nanim)], rng.choice([0, 1, 7, M32, rng.randrange(1 << 32)]))
    return a

def noncanonical_header(rng):
    """accepted by the reader (tags right, lengths add up) but different from what the writer emits"""
    head = rng.choice([0, 4, 5, 1000, M32 - 30]); data = rng.choice([0, 1024, 7, 1 << 20])
    if head == 4 and data == 1024: data = 1020; head = 8
    overall = head + data + 20
    if overall > M32: head, data, overall = 0, 0, 20
    return b"PPAL" + struct.pack("<I", overall) + b"head" + struct.pack("<I", head) + struct.pack("<I", rng.choice([0, 1, 2, M32])) + b"data" + struct.pack("<I", data)

# ---------------------------------------------------------------- pixel files and expected extraction (8-bit, ordinary sizes only)
def pixel_file(n, seed=1):
    return bytes((i * 37 + seed * 11 + (i >> 7)) & 255 for i in range(n))

def expected_bmp(a, i, pix):
    """the bitmap SpriteLoader::ExtractImage must produce for image i; None where this description does not apply
    (shadow images with a differing pitch, sizes outside the ordinary range) -> 'e' when the pixel range is outside the file"""
    m = a.images[i]
    if m.w == 0 or m.w >= (1 << 31) or m.h >= (1 << 31): return None
    start = m.off + 1078; n = m.scan * m.h
    if start + n > len(pix): return "e"
    bits = 1 if m.ty & 4 else 8
    pitch = round4((m.w * bits + 7) // 8)
    if pitch * m.h != n: return "e"
    pal = a.palettes[m.pidx][: 4 * (1 << bits)]
    body = pix[start:start + n]
    rowbytes = (m.w * bits + 7) // 8
    rows = b"".join(body[y * pitch: y * pitch + rowbytes] + bytes(pitch - rowbytes) for y in range(m.h))
    off = 14 + 40 + len(pal)
    hdr = b"BM" + struct.pack("<IHHI", off + len(rows), 0, 0, off)
    ih = struct.pack("<IiiHHIIIIII", 40, m.w, -m.h, 1, bits, 0, 0, 0, 0, 0, 0)
    return "o:" + show_bytes(hdr + ih + pal + rows)
