"""C11 — bitmap, tileset and PRT loaders are safe on arbitrary bytes; results safe to use (family parts glued together)."""
from .combine import combine
import os
_parts = [p for p in ("c11_bmp", "c11_prt") if os.path.exists(os.path.join(os.path.dirname(__file__), p + ".py"))]
combine(globals(), _parts)
