"""C16 — map coordinates address distinct tiles; tile accessors are faithful."""
from ..framework import Case

LEAN_MODULES = ["Op2Proofs.Props.C16"]
RULE = ("every width 2^5..2^10 x heights 1..8 (thorough: 1..256 for the two narrowest widths, sampled above) with ALL "
        "coordinates swept inside one case (tile.addr: which tile each (x,y) addresses, observed through the getters; "
        "tile.acc: every getter, then both setters at every coordinate, then the serialised tile words); every cell type "
        "0..31 plus out-of-range values on several tile words; both lava states; distinct = distinct protocol lines")
PROVED = ("(x,y) -> index is a bijection [0,32m)x[0,h) -> [0,32mh) for all m,h (range, injectivity, explicit inverse); block-order "
          "formula; the 64-bit machine formula equals it whenever the array fits size_t; get(set v)=v for all v<32 and both lava "
          "states; every other field of the word unchanged; v>31 refused; setters touch only the addressed list element; "
          "the formula translated from Map::GetTileIndex equals the model's; measured Tile/TileMapping layout equals the model's")
PARTIAL = "tileset/image index lookup is definitional in the model (mappings[mappingIndexOf w]); tied to the code by tile.acc only"
TRUSTED = []
ASSUMPTIONS = ["maps are built through Map::ReadMap on a minimal well-formed file (the public way to obtain dimensions)"]

M32 = (1 << 32) - 1

def addr_check(lgw, h):
    def chk(out):
        p = out.split()
        if len(p) != 6: return f"unexpected output {out!r}"
        w, hh, n, distinct, oor, _ = p
        if int(w) != 1 << lgw or int(hh) != h or int(n) != (1 << lgw) * h:
            return f"reported dimensions {w}x{hh} count {n} differ from header {1 << lgw}x{h}"
        if int(oor) != 0: return f"{oor} coordinates address a tile outside the array"
        if int(distinct) != int(n): return f"coordinates cover only {distinct} of {n} tiles (two coordinates share a tile)"
        return None
    return chk

def cases(tier, rng):
    thorough = tier == "thorough"
    for lgw in range(5, 11):
        hs = list(range(1, 9))
        if thorough:
            hs = list(range(1, 257)) if lgw <= 6 else sorted(set(list(range(1, 17)) + [31, 32, 33, 63, 64, 100, 127, 128, 255, 256]))
        for h in hs:
            yield Case(f"tile.addr {lgw} {h}", check=addr_check(lgw, h), tag=f"addr-w{1 << lgw}")
        for h in (hs if not thorough else hs[:12] + [32, 64]):
            yield Case(f"tile.acc {lgw} {h} {rng.randrange(1, 1 << 30)}", tag=f"acc-w{1 << lgw}")
    # the indices reported for a tile are those of the mapping entry the tile refers to NOW: the mapping index is rewritten in place
    # (Map::tiles is public) between queries of the same coordinate
    for lgw, h, x, y in ((5, 1, 21, 0), (5, 3, 0, 2), (6, 2, 33, 1), (7, 4, 100, 3)):
        ks = [rng.randrange(2048) for _ in range(6)] + [0, 2047, 1248]
        ops = []; want = []
        cur = 0
        for i, k in enumerate(ks):
            ops.append("q"); want.append(cur)
            if i % 3 == 2: ops.append("p"); want.append(cur)
            ops.append(f"k{k}"); cur = k
            ops.append("q"); want.append(cur)
        exp = ",".join(f"{k}:{(3 * k + 1) & 0xFFFF}:{(5 * k + 2) & 0xFFFF}" for k in want)
        yield Case(f"tile.remap {lgw} {h} {x} {y} {','.join(ops)}", expect=exp, tag="mapping-rewritten-between-queries")
    yield Case("tile.acc 6 32 0", tag="acc-all-mappings")
    yield Case("tile.acc 7 32 0", tag="acc-all-mappings")
    words = [0, M32, 0x12345678, 0x0000FFE0, 31, 0xFFFFFFE0, 0x10000000, 0xEFFFFFFF] + [rng.randrange(1 << 32) for _ in range(8 if not thorough else 64)]
    for w in words:
        for v in range(32):
            yield Case(f"tile.setcell {w} {v}", expect=f"ok {(w & ~31) | v} {M32 ^ w} {v}", tag="setcell-valid")
        for v in (32, 33, 255, 256, 1000, -1, -2, -32, 2147483647, -2147483648):
            yield Case(f"tile.setcell {w} {v}", expect=f"err {w} {M32 ^ w} {w & 31}", tag="setcell-out-of-range")
        for b in (0, 1):
            nw = (w & ~(1 << 28)) | (b << 28)
            yield Case(f"tile.setlava {w} {b}", expect=f"{nw} {M32 ^ w} {b}", tag="setlava")
