"""C20 (PRT part) — a frame whose layer list disagrees with its 7-bit count is refused by the writer."""
from ..framework import Case, run_impl
from . import prtref as R

LEAN_MODULES = ["Op2Proofs.Props.C20_Prt"]
RULE = ("layer lists of every length 0..130 against every 7-bit count 0..127 (16 768 structures, all four flag combinations, swept "
        "inside one case: none wrongly accepted, none wrongly refused); the same for single structures with the exact bytes the "
        "format demands when the count matches; frames edited in files the reader returned")
PROVED = ("for ALL structures: a frame anywhere in the file with count != |layers| makes write fail (nothing is returned), and a "
          "well-formed structure is written, its frame byte carrying exactly the count (non-vacuity: just below / at the limit of 127 "
          "layers succeeds); the count field is 7 bits wide by the measured bit-field mask")
PARTIAL = ""
TRUSTED = []
ASSUMPTIONS = []

def one_frame(L, c, f1, f2):
    layers = [R.Layer((i + 1) & 65535, 0, i & 255, i & 65535, (-i) & 65535) for i in range(L)]
    fr = R.Frame(c & 127, f1, 5, f2, (11, 12, 13, 14), layers)
    return R.Art([], [], [R.Anim((1, 2, 3, 4, 5, 6, 7, 8), [fr], [])], 0)

def sweep_check(maxL):
    def chk(out):
        p = out.split()
        if len(p) != 5: return f"unexpected output {out!r}"
        if p[0] != "0": return f"{p[0]} structures whose layer list disagrees with the count were written"
        if p[1] != "0": return f"{p[1]} consistent structures were refused"
        total = (maxL + 1) * 128; ok = min(maxL, 127) + 1
        if int(p[2]) != total - ok or int(p[3]) != ok: return f"refused/written = {p[2]}/{p[3]}, expected {total - ok}/{ok}"
        return None
    return chk

def cases(tier, rng):
    yield Case("prt.lcsweep 130", check=sweep_check(130), tag="sweep")
    if tier == "thorough": yield Case("prt.lcsweep 300", check=sweep_check(300), tag="sweep")
    pairs = [(L, c) for L in (0, 1, 2, 126, 127, 128, 129, 130, 255, 256) for c in (0, 1, 2, 126, 127)]
    # list lengths that agree with the count modulo 128, 256, 65536 (a narrowed comparison would accept them)
    pairs += [(c + k, c) for c in (0, 1, 5, 127) for k in (128, 256, 384, 512, 65536)]
    pairs += [(rng.randrange(131), rng.randrange(128)) for _ in range(40)] + [(k, k) for k in range(0, 128, 9)]
    for L, c in pairs:
        f1, f2 = rng.randrange(2), rng.randrange(2)
        exp = "ok " + R.show_bytes(R.encode(one_frame(L, c, f1, f2))) if L == c else "refused"
        yield Case(f"prt.lc {L} {c} {f1} {f2}", expect=exp, tag="match" if L == c else "mismatch")
    for _ in range(10 if tier == "quick" else 40):
        a = R.gen_art(rng, 1, 1, 2, layer_counts=(0, 1, 2, 127))
        hx = R.encode(a).hex()
        for i, an in enumerate(a.anims):
            for j, f in enumerate(an.frames):
                n = len(f.layers)
                for m in {n + 1, max(n - 1, 0), (n + 128), 0} - {n}:
                    yield Case(f"prt.wr {hx} lay:{i}:{j}:{m}", expect="refused 1 -", tag="edit-layers")
                yield Case(f"prt.wr {hx} cnt:{i}:{j}:{(n + 1) & 127}", expect="refused 1 -", tag="edit-count")
    yield from cancelling_cases(rng, 12 if tier == "quick" else 60)

def cancelling_cases(rng, n):
    """two frames (same or different animations) whose mismatches cancel in every total: count a with b layers and
    count b with a layers — a check on sums alone would accept them"""
    for _ in range(n):
        same = rng.random() < 0.5
        a_, b_ = rng.sample([0, 1, 2, 3, 5, 126, 127], 2)
        def fr(c): return R.gen_frame(rng, c, rng.randrange(2), rng.randrange(2))
        if same: anims = [R.Anim([rng.randrange(1 << 32) for _ in range(8)], [fr(a_), fr(b_)], [])]
        else: anims = [R.Anim([rng.randrange(1 << 32) for _ in range(8)], [fr(a_)], []), R.Anim([0] * 8, [fr(b_)], [])]
        art = R.Art([], [], anims, 0)
        hx = R.encode(art).hex()
        j2 = (0, 1) if same else (1, 0)
        yield Case(f"prt.wr {hx} cnt:0:0:{b_},cnt:{j2[0]}:{j2[1]}:{a_}", expect="refused 1 -", tag="cancelling-mismatches")

def search(drv, model, diverged, lean, rng):
    cs = list(cases("thorough", rng))
    outs = run_impl(drv, [c.line for c in cs])
    for c, o in zip(cs, outs):
        if o.startswith("fault:") or o == "hang": return c, o, f"implementation outcome {o}"
        if c.expect is not None and o != c.expect: return c, o, f"direct oracle: property demands {c.expect!r}, implementation returned {o!r}"
        if c.check is not None:
            m = c.check(o)
            if m: return c, o, "direct oracle: " + m
    return None
