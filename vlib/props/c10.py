"""C10 — PRT sprite metadata round-trips and always satisfies its cross-field rules."""
import struct
from ..framework import Case, run_impl
from . import prtref as R

LEAN_MODULES = ["Op2Proofs.Props.C10"]
RULE = ("reference-encoded files (independent Python encoder; 0-3 palettes, 0-5 images, 0-3 animations, frames over all four "
        "flag combinations, layer counts {0,1,2,127}, unknown-container lengths {0,1,3}, trailing junk, non-canonical but accepted "
        "palette headers) x {read: full structural dump must equal the reference dump; rules evaluated by the driver on the returned "
        "object and the raw header; write->read->write; source object after Write}; every integer field of such files x boundary "
        "values (anything still accepted must satisfy the rules and round-trip); in-memory edits that break one rule each "
        "(palette index, scan-line width, width, dropped palette, layer list vs count) must be refused by Write and leave the "
        "object unchanged; distinct = distinct protocol lines")
PROVED = ("for ALL byte strings b: read b = ok a -> rules a (in N, no 32-bit wrap) and a representable; b = encoding of a (with b's palette "
          "headers) ++ rest, so every count/total field of b equals the contents; write a succeeds, read (write a) = ok a consuming all "
          "of it, the second write is byte-identical; canonical palette headers at 8+1052i -> write a = b.take (consumed b), otherwise "
          "b with canonical headers; the reader ignores trailing bytes and refuses every proper prefix (Local); colours are "
          "blue,green,red,alpha bytes in the file and red,green,blue,alpha fields in memory (reader and writer); for all representable a: "
          "not (rules a) -> write a = error; write a = Spec.encode a and read (Spec.encode a) = ok a for every well-formed a (frozen "
          "description); bridging lemmas for record sizes, field offsets, colour field order, bit-field masks, the bytes of "
          "CreatePaletteHeader() and the CPAL tag measured from the current headers")
PARTIAL = ("'writing never alters the in-memory object' has no content in a functional model (write takes a value); it is checked on "
           "the real object by the dump-before = dump-after oracle only (also after a refused Write).")
TRUSTED = ["harness/drv/prt.cpp structural dump (the library has no operator== for ArtFile)"]
ASSUMPTIONS = ["allocation requests above 1 GiB are refused by the harness allocator (err:alloc); the model has the same cap"]

BOUND32 = [0, 1, 2, 3, 4, 127, 128, 255, 256, 65535, 65536, (1 << 31) - 1, 1 << 31, (1 << 31) + 1, R.M32 - 3, R.M32 - 2, R.M32 - 1, R.M32]
BOUND16 = [0, 1, 2, 3, 4, 255, 256, 32767, 32768, 65534, 65535]
BOUND8 = [0, 1, 2, 126, 127, 128, 129, 254, 255]

def canonical_headers(b):
    if len(b) < 8: return False
    n = struct.unpack_from("<I", b, 4)[0]
    if 8 + 1052 * n > len(b): return False
    return all(b[8 + 1052 * i: 36 + 1052 * i] == R.CANON_HDR for i in range(n))

def rules_check(out):
    if out.startswith("err"): return None
    p = out.split()
    if len(p) != 6 or p[0] != "ok": return f"unexpected output {out!r}"
    names = ["palette index names an existing palette", "scan-line width = width rounded up to four", "per-frame layer count = number of layers",
             "header counts and totals = actual contents"]
    for v, n in zip(p[2:], names):
        if v != "1": return f"accepted input violates the rule: {n}"
    return None

def rt_check(b):
    canon = canonical_headers(b)
    def chk(out):
        if out.startswith("err"): return None
        p = out.split()
        if p[:1] != ["ok"] or len(p) not in (2, 6): return f"unexpected output {out!r}"
        if len(p) == 2: return f"accepted input: {p[1]} (the structure just read is not written / not read back)"
        if p[1] != "1": return "write -> read does not yield an equal structure"
        if p[2] != "1": return "second write differs from the first (not byte-stable)"
        if p[3] != "1": return "Write altered the in-memory object"
        if canon and p[4] != "1": return "palette headers are canonical but the written bytes differ from the input bytes"
        return None
    return chk

def mutate(b, off, width, v):
    return b[:off] + int(v).to_bytes(width, "little") + b[off + width:]

def structured(rng, thorough):
    """(art, tag) pairs covering the quantifier's classes"""
    out = []
    for npal in range(4):
        for nimg in ([0, 1, 5] if npal else [0]):
            for nanim in range(4):
                out.append((R.gen_art(rng, npal, nimg, nanim), f"valid-p{npal}"))
    # every flag combination x layer count class
    for lc in (0, 1, 2, 127):
        frames = [R.gen_frame(rng, lc, fl & 1, fl >> 1) for fl in range(4)]
        out.append((R.Art([R.gen_palette(rng)], [R.gen_image(rng, 1)], [R.Anim([rng.randrange(1 << 32) for _ in range(8)], frames, [])], rng.randrange(1 << 32)), f"flags-l{lc}"))
    for nuc in (0, 1, 3):
        out.append((R.Art([], [], [R.gen_anim(rng, 2, (0, 1, 2), nuc), R.gen_anim(rng, 1, (127,), nuc)], 0), f"uc{nuc}"))
    for _ in range(40 if thorough else 8):
        out.append((R.gen_art(rng, layer_counts=(0, 1, 2, 3, 127)), "valid-random"))
    return out

def valid_cases(a, tag, rng):
    b = R.encode(a); hx = b.hex()
    yield Case(f"prt.read {hx}", expect=f"ok {len(b)} {R.show_text(R.dump_text(a))}", tag=tag + ":read")
    yield Case(f"prt.rules {hx}", expect=f"ok {len(b)} 1 1 1 1", tag=tag + ":rules")
    yield Case(f"prt.rt {hx}", expect=f"ok 1 1 1 1 {R.show_bytes(b)}", tag=tag + ":rt")
    yield Case(f"prt.wr {hx} -", expect=f"ok 1 {R.show_bytes(b)}", tag=tag + ":write")
    junk = bytes(rng.randrange(256) for _ in range(rng.choice([1, 3, 40])))
    yield Case(f"prt.rt {(b + junk).hex()}", expect=f"ok 1 1 1 1 {R.show_bytes(b)}", tag=tag + ":trailing")
    if a.palettes:
        hs = [R.noncanonical_header(rng) if (i == 0 or rng.randrange(2)) else R.CANON_HDR for i in range(len(a.palettes))]
        nb = R.encode(a, headers=hs)
        yield Case(f"prt.read {nb.hex()}", expect=f"ok {len(nb)} {R.show_text(R.dump_text(a))}", tag=tag + ":noncanon-read")
        yield Case(f"prt.rt {nb.hex()}", expect=f"ok 1 1 1 0 {R.show_bytes(b)}", tag=tag + ":noncanon-rt")

def refusal_cases(a, tag, rng):
    """in-memory structures violating one rule each -> Write must refuse and leave the object alone"""
    b = R.encode(a); hx = b.hex(); np = len(a.palettes)
    ops = []
    for i, m in enumerate(a.images):
        ops += [f"pi:{i}:{np}", f"pi:{i}:65535", f"sl:{i}:{(m.scan + 4) & R.M32}", f"w:{i}:{(m.w + 4) & R.M32}", f"sl:{i}:{(m.scan + 1) & R.M32}"]
        if m.scan: ops.append(f"sl:{i}:{m.scan - 4}")
        if m.w % 4 != 1: ops.append(f"w:{i}:{m.w + 1}" if m.w % 4 == 0 else None)
    if a.images and any(m.pidx == np - 1 for m in a.images): ops.append("pp")
    for i, an in enumerate(a.anims):
        for j, f in enumerate(an.frames):
            ops += [f"lay:{i}:{j}:{len(f.layers) + 1}", f"cnt:{i}:{j}:{(f.count + 1) & 127}", f"cnt:{i}:{j}:{(f.count + 127) & 127}"]
            # list lengths equal to the count modulo 128 / 256 / 65536 (a narrowed comparison would accept them)
            ops += [f"lay:{i}:{j}:{len(f.layers) + 128}", f"lay:{i}:{j}:{len(f.layers) + 256}", f"lay:{i}:{j}:{len(f.layers) + 512}"]
            if f.layers: ops += [f"lay:{i}:{j}:{len(f.layers) - 1}", f"lay:{i}:{j}:0"]
    ops = [o for o in ops if o]
    rng.shuffle(ops)
    ops = ops[:12] + [o for o in ops[12:] if o.startswith("lay:") and int(o.split(":")[3]) >= 128][:2]
    for o in ops:
        yield Case(f"prt.wr {hx} {o}", expect="refused 1 -", tag=tag + ":refuse-" + o.split(":")[0])
    # consistent edits are still written (the refusal is not blanket)
    for i, an in enumerate(a.anims):
        for j, f in enumerate(an.frames):
            n = (len(f.layers) + 1) & 127
            if n:
                yield Case(f"prt.wr {hx} lay:{i}:{j}:{n},cnt:{i}:{j}:{n}", check=lambda out: None if out.startswith("ok 1 ") else f"consistent structure refused or altered: {out!r}", tag=tag + ":accept-edit")
                return

def field_cases(a, tag, rng, limit):
    fields = []
    b = R.encode(a, fields=fields)
    picks = []
    for off, w, name in fields:
        vals = {4: BOUND32, 2: BOUND16, 1: BOUND8}[w]
        cur = int.from_bytes(b[off:off + w], "little")
        vals = sorted(set(vals + [(cur + 1) & ((1 << 8 * w) - 1), (cur - 1) & ((1 << 8 * w) - 1), (cur + 4) & ((1 << 8 * w) - 1)]) - {cur})
        for v in vals: picks.append((off, w, name, v))
    if limit and len(picks) > limit:
        picks = rng.sample(picks, limit)
    for off, w, name, v in picks:
        mb = mutate(b, off, w, v)
        kind = name.split(".")[-1].rstrip("0123456789")
        yield Case(f"!prt.rules {mb.hex()}", check=rules_check, tag=f"field-{kind}:rules")
        yield Case(f"!prt.rt {mb.hex()}", check=rt_check(mb), tag=f"field-{kind}:rt")

def d23_cases():
    pal = R.gen_palette(None, 0)
    for w, scan, ok in [(0xFFFFFFFE, 0, False), (0xFFFFFFFD, 0, False), (0xFFFFFFFF, 0, False), (0xFFFFFFFC, 0xFFFFFFFC, True),
                        (0xFFFFFFF9, 0xFFFFFFFC, True), (0x80000000, 0x80000000, True), (5, 8, True), (5, 4, False), (0, 0, True), (0, 4, False)]:
        a = R.Art([pal], [R.Image(scan, 0, 1, w, 0, 0)], [], 0)
        b = R.encode(a)
        yield Case(f"!prt.rules {b.hex()}", expect=(f"ok {len(b)} 1 1 1 1" if ok else "err"), tag="scanline-boundary")
        if not ok:
            # the same structure reached in memory must be refused by the writer too
            good = R.encode(R.Art([pal], [R.Image(R.round4(5), 0, 1, 5, 0, 0)], [], 0))
            yield Case(f"prt.wr {good.hex()} w:0:{w},sl:0:{scan}", expect="refused 1 -", tag="scanline-boundary-write")

def totals_cases(rng):
    """header totals that disagree with the contents must be refused"""
    a = R.Art([], [], [R.gen_anim(rng, 2, (1, 2), 1), R.gen_anim(rng, 1, (0, 3), 0)], 5)
    nf = 3; nl = sum(len(f.layers) for x in a.anims for f in x.frames)
    for t in [(2, nf + 1, nl), (2, nf - 1, nl), (2, nf, nl + 1), (2, nf, nl - 1) if nl else None, (2, 0, 0), (2, nl, nf), (1, nf, nl), (3, nf, nl), (0, nf, nl)]:
        if not t or t == (2, nf, nl): continue
        yield Case(f"!prt.rules {R.encode(a, totals=t).hex()}", expect="err", tag="totals-mismatch")
    yield Case(f"!prt.rules {R.encode(a).hex()}", expect=f"ok {len(R.encode(a))} 1 1 1 1", tag="totals-match")

def cases(tier, rng):
    thorough = tier == "thorough"
    arts = structured(rng, thorough)
    for a, tag in arts:
        yield from valid_cases(a, tag, rng)
        yield from refusal_cases(a, tag, rng)
    yield from d23_cases()
    # a Write that fails part-way (the destination cannot take all the bytes) must not alter the object either, and the
    # next full write must still reproduce the bytes
    for a, tag in arts[:10]:
        b = R.encode(a)
        caps = sorted({0, 7, 8, 9, 20, 36, 40, 500, 1060, 1061, 1500, 2112, len(b) - 1, len(b) // 2, len(b)} | {rng.randrange(len(b) + 1) for _ in range(4)})
        for cap in caps:
            if cap < 0: continue
            exp = ("ok" if cap >= len(b) else "failed") + " 1 " + R.show_bytes(b)
            yield Case(f"prt.wrfail {b.hex()} {cap}", expect=exp, tag="write-fails-part-way")
    from .c20_prt import cancelling_cases
    yield from cancelling_cases(rng, 30 if thorough else 8)
    yield from totals_cases(rng)
    yield from table_size_cases(rng, thorough)
    # malformed: every integer field x boundary values on small files (sampled on the larger ones)
    small = [R.gen_art(rng, 1, 1, 1, layer_counts=(1, 2)), R.gen_art(rng, 0, 0, 2, layer_counts=(0, 1)), R.gen_art(rng, 2, 2, 0)]
    for i, a in enumerate(small):
        yield from field_cases(a, f"small{i}", rng, None if thorough else 150)
    for a, tag in (arts if thorough else arts[:6]):
        yield from field_cases(a, tag, rng, 60 if thorough else 10)

def table_size_cases(rng, thorough):
    """table lengths around powers of two (block / chunk sizes a reader or writer might process tables in): the image table, the
    animation table and the frame table of one animation at 2^k - 1, 2^k, 2^k + 1 entries"""
    def read_rt(a, tag):
        b = R.encode(a); hx = b.hex()
        yield Case(f"prt.read {hx}", expect=f"ok {len(b)} {R.show_text(R.dump_text(a))}", tag=tag + ":read")
        yield Case(f"prt.rt {hx}", expect=f"ok 1 1 1 1 {R.show_bytes(b)}", tag=tag + ":rt")
    ns = [255, 256, 257, 1023, 1024, 1025, 2048] + ([511, 512, 513, 3072, 4096, 4097] if thorough else [])
    for n in ns:
        yield from read_rt(R.gen_art(rng, 1, n, 1, layer_counts=(0, 1)), f"image-table-{n}")
    for n in ([255, 256, 257, 1024] + ([512, 1023, 1025, 2048] if thorough else [])):
        yield from read_rt(R.gen_art(rng, 1, 2, n, layer_counts=(0, 1)), f"animation-table-{n}")
    for n in ([255, 256, 257] + ([1024, 1025] if thorough else [])):
        a = R.gen_art(rng, 1, 2, 1, layer_counts=(0, 1))
        a.anims[0] = R.gen_anim(rng, n, (0, 1, 2))
        yield from read_rt(a, f"frame-table-{n}")

def search(drv, model, diverged, lean, rng):
    """after a broken tie: more reference-encoded files and every field x boundary value, direct oracles only"""
    cs = list(table_size_cases(rng, True))
    for _ in range(60):
        a = R.gen_art(rng, layer_counts=(0, 1, 2, 3, 127))
        cs += list(valid_cases(a, "search", rng)) + list(refusal_cases(a, "search", rng))
    for _ in range(6):
        cs += list(field_cases(R.gen_art(rng, rng.randrange(1, 3), rng.randrange(3), rng.randrange(3)), "search", rng, None))
    cs += list(d23_cases()) + list(totals_cases(rng))
    outs = run_impl(drv, [c.line for c in cs])
    for c, o in zip(cs, outs):
        if o.startswith("fault:") or o == "hang": return c, o, f"implementation outcome {o}"
        if c.expect is not None and o != c.expect: return c, o, f"direct oracle: property demands {c.expect!r}, implementation returned {o!r}"
        if c.check is not None:
            m = c.check(o)
            if m: return c, o, "direct oracle: " + m
    return None

# L2 guard-sequence fragment (extract/gen_guards.py -> lean/Op2Model/Gen/Guards.lean; notes/l2guards.md)
LEAN_MODULES = LEAN_MODULES + ["Op2Proofs.Props.C10_Gen"]
PROVED = PROVED + ("; " +
          "L2 guard fragment (Gen/Guards.lean): C10_gen_writeFrame_refuses (WriteFrame refuses iff Prt.writeFrame does: 7-bit count vs layers.size()), C10_gen_imageOk (one iteration of ValidateImageMetadata refuses iff Prt.imageOk is false: 64-bit rounding of the scan-line width, palette index)")
