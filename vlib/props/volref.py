"""Independent Python rendering of the VOL format (used to build inputs and as a direct oracle; cross-checked on every
run against the Lean `Vol.Spec.refEncode`, which is the description the theorems speak about)."""
import struct
from ..common import hexs

M32 = (1 << 32) - 1
FLAG = 1 << 31
UNCOMPRESSED, RLE, LZ, LZH = 0x100, 0x101, 0x102, 0x103

def pad4(n): return (n + 3) // 4 * 4
def sec(tag, n): return tag + struct.pack("<I", (n & 0x7FFFFFFF) | FLAG)

def fold(b):
    """tolower on unsigned bytes (the frozen spec's order; coincides with the library on bytes < 0xFF)"""
    return bytes((c + 32) if 65 <= c <= 90 else c for c in b)

def sort_key(name): return fold(name)        # bytes compare lexicographically, a proper prefix first

class Member:
    def __init__(self, name, payload, size=None, comp=UNCOMPRESSED):
        self.name = name; self.payload = payload; self.size = len(payload) if size is None else size; self.comp = comp

def encode(members, unused=0, slack=0, fields=None):
    """reference encoder.  `fields` (a list) receives (offset, width, name) of every integer field."""
    names = b"".join(m.name + b"\0" for m in members)
    actual = len(names)
    vols = pad4(4 + actual)
    voli = 14 * (len(members) + unused) + slack
    header_len = 8 + 8 + 8 + vols + 8 + pad4(voli)
    out = bytearray()
    def fld(width, name):
        if fields is not None: fields.append((len(out), width, name))
    out += b"VOL "; fld(4, "VOL.len"); out += struct.pack("<I", (header_len - 8) | FLAG)
    out += b"volh"; fld(4, "volh.len"); out += struct.pack("<I", FLAG)
    out += b"vols"; fld(4, "vols.len"); out += struct.pack("<I", vols | FLAG)
    fld(4, "vols.actual"); out += struct.pack("<I", actual)
    out += names + bytes(vols - 4 - actual)
    out += b"voli"; fld(4, "voli.len"); out += struct.pack("<I", voli | FLAG)
    off = header_len; noff = 0
    for k, m in enumerate(members):
        fld(4, f"e{k}.nameOff"); out += struct.pack("<I", noff)
        fld(4, f"e{k}.dataOff"); out += struct.pack("<I", off)
        fld(4, f"e{k}.size"); out += struct.pack("<I", m.size & M32)
        fld(2, f"e{k}.comp"); out += struct.pack("<H", m.comp)
        noff += len(m.name) + 1; off += 8 + pad4(len(m.payload))
    for k in range(unused):
        fld(4, f"u{k}.nameOff"); out += struct.pack("<IIIH", M32, 0, 0, 0)
    out += bytes(pad4(voli) - 14 * (len(members) + unused))
    assert len(out) == header_len
    for k, m in enumerate(members):
        out += b"VBLK"; fld(4, f"b{k}.len"); out += struct.pack("<I", len(m.payload) | FLAG)
        out += m.payload + bytes(pad4(len(m.payload)) - len(m.payload))
    return bytes(out)

def desc_arg(members, unused=0, slack=0):
    """protocol rendering of a description for `vol.refenc` (model side only)"""
    parts = [str(unused), str(slack)]
    for m in members: parts += [hexs(m.name), data_spec(m.payload), str(m.size), str(m.comp)]
    return " ".join(parts)

def gen_bytes(n, seed): return bytes(((i * 131 + seed * 7 + (i >> 8)) & 0xFF) for i in range(n))

class Gen(bytes):
    """bytes that remember their `gen:<len>:<seed>` spelling (keeps protocol lines short)"""
    def __new__(cls, n, seed):
        o = super().__new__(cls, gen_bytes(n, seed)); o.spec = f"gen:{n}:{seed}"; return o

def data_spec(b): return getattr(b, "spec", None) or hexs(b)

def show(b):
    if len(b) <= 48: return hexs(b)
    h = 14695981039346656037
    for x in b: h = ((h ^ x) * 1099511628211) & ((1 << 64) - 1)
    return f"#{len(b)}:{h}"

def u32(b, off): return struct.unpack_from("<I", b, off)[0] if off + 4 <= len(b) else None

def recorded_extent(b, i):
    """(start, length) of member i's stored bytes as the archive records them, or None if the records themselves are
    not inside the file.  Deliberately naive: fixed positions, no validation (it is only consulted for calls that the
    implementation answered)."""
    sl = u32(b, 20)
    if sl is None: return None
    e = 32 + (sl & 0x7FFFFFFF) + 14 * i
    off = u32(b, e + 4)
    if off is None: return None
    ln = u32(b, off + 4)
    if ln is None: return None
    return off + 8, ln & 0x7FFFFFFF

# ---------------------------------------------------------------------------------------------------------------
# the Lean reference (`Vol.Spec.refEncode`, `strictWF`) evaluated by the compiled model, outside the differential run

def lean_lines(lines):
    from .. import build
    from ..framework import run_lines
    model, err = build.build_model()
    if not model: raise RuntimeError("op2model does not build: " + str(err)[-500:])
    out, rc, serr = run_lines(model, lines)
    if len(out) != len(lines): raise RuntimeError("op2model returned %d lines for %d: %s" % (len(out), len(lines), serr[-300:]))
    return out

def check_against_lean(descs, strict):
    """descs: list of (members, unused, slack).  Encodes each with the Python encoder and with the Lean `refEncode`; the two
    must agree (and Lean's `Desc.wf`, and for `strict` also `Desc.strict` and `strictWF` of the bytes, must hold).  Returns
    the encodings.  A disagreement is a defect of the checking machinery itself, not of the library."""
    encs = [encode(ms, u, s) for ms, u, s in descs]
    outs = lean_lines(["vol.refenc " + desc_arg(ms, u, s) for ms, u, s in descs])
    for (ms, u, s), e, o in zip(descs, encs, outs):
        want = f"{show(e)} wf=1 strict={1 if strict else 0} swf={1 if strict else 0}"
        if strict:
            if o != want: raise RuntimeError(f"Python and Lean reference encoders disagree: {o!r} vs {want!r} on {desc_arg(ms, u, s)[:200]}")
        else:
            if not o.startswith(f"{show(e)} wf=1 "): raise RuntimeError(f"Python and Lean reference encoders disagree: {o!r} vs {want!r} on {desc_arg(ms, u, s)[:200]}")
    return encs

# ---------------------------------------------------------------------------------------------------------------
# pack cases (C01, C02): expected output of `vol.pack` computed from the inputs alone

class PackCase:
    def __init__(self, out, files, pre="-", tag=""):
        """files: list of (path bytes, content bytes) in the order handed to CreateArchive"""
        self.out = out; self.files = files; self.pre = pre; self.tag = tag
    def line(self):
        parts = ["!vol.pack", hexs(self.out), self.pre]
        for p, c in self.files: parts += [hexs(p), data_spec(c)]
        return " ".join(parts)
    def members(self):
        ms = [Member(p.rsplit(b"/", 1)[-1], c) for p, c in self.files]
        return sorted(ms, key=lambda m: sort_key(m.name))
    def expected(self, archive):
        ms = self.members()
        r = [f"ok {show(archive)} pre=same n={len(ms)}"]
        for i, m in enumerate(ms):
            s = show(m.payload)
            r.append(f"{hexs(m.name)}:{len(m.payload)}:{UNCOMPRESSED}:{s}:{s}:{s}:{s}:{i}:{i}:1")
        return " ".join(r)

def bsearch_ci(names, x):
    """`_stricmp`-style binary search (unsigned tolower, proper prefix first) — what a consumer of the format does"""
    lo, hi = 0, len(names); kx = fold(x)
    while lo < hi:
        mid = (lo + hi) // 2; km = fold(names[mid])
        if kx < km: hi = mid
        elif km < kx: lo = mid + 1
        else: return mid
    return None

def pack_check(pc, archive):
    """direct oracle for a successful pack: exact expected line, and every listed name found by binary search"""
    exp = pc.expected(archive)
    def chk(out):
        if out != exp:
            return f"property demands {exp[:300]!r}, implementation returned {out[:300]!r}"
        names = [m.name for m in pc.members()]
        for i, n in enumerate(names):
            for q in (n, n.swapcase()):
                if bsearch_ci(names, q) != i: return f"binary search for {q!r} over the listing {names!r} does not find member {i}"
        return None
    return chk
