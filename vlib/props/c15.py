"""C15 — the adaptive Huffman tree stays a valid code equal to the reference on every history."""
import re
from ..framework import Case, run_impl_par

LEAN_MODULES = ["Op2Proofs.Props.C15", "Op2Proofs.Props.C15_Gen"]
RULE = ("ALL update sequences up to a depth (T=2: 11, T=3: 7, T=4: 6, T=5: 5, T=6: 5; thorough: 12/8/7/6/6 and T=7,8) from the "
        "initial tree and from random prefixes, a digest of the tree after EVERY update inside one case (encoded bit string of "
        "every symbol + preorder shape through root/child/isLeaf/data); random, skewed, single-symbol, round-robin and sawtooth "
        "histories on T in {2,3,5,13,100,314} through and past the capacity limit (65535 - T accepted updates); out-of-range "
        "symbols and node indices after random prefixes. Direct oracles inside the C++ driver, independent of the model: "
        "decode(encode c) = c for every symbol after every update, the walk visits exactly 2T-1 nodes and T leaves, shape equals "
        "a harness-side LZHUF reference; refusal index and 'tree unchanged by a refused call'. distinct = distinct protocol lines")
PROVED = ("invariant WF (structure: links/parents mutually inverse, children below parent, each symbol on one leaf; counts "
          "positive, sorted, inner = sum of children) holds for init T (all T >= 2) and is preserved by every accepted update, "
          "hence for every history; root count = T + updates, so exactly 65535 - T updates are accepted and no 16-bit counter "
          "wraps; refusal of out-of-range symbols / full counter / out-of-range nodes returns the old tree; WF => full binary "
          "prefix code: encoder bits drive the decoder walk to the symbol's leaf, every node reachable from the root; the "
          "LZHUF-style reference update equals the modelled update on every well-formed tree (so shapes agree on every history); "
          "C15_Gen (bodies regenerated from the clang AST on every run, Gen/Bits.lean): VerifyNodeIndexInBounds / VerifyNodeDataInBounds, "
          "GetChildNode, IsLeaf, GetNodeData, GetRootNodeIndex and the constructor's arithmetic (node count 2T-1, root 2T-2, tables of "
          "2T-1, 2T-1, 3T-1 entries) equal TA.child / isLeaf / nodeData / n / root / Sized for trees that fit 16 bits; vacuous on fallback")
PARTIAL = ("the model keeps counts in N and indices unbounded; the bridge to unsigned short is the theorem that no count exceeds "
           "65535 within capacity and all indices are < 3T-1 <= 941; the executable driver freezes the function-level tables "
           "into arrays between updates (checked against the unfrozen run by huff.snapcheck cases)")
TRUSTED = ["std::vector<unsigned short> element semantics; the harness-side C++ LZHUF reference (cross-checked against the Lean "
           "reference by the correspondence run)"]
ASSUMPTIONS = ["tree sizes 2 <= T <= 314 are what the property quantifies over (the format uses 314)"]

CAP = 65535

def parse(out):
    m = re.match(r"(ok|refused@(\d+) unchanged=([01])) (\d+) digests=(\d+) decode-mismatch=(\d+) ref-diff=(\d+) bad-shape=(\d+)$", out)
    if not m: return None
    return {"refused": None if m.group(1) == "ok" else int(m.group(2)), "unchanged": m.group(3), "digests": int(m.group(5)),
            "mismatch": int(m.group(6)), "refdiff": int(m.group(7)), "badshape": int(m.group(8))}

def tree_check(expect_refused=None, min_digests=1):
    """direct oracle on the implementation's own output"""
    def chk(out):
        d = parse(out)
        if d is None: return f"unexpected output {out!r}"
        if d["mismatch"]: return f"{d['mismatch']} symbols whose encoded bit string does not lead the decoder's walk to their leaf"
        if d["badshape"]: return f"{d['badshape']} trees are not full binary trees over exactly the symbol set (walk does not visit 2T-1 nodes / T leaves)"
        if d["refdiff"]: return f"{d['refdiff']} trees whose shape differs from the reference sibling-property update"
        if expect_refused is None:
            if d["refused"] is not None: return f"update {d['refused']} was refused although it is within capacity and in range"
        else:
            if d["refused"] is None: return f"update {expect_refused} must be refused (capacity / out-of-range symbol) but every update was accepted"
            if d["refused"] != expect_refused: return f"refusal at update {d['refused']}, the property demands it at update {expect_refused}"
            if d["unchanged"] != "1": return "the refused update changed the tree"
        if d["digests"] < min_digests: return f"only {d['digests']} digests"
        return None
    return chk

def bad_check(must_refuse):
    def chk(out):
        m = re.match(r"(ok\S*|err) unchanged=([01]) decode-mismatch=(\d+) ref-diff=(\d+)$", out)
        if not m: return f"unexpected output {out!r}"
        if int(m.group(3)): return "decode(encode c) != c afterwards"
        if int(m.group(4)): return "shape differs from the reference afterwards"
        if must_refuse:
            if m.group(1) != "err": return f"out-of-range argument was accepted ({m.group(1)})"
            if m.group(2) != "1": return "the refused call changed the tree"
        elif m.group(1) == "err": return "in-range argument was refused"
        return None
    return chk

def hist_case(T, codes, tag):
    bad = next((i for i, c in enumerate(codes) if c >= T), None)
    exp = bad
    if exp is None and len(codes) > CAP - T: exp = CAP - T
    return Case(f"!huff.hist {T} {','.join(map(str, codes)) if codes else '-'}", check=tree_check(exp, 1), tag=tag)

def gen_case(T, kind, length, seed, every, tag):
    exp = CAP - T if length > CAP - T else None
    return Case(f"!huff.gen {T} {kind} {length} {seed} {every}", check=tree_check(exp, 2), tag=tag)

def cases(tier, rng):
    thorough = tier == "thorough"
    depth = {2: 12, 3: 8, 4: 7, 5: 6, 6: 6, 7: 5, 8: 5} if thorough else {2: 11, 3: 7, 4: 6, 5: 5, 6: 5}
    for T, d in depth.items():
        yield Case(f"!huff.enum {T} {d}", check=tree_check(None, 2), tag=f"enum-T{T}")
        for _ in range(8 if thorough else 3):
            pre = [rng.randrange(T) for _ in range(rng.randrange(1, 60))]
            yield Case(f"!huff.enum {T} {max(2, d - 2)} {','.join(map(str, pre))}", check=tree_check(None, 2), tag=f"enum-after-prefix-T{T}")
    # random histories with a digest after every update
    for _ in range(400 if thorough else 120):
        T = rng.choice([2, 3, 4, 5, 6, 7, 13, 31, 100, 314])
        n = rng.randrange(0, 200)
        hot = [rng.randrange(T) for _ in range(3)]
        codes = [rng.choice(hot) if rng.random() < 0.6 else rng.randrange(T) for _ in range(n)]
        yield hist_case(T, codes, "random-history")
    # an out-of-range symbol in the middle of a history ends it, tree unchanged
    for _ in range(40 if thorough else 12):
        T = rng.choice([2, 3, 5, 13, 314])
        codes = [rng.randrange(T) for _ in range(rng.randrange(0, 30))]
        codes.insert(rng.randrange(len(codes) + 1), rng.choice([T, T + 1, 2 * T - 1, 2 * T, 3 * T, 65535]))
        yield hist_case(T, codes, "out-of-range-symbol")
    # long generated histories, through and past capacity
    for T in (314, 2, 3, 5, 13, 100):
        for kind in ("rand", "skew", "single", "roundrobin", "sawtooth", "fib", "dom"):
            seeds = [rng.randrange(1 << 30) for _ in range(2 if thorough or T == 314 else 1)]
            if kind == "fib": seeds = [0, rng.randrange(1, 300)]
            if kind == "dom": seeds = [rng.randrange(1 << 20), rng.randrange(1 << 20)]
            for seed in seeds:
                yield gen_case(T, kind, 66000, seed, 997 if thorough else 4999, f"long-{kind}-T{T}-past-capacity")
        yield gen_case(T, "rand", CAP - T, rng.randrange(1 << 30), 4999, f"exactly-capacity-T{T}")
        yield gen_case(T, "skew", CAP - T + 1, rng.randrange(1 << 30), 4999, f"capacity-plus-one-T{T}")
    # refused updates (out-of-range symbols) cost nothing: after k of them the tree still accepts exactly 65535 - T updates
    for T, k in ((314, 9), (2, 1), (5, 40), (100, 3)):
        exp = CAP - T
        yield Case(f"!huff.gen {T} rand {CAP - T + 3} {rng.randrange(1 << 30)} 4999 {k}", check=tree_check(exp, 2), tag=f"refusals-then-capacity-T{T}")
    for _ in range(60 if thorough else 16):
        T = rng.choice([2, 3, 4, 7, 13, 50, 314])
        yield gen_case(T, rng.choice(["rand", "skew", "roundrobin", "sawtooth", "single"]), rng.randrange(1, 9000), rng.randrange(1 << 30),
                       rng.choice([1, 7, 100]), "medium-history")
    # out-of-range node indices / symbols on the query interface
    for _ in range(30 if thorough else 10):
        T = rng.choice([2, 3, 5, 13, 314])
        n = 2 * T - 1
        pre = ",".join(str(rng.randrange(T)) for _ in range(rng.randrange(1, 40)))
        for op in ("child0", "child1", "isleaf", "data"):
            for arg in (n, n + 1, n + T - 1, n + T, 65535):
                yield Case(f"!huff.bad {T} {pre} {op} {arg}", check=bad_check(True), tag="out-of-range-node")
            for arg in (0, T - 1, T, n - 1):
                # in-range node queries are compared with the model only (child of a leaf / data of an inner node are not specified)
                yield Case(f"!huff.bad {T} {pre} {op} {arg}", tag="in-range-node")
        for op in ("update", "encode"):
            for arg in (T, T + 1, n, 65535):
                yield Case(f"!huff.bad {T} {pre} {op} {arg}", check=bad_check(True), tag="out-of-range-symbol")
            for arg in (0, T - 1):
                yield Case(f"!huff.bad {T} {pre} {op} {arg}", check=bad_check(False), tag="in-range-symbol")
    # the array freezing used by the model driver equals the unfrozen function-level run
    for _ in range(20):
        T = rng.choice([2, 3, 5, 13, 314])
        codes = ",".join(str(rng.randrange(T)) for _ in range(rng.randrange(1, 60)))
        yield Case(f"huff.snapcheck {T} {codes}", expect="1", tag="model-selfcheck")

def relational_oracles(cases_, impl):
    return []

def search(drv, model, diverged, lean, rng):
    """a broken tie: look for a history on which the *property* (prefix code / reference shape / refusal) fails"""
    extra = []
    for T in range(2, 10):
        extra.append(Case(f"!huff.enum {T} {max(4, 13 - T)}", check=tree_check(None, 2), tag="search-enum"))
    for T in (2, 3, 4, 5, 6, 7, 9, 13, 21, 50, 100, 200, 314):
        for kind in ("rand", "skew", "single", "roundrobin", "sawtooth"):
            for _ in range(3):
                extra.append(gen_case(T, kind, 66000, rng.randrange(1 << 30), 503, "search-long"))
    for _ in range(300):
        T = rng.choice([2, 3, 4, 5, 6, 7, 13, 314])
        extra.append(hist_case(T, [rng.randrange(T) for _ in range(rng.randrange(1, 120))], "search-history"))
    outs = run_impl_par(drv, [c.line for c in extra])
    for c, a in zip(extra, outs):
        msg = c.check(a) if not a.startswith("fault") else f"implementation outcome {a}"
        if msg: return c, a, "direct oracle: " + msg
    return None
