"""Builds a property module out of family parts (vlib/props/cNN_<family>.py).

A property whose anchors span several families (C05: VOL + CLM, C11: BMP + tileset + PRT, C20, C18) is decided by
the union of the parts: all their theorem modules, all their cases, every part's relational oracles and search."""
import importlib

def combine(namespace, part_names):
    parts = [importlib.import_module(f"vlib.props.{n}") for n in part_names]
    namespace["PARTS"] = parts
    mods = []
    for p in parts:
        for m in p.LEAN_MODULES:
            if m not in mods: mods.append(m)
    namespace["LEAN_MODULES"] = mods
    for key in ("RULE", "PROVED", "PARTIAL"):
        namespace[key] = " || ".join(f"[{n}] " + getattr(p, key, "") for n, p in zip(part_names, parts) if getattr(p, key, ""))
    for key in ("TRUSTED", "ASSUMPTIONS"):
        out = []
        for p in parts:
            for x in getattr(p, key, []):
                if x not in out: out.append(x)
        namespace[key] = out
    env = {}
    for p in parts: env.update(getattr(p, "ENV", None) or {})
    if env: namespace["ENV"] = env

    def cases(tier, rng):
        for p in parts:
            yield from p.cases(tier, rng)
    namespace["cases"] = cases

    if any(hasattr(p, "relational_oracles") for p in parts):
        def relational_oracles(cases_, impl):
            for p in parts:
                if hasattr(p, "relational_oracles"):
                    yield from p.relational_oracles(cases_, impl)
        namespace["relational_oracles"] = relational_oracles
    if any(hasattr(p, "search") for p in parts):
        def search(drv, model, diverged, lean, rng):
            for p in parts:
                if hasattr(p, "search"):
                    r = p.search(drv, model, diverged, lean, rng)
                    if r: return r
            return None
        namespace["search"] = search
