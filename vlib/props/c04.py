"""C04 — LZH decompression equals the reference decoder, however it is drained."""
import re
from ..framework import Case, run_impl_par
from ..common import hexs
from .. import lzhenc

LEAN_MODULES = ["Op2Proofs.Props.C04", "Op2Proofs.Props.C04_Gen"]
RULE = ("inputs: output of an independent (Python) LZSS+adaptive-Huffman encoder over token lists that cover every match "
        "length 3..60, every distance class of the offset code and distances around the window wrap, payloads that wrap the "
        "4 KiB window several times, runs of one byte, encoder output that crosses the 65221-update capacity, random byte "
        "strings, every truncation of small streams; each input is drained under several schedules (GetData with sizes "
        "1,2,3,61,62,100,4033,4034,4095,4096,4097,10000, 2^64-1, GetInternalBuffer, mixed, pseudo-random); LZH members "
        "extracted through VolFile; BitStreamReader op sequences. Direct oracles in the C++ driver: delivered bytes equal / "
        "are a prefix of a harness-side reference decoder's output, no bytes after a short GetData, payload is a prefix with "
        "fewer than eight further codes; relational oracle: every schedule of one input delivers the same bytes. "
        "distinct = distinct protocol lines")
PROVED = ("for EVERY byte string and EVERY finite schedule of GetData(k)/GetInternalBuffer calls the concatenated deliveries equal the "
          "first so-many bytes of the reference decoder's output (no gaps, no reordering), a call fails only when the reference "
          "itself ends at the tree's capacity, GetData(k) delivers min(k, remaining), an empty GetInternalBuffer means everything was "
          "delivered (the ExtractFileLzh loop), two schedules delivering equally many bytes deliver the same bytes; the reference "
          "decoder terminates on every input (each code but the last consumes a bit); window invariant: the circular buffer holds the "
          "last 4096 bytes of the unbounded history through literals and overlapping matches; offsets are 12-bit, matches 3..60 bytes, "
          "buffer size / indices / waiting count stay < 4096, maxFill + 60 < 4096 (regenerated constant), tree stores in bounds (C15); "
          "GetOffsetModifiers translated from the clang AST equals the model's table; regenerated constants equal the model's; "
          "BitStreamReader with its one-byte shift register (the model the bits.ops correspondence runs) returns the same values and "
          "cursors as the pure bit function on every op sequence; on well-formed trees no tree query is ever refused, a code is refused "
          "iff the root counter is full (65535 = 314 + 65221 updates), and a decode that ends at capacity stopped exactly there; "
          "encoder round trip (C04_encoder_prefix): for EVERY list of well-formed tokens (literal < 256 | match 3..60 bytes from "
          "distance 1..4096) of at most 65214 tokens (tokens + 7 <= 65221, so the tree never fills), the reference decoder run on "
          "Spec.encode's bytes ends normally, its output begins with the payload, and it reads fewer than 8 codes beyond the "
          "payload's - at most one per zero padding bit of the last byte (C04_encoder_padding_codes); GetData(|payload|) on the "
          "encoded bytes returns the payload (C04_encoder_getData); lemmas: packed bits read back by bitAt with zero padding, "
          "GetNextCode along the encoder's root-to-leaf bits returns the symbol, GetRepeatOffset reads back every 12-bit offset code; "
          "C04_Gen (bodies regenerated from the clang AST on every run, Gen/Bits.lean): BitStreamReader::ReadNextBit / ReadNext8Bits "
          "(aligned, unaligned, zero past the end) equal the pure bit stream readBit / read8 on every state satisfying the register "
          "invariant and re-establish it, EndOfStream / GetBitReadPos / the constructor's size arithmetic and 2^61 guard; HuffLZ: "
          "WriteCharToBuffer (store index, (w+1) mod 4096), GetInternalBuffer (pointer offset, size, new read index), the first test of "
          "FillDecompressBuffer's loop (unread < maxFill), GetRepeatOffset's arithmetic (upper*64 + low 6 bits) equal put / getInternal / "
          "fillLoop's guard / repeatOffset; CopyAvailableData (C04_gen_copyAvailable, from the index/length lemma "
          "C04_gen_copyAvailable_extents: for every window state with w, r < 4096 and every size_t request the returned count and the new "
          "m_BuffReadIndex are those of the model's copyAvailable, each of the (at most two) memcpy that moves bytes stays inside the "
          "4096-byte buffer and writes at destination offset 0 / directly behind the first, and the bytes they read, in destination "
          "order, are exactly the bytes the model delivers); each lemma is vacuous when its function leaves the translator's fragment")
PARTIAL = ("the encoder round-trip theorem is about the Lean encoder Spec.encode (own copy of the adaptive tree, MSB-first packing); the "
           "harness's Python / C++ encoders are tied to it by the three-encoder / payload-prefix correspondence, and payloads longer "
           "than 65214 tokens (where the counters fill) are outside the theorem; the reference decoder shares the symbol decoding (tree walk along the bit stream, tree update, offset code) with the "
           "implementation model — the tree is proved equal to an independent LZHUF reference in C15; real heap layout is not modelled: 'stays within the decoder's own memory' is the theorem that every model index is "
           "< 4096 / inside the tree tables plus the ASan run; std::vector / FileWriter in VolFile::ExtractFileLzh are trusted")
TRUSTED = ["harness-side C++ reference decoder and Python encoder (each cross-checked against the Lean Spec by the correspondence run)"]
ASSUMPTIONS = ["input length < 2^61 bytes (BitStreamReader refuses larger buffers)"]

SCHEDULES = ["d1*", "d2*", "d3*", "d61*", "d62*", "d100*", "d4033*", "d4034*", "d4095*", "d4096*", "d4097*", "d10000*",
             "d18446744073709551615*", "i*"]

def dec_check(out):
    m = re.match(r"(ok|err@\d+) (\S+) calls=(\d+) late=([01]) ref=(done|capacity):([01])$", out)
    if not m: return f"unexpected output {out!r}"
    if m.group(4) != "0": return "a call delivered bytes after an earlier GetData had come back short (the stream had not ended)"
    if m.group(6) != "1": return "delivered bytes differ from the reference decoder's output (or decoding went on past the capacity error)"
    if m.group(5) == "done" and m.group(1) != "ok": return "decoding failed although the input is within capacity"
    return None

def pay_check(out):
    m = re.match(r"ok prefix=([01]) tail-bytes=(\d+) extra-codes=(\d+) ref=([01])$", out)
    if not m: return f"unexpected output {out!r}"
    if m.group(1) != "1": return "decoded output does not begin with the payload"
    if int(m.group(3)) >= 8: return f"{m.group(3)} further codes after the payload (must be fewer than eight)"
    if m.group(4) != "1": return "decoded output differs from the reference decoder's"
    return None

def vol_check(out):
    m = re.match(r"(ok \S+ ref=(done|capacity):([01])|err ref=(done|capacity))$", out)
    if not m: return f"unexpected output {out!r}"
    if out.startswith("ok"):
        if m.group(2) != "done": return "extraction succeeded although the member exceeds the decoder's capacity"
        if m.group(3) != "1": return "extracted bytes differ from the reference decoder's output"
    elif m.group(4) == "done": return "extraction failed although the member is within capacity"
    return None

def random_tokens(rng, n, lit_alpha=None, p_match=0.4):
    toks = []; produced = 0
    for _ in range(n):
        if rng.random() < p_match:
            ln = rng.choice([3, 4, 5, 17, 59, 60, rng.randrange(3, 61)])
            dist = rng.choice([1, 2, 3, 63, 64, 65, 255, 256, 257, 1023, 1024, 1025, 4095, 4096, rng.randrange(1, 4097),
                               max(1, min(4096, produced)), max(1, min(4096, produced + 1))])
            toks.append(('m', ln, dist)); produced += ln
        else:
            toks.append(('l', rng.choice(lit_alpha) if lit_alpha else rng.randrange(256))); produced += 1
    return toks

def data_cases(name, data, rng, nsched, tag):
    h = hexs(data)
    scheds = rng.sample(SCHEDULES, min(nsched, len(SCHEDULES))) + [f"r{rng.randrange(1 << 30)}*"]
    k = rng.choice([1, 5, 100, 4034, 5000])
    scheds.append(f"d{k},i,d{rng.choice([0, 1, 61, 4096])},i,d1,i*")
    for s in scheds:
        yield Case(f"!lzh.dec {h} {s}", check=dec_check, tag=tag)

def encoded_cases(toks, rng, nsched, tag):
    enc, n = lzhenc.encode(toks)
    toks = toks[:n]
    yield from data_cases(tag, enc, rng, nsched, tag)
    if n == len(toks) or True:
        pay = lzhenc.expand(toks)
        if len(pay) <= 6000:
            yield Case(f"!lzh.pay {hexs(enc)} {hexs(pay)} {len(toks)}", check=pay_check, tag=tag + "-payload")
    yield Case(f"!lzh.vol {hexs(enc)}", check=vol_check, tag=tag + "-vol-extract")

def cases(tier, rng):
    thorough = tier == "thorough"
    ns = 6 if thorough else 3
    # the encoder itself: three implementations (Python, Lean Spec, C++ harness over the real tree's GetEncodedBitString)
    for _ in range(30 if thorough else 10):
        toks = random_tokens(rng, rng.randrange(0, 40))
        enc, n = lzhenc.encode(toks)
        yield Case(f"lzh.enc {lzhenc.tokens_str(toks)}", expect=f"{_show(enc)} {hexs(enc[:16])}", tag="encoder-3way")
    # every match length x distance classes
    for ln in range(3, 61):
        ds = [1, 64, 65, 257, 769, 1537, 3073, 4096] if thorough else [rng.choice([1, 2, 64, 65, 256, 257]), rng.choice([768, 769, 1537, 3073, 4095, 4096])]
        toks = [('l', 65 + (i % 26)) for i in range(rng.randrange(0, 9))]
        for d in ds: toks += [('m', ln, d), ('l', rng.randrange(256))]
        yield from encoded_cases(toks, rng, 1 if not thorough else 2, "all-lengths")
    # every upper-six-bit value of the offset code (64 position codes) x low bits
    for up in range(64):
        toks = [('l', i % 256) for i in range(40)]
        for lo in ([0, 63] if not thorough else [0, 1, 31, 32, 62, 63]): toks.append(('m', 3 + (up % 58), up * 64 + lo + 1))
        yield from encoded_cases(toks, rng, 1, "all-position-codes")
    # payloads that wrap the window several times
    for _ in range(10 if thorough else 3):
        toks = random_tokens(rng, rng.randrange(800, 2500), p_match=0.5)
        yield from encoded_cases(toks, rng, ns, "window-wrap")
    # text-like payload through a real tokeniser
    for _ in range(6 if thorough else 2):
        words = [bytes(rng.choice(b"abcdefgh ") for _ in range(rng.randrange(1, 8))) for _ in range(30)]
        payload = b" ".join(rng.choice(words) for _ in range(rng.randrange(200, 1500)))
        yield from encoded_cases(lzhenc.greedy_tokens(payload), rng, ns, "tokenised-text")
    # runs of one byte
    for b in (0x00, 0xFF, 0x20):
        toks = [('l', b)] + [('m', 60, 1)] * rng.randrange(10, 200)
        yield from encoded_cases(toks, rng, ns, "run-of-one-byte")
    # capacity: an encoder-produced run of literals crosses 65221 updates (the Python encoder stops at capacity; then more codes follow as garbage)
    for kind in (["lit", "lit2", "match"] if thorough else ["lit"]):
        if kind == "lit": toks = [('l', 0x41)] * 65300
        elif kind == "lit2": toks = [('l', 0x41 + (i % 3)) for i in range(65300)]
        else: toks = [('l', 0x41)] + [('m', 3, 1)] * 65300
        enc, n = lzhenc.encode(toks)
        exact = enc
        over = enc + bytes([0x55] * 16)        # sixteen more bytes of codes after the tree is full
        for data, t in ((over, "past-capacity"), (exact, "exactly-capacity")):
            for s in (["d4096*", "i*", f"r{rng.randrange(1 << 30)}*", "d1000000*"] if kind == "lit" else ["d4096*", "i*"]):
                yield Case(f"!lzh.dec {hexs(data)} {s}", check=dec_check, tag=t)
        yield Case(f"!lzh.vol {hexs(over)}", check=vol_check, tag="past-capacity-vol-extract")
    # arbitrary byte strings
    for _ in range(200 if thorough else 60):
        n = rng.choice([0, 1, 2, 3, 5, 17, 64, 300, 1500])
        data = bytes(rng.randrange(256) for _ in range(n))
        yield from data_cases("random", data, rng, 2, "random-bytes")
    for b in (0x00, 0xFF, 0xAA):
        for n in (1, 100, 3000):
            yield from data_cases("const", bytes([b]) * n, rng, 2, "constant-bytes")
    # every truncation of a small valid stream
    toks = random_tokens(rng, 60)
    enc, _ = lzhenc.encode(toks)
    for k in range(len(enc) + 1):
        yield Case(f"!lzh.dec {hexs(enc[:k])} {rng.choice(SCHEDULES)}", check=dec_check, tag="truncation")
    # the bit reader
    for _ in range(300 if thorough else 80):
        n = rng.choice([0, 1, 2, 3, 9])
        data = bytes(rng.randrange(256) for _ in range(n))
        ops = "".join(rng.choice("bbb88ep") for _ in range(rng.randrange(1, 60)))
        yield Case(f"bits.ops {hexs(data)} {ops}", expect=_bits_oracle(data, ops), tag="bit-reader")

def _show(b):
    if len(b) <= 48: return hexs(b)
    h = 14695981039346656037
    for x in b: h = ((h ^ x) * 1099511628211) % (1 << 64)
    return f"#{len(b)}:{h}"

def _bits_oracle(data, ops):
    """the bit stream as the property describes it: MSB first, zero past the end"""
    size = 8 * len(data); p = 0; out = []
    def at(q): return (data[q >> 3] >> (7 - (q & 7))) & 1 if q < size else 0
    for c in ops:
        if c == 'b':
            if p >= size: out.append("0")
            else: out.append(str(at(p))); p += 1
        elif c == '8':
            if p >= size: out.append("0")
            else:
                v = 0
                for k in range(8): v = (v << 1) | at(p + k)
                out.append(str(v)); p += 8
        elif c == 'e': out.append("E" if p >= size else "n")
        else: out.append(f"@{p}")
    return ",".join(out) if out else "-"

def relational_oracles(cases_, impl):
    """every drain schedule of one input must deliver the same bytes (when it drained to the end without error)"""
    first = {}
    for c, a in zip(cases_, impl):
        p = c.line.split()
        if p[0].lstrip("!") != "lzh.dec" or not p[2].endswith("*"): continue
        m = re.match(r"ok (\S+) ", a)
        if not m: continue
        key = p[1]
        if key in first:
            if first[key][0] != m.group(1):
                yield c, a, f"schedule {p[2]} delivered {m.group(1)} but schedule {first[key][1]} delivered {first[key][0]} from the same input"
        else: first[key] = (m.group(1), p[2])

def search(drv, model, diverged, lean, rng):
    extra = []
    for _ in range(400):
        toks = random_tokens(rng, rng.randrange(1, 600), p_match=rng.choice([0.1, 0.5, 0.9]))
        extra += list(encoded_cases(toks, rng, 4, "search"))
    for _ in range(400):
        data = bytes(rng.randrange(256) for _ in range(rng.randrange(0, 400)))
        extra += list(data_cases("random", data, rng, 3, "search-random"))
    outs = run_impl_par(drv, [c.line for c in extra])
    for c, a in zip(extra, outs):
        msg = (c.check(a) if c.check else None) if not (a.startswith("fault") or a == "hang") else f"implementation outcome {a}"
        if msg: return c, a, "direct oracle: " + msg
    for c, a, msg in relational_oracles(extra, outs):
        return c, a, "direct oracle: " + msg
    return None
