"""C13 — slices are confined, independent, and equivalent across stream backends."""
import itertools
from ..framework import Case
from ..common import hexs
from .streamref import *

LEAN_MODULES = ["Op2Proofs.Props.C13", "Op2Proofs.Props.C13_Gen", "Op2Proofs.Props.C12_Gen"]
RULE = ("slice parameter pairs (start,len) over {0,1,len-1,len,len+1,2^32,2^63,2^64-1,2^64-len,...}^2 on memory readers, "
        "file readers, slices of each and slices of slices: creation must succeed iff start+len <= parent length (in N) and then "
        "expose exactly that window (checked by reading it all and by boundary ops); interleaved histories over a parent and up "
        "to 5 slices / copies derived from it (all 2-step interleavings of op pairs, then random ones): an operation may change "
        "only the stream it is applied to (and the parent, by exactly n, for the slice-here form — also taken from interior slices with lengths beyond the slice but inside the file); seek / skip targets that wrap 2^64 when the slice's start offset is added; the same history on every "
        "backend must give identical observations")
PROVED = ("creation guard exact in N (incl. wrap-around) and the created slice = abstract reader over exactly the requested window, "
          "for any in-bounds-correct wrapped stream, to any nesting depth; sub-slicing; slice-here advances the parent iff it "
          "succeeds (memory); every history observes the same on a memory reader and on any slice with the same window; independence over the system of live objects Sys (Op2Model/StreamSys.lean, the system the `multi` commands execute): frame (a request to one object leaves every other object as it was), a refused creation — and any refused request, from any state — changes nothing in the whole system (C13_refused_request_changes_nothing), and projection — under every interleaved history an object answers and ends exactly as under its own requests alone, also from the point of its creation (C13_interleaving_*); no request changes the bytes an object exposes, so under every interleaved history every object still exposes exactly the window it was created over (C13_request_keeps_window, C13_confined_under_every_history; Op2Proofs/SysContent.lean, for all four backends incl. a slice of a file slice); every object of every system reachable from one memory or file reader by ANY interleaved history with 64-bit arguments satisfies its class invariant and exposes a contiguous window of the root's bytes (C13_every_reachable_object_is_a_window; hence Position() <= Length() <= |root| for every reachable object: C13_reachable_positions_in_range; one derivation: C13_derived_object_is_a_window_of_its_parent; Op2Proofs/SysGood.lean); refinement of whole systems: on every backend every request except copy construction answers and moves as the N-specification specOStep says of the exposed bytes and relative cursor, a system of any mix of backends answers every interleaved history as the list of abstract readers does, and the same history on a memory reader and on a file reader over the same bytes — with all slices it creates — gives the same answers and corresponding objects (C13_request_refines_spec, C13_system_refines_spec, C13_system_backend_equivalence; Op2Proofs/SysEquiv.lean; copy construction excluded: the backends differ there by design, which the model states and the multi runs compare); the construction of a VOL / CLM member stream as the archive models describe it (Vol.View.slice, Clm.extent) is the stream model's Slice.create over the archive file with exactly the member's window (C13_member_stream_is_slice, C13_clm_member_stream_is_slice), so member streams are objects of Sys and keep exposing exactly the member's recorded extent under every history (C13_member_stream_confined); L2: the SliceReader constructor + Initialize, Slice(start,len) and Slice(len) are re-translated from the C++ on every run (Gen/Streams.lean) and proved equal to Slice.create / slice2 / slice1 on all 64-bit values (C13_gen_*, with the read/seek guards of C12_gen_slice_*)")
PARTIAL = ("the model holds distinct objects as values of one list (Sys); that the C++ objects share no hidden cursor or buffer is "
           "what the interleaving runs compare against Sys.step — the theorems then extend it to every history. VolFile/ClmFile member streams are covered under C05/C01.")
TRUSTED = ["in-bounds behaviour of std::ifstream as modelled by Stream.FileR; a copied FileReader reopens the file at position 0"]
ASSUMPTIONS = []

def member_stream_cases(tier, rng):
    """member streams of one long-lived archive object: each exposes exactly its stored block (the VBLK length, which for an
    LZH member differs from the size in the index) however stream and extraction calls on the same and on other members
    are interleaved"""
    from . import volref as V
    from ..common import hexs
    for _ in range(24 if tier == "thorough" else 8):
        k = rng.randrange(2, 5); ms = []
        for i in range(k):
            payload = bytes(rng.randrange(256) for _ in range(rng.choice([0, 1, 3, 4, 5, 13, 40])))
            lzh = rng.random() < 0.4
            ms.append(V.Member(bytes([97 + i]) + b".bin", payload, size=(len(payload) + rng.choice([1, 7, 27, 1000])) if lzh else None,
                               comp=V.LZH if lzh else V.UNCOMPRESSED))
        arc = V.encode(ms, unused=rng.choice([0, 2]), slack=rng.choice([0, 5]))
        ops = []; exp = ["open:ok"]
        seq = [rng.choice("re") + str(rng.randrange(k)) for _ in range(14)]
        # make sure "extract i, then stream / extract i again" occurs
        j = rng.randrange(k); seq += [f"e{j}", f"r{j}", f"e{j}", f"r{(j + 1) % k}", f"r{j}"]
        for o in seq:
            m = ms[int(o[1:])]
            ops.append(o)
            if o[0] == "r": exp.append(V.show(m.payload))
            else: exp.append(V.show(m.payload) if m.comp == V.UNCOMPRESSED else "lzh")
        yield Case(f"!vol.open {hexs(arc)} L {','.join(ops)}", expect=",".join(exp), tag="archive-member-streams")

def cases(tier, rng):
    yield from member_stream_cases(tier, rng)
    thorough = tier == "thorough"
    data = bytes(range(10, 18))          # 8 bytes
    n = len(data)
    vals = sorted({0, 1, 2, n - 1, n, n + 1, 1 << 32, 1 << 63, M64, M64 - 1, (1 << 64) - n, (1 << 64) - 1 - n, (1 << 63) + 1})
    # creation: exact guard + exact window, on every backend
    for s in vals:
        for l in vals:
            for kind in ("mslice2", "fslice"):
                be = f"{kind}:{s}:{l}"
                w = window(data, be)
                ops = ["p64", "B", f"s{len(w)}", "r1"] if w is not None and len(w) <= 40 else []
                exp = spec_hist(w, ops) if w is not None else "create-err"
                yield Case(f"rd.hist {be} {hexs(data)} {','.join(ops) if ops else '-'}", expect=exp, tag=f"{kind}-create")
    inner = sorted({0, 1, 2, 3, 4, 5, 1 << 63, M64, (1 << 64) - 2})
    for (s1, l1) in [(0, 8), (2, 4), (8, 0), (1, 7)]:
        for s2 in inner:
            for l2 in inner:
                for kind in ("mss", "fss", "fwrap"):
                    be = f"{kind}:{s1}:{l1}:{s2}:{l2}"
                    w = window(data, be)
                    ops = ["p64", "B", f"s{len(w)}", "r1", "E", "b1"] if w is not None else []
                    exp = spec_hist(w, ops) if w is not None else "create-err"
                    yield Case(f"rd.hist {be} {hexs(data)} {','.join(ops) if ops else '-'}", expect=exp, tag=f"{kind}-create")
    # slice-here: parent advances by n iff success; parent untouched on failure
    for kind in ("mem", "file"):
        for p in (0, 3, 8):
            for l in vals:
                ok = p + l <= n
                steps = f"0.s{p},0.H{l}"
                exp_parent = p + l if ok else p
                def chk(out, ok=ok, exp_parent=exp_parent, p=p, l=l):
                    last = out.split(",")[-1].split(":")
                    if (last[0] == "new") != ok: return f"slice-here of length {l} at {p}: expected {'success' if ok else 'refusal'}, got {last[0]}"
                    if last[1] != f"{exp_parent}/8": return f"parent at {last[1]} after slice-here (expected position {exp_parent})"
                    if ok and last[2] != f"0/{l}": return f"new slice reports {last[2]}, expected 0/{l}"
                    return None
                yield Case(f"multi {kind} {hexs(data)} {steps}", check=chk, tag=f"{kind}-slice-here")
    # slice-here on a slice that does NOT end where its parent ends: the new slice must be contained in THIS slice (not merely in
    # the file / buffer underneath), and this slice advances by n exactly when it succeeds
    for kind in ("mem", "file"):
        for (s0, l0) in ((2, 4), (0, 5), (1, 6)):
            for p in (0, 1, l0):
                for l in sorted({0, 1, l0 - p, l0 - p + 1, l0 - p + 2, n - s0 - p, n - s0 - p + 1, 1 << 63, M64, (1 << 64) - p, (1 << 64) - s0 - p}):
                    if l < 0 or l > M64: continue
                    ok = p + l <= l0
                    steps = f"0.S{s0}:{l0},1.s{p},1.H{l}"
                    def chk2(out, ok=ok, p=p, l=l, l0=l0):
                        last = out.split(",")[-1].split(":")
                        if (last[0] == "new") != ok: return f"slice-here of length {l} at {p} on a slice of length {l0}: expected {'success' if ok else 'refusal'}, got {last[0]}"
                        if last[2] != f"{p + l if ok else p}/{l0}": return f"the slice it was taken from is at {last[2]} afterwards (expected position {p + l if ok else p}, length {l0})"
                        if ok and last[3] != f"0/{l}": return f"new slice reports {last[3]}, expected 0/{l}"
                        return None
                    yield Case(f"multi {kind} {hexs(data)} {steps}", check=chk2, tag=f"{kind}-slice-here-on-interior-slice")
    # seeks whose target, added to the slice's start offset, wraps around 2^64: refused, position unchanged, on every backend
    for (s0, l0) in ((2, 4), (1, 7), (3, 0), (5, 3)):
        tgts = sorted({(1 << 64) - s0 + j for j in (-2, -1, 0, 1) if (1 << 64) - s0 + j < (1 << 64)} | {M64, M64 - 1, (1 << 63) - s0, 1 << 63})
        ops = ["r1"] + [f"s{t}" for t in tgts] + ["p9", "B"] + [f"f{t}" for t in tgts[:3]] + [f"b{t}" for t in tgts[:3]] + ["r1", "E"]
        for be in (f"mslice2:{s0}:{l0}", f"fslice:{s0}:{l0}", f"fss:1:7:{s0 - 1}:{min(l0, 7 - (s0 - 1))}", f"fwrap:1:7:{s0 - 1}:{min(l0, 7 - (s0 - 1))}"):
            w = window(data, be)
            if w is None: continue
            yield Case(f"rd.hist {be} {hexs(data)} {','.join(ops)}", expect=spec_hist(w, ops), tag="seek-target-wraps-with-start-offset")
    # interleavings: independence
    def indep_check(steps):
        def chk(out):
            parts = out.split(",")
            prev = []
            for st, o in zip(steps, parts):
                f = o.split(":"); res, states = f[0], f[1:]
                obj = int(st.split(".")[0]); tok = st.split(".")[1]
                for i, (a, b) in enumerate(zip(prev, states)):
                    if a != b and i != obj:
                        return f"step {st}: stream {i} changed from {a} to {b} although the operation was applied to stream {obj}"
                if res == "err" and prev and states[:len(prev)] != prev:
                    return f"step {st} failed but changed a stream: {prev} -> {states}"
                prev = states
            return None
        return chk
    small_ops = ["r1", "r3", "p9", "k2", "s0", "s5", "f2", "b1", "B", "E", f"r{M64}", f"f{M64}", f"s{1 << 63}"]
    for kind in ("mem", "file"):
        setup = ["0.r1", "0.S2:5", "0.H2", "1.S1:3", "0.C", "1.C"]      # objects 0..5
        nobj = 6
        # plain FileReader objects (0 and 4 in the file layout) are not bounds-checked by the library and are outside
        # C12/C13's out-of-bounds clauses: they only get operations that stay inside the file
        file_safe = ["r1", "r3", "p9", "k2", "s0", "s5", "b1", "B", "E"]
        def ops_for(o): return file_safe if (kind == "file" and o in (0, 4)) else small_ops
        pairs = [(o, t) for o in range(nobj) for t in ops_for(o)]
        sample = pairs if thorough else rng.sample(pairs, 40)
        for (o1, t1) in sample:
            for (o2, t2) in (pairs if thorough else rng.sample(pairs, 12)):
                steps = setup + [f"{o1}.{t1}", f"{o2}.{t2}", f"{o1}.p2", f"{o2}.p2"]
                yield Case(f"multi {kind} {hexs(data)} {','.join(steps)}", check=indep_check(steps), tag=f"{kind}-interleave")
        for _ in range(600 if thorough else 150):
            steps = list(setup)
            for _ in range(rng.randrange(3, 25)):
                o = rng.randrange(nobj)
                steps.append(f"{o}.{rng.choice(ops_for(o))}")
            yield Case(f"multi {kind} {hexs(data)} {','.join(steps)}", check=indep_check(steps), tag=f"{kind}-interleave-random")
    # backend equivalence: identical observations for the same in-bounds history
    for _ in range(800 if thorough else 200):
        m = rng.choice([0, 1, 5, 9, 33])
        w = bytes(rng.randrange(256) for _ in range(m))
        ops = []
        pos = 0
        for _ in range(rng.randrange(1, 30)):
            c = rng.choice("rpksfbBE")
            if c == "r": a = rng.randrange(0, m - pos + 1); pos += a
            elif c == "p": a = rng.randrange(0, m + 3); pos += min(a, m - pos)
            elif c == "k": a = rng.randrange(0, m - pos + 1)
            elif c == "s": a = rng.randrange(0, m + 1); pos = a
            elif c == "f": a = rng.randrange(0, m - pos + 1); pos += a
            elif c == "b": a = rng.randrange(0, pos + 1); pos -= a
            elif c == "B": pos = 0; ops.append("B"); continue
            else: pos = m; ops.append("E"); continue
            ops.append(c + str(a))
        exp = spec_hist(w, ops)
        pre = bytes(rng.randrange(256) for _ in range(3)); post = b"\xEE\xFF"
        for be, parent in (("mem", w), ("dyn", w), ("file", w), (f"mslice2:3:{m}", pre + w + post), (f"fslice:3:{m}", pre + w + post),
                           (f"fss:1:{m + 3}:2:{m}", pre + w + post), (f"mss:2:{m + 2}:1:{m}", pre + w + post)):
            yield Case(f"rd.hist {be} {hexs(parent)} {','.join(ops)}", expect=exp, tag="backend-equivalence")
