"""Independent Python rendering of the indexed-BMP and custom-tileset formats (generators and direct oracles of
C08, C09, C11_bmp).  Written from the formats, not from the library's serialisers or the Lean model."""
import struct

M64 = (1 << 64) - 1
INT_MIN = -(1 << 31)

def fnv(b: bytes) -> int:
    h = 14695981039346656037
    for x in b: h = ((h ^ x) * 1099511628211) & M64
    return h

def hexs(b: bytes) -> str:
    return b.hex() if b else "-"

def showB(b: bytes) -> str:
    """the drivers' rendering of long byte strings"""
    return hexs(b) if len(b) <= 65536 else f"#{len(b)}:{fnv(b)}"

def row_bytes(bits, w):
    """bytes of a row that carry pixels"""
    return (w * bits + 7) // 8

def pitch(bits, w):
    """smallest multiple of four bytes holding w*bits bits (w >= 0)"""
    return 4 * ((w * bits + 31) // 32)

# ---- standard BMP -------------------------------------------------------------------------------------------------

BMP_FIELDS = [  # (name, offset, width, signed)
    ("sig0", 0, 1, False), ("sig1", 1, 1, False), ("size", 2, 4, False), ("reserved1", 6, 2, False), ("reserved2", 8, 2, False),
    ("pixelOffset", 10, 4, False), ("headerSize", 14, 4, False), ("width", 18, 4, True), ("height", 22, 4, True),
    ("planes", 26, 2, False), ("bitCount", 28, 2, False), ("compression", 30, 4, False), ("imageSize", 34, 4, False),
    ("xResolution", 38, 4, False), ("yResolution", 42, 4, False), ("usedColorMapEntries", 46, 4, False),
    ("importantColorCount", 50, 4, False)]

def enc_bmp(bits, w, h, palette, rows, used=0, important=0, padbyte=0, trailing=b"", over=None, extra_header=None):
    """palette: list of 4-byte entries as stored; rows: |h| byte strings of row_bytes(bits,w) bytes in stored order.
    `used`: value of usedColorMapEntries (0 = full table of 2^bits entries expected by readers).
    `over`: dict field name -> value substituted after the consistent file has been laid out."""
    pal = b"".join(palette)
    pad = pitch(bits, w) - row_bytes(bits, w)
    px = b"".join(r + bytes([padbyte]) * pad for r in rows)
    off = 14 + 40 + len(pal)
    size = off + len(px) + len(trailing)
    hdr = b"BM" + struct.pack("<IHHI", size & 0xFFFFFFFF, 0, 0, off & 0xFFFFFFFF)
    ih = struct.pack("<IiiHHIIIIII", 40, w, h, 1, bits, 0, 0, 0, 0, used, important)
    if extra_header:
        for k, v in extra_header.items():
            ih = _subst(b"\0" * 14 + ih, k, v)[14:]
    out = hdr + ih + pal + px + trailing
    if over:
        for k, v in over.items(): out = _subst(out, k, v)
    return out

def _subst(data, name, value):
    for n, o, wd, sg in BMP_FIELDS:
        if n == name:
            v = value & ((1 << (8 * wd)) - 1)
            return data[:o] + v.to_bytes(wd, "little") + data[o + wd:]
    raise KeyError(name)

def subst_bmp(data, name, value): return _subst(data, name, value)

def boundary_values(width_bytes, signed):
    m = (1 << (8 * width_bytes)) - 1
    vals = {0, 1, 2, m // 2 - 1, m // 2, m // 2 + 1, m - 1, m, 3, 4, 8, 32, 40, 54, 255, 256}
    return sorted(v & m for v in vals)

# ---- custom tileset -----------------------------------------------------------------------------------------------

TS_FIELDS = [  # (name, offset, width)
    ("tagPBMP", 0, 4), ("lenPBMP", 4, 4), ("tagHead", 8, 4), ("lenHead", 12, 4), ("tagCount", 16, 4), ("pixelWidth", 20, 4),
    ("pixelHeight", 24, 4), ("bitDepth", 28, 4), ("flags", 32, 4), ("tagPPAL", 36, 4), ("lenPPAL", 40, 4), ("tagPalHead", 44, 4),
    ("lenPalHead", 48, 4), ("palTagCount", 52, 4), ("tagPalData", 56, 4), ("lenPalData", 60, 4),
    ("tagPixData", 64 + 1024, 4), ("lenPixData", 68 + 1024, 4)]

def enc_custom(h, palette_rgba, pixels, over=None):
    """the game's custom tileset format.  palette_rgba: 256 entries (r,g,b,a) as the picture's colours; stored
    blue, green, red, alpha.  pixels: 32*h bytes, rows top-down."""
    pal = b"".join(bytes([c[2], c[1], c[0], c[3]]) for c in palette_rgba)
    body = (b"head" + struct.pack("<IIIIII", 0x14, 2, 32, h & 0xFFFFFFFF, 8, 8)
            + b"PPAL" + struct.pack("<I", 1048) + b"head" + struct.pack("<II", 4, 1)
            + b"data" + struct.pack("<I", 1024) + pal
            + b"data" + struct.pack("<I", (32 * h) & 0xFFFFFFFF) + pixels)
    # the length the game's files carry for the outer section is 28 less than the number of bytes that follow it
    out = b"PBMP" + struct.pack("<I", (1068 + 32 * h) & 0xFFFFFFFF) + body
    if over:
        for k, v in over.items(): out = subst_ts(out, k, v)
    return out

def subst_ts(data, name, value):
    for n, o, wd in TS_FIELDS:
        if n == name:
            if isinstance(value, bytes): v = value
            else: v = (value & 0xFFFFFFFF).to_bytes(4, "little")
            return data[:o] + v + data[o + wd:]
    raise KeyError(name)

# ---- dumps printed by the drivers ---------------------------------------------------------------------------------

class Dump:
    __slots__ = ("sig", "size", "pixelOffset", "r1", "r2", "headerSize", "w", "h", "planes", "bits", "comp", "imageSize", "xres", "yres",
                 "used", "important", "npal", "pal", "npix", "pix", "raw")
    def rows(self):
        p = pitch(self.bits, self.w)
        n = abs(self.h)
        return [self.pix[i * p:(i + 1) * p] for i in range(n)]
    def colors(self):
        return [self.pal[i:i + 4] for i in range(0, len(self.pal), 4)]

def unB(s):
    """bytes of a rendered byte string, or None when only the hash was printed"""
    if s == "-": return b""
    if s.startswith("#"): return None
    return bytes.fromhex(s)

def parse_dump(s):
    """returns Dump or None (when the text is not a dump, e.g. `err`)"""
    try:
        a, b, c, d = s.split("|")
        x = Dump(); x.raw = s
        p = a.split(","); x.sig = p[0]; x.size, x.pixelOffset, x.r1, x.r2 = (int(v) for v in p[1:])
        q = [int(v) for v in b.split(",")]
        (x.headerSize, x.w, x.h, x.planes, x.bits, x.comp, x.imageSize, x.xres, x.yres, x.used, x.important) = q
        n, _, hx = c.partition(":"); x.npal = int(n); x.pal = unB(hx)
        n, _, hx = d.partition(":"); x.npix = int(n); x.pix = unB(hx)
        return x
    except Exception:
        return None

def parse_out(out):
    """`<dump> k=v k=v …` -> (Dump or None, dict)"""
    parts = out.split(" ")
    d = parse_dump(parts[0])
    kv = {}
    for p in parts[1:]:
        k, _, v = p.partition("=")
        kv[k] = v
    return d, kv
