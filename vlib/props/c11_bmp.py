"""C11 (part bmp) — the bitmap and tileset loaders are safe on arbitrary bytes; what they return is safe to use."""
import os, subprocess, json
from ..framework import Case, run_impl
from .bmpref import *

LEAN_MODULES = ["Op2Proofs.Props.C11_Bmp", "Op2Proofs.Props.C11_Gen", "Op2Proofs.Props.C08_Gen", "Op2Proofs.Props.C09_Gen"]
RULE = ("every case runs in a forked child under ASan/UBSan/_GLIBCXX_ASSERTIONS with a watchdog; a returned object is put through "
        "EVERY public operation (Validate, both Verify*, WriteIndexed to a stream and to a file, AbsoluteHeight, orientation, "
        "InvertScanLines, SwapRedAndBlue, ValidateTileset, WriteCustomTileset), each on its own copy.  Inputs: valid BMP / custom "
        "tileset files from an independent encoder; every proper prefix of each (swept inside one case); every header field x "
        "{0,1,2,3,4,8,32,40,54,255,256, max/2-1, max/2, max/2+1, max-1, max}; coordinated corruptions: width/height/size/offset "
        "kept mutually consistent, z3-chosen (input finder only) negative widths and heights whose pitch*|height| equals the pixel "
        "section size modulo 2^64, height -2^31 with every pixel size it can match, tileset pixel heights >= 2^31 with matching "
        "section lengths, attacker-sized pixel sections; random byte flips / insertions / deletions; all of them through both "
        "ReadIndexed and the format-detecting ReadTileset")
PROVED = ("for ALL byte strings: C11_no_fault_load_bmp / _tileset (loading never reaches std::abs(INT32_MIN), a negation of INT32_MIN, an "
          "out-of-vector row access or an over-wide shift: result is an object or an ordinary error); C11_no_fault_use_bmp / _tileset (on every "
          "returned object none of Validate, both Verify*, WriteIndexed to stream and to file, AbsoluteHeight, InvertScanLines, ValidateTileset, "
          "WriteCustomTileset reaches one); C11_use_closed (InvertScanLines / SwapRedAndBlue return objects with the same invariants, so every "
          "sequence of operations is safe); C11_prefix_strict_bmp / _tileset (every proper prefix cutting into the consumed bytes - for a file "
          "without trailing bytes: every proper prefix - is refused with an ordinary error, in both formats); termination by totality of the model.  "
          "Bridging: Props/C11_Gen.lean C11_gen_create_guards (VerifyValidBitCount and VerifyDimensions as translated from the current source refuse exactly "
          "what ImageHeader.create refuses: negative width, height INT32_MIN, invalid depth) and the lemmas of Props/C08_Gen.lean / C09_Gen.lean "
          "(ImageHeader::Validate, the Verify* functions, ValidateTileset, the tileset header checks = the model's guards for all field values)")
PARTIAL = ("memory safety of the C++ below the level of the model's checked primitives (the primitives sit where the code has raw "
           "pointer / iterator / signed operations; that placement is tied to the code by the sanitizer-instrumented run only); "
           "allocation failure is modelled as the ordinary error it is under the harness cap")
TRUSTED = ["ASan/UBSan/_GLIBCXX_ASSERTIONS as the detector of memory errors and undefined arithmetic in the real library"]
ASSUMPTIONS = ["streams are MemoryReader / DynamicMemoryWriter", "allocations above 1 GiB are refused by the harness (ASan max_allocation_size_mb)"]

Z3_SCRIPT = r'''
import json, sys
from z3 import *
TMO = int(sys.argv[1])
out = []
def solve(bits, extra, n=3):
    s = Solver(); s.set("timeout", TMO)
    w = BitVec("w", 32); h = BitVec("h", 32); px = BitVec("px", 64)
    w64 = SignExt(32, w)                                  # int32_t -> size_t
    ah = If(h < 0, -h, h)
    rowb = LShR(w64 * BitVecVal(bits, 64) + 7, 3)          # CalcPixelByteWidth
    pitch = (rowb + 3) & BitVecVal(0xFFFFFFFFFFFFFFFC, 64) # CalculatePitch
    s.add(pitch * SignExt(32, ah) == px, ULT(px, 4000))    # the reader's cross-check, modulo 2^64
    s.add(*extra(w, h, px))
    for _ in range(n):
        if s.check() != sat: break
        m = s.model()
        out.append([bits, m[w].as_signed_long(), m[h].as_signed_long(), m[px].as_long()])
        s.add(Or(w != m[w], h != m[h]))
for bits in (1, 4, 8):
    solve(bits, lambda w, h, px: [w < 0, h > 0, h < 64])
    solve(bits, lambda w, h, px: [w < 0, h < 0, h > -64])
    solve(bits, lambda w, h, px: [w < -100000, h > 0, h < 4096], 2)
    solve(bits, lambda w, h, px: [h == -2147483648], 2)
    solve(bits, lambda w, h, px: [h == -2147483648, w > 0], 1)
    solve(bits, lambda w, h, px: [w < 0, h != 0, px != 0, h > -4096, h < 4096], 1)
print(json.dumps(out))
'''
# found by the script above (kept so that the check does not depend on z3 being installed or fast)
Z3_FALLBACK = [[1, -1, 5, 0], [1, -7, 1, 0], [1, -4, 5, 0], [1, -6, 48, 0], [1, -24, INT_MIN, 0], [4, -1, 3, 0], [4, -6, 56, 0], [4, -7, 16, 0],
               [4, -7, INT_MIN, 0], [8, -1, 8, 0], [8, -1, 16, 0], [8, -1, -8, 0], [8, -2, 8, 0], [8, -3, 40, 0], [8, -3, 56, 0], [8, -2, INT_MIN, 0],
               [8, -2147483648, 0, 0], [1, 0, INT_MIN, 0], [8, 0, INT_MIN, 0], [8, 8, INT_MIN, 0], [8, 4, INT_MIN, 0], [1, 64, INT_MIN, 0]]

def z3_headers(thorough=False):
    try:
        r = subprocess.run(["python3-vt", "-c", Z3_SCRIPT, "4000" if thorough else "700"], capture_output=True, text=True, timeout=300 if thorough else 40)
        got = json.loads(r.stdout) if r.returncode == 0 else []
    except Exception:
        got = []
    seen = []
    for x in got + Z3_FALLBACK:
        if x not in seen: seen.append(x)
    return seen

def raw_bmp(bits, w, h, npix, rng, used=0):
    """a file whose header says (w, h) and whose pixel section has npix bytes (the reader's cross-check decides)"""
    n = 1 << bits if bits <= 8 else 0
    f = enc_bmp(bits if bits in (1, 4, 8) else 8, 0, 0, [bytes([rng.randrange(256) for _ in range(4)]) for _ in range(used if used else n)], [], used=used)
    f = f + bytes(rng.randrange(1, 256) for _ in range(npix))
    f = subst_bmp(f, "size", len(f))
    f = subst_bmp(subst_bmp(f, "width", w), "height", h)
    return subst_bmp(f, "bitCount", bits)

def base_bmps(rng):
    out = []
    # the zero-width ones come last: they are left out of the field sweeps (width 0 with a height near 2^31 is accepted with an
    # empty pixel section and every row loop then runs 2^31 times: it terminates, but not within the watchdog)
    for bits, w, h, k in ((8, 5, 3, 0), (8, 4, -2, 3), (4, 7, 2, 0), (1, 33, -3, 2), (8, 32, 32, 0), (8, 32, -32, 7), (1, 1, 1, 1), (4, 3, 0, 16), (8, 0, 0, 0), (8, 0, 3, 0)):
        rows = [bytes(rng.randrange(256) for _ in range(row_bytes(bits, w))) for _ in range(abs(h))]
        pal = [bytes(rng.randrange(256) for _ in range(4)) for _ in range(k if k else 1 << bits)]
        out.append(enc_bmp(bits, w, h, pal, rows, used=k, padbyte=0xEE))
    return out

def base_customs(rng):
    out = []
    for H in (0, 32, 64):
        cols = [tuple(rng.randrange(256) for _ in range(4)) for _ in range(256)]
        out.append(enc_custom(H, cols, bytes(rng.randrange(256) for _ in range(32 * H))))
    return out

def no_prefix_accepted(out):
    p = out.split()
    if len(p) != 2 or not p[1].startswith("acc="): return f"unexpected output {out!r}"
    if p[1] != "acc=-": return f"proper prefixes of a valid file were accepted at lengths {p[1][4:][:60]}"
    return None

def check_use(out):
    """what C11 itself demands of a returned object is the process outcome (checked by the framework for every case);
    on top of that: the operations that the statement names must have produced an outcome each"""
    if out.startswith("err"): return None
    d, kv = parse_out(out)
    if d is None: return f"unparseable output {out[:80]!r}"
    for k in ("v", "pv", "xv", "W", "F", "abs", "or", "I", "S", "vt", "C"):
        if k not in kv: return f"operation {k} reported no outcome"
    return None

def mutate(rng, f):
    b = bytearray(f)
    for _ in range(rng.randrange(1, 4)):
        k = rng.randrange(6)
        if k == 0 and b: b[rng.randrange(len(b))] ^= 1 << rng.randrange(8)
        elif k == 1 and b: b[rng.randrange(min(len(b), 70))] = rng.choice([0, 1, 0x7F, 0x80, 0xFF, rng.randrange(256)])
        elif k == 2 and b: del b[rng.randrange(len(b))]
        elif k == 3: b.insert(rng.randrange(len(b) + 1), rng.randrange(256))
        elif k == 4 and len(b) > 4:
            o = rng.randrange(min(len(b) - 4, 66)); b[o:o + 4] = rng.choice([0, 1, 0x7FFFFFFF, 0x80000000, 0xFFFFFFFF, 0xFFFFFFE0, 32, 64]).to_bytes(4, "little")
        elif k == 5 and b: del b[rng.randrange(len(b)):]
    return bytes(b)

def cases(tier, rng):
    thorough = tier == "thorough"
    bmps = base_bmps(rng); customs = base_customs(rng)
    for f in bmps:
        yield Case(f"!bmp.use {hexs(f)}", check=check_use, tag="valid-bmp")
        yield Case(f"!ts.use {hexs(f)}", check=check_use, tag="valid-bmp-as-tileset")
        yield Case(f"!bmp.prefixes {hexs(f)}", check=no_prefix_accepted, tag="prefixes-bmp")
        yield Case(f"!ts.prefixes {hexs(f)}", check=no_prefix_accepted, tag="prefixes-bmp-as-tileset")
    for f in customs:
        yield Case(f"!ts.use {hexs(f)}", check=check_use, tag="valid-custom")
        yield Case(f"!bmp.use {hexs(f)}", check=check_use, tag="custom-as-bmp")
        yield Case(f"!ts.prefixes {hexs(f)}", check=no_prefix_accepted, tag="prefixes-custom")
    # every field x boundary values
    for f in (bmps[:7] if thorough else bmps[:6]):
        for name, off, wd, sg in BMP_FIELDS:
            for v in boundary_values(wd, sg):
                g = subst_bmp(f, name, v)
                if g == f: continue
                yield Case(f"!bmp.use {hexs(g)}", check=check_use, tag="field-bmp-" + name)
                if thorough or name in ("width", "height", "bitCount", "size", "pixelOffset", "sig0"):
                    yield Case(f"!ts.use {hexs(g)}", check=check_use, tag="field-bmp-as-tileset-" + name)
    for f in (customs if thorough else customs[1:2]):
        for name, off, wd in TS_FIELDS:
            for v in boundary_values(4, False) + [0x14, 1024, 1048, 0xFFFFFFE0, 0x7FFFFFE0, 0x80000020]:
                g = subst_ts(f, name, v)
                if g == f: continue
                yield Case(f"!ts.use {hexs(g)}", check=check_use, tag="field-custom-" + name)
    # coordinated: geometry changed with a pixel section of the matching size
    for bits, w, h in ((8, 1, 1), (8, 3, -5), (1, 31, 2), (4, 9, 9), (8, 0, 100), (8, 0, -70000), (1, 0, 65536), (8, 1000, 1), (1, 7, -1), (8, 2, 200)):
        yield Case(f"!bmp.use {hexs(raw_bmp(bits, w, h, pitch(bits, w) * abs(h), rng))}", check=check_use, tag="coordinated-geometry")
        yield Case(f"!bmp.use {hexs(raw_bmp(bits, w, h, pitch(bits, w) * abs(h), rng, used=1))}", check=check_use, tag="coordinated-geometry")
    # coordinated: wrap-around solutions
    for bits, w, h, px in z3_headers(thorough):
        g = raw_bmp(bits, w, h, px, rng)
        yield Case(f"!bmp.use {hexs(g)}", check=check_use, tag="solver-wrap")
        yield Case(f"!ts.use {hexs(g)}", check=check_use, tag="solver-wrap-as-tileset")
    # coordinated: geometry whose true pixel size is k*2^32 + (a few bytes), with exactly those few bytes present
    # (a cross-check done in 32 bits would accept them; the row loops would then run far past the buffer)
    for bits, w in ((8, 4), (8, 5), (8, 8), (8, 16), (4, 8), (4, 64), (1, 32), (1, 64), (8, 1024), (8, 0x40000001), (1, 0x7FFFFFFF), (8, 65536)):
        p_ = pitch(bits, w)
        for j in (0, 1, 2):
            for sign in (1, -1):
                if (1 << 32) % p_ == 0:
                    hh = (1 << 32) // p_ + j
                    if 0 < hh < (1 << 31) and j * p_ <= 4096:
                        yield Case(f"!bmp.use {hexs(raw_bmp(bits, w, sign * hh, j * p_, rng))}", check=check_use, tag="wrap-mod-2^32")
                else:
                    # smallest h with p_*h >= 2^32; the bytes present are p_*h - 2^32
                    hh = -(-(1 << 32) // p_) + j
                    if hh < (1 << 31) and p_ * hh - (1 << 32) < 4096:
                        yield Case(f"!bmp.use {hexs(raw_bmp(bits, w, sign * hh, p_ * hh - (1 << 32), rng))}", check=check_use, tag="wrap-mod-2^32")
    for bits in (1, 4, 8, 16, 24, 32):
        for w in (0, 1, 2, 8, 64, -1, -8, 0x7FFFFFFF, INT_MIN):
            for px in (0, 4):
                yield Case(f"!bmp.use {hexs(raw_bmp(bits, w, INT_MIN, px, rng))}", check=check_use, tag="height-int-min")
    # attacker-sized pixel sections: size and offset say gigabytes, the stream is short
    f = bmps[0]
    for w, h in ((0x40000000, 2), (0x10000001, 4), (0x0FFFFFFC, -4), (0x7FFFFFFC, 1), (0x7FFFFFFF, 1), (0x7FFFFFFC, 2), (0x01000000, 255), (65536, 65535)):
        pn = pitch(8, w) * abs(h)
        for size, off in ((1078 + pn, 1078), (pn, 0), (0xFFFFFFFF, 0xFFFFFFFF - pn)):
            g = subst_bmp(subst_bmp(subst_bmp(subst_bmp(f, "size", size), "pixelOffset", off), "width", w), "height", h)
            yield Case(f"!bmp.use {hexs(g)}", check=check_use, tag="attacker-sized")
    for size, off in ((0, 1078), (1077, 1078), (1078, 1079), (0xFFFFFFFF, 0), (100, 0xFFFFFFFF)):
        yield Case(f"!bmp.use {hexs(subst_bmp(subst_bmp(f, 'size', size), 'pixelOffset', off))}", check=check_use, tag="attacker-sized")
    # tileset: heights at and above 2^31 with section lengths that match modulo 2^32
    c = customs[1]
    for ph in (0x80000000, 0x80000020, 0xFFFFFFE0, 0xFFFFFFC0, 0x7FFFFFE0, 0x08000000, 0x04000000, 0x00100000):
        for keep_pixels in (False, True):
            g = subst_ts(subst_ts(c, "pixelHeight", ph), "lenPixData", (32 * ph) & 0xFFFFFFFF)
            if not keep_pixels: g = g[:TS_FIELDS[-1][1] + 4] + bytes((32 * ((-ph) & 0xFFFFFFFF)) & 0xFFFF)
            yield Case(f"!ts.use {hexs(g)}", check=check_use, tag="custom-huge-height")
    for bd in (0x10008, 0x10001, 0xFFFF0008, 1, 4, 16):
        yield Case(f"!ts.use {hexs(subst_ts(c, 'bitDepth', bd))}", check=check_use, tag="custom-bitdepth")
    # random mutations
    for _ in range(1500 if thorough else 300):
        f = rng.choice(bmps[:8] + customs)
        g = mutate(rng, f)
        cmd = rng.choice(["!bmp.use", "!ts.use"]) if f[:2] == b"BM" else "!ts.use"
        yield Case(f"{cmd} {hexs(g)}", check=check_use, tag="random-mutation")
    for n in (0, 1, 2, 3, 4, 13, 14, 53, 54):
        yield Case(f"!bmp.use {hexs(bytes(rng.randrange(256) for _ in range(n)))}", check=check_use, tag="short-garbage")
        yield Case(f"!ts.use {hexs(b'PBMP'[:n] + bytes(max(0, n - 4)))}", check=check_use, tag="short-garbage")
        yield Case(f"!ts.use {hexs(b'BM' [:n] + bytes(max(0, n - 2)))}", check=check_use, tag="short-garbage")

def search(drv, model, diverged, lean, rng):
    for rnd in range(2):
        cs = list(cases("thorough" if rnd else "quick", rng))
        outs = run_impl(drv, [c.line for c in cs])
        for c, o in zip(cs, outs):
            if o.startswith("fault:") or o == "hang": return c, o, f"implementation outcome {o}"
            if c.check is not None:
                m = c.check(o)
                if m: return c, o, "direct oracle: " + m
    return None
