"""C03 — CLM pack -> reopen -> extract preserves every track's audio data and format."""
import itertools, struct
from ..framework import Case, run_impl
from .clmref import *
from ..common import unhex

LEAN_MODULES = ["Op2Proofs.Props.C03"]
RULE = ("sets of 0..8 RIFF/WAVE files built from the chunk grammar ([extra]* 'fmt ' [extra]* 'data' [extra]*; extra chunks "
        "LIST/fact/JUNK/cue /smpl of every even size 0..40 in every position; 'fmt ' bodies of 16, 18 and 40 bytes; data lengths "
        "0,1,2,3,4,5,7,8,255,256,32768 and the 128 KiB copy-chunk boundary -1/0/+1; odd data with and without RIFF pad byte); "
        "names of 1..8 letters/digits/underscores in both cases, extensions .wav/.WAV/none, plain / ./ / sub-directory paths; "
        "every ordering of sets up to 3 files and random orders above; sets with >= 2 members and a chunk after 'data' in every "
        "run; every case is one CreateArchive + reopen + GetName/GetSize/OpenStream/ExtractFile of every member and is compared "
        "byte for byte with the Python reference encoder (archive bytes, listing, stream bytes, extracted WAV bytes); refusals: "
        "not RIFF, not WAVE, empty/short/text files, each format field differing in one member, names of 9+ characters, names "
        "equal ignoring case; distinct = distinct protocol lines")
PROVED = ("C03_layout: EVERY archive create returns satisfies Clm.Spec.WF (no hypothesis); C03_reopen: EVERY archive create returns is "
          "accepted by the reader and member i has the padded name, size = data-chunk length found at intake, stream = exactly those "
          "source bytes, extraction = canonical header ++ those bytes; C03_roundtrip: for all lists of grammar-built RIFF/WAVE sources "
          "(any chunks before/between, anything after the data; common 16 format bytes; names <= 8 without NUL, distinct ignoring "
          "case; fitting 32 bits) creation and reopening succeed, names/sizes/streams are the sources' and every extraction is a "
          "SelfConsistentWav with the common format; C03_bytes_are_reference: the archive equals Spec.encode of (name, data) in "
          "sorted order byte for byte; C03_order_independent; C03_names_sorted(_bare/_dirs): names strictly increasing ignoring case; "
          "C03_refusals / C03_duplicates_refused(_bare/_dirs): not RIFF/WAVE, differing formats, name > 8, equal names => err, never a hang; "
          "_dirs = unconditionally for every mix of bare stem[.ext] and dir/stem[.ext] paths, dir ANY byte string (relative, rooted, "
          "several levels, doubled separators, empty), stems over the property's alphabet (C03_order_compatible_dirs); "
          "C03_dir_transparent / C03_dir_names: filename() and the stored name of B/n are those of n for every B except the lone \"/\" "
          "(C03_rootname_names: \"//stem.ext\" is a root name, its file name is the whole string and its name \"//stem\"; the order "
          "results hold there too since '/' sorts above '.'); "
          "intake_desc (walk skips every other chunk, cursor never wraps); 7 bridging lemmas on generated layout/constants")
PARTIAL = ("the path functions filename()/replace_extension() are a trusted-base model; that sorting by file name sorts the stripped "
           "names is proved for bare and directory-qualified stem[.ext] paths over the property's alphabet (C03_names_sorted_bare, "
           "C03_names_sorted_dirs: any directory part) and otherwise - stems with bytes at or below '.', several dots, a trailing "
           "separator - under the explicit order-compatibility hypothesis")
TRUSTED = ["std::sort returns a sorted permutation", "std::experimental::filesystem::path filename()/replace_extension() (model Op2Model/Path.lean)",
           "FileReader/FileWriter deliver and store bytes as the C12/C14 models say"]
ASSUMPTIONS = ["paths contain no NUL byte and name existing regular files"]

FMT_A = struct.pack("<HHIIHH", 1, 1, 22050, 44100, 2, 16)
FMT_B = struct.pack("<HHIIHH", 1, 2, 44100, 176400, 4, 16)
FMT_C = struct.pack("<HHIIHH", 1, 1, 8000, 8000, 1, 8)
FMT_D = struct.pack("<HHIIHH", 0xFFFE, 6, 48000, 864000, 18, 24)
FMT_E = struct.pack("<HHIIHH", 1, 1, 22050, 44100, 2, 12)          # 12-bit samples in 16-bit words: blockAlign != channels*bits/8
FMT_F = struct.pack("<HHIIHH", 1, 2, 44100, 264600, 6, 20)         # 20-bit samples in 3-byte words
FMT_G = struct.pack("<HHIIHH", 0x11, 1, 22050, 11100, 512, 4)      # ADPCM-style: avgBytesPerSec != rate*blockAlign
FMT_H = struct.pack("<HHIIHH", 1, 1, 0xFFFFFFFF, 1, 0xFFFF, 0)     # boundary values in every dependent field
FORMATS = [FMT_A, FMT_B, FMT_C, FMT_D, FMT_E, FMT_F, FMT_G, FMT_H]
EXTRA_TAGS = [b"LIST", b"fact", b"JUNK", b"cue ", b"smpl", b"junk", b"FMT ", b"DATA", b"Data"]
ALPHA = b"abcdefghijklmnopqrstuvwxyzABCDEFGHIJKLMNOPQRSTUVWXYZ0123456789_"
DATA_LENS = [0, 1, 2, 3, 4, 5, 7, 8, 255, 256]
BIG_LENS = [32768, 131071, 131072, 131073]

def pattern(n, seed):
    return bytes(((i * 37 + seed * 11 + (i >> 8) * 3 + 1) & 0xFF) for i in range(n))

def rand_name(rng, taken, length=None):
    for _ in range(1000):
        n = bytes(rng.choice(ALPHA) for _ in range(length or rng.choice([1, 2, 3, 5, 7, 8, 8])))
        if lower_key(n) not in taken:
            taken.add(lower_key(n)); return n
    raise RuntimeError("no free name")

def rand_extras(rng, kmax=2):
    return [(rng.choice(EXTRA_TAGS), pattern(rng.choice(range(0, 42, 2)), rng.randrange(256))) for _ in range(rng.randrange(kmax + 1))]

class Track:
    """one source file: name (without extension), how it is spelled as a path, and its WAV"""
    def __init__(self, name, data, fmt16=FMT_A, pre=(), mid=(), post=(), fmt_extra=b"", ext=b".wav", prefix=b"", pad=False):
        self.name = name; self.data = data; self.fmt16 = fmt16
        post = list(post)
        body_post = post
        self.bytes = wav(fmt16, data, pre, mid, body_post, fmt_extra)
        if pad and len(data) % 2 == 1 and post:
            # RIFF-conformant writers put a pad byte after an odd-sized chunk; the chunk's length field stays odd
            raw = b"".join(chunk(t, b) for t, b in pre) + chunk(b"fmt ", fmt16 + fmt_extra) + b"".join(chunk(t, b) for t, b in mid) \
                + chunk(b"data", data) + b"\0" + b"".join(chunk(t, b) for t, b in post)
            self.bytes = b"RIFF" + u32(4 + len(raw)) + b"WAVE" + raw
        self.rel = prefix + name + ext
    def arg(self): return file_arg(self.rel, self.bytes)

def check_wav(field, fmt16, data):
    """the extracted file is a self-consistent WAV carrying the common format and exactly the data (structure, not exact bytes)"""
    if "/" not in field: return f"extraction gave {field[:40]!r}"
    hh, payload = field.split("/", 1)
    if hh == "short": return "extracted file is shorter than the member"
    if payload != show(data): return f"extracted payload {payload[:40]} differs from the audio data {show(data)[:40]}"
    h = unhex(hh)
    total = len(h) + len(data)
    if len(h) < 12 or h[:4] != b"RIFF" or h[8:12] != b"WAVE": return "extracted file is not RIFF/WAVE"
    if struct.unpack_from("<I", h, 4)[0] + 8 != total: return f"extracted RIFF size {struct.unpack_from('<I', h, 4)[0]} + 8 != file length {total}"
    pos = 12; seen_fmt = False
    while True:
        if pos + 8 > len(h): return "extracted header does not end with a data chunk header"
        tag = h[pos:pos + 4]; ln = struct.unpack_from("<I", h, pos + 4)[0]
        if tag == b"data":
            if pos + 8 != len(h): return "data chunk is not the last thing before the payload"
            if ln != len(data): return f"data chunk length {ln} != payload length {len(data)}"
            break
        if tag == b"fmt ":
            body = h[pos + 8: pos + 8 + ln]
            if ln < 16 or len(body) != ln: return f"fmt chunk of size {ln} is malformed"
            if body[:16] != fmt16: return f"extracted format {body[:16].hex()} is not the common format {fmt16.hex()}"
            if ln >= 18 and body[16:18] != b"\0\0": return "extracted fmt chunk claims extra format bytes (cbSize != 0) that it does not carry"
            seen_fmt = True
        pos += 8 + ln + (ln & 1)
    return None if seen_fmt else "extracted file has no fmt chunk before the data"

def expected(tracks):
    """what the property demands of clm.pack on an admissible set (any order): (exact prefix, per-member exact part, per-member wav check)"""
    ts = sorted(tracks, key=lambda t: lower_key(t.name))
    fmt18 = (ts[0].fmt16 + b"\0\0") if ts else DEFAULT_FMT + b"\0\0"
    arc = clm_encode(fmt18, [(t.name, t.data) for t in ts])
    head = f"ok {show(arc)} {len(ts)}"
    members = [(f"{t.name.hex()}|{len(t.data)}|{show(t.data)}", t) for t in ts]
    return head, members

def pack_check(tracks):
    head, members = expected(tracks)
    def chk(out):
        parts = out.split(" ")
        if " ".join(parts[:3]) != head:
            return f"archive bytes / member count differ from the reference layout: wanted {head!r}, got {' '.join(parts[:3])[:120]!r}"
        if len(parts) != 3 + len(members): return f"{len(parts) - 3} members listed, {len(members)} packed"
        for got, (want, t) in zip(parts[3:], members):
            if got.rsplit("|", 1)[0] != want:
                return f"member {t.name!r}: name|size|stream is {got.rsplit('|', 1)[0][:100]!r}, the sources say {want[:100]!r}"
            msg = check_wav(got.rsplit("|", 1)[1], t.fmt16 if tracks else DEFAULT_FMT, t.data)
            if msg: return f"member {t.name!r}: {msg}"
        return None
    return chk

def pack_case(tracks, tag, expect="auto"):
    line = "clm.pack" + "".join(" " + t.arg() for t in tracks)
    if expect == "auto": return Case(line, check=pack_check(tracks), tag=tag)
    return Case(line, expect=expect, tag=tag)

def rand_track(rng, taken, fmt16, dlen=None, force_post=False, big=False):
    name = rand_name(rng, taken)
    dl = dlen if dlen is not None else rng.choice(BIG_LENS if big else DATA_LENS)
    post = rand_extras(rng)
    if force_post and not post: post = [(b"LIST", pattern(rng.choice([0, 2, 4, 12, 40]), 7))]
    return Track(name, pattern(dl, rng.randrange(256)), fmt16, pre=rand_extras(rng), mid=rand_extras(rng), post=post,
                 fmt_extra=rng.choice([b"", b"\0\0", b"\x16\0" + pattern(22, 3)]), ext=rng.choice([b".wav", b".wav", b".WAV", b".Wav", b""]),
                 prefix=rng.choice([b"", b"", b"./", b"sub/", b"./d1/d2/"]), pad=rng.random() < 0.5)

def cases(tier, rng):
    thorough = tier == "thorough"
    # --- the D8 witness class: >= 2 members, a chunk after 'data' in the first one (mandatory in every run)
    for post_len in (0, 2, 4, 40):
        a = Track(b"a", b"AAAA", post=[(b"LIST", pattern(post_len, 1))])
        b = Track(b"b", b"BBBB")
        c = Track(b"C", b"CCCCC", post=[(b"fact", b"\1\0\0\0")], pad=True)
        yield pack_case([a, b], "trailing-chunk-2")
        yield pack_case([b, a], "trailing-chunk-2")
        yield pack_case([c, a, b], "trailing-chunk-3")
    # --- empty set, single files over every data length and chunk position
    yield pack_case([], "empty-set")
    for dl in DATA_LENS + BIG_LENS[: (4 if thorough else 2)]:
        yield pack_case([Track(b"solo", pattern(dl, dl))], "single-minimal")
    for size in range(0, 42, 2):
        ex = [(EXTRA_TAGS[size % len(EXTRA_TAGS)], pattern(size, size))]
        yield pack_case([Track(b"p", pattern(6, 1), pre=ex)], "extra-before-fmt")
        yield pack_case([Track(b"m", pattern(6, 2), mid=ex)], "extra-between")
        yield pack_case([Track(b"q", pattern(6, 3), post=ex), Track(b"r", pattern(5, 4), post=ex, pad=True), Track(b"s", pattern(3, 5), post=ex)], "extra-after-data")
    for fe in (b"", b"\0\0", b"\x16\0" + pattern(22, 9), b"\x05\0" + pattern(22, 9)):
        for fmt in FORMATS:
            yield pack_case([Track(b"f1", pattern(9, 1), fmt, fmt_extra=fe), Track(b"f2", pattern(2, 2), fmt, fmt_extra=b"")], "fmt-size-and-format")
    # --- names: every length, both cases, order-sensitive neighbours; all orderings of small sets
    nameset = [b"a", b"B", b"a_", b"A1", b"aB", b"Z", b"_", b"0", b"z9", b"abcdefgh", b"ABCDEFGI", b"a0", b"A_"]
    for k in (2, 3):
        combos = [c for c in itertools.combinations(nameset, k) if len({lower_key(n) for n in c}) == k]
        rng.shuffle(combos)
        for combo in combos[: (40 if thorough else 8)]:
            ts = [Track(n, pattern(i + 1, i), post=[(b"LIST", b"zz")] if i == 0 else ()) for i, n in enumerate(combo)]
            for perm in itertools.permutations(ts):
                yield pack_case(list(perm), f"all-orders-{k}")
    for length in range(1, 9):
        taken = set()
        yield pack_case([Track(rand_name(rng, taken, length), pattern(length, 1)), Track(rand_name(rng, taken, length), pattern(3, 2))], "name-lengths")
    # --- random sets from the whole grammar
    for i in range(120 if thorough else 30):
        n = rng.choice([1, 2, 2, 3, 3, 4, 5, 8])
        fmt = rng.choice(FORMATS); taken = set()
        ts = [rand_track(rng, taken, fmt, force_post=(j == 0)) for j in range(n)]
        rng.shuffle(ts)
        yield pack_case(ts, f"random-set-{n}")
    for i in range(6 if thorough else 2):
        fmt = rng.choice(FORMATS); taken = set()
        ts = [rand_track(rng, taken, fmt, force_post=True, big=(j < 2)) for j in range(3)]
        yield pack_case(ts, "random-set-big")
    # --- refusals
    good = Track(b"good", pattern(8, 1))
    def raw(name, b):
        t = Track(name, b""); t.bytes = b; return t
    w = good.bytes
    for label, b in (("not-riff", b"RIFX" + w[4:]), ("not-riff", b"riff" + w[4:]), ("not-wave", w[:8] + b"WAVX" + w[12:]), ("not-wave", w[:8] + b"wave" + w[12:]),
                     ("empty-file", b""), ("short-file", w[:11]), ("text-file", b"hello, this is not a wave file at all\n"),
                     ("no-fmt", b"RIFF" + u32(4 + 8 + 4) + b"WAVE" + chunk(b"data", b"abcd")), ("no-data", b"RIFF" + u32(4 + 24) + b"WAVE" + chunk(b"fmt ", FMT_A))):
        yield pack_case([raw(b"bad", b)], "refuse-" + label, expect="err")
        yield pack_case([good, raw(b"bad", b)], "refuse-" + label, expect="err")
        yield pack_case([raw(b"bad", b), Track(b"zz", b"1234")], "refuse-" + label, expect="err")
    for off, width in ((0, 2), (2, 2), (4, 4), (8, 4), (12, 2), (14, 2)):
        for delta in (1, 1 << (8 * width - 1)):
            v = (int.from_bytes(FMT_A[off:off + width], "little") + delta) % (1 << (8 * width))
            other = FMT_A[:off] + v.to_bytes(width, "little") + FMT_A[off + width:]
            yield pack_case([Track(b"a", b"xx", FMT_A), Track(b"b", b"yy", other)], "refuse-format-differs", expect="err")
            yield pack_case([Track(b"a", b"xx", other), Track(b"b", b"yy", FMT_A), Track(b"c", b"zz", FMT_A)], "refuse-format-differs", expect="err")
            yield pack_case([Track(b"a", b"xx", FMT_A), Track(b"b", b"yy", FMT_A), Track(b"c", b"zz", other)], "refuse-format-differs", expect="err")
    # cbSize is not part of the sample format: an 18-byte fmt chunk with a non-zero cbSize next to a 16-byte one is the same format
    yield pack_case([Track(b"a", b"xx", FMT_A, fmt_extra=b"\x07\0"), Track(b"b", b"yy", FMT_A)], "cbsize-ignored")
    for n9 in (b"abcdefghi", b"A23456789", b"abcdefghijklmnop"):
        yield pack_case([Track(n9, b"xx")], "refuse-name-too-long", expect="err")
        yield pack_case([Track(b"ok", b"xx"), Track(n9, b"yy")], "refuse-name-too-long", expect="err")
    yield pack_case([Track(b"abcdefgh", b"xx"), Track(b"ABCDEFGI", b"yy")], "name-8-accepted")
    for n1, n2, p1, p2, e1, e2 in ((b"abc", b"ABC", b"", b"", b".wav", b".wav"), (b"abc", b"abc", b"", b"", b".wav", b".WAV"), (b"abc", b"abc", b"d1/", b"d2/", b".wav", b".wav"),
                                   (b"Ab_1", b"aB_1", b"", b"x/", b".wav", b""), (b"abc", b"abc", b"", b"", b"", b".wav")):
        d = [Track(n1, b"xx", ext=e1, prefix=p1), Track(n2, b"yy", ext=e2, prefix=p2)]
        yield pack_case(d, "refuse-duplicate", expect="err")
        yield pack_case([Track(b"ab", b"1")] + d + [Track(b"abd", b"2")], "refuse-duplicate", expect="err")
        yield pack_case([d[1], Track(b"m", b"3"), d[0]], "refuse-duplicate", expect="err")
    # --- outside the property's quantifier (model comparison only): size field != file length, data chunk longer than the file
    yield Case("clm.pack " + file_arg(b"a.wav", wav(FMT_A, b"abcd", riff_size=99)), tag="model-only-riff-size")
    yield Case("clm.pack " + file_arg(b"a.wav", wav(FMT_A, b"abcd") + b"\0"), tag="model-only-riff-size")
    short = bytearray(wav(FMT_A, b"abcd")); short[40:44] = u32(5)
    yield Case("clm.pack " + file_arg(b"a.wav", bytes(short)), tag="model-only-data-longer-than-file")
    yield Case("clm.pack " + file_arg(b"a.b.wav", wav(FMT_A, b"ab")) + " " + file_arg(b"a.wav", wav(FMT_A, b"cd")), tag="model-only-dotted-names")

def search(drv, model, diverged, lean, rng):
    """after a broken tie: a larger sample of the same generator, looking for a case whose direct oracle fails"""
    cs = [c for c in cases("thorough", rng) if c.expect is not None or c.check is not None]
    outs = run_impl(drv, [c.line for c in cs])
    for c, o in zip(cs, outs):
        if c.expect is not None and o != c.expect:
            return c, o, f"direct oracle: property demands {c.expect[:200]!r}, implementation returned {o[:200]!r}"
        if c.check is not None:
            msg = c.check(o)
            if msg: return c, o, "direct oracle: " + msg
    return None

# L2 guard-sequence fragment (extract/gen_guards.py -> lean/Op2Model/Gen/Guards.lean; notes/l2guards.md)
LEAN_MODULES = LEAN_MODULES + ["Op2Proofs.Props.C03_Gen"]
PROVED = PROVED + ("; " +
          "L2 guard fragment (Gen/Guards.lean): C03_gen_prepareIndex_guard / C03_gen_prepareIndex_model (the regenerated refusal of one PrepareIndex iteration is offset + dataLength > Clm.offsetLimit, i.e. Clm.prepareIndex refuses that entry, for every offset <= 2^32 and uint32 length), C03_gen_nameMax_guard (a name is refused iff longer than Clm.nameMax)")
