"""Reference description of the Outpost 2 map / saved-game format in Python (frozen; independent of the library and of
the Lean model): encoder with a field map, expected canonical dumps, the public edits, generators.  Used by C06 and C07."""
import struct
from ..common import hexs

M32 = (1 << 32) - 1
M64 = (1 << 64) - 1
MIN_VERSION = 0x1010
SKIP = 0x1E025
MARKER = b"TILE SET\x1a\x00"
UNITS_ARRAY = 2047 * 120
FREE_UNITS = 2048 * 4
ALLOC_CAP = 1 << 30          # the harness runs the library with ASan's max_allocation_size_mb=1024

def show(b: bytes) -> str:
    if len(b) <= 48: return hexs(b)
    h = 14695981039346656037
    for x in b: h = ((h ^ x) * 1099511628211) & M64
    return f"#{len(b)}:{h}"

def fnv(b: bytes) -> int:
    h = 14695981039346656037
    for x in b: h = ((h ^ x) * 1099511628211) & M64
    return h

def u32(v): return struct.pack("<I", v & M32)

_GEN = {}
def gen_bytes(n, seed):
    """the drivers' g<n>:<seed> term"""
    if (n, seed) not in _GEN: _GEN[(n, seed)] = bytes(((i * 131 + seed * 7 + (i >> 8)) & 0xFF) for i in range(n))
    return _GEN[(n, seed)]

class Src:
    def __init__(self, name=b"", num=0): self.name = name; self.num = num
class Grp:
    def __init__(self, name=b"", w=0, h=0, idx=None):
        self.name = name; self.w = w; self.h = h
        self.idx = list(idx) if idx is not None else [0] * ((w * h) & M32)

class MapV:
    """a map value: every public field"""
    def __init__(self, lg=0, h=0, tag=0x1011, sg=0, tiles=None, clip=b"\0" * 16, srcs=(), maps=(), ters=(), grps=(), unknown=None):
        self.lg = lg; self.h = h; self.tag = tag; self.sg = sg           # sg: the raw 32-bit word in the file
        self.tiles = list(tiles) if tiles is not None else [0] * (h << lg)
        self.clip = clip; self.srcs = list(srcs); self.maps = list(maps); self.ters = list(ters); self.grps = list(grps)
        self.unknown = unknown                                            # raw word after the group count (None = canonical)
    @property
    def w(self): return 1 << self.lg
    def copy(self):
        return MapV(self.lg, self.h, self.tag, self.sg, self.tiles, self.clip, [Src(s.name, s.num) for s in self.srcs],
                    self.maps, self.ters, [Grp(g.name, g.w, g.h, g.idx) for g in self.grps], self.unknown)

    # ---- encoding with a field map: list of (offset, width, name, element size for an allocation or None) ----
    def beginning(self, fields=None, base=0):
        out = bytearray()
        def f(name, v, alloc=None):
            if fields is not None: fields.append((base + len(out), 4, name, alloc))
            out.extend(u32(v))
        f("versionTag", self.tag); f("bSavedGame", self.sg); f("lgWidth", self.lg); f("height", self.h); f("tilesetCount", len(self.srcs), 36)
        for t in self.tiles: out.extend(u32(t))
        out.extend(self.clip)
        for i, s in enumerate(self.srcs):
            f(f"src{i}.nameLen", len(s.name), 1); out.extend(s.name)
            if s.name: f(f"src{i}.numTiles", s.num)
        out.extend(MARKER)
        f("mappingCount", len(self.maps), 8)
        for b in self.maps: out.extend(b)
        f("terrainCount", len(self.ters), 264)
        for b in self.ters: out.extend(b)
        return bytes(out)
    def groups(self, fields=None, base=0, canonical=False):
        out = bytearray()
        def f(name, v, alloc=None):
            if fields is not None: fields.append((base + len(out), 4, name, alloc))
            out.extend(u32(v))
        f("groupCount", len(self.grps))
        f("groupUnknown", (max(len(self.grps) - 1, 0)) if (canonical or self.unknown is None) else self.unknown)
        for i, g in enumerate(self.grps):
            f(f"grp{i}.w", g.w); f(f"grp{i}.h", g.h)
            for x in g.idx: out.extend(u32(x))
            f(f"grp{i}.nameLen", len(g.name), 1); out.extend(g.name)
        return bytes(out)
    def encode(self, fields=None, canonical=False):
        """the map file.  canonical=True: what the writer must produce (flag 0/1, regenerated unknown word)"""
        src = self
        if canonical:
            src = self.copy(); src.sg = 1 if self.sg else 0
        b = src.beginning(fields)
        out = bytearray(b)
        for nm in ("tag2", "tag3"):
            if fields is not None: fields.append((len(out), 4, nm, None))
            out.extend(u32(self.tag))
        out.extend(src.groups(fields, len(out), canonical))
        return bytes(out)
    def units(self, fields=None, base=0, unitCount=0, sizeOfUnit=120, nextFree=0, firstFree=0, c1=0, c2=0, seed=1):
        """the saved-game unit block"""
        out = bytearray()
        def f(name, v, alloc=None):
            if fields is not None: fields.append((base + len(out), 4, name, alloc))
            out.extend(u32(v))
        f("unitCount", unitCount); f("lastUsedUnitIndex", 7); f("nextFreeUnitSlotIndex", nextFree); f("firstFreeUnitSlotIndex", firstFree)
        f("sizeOfUnit", sizeOfUnit); f("objectCount1", c1, 512); f("objectCount2", c2, 4)
        out.extend(bytes((i * 7 + seed) & 0xFF for i in range(512 * c1))); out.extend(bytes((i * 3 + seed) & 0xFF for i in range(4 * c2)))
        f("nextUnitIndex", 3); f("prevUnitIndex", 4)
        return bytes(out), (firstFree != nextFree)

    # ---- expected canonical dump (the line the drivers print for this map value) ----
    def dump(self, n):
        tiles = b"".join(u32(t) for t in self.tiles)
        srcs = ";".join(f"{hexs(s.name)}:{s.num if s.name else 0}" for s in self.srcs)
        grps = ";".join(f"{hexs(g.name)}:{g.w}:{g.h}:{show(b''.join(u32(x) for x in g.idx))}" for g in self.grps)
        return (f"ok n={n} v={self.tag} sg={1 if self.sg else 0} w={self.w} h={self.h} tc={len(self.tiles)} tiles={show(tiles)} "
                f"clip={hexs(self.clip)} src={len(self.srcs)}[{srcs}] map={len(self.maps)}:{show(b''.join(self.maps))} "
                f"ter={len(self.ters)}:{show(b''.join(self.ters))} grp={len(self.grps)}[{grps}]")

    # ---- the public edits (Map.cpp), written from their documentation ----
    def tile_index(self, x, y): return ((x >> 5) * self.h + y) * 32 + (x & 31)
    def set_cell_type(self, v, x, y):
        if v > 31: return False
        i = self.tile_index(x, y); self.tiles[i] = (self.tiles[i] & ~31 & M32) | v; return True
    def set_lava_possible(self, b, x, y):
        i = self.tile_index(x, y); self.tiles[i] = (self.tiles[i] & ~(1 << 28) & M32) | ((1 << 28) if b else 0)
    def set_version_tag(self, v): self.tag = v & M32
    def trim(self): self.srcs = [s for s in self.srcs if s.name and s.num != 0]


class SavedGame:
    """pad ++ map beginning ++ tag ++ unit block ++ tag ++ rest, as a compact data expression for the drivers"""
    def __init__(self, m: MapV, rest=b"", **units):
        self.m = m; self.rest = rest; self.unit_args = units
    def pieces(self, fields=None):
        beg = self.m.beginning(fields, SKIP)
        pos = SKIP + len(beg)
        if fields is not None: fields.append((pos, 4, "tag2", None))
        tag = u32(self.m.tag); pos += 4
        ub, free = self.m.units(fields, pos, **self.unit_args)
        pos += len(ub) + UNITS_ARRAY + (FREE_UNITS if free else 0)
        if fields is not None: fields.append((pos, 4, "tag3", None))
        consumed = pos + 4
        expr = f"g{SKIP}:5+{hexs(beg + tag + ub)}+g{UNITS_ARRAY}:9" + (f"+g{FREE_UNITS}:2" if free else "") + f"+{hexs(tag + self.rest)}"
        self.bytes_ = gen_bytes(SKIP, 5) + beg + tag + ub + gen_bytes(UNITS_ARRAY, 9) + (gen_bytes(FREE_UNITS, 2) if free else b"") + tag + self.rest
        return expr, consumed
    def dump(self, n):
        d = self.m.copy(); d.grps = []
        return d.dump(n)


def parse_dump(out):
    """'ok n=.. v=.. ...' -> dict, or None for anything else"""
    if not out.startswith("ok "): return None
    d = {}
    for tok in out.split()[1:]:
        if "=" in tok:
            k, v = tok.split("=", 1); d[k] = v
    return d

def shape_check(out):
    """C07: a returned map has exactly width x height tiles and a power-of-two width (computed in N)"""
    if out.startswith("err"): return None
    d = parse_dump(out)
    if d is None: return f"neither an error nor a map: {out[:80]!r}"
    try: w, h, tc = int(d["w"]), int(d["h"]), int(d["tc"])
    except Exception: return f"malformed dump {out[:80]!r}"
    if w <= 0 or (w & (w - 1)) != 0: return f"returned width {w} is not a power of two"
    if w > (1 << 31): return f"returned width {w} exceeds 2^31"
    if tc != w * h: return f"returned map has {tc} tiles for {w} x {h}"
    return None

# ---- generators ----
def rnd_bytes(rng, n): return bytes(rng.randrange(256) for _ in range(n))

def rnd_map(rng, lg=None, h=None, big=False):
    lg = rng.choice([0, 1, 2, 3, 5, 6]) if lg is None else lg
    h = rng.choice([0, 1, 2, 3, 5]) if h is None else h
    n = h << lg
    tiles = [rng.choice([0, M32, rng.randrange(1 << 32)]) for _ in range(n)]
    nsrc = rng.choice([0, 1, 2, 3, 6])
    srcs = []
    for _ in range(nsrc):
        ln = rng.choice([0, 0, 1, 4, 7, 8])
        srcs.append(Src(rnd_bytes(rng, ln), rng.choice([0, 1, 40, M32, rng.randrange(1 << 32)]) if ln else 0))
    maps = [rnd_bytes(rng, 8) for _ in range(rng.choice([0, 1, 3, 17 if big else 2]))]
    ters = [rnd_bytes(rng, 264) for _ in range(rng.choice([0, 1, 3]))]
    grps = []
    for _ in range(rng.choice([0, 1, 2, 4])):
        w, hh = rng.choice([(0, 0), (0, 3), (2, 0), (1, 1), (2, 3), (4, 1)])
        grps.append(Grp(rnd_bytes(rng, rng.choice([0, 1, 5, 12])), w, hh, [rng.randrange(1 << 32) for _ in range(w * hh)]))
    return MapV(lg, h, rng.choice([0x1010, 0x1011, 0x1012, 0x2000, M32, 0x80000000]), rng.choice([0, 0, 1, 2, 255, 0x100, M32, 0x80000000]),
                tiles, rnd_bytes(rng, 16), srcs, maps, ters, grps, rng.choice([None, 0, 5, M32]))

BOUNDARY32 = [0, 1, 2, 3, 7, 8, 9, 31, 32, 33, 255, 256, 0x100F, 0x1010, 0x1011, 65535, 65536, (1 << 31) - 1, 1 << 31, (1 << 31) + 1, M32 - 1, M32]


# ---- reference reader (used to predict allocation requests of hostile inputs, and by the failing-input search) ----
class _Stop(Exception):
    def __init__(self, kind): self.kind = kind

class _Rd:
    def __init__(self, b): self.b = b; self.p = 0; self.maxalloc = 0
    def take(self, k):
        if self.p + k > len(self.b): raise _Stop("err")
        r = self.b[self.p:self.p + k]; self.p += k; return r
    def u32(self): return struct.unpack("<I", self.take(4))[0]
    def alloc(self, nbytes):
        self.maxalloc = max(self.maxalloc, nbytes)
        if nbytes > ALLOC_CAP: raise _Stop("alloc")

def _beginning(r):
    tag, sg, lg, h, nsrc = (r.u32() for _ in range(5))
    if tag < MIN_VERSION: raise _Stop("err")
    if lg >= 32 or (h << lg) > M32: raise _Stop("err")
    n = h << lg
    r.alloc(4 * n)
    tiles = list(struct.unpack(f"<{n}I", r.take(4 * n)))
    clip = r.take(16)
    r.alloc(40 * nsrc)
    srcs = []
    for _ in range(nsrc):
        ln = r.u32(); r.alloc(ln); name = r.take(ln)
        if ln > 8: raise _Stop("err")
        srcs.append(Src(name, r.u32() if ln else 0))
    if r.take(10) != MARKER: raise _Stop("err")
    nm = r.u32(); r.alloc(8 * nm); maps = [r.take(8) for _ in range(nm)] if 8 * nm <= len(r.b) - r.p else r.take(8 * nm)
    nt = r.u32(); r.alloc(264 * nt); ters = [r.take(264) for _ in range(nt)] if 264 * nt <= len(r.b) - r.p else r.take(264 * nt)
    return MapV(lg, h, tag, sg, tiles, clip, srcs, maps, ters, [])

def _tag(r, last):
    t = r.u32()
    if t < MIN_VERSION or t != last: raise _Stop("err")

def parse(b: bytes, kind="m"):
    """('ok', MapV, consumed, maxalloc) | ('err', maxalloc) | ('alloc', maxalloc)"""
    r = _Rd(b)
    try:
        if kind == "s": r.take(SKIP)
        m = _beginning(r)
        _tag(r, m.tag)
        if kind == "m":
            _tag(r, m.tag)
            ng = r.u32(); m.unknown = r.u32()
            for _ in range(ng):
                w = r.u32(); h = r.u32(); k = (w * h) & M32
                r.alloc(4 * k); idx = list(struct.unpack(f"<{k}I", r.take(4 * k)))
                ln = r.u32(); r.alloc(ln); name = r.take(ln)
                m.grps.append(Grp(name, w, h, idx))
        else:
            unitCount = r.u32(); r.u32(); nextFree = r.u32(); firstFree = r.u32(); size = r.u32()
            if size != 120 and unitCount != 0: raise _Stop("err")
            c1 = r.u32(); c2 = r.u32()
            r.alloc(512 * c1); r.take(512 * c1); r.alloc(4 * c2); r.take(4 * c2)
            r.u32(); r.u32(); r.take(UNITS_ARRAY)
            if firstFree != nextFree: r.take(FREE_UNITS)
            _tag(r, m.tag)
        return ("ok", m, r.p, r.maxalloc)
    except _Stop as s:
        return (s.kind, r.maxalloc)
