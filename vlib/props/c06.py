"""C06 — map read/write round-trips every field and is byte-stable (also after the public edits)."""
import itertools
from ..framework import Case, run_impl
from ..common import hexs
from . import mapref as R

LEAN_MODULES = ["Op2Proofs.Props.C06"]
RULE = ("map files built by an independent Python encoder of the format (never by the library): every width 2^0..2^10 x heights "
        "{0,1,2,3,5}, tile words 0 / all-ones / random, 0..6 tileset sources with empty and 1..8-byte names (count field present only "
        "after a non-empty name), mapping / terrain tables of 0,1,2,3,17 records, 0..4 tile groups incl. zero-area ones, saved-game "
        "word in {0,1,2,255,256,2^31,2^32-1}, unknown group word in {canonical,0,5,2^32-1}, version tags 0x1010..2^32-1, with and "
        "without trailing bytes; per case: full field dump = the generator's value, written bytes = consumed bytes with the flag "
        "normalised and the unknown word regenerated (computed in Python), re-read equal in every field and consuming everything, "
        "second write identical; edits: ALL sequences of length <= 2 (thorough: <= 3) over SetCellType / SetLavaPossible / "
        "SetVersionTag / TrimTilesetSources with boundary arguments on a 32x2 and a 64x3 map + random longer ones, each compared "
        "with an independent Python rendering of the edit; distinct = distinct protocol lines")
PROVED = ("for ALL byte strings: read b = ok (m,n) -> m is well-formed (Spec.WF); for all well-formed m: write m = ok (Spec.encode m), "
          "read (write m ++ junk) = ok (m, |write m|) (every field), hence round trip and byte stability for every accepted input; "
          "trailing bytes ignored (Local); each edit changes exactly the named tile field / the source list and preserves "
          "well-formedness (SetVersionTag for v >= MinMapVersion; below it the reader refuses the written file), so the round trip "
          "holds after every finite edit sequence; written bytes = consumed bytes with the saved-game word set to 0/1 and the word after "
          "the group count set to count-1 (C06_bytes, C06_bytes_normalise); the writer refuses containers that do not fit a 32-bit prefix")
PARTIAL = ("nothing is named _partial. Not covered by the theorems: allocation failure for attacker-sized tables (runtime), edits at "
           "coordinates outside the map (a Fault in the model; C16 owns addressing), Map()'s width 0 (not a reader result)")
TRUSTED = ["std::vector::resize value-initialises (numTiles of an empty-named source is 0)"]
# symbolize=0: an ASan abort on an attacker-sized allocation otherwise spends 0.1 s per case in the symbolizer
ENV = {"ASAN_OPTIONS": "detect_leaks=0:allocator_may_return_null=0:max_allocation_size_mb=1024:symbolize=0"}
ASSUMPTIONS = ["edits are applied at coordinates inside the map (addressing is C16's subject)"]

def rt_expect(m, n, consumed_ok=True):
    return m.dump(n) + " out=" + R.show(m.encode(canonical=True)) + " rr=ok same=1 all=1 st=1"

def edit_alphabet(m):
    w, h = m.w, m.h
    pts = sorted({(0, 0), (w - 1, h - 1), (31, h - 1), (w - 32, 0), (min(w - 1, 33), 1)})
    ops = []
    for (x, y) in pts[:3]:
        for v in (0, 31): ops.append(f"c{x}:{y}:{v}")
    ops += [f"c{pts[-1][0]}:{pts[-1][1]}:32", f"c0:0:{R.M32}", f"c1:1:21"]
    for (x, y) in pts[:2]:
        for b in (0, 1): ops.append(f"l{x}:{y}:{b}")
    ops += [f"v{0x1010}", f"v{0x100F}", f"v{R.M32}", "v0", "t"]
    return ops

def apply_ops(m, ops):
    m = m.copy(); res = ""
    for op in ops:
        k = op[0]; p = op[1:].split(":")
        if k == "c": res += "o" if m.set_cell_type(int(p[2]), int(p[0]), int(p[1])) else "e"
        elif k == "l": m.set_lava_possible(int(p[2]) != 0, int(p[0]), int(p[1])); res += "o"
        elif k == "v": m.set_version_tag(int(p[0])); res += "o"
        elif k == "t": m.trim(); res += "o"
    return m, res

def edit_case(m0, ops, tag):
    b = m0.encode()
    m, res = apply_ops(m0, ops)
    # what Map::Write must give for the edited map
    out = R.show(m.encode(canonical=True))
    exp = m.dump(len(b)) + f" ops={res} out={out}"
    if m.tag >= R.MIN_VERSION: exp += " rr=ok same=1 all=1 st=1"
    else: exp += " rr=err"                        # the reader's documented refusal of a low version tag
    return Case(f"map.edit {hexs(b)} {','.join(ops)}", expect=exp, tag=tag)

def edit_base_maps(rng):
    out = []
    for lg, h in ((5, 2), (6, 3)):
        m = R.rnd_map(rng, lg, h)
        m.tiles = [rng.randrange(1 << 32) for _ in range(h << lg)]
        m.srcs = [R.Src(b"well0001", 40), R.Src(b"", 0), R.Src(b"abc", 0), R.Src(b"x", R.M32), R.Src(b"", 0), R.Src(b"well0002", 1)]
        m.tag = 0x1011
        out.append(m)
    return out

def cases(tier, rng):
    thorough = tier == "thorough"
    # 1. the size lattice: every width, small heights
    for lg in range(0, 11):
        for h in (0, 1, 2, 3, 5):
            m = R.rnd_map(rng, lg, h)
            b = m.encode()
            yield Case(f"map.rt {hexs(b)}", expect=rt_expect(m, len(b)), tag=f"rt-w{1 << lg}")
    # 2. table-size classes with trailing bytes
    for _ in range(400 if thorough else 120):
        m = R.rnd_map(rng, big=True)
        b = m.encode()
        junk = rng.choice([b"", b"", b"\0", b"junk", R.rnd_bytes(rng, 40)])
        yield Case(f"map.rt {hexs(b + junk)}", expect=rt_expect(m, len(b)), tag="rt-random" + ("-trailing" if junk else ""))
    # 3. many sources / many groups / heights a few large
    for h in ((64, 200) if thorough else (64,)):
        m = R.rnd_map(rng, 6, h); b = m.encode()
        yield Case(f"map.rt {hexs(b)}", expect=rt_expect(m, len(b)), tag="rt-large")
    m = R.MapV(0, 0); m.srcs = [R.Src(bytes([65 + i] * (i % 9)), i * 7 + 1) for i in range(20)]
    for s in m.srcs:
        if not s.name: s.num = 0
    m.grps = [R.Grp(bytes([97 + i] * i), i % 3, (i * 5) % 4) for i in range(12)]
    b = m.encode()
    yield Case(f"map.rt {hexs(b)}", expect=rt_expect(m, len(b)), tag="rt-many-tables")
    # 3b. tile groups whose area wraps in 32 bits (the reader sizes the index table with the wrapped product: such byte
    #     strings are accepted, so the writer must reproduce them) and height-0 maps of every width
    for dims in ([(0x80000001, 2)], [(0x10000, 0x10000)], [(0xFFFFFFFF, 0xFFFFFFFF)], [(0x40000001, 4), (2, 1)], [(3, 0x55555556)]):
        m = R.MapV(rng.randrange(0, 4), 1); m.tiles = [rng.randrange(1 << 32) for _ in range(1 << m.lg)]
        m.grps = [R.Grp(R.rnd_bytes(rng, rng.choice([0, 3])), w, h, [rng.randrange(1 << 32) for _ in range((w * h) & 0xFFFFFFFF)]) for w, h in dims]
        b = m.encode()
        yield Case(f"map.rt {hexs(b)}", expect=rt_expect(m, len(b)), tag="rt-group-area-wraps")
    for lg in range(0, 11):
        m = R.MapV(lg, 0); b = m.encode()
        yield Case(f"map.rt {hexs(b)}", expect=rt_expect(m, len(b)), tag="rt-height-zero")
    # 4. the library's own default map is writable and reads back (clip rectangle: C18)
    yield Case("map.default", nomodel=True, tag="default-map",
               check=lambda o: None if (" w=1 h=0 tc=0 " in o and o.startswith("out=")) else f"default map does not round trip: {o[:120]}")
    # 5. edits: all short sequences over a boundary alphabet, then random longer ones
    for m0 in edit_base_maps(rng):
        ops = edit_alphabet(m0)
        for n in ((1, 2, 3) if thorough else (1, 2)):
            for seq in itertools.product(ops, repeat=n):
                yield edit_case(m0, list(seq), f"edit-len{n}")
        for _ in range(600 if thorough else 150):
            seq = []
            for _ in range(rng.randrange(3, 25)):
                k = rng.choice("cccllvt")
                x = rng.randrange(m0.w); y = rng.randrange(m0.h)
                if k == "c": seq.append(f"c{x}:{y}:{rng.choice([rng.randrange(32), rng.randrange(32), 32, 255])}")
                elif k == "l": seq.append(f"l{x}:{y}:{rng.randrange(2)}")
                elif k == "v": seq.append(f"v{rng.choice([0x1010, 0x1011, 0x2000, R.M32, 0x100F, 0])}")
                else: seq.append("t")
            yield edit_case(m0, seq, "edit-random")

def _oracle_failures(drv, cs):
    outs = run_impl(drv, [c.line for c in cs])
    for c, a in zip(cs, outs):
        if a.startswith("fault:") or a == "hang": return c, a, f"implementation outcome {a}"
        if c.expect is not None and a != c.expect: return c, a, f"direct oracle: property demands {c.expect[:200]!r}, implementation returned {a[:200]!r}"
        if c.check is not None:
            msg = c.check(a)
            if msg: return c, a, "direct oracle: " + msg
    return None

def search(drv, model, diverged, lean, rng):
    """a broken tie: run the thorough stream (direct oracles only) under fresh seeds and look for a property failure"""
    import random
    for s in range(3):
        r = random.Random(f"C06-search-{s}-{rng.random()}")
        cs = list(cases("thorough" if s == 0 else "quick", r))
        f = _oracle_failures(drv, cs)
        if f: return f
    return None
