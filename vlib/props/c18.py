"""C18 — serialised bytes and parsed values depend only on the logical input."""
import importlib, itertools, random, re, struct
from ..framework import Case, run_impl_par
from ..common import hexs, log
from .. import build

LEAN_MODULES = ["Op2Proofs.Props.C18"]
RULE = ("scenarios taken from the generators of the serialiser / parser families (VOL pack + reopen, CLM pack + extracted WAV, map "
        "read/write/edit, BMP read/write/factories, custom tileset save/load, PRT read/write), the library's own default-constructed "
        "Map and ArtFile, and every record factory built in place over storage pre-filled with different poison bytes; EVERY scenario "
        "is executed in three processes — (a) heap filled 0xBE, (b) heap filled 0x00 + automatic variables zero-initialised, (c) heap "
        "filled 0xFF + automatic variables pattern-initialised (separate builds, ASLR on) — and the canonical outputs (bytes written, "
        "full dumps of parsed structures) must be identical and equal to the model's; VOL / CLM sets are also packed in every order "
        "and through different path spellings. distinct = distinct protocol lines")
PROVED = ("the masks of unassigned bytes of all 14 records / default objects, re-measured from the current sources on every run, are "
          "empty, hence each record's serialised image is independent of the garbage oracle (and a non-empty mask provably would make it "
          "depend on it); VOL and CLM archive bytes are invariant under permutation of the inputs; VOL and CLM archive bytes (or the "
          "refusal) are invariant under re-spelling the input paths: both writers factor through (GetFilename(path), content), "
          "for CLM unconditionally, for VOL provided the output path is PathsAreEqual to no input in either spelling (that refusal "
          "is the only thing that looks at the spelling; without the proviso: equal bytes whenever both are accepted, and a one-sided "
          "refusal is that one); every serialiser and parser model of C01-C10 is a function of the logical input alone")
PARTIAL = ("a read of uninitialised memory that is not a byte of one of the measured records (e.g. a local buffer copied partially) is "
           "visible only to the three-process comparison; the spelling theorem is about the path model (Op2Model/Path.lean, tied to "
           "libstdc++ by the std-fspath correspondence group), its hypothesis is 'same GetFilename', which is proved for 'dir/name' "
           "with dir != \"/\" and a plain name; spellings whose last component is not the name (trailing '/', 'name/.') are different "
           "logical inputs")
TRUSTED = ["ASan's malloc_fill_byte / max_malloc_fill_size and g++'s -ftrivial-auto-var-init really change what fresh memory holds",
           "in-place construction over poisoned storage (guaranteed copy elision + NRVO in g++ 12)"]
ASSUMPTIONS = ["determinism across OS-level nondeterminism other than memory content and addresses (directory order, time) is out of scope"]

TAKE = {"c01": ("vol.pack",), "c03": ("clm.pack", "clm.packlist"), "c06": ("map.rt", "map.edit", "map.file", "map.read"),
        "c08": ("bmp.rt", "bmp.create", "bmp.invert", "bmp.read"), "c09": ("ts.save", "ts.load"), "c10": ("prt.rt", "prt.wr", "prt.read"),
        "c04": ("lzh.vol",)}

VARIANTS = [("zero", ["-ftrivial-auto-var-init=zero"], "malloc_fill_byte=0:max_malloc_fill_size=268435456"),
            ("pattern", ["-ftrivial-auto-var-init=pattern"], "malloc_fill_byte=255:max_malloc_fill_size=268435456")]
BASE_ASAN = "detect_leaks=0:allocator_may_return_null=0:max_allocation_size_mb=1024"

def wav(pcm, extra_before=b"", extra_after=b""):
    fmt = struct.pack("<HHIIHH", 1, 1, 22050, 22050, 1, 8)
    body = b"WAVE" + b"fmt " + struct.pack("<I", 16) + fmt + extra_before + b"data" + struct.pack("<I", len(pcm)) + pcm + extra_after
    return b"RIFF" + struct.pack("<I", len(body)) + body

def order_groups(rng):
    """(group id, line) — the same logical file set listed in different orders and through different path spellings"""
    out = []
    for g in range(4):
        n = rng.randrange(2, 5)
        names = rng.sample(["a.txt", "B.bin", "c", "Dd.map", "e_1.x"], n)
        files = [(nm, bytes(rng.randrange(256) for _ in range(rng.randrange(0, 40)))) for nm in names]
        for k, perm in enumerate(itertools.islice(itertools.permutations(files), 6)):
            spelled = [((rng.choice(["", "./", "d/", "d/e/", "./d/"]) if k else "") + nm, c) for nm, c in perm]
            line = "!vol.pack " + hexs(b"out.vol") + " - " + " ".join(f"{hexs(p.encode())} {hexs(c)}" for p, c in spelled)
            out.append((f"vol-set{g}", line))
    for g in range(3):
        n = rng.randrange(2, 4)
        names = rng.sample(["trk1", "Eden", "b", "PLY_2"], n)
        files = [(nm, wav(bytes(rng.randrange(256) for _ in range(2 * rng.randrange(0, 20))))) for nm in names]
        for k, perm in enumerate(itertools.islice(itertools.permutations(files), 6)):
            spelled = [((rng.choice(["", "./", "w/", "./w/"]) if k else "") + nm + ".wav", c) for nm, c in perm]
            line = "clm.pack " + " ".join(f"{hexs(p.encode())}={hexs(c)}" for p, c in spelled)
            out.append((f"clm-set{g}", line))
    return out

def cases(tier, rng):
    thorough = tier == "thorough"
    per = 60 if thorough else 14
    again = []       # scenarios that run inside the driver process itself: repeated at the end, after a different history
    for modname, cmds in TAKE.items():
        try:
            mod = importlib.import_module(f"vlib.props.{modname}")
            sub = random.Random(f"C18:{modname}:{rng.random()}")
            lines = [c.line for c in mod.cases("quick", sub) if c.line.lstrip("!").split(" ", 1)[0] in cmds and len(c.line) < 200000]
        except Exception as e:           # a family generator that cannot run is a machinery problem of that family, not of C18
            log(f"C18: generator of {modname} unavailable: {e}"); lines = []
        for line in rng.sample(lines, min(per, len(lines))):
            yield Case(line, tag="scenario-" + line.lstrip("!").split(" ", 1)[0])
            if not line.startswith("!"): again.append(line)
    # parsed values of a record depend on that record's bytes only: frames that store one / none of the two optional byte pairs,
    # each preceded by a frame that stores both with non-zero bytes (a value left unassigned shows as the neighbour's or as garbage)
    from . import prtref as P
    for g in range(6 if thorough else 3):
        frames = []
        for j in range(8):
            flag, uflag = [(1, 1), (1, 0), (1, 1), (0, 1), (1, 1), (0, 0), (0, 1), (1, 0)][(j + g) % 8]
            frames.append(P.Frame(0, flag, rng.randrange(0, 128), uflag, tuple(rng.randrange(1, 256) for _ in range(4)), []))
        art = P.Art([], [], [P.Anim(tuple(rng.randrange(1 << 32) for _ in range(8)), frames[:4], []), P.Anim((0,) * 8, frames[4:], [])], 0)
        b = P.encode(art)
        yield Case(f"prt.read {hexs(b)}", expect=f"ok {len(b)} {P.show_text(P.dump_text(art))}", tag="optional-pairs-mixed")
    for b in (0, 255, 165, 171, 1):
        yield Case(f"layout.poison {b}", tag="poisoned-construction", nomodel=True)
    yield Case("map.default", tag="default-object")
    for b in (0, 171, 255): yield Case(f"prt.default {b}", tag="default-object")
    for gid, line in order_groups(rng):
        yield Case(line, tag="order-and-spelling:" + gid)
    # the same logical input, after the process has done other work (the cases of one run are spread over several driver
    # processes in strided chunks, so a repeated line meets a different history): static buffers, caches and the like must not show
    # a wide picture of non-zero pixels first, then narrower ones whose rows need padding
    wide = "bmp.create 3 8 64 3 " + "00000000" * 256 + " " + "d5" * (64 * 3)
    for k, line in enumerate(again[::-1]):
        if k % 5 == 0: yield Case(wide, tag="history-filler", nomodel=False)
        yield Case(line, tag="repeat-after-history")

def relational_oracles(cases_, impl):
    # (1) records built over different poison must be byte-identical
    pois = [(c, a) for c, a in zip(cases_, impl) if c.tag == "poisoned-construction"]
    for c, a in pois[1:]:
        if a != pois[0][1]:
            d = [x.split("=")[0] for x, y in zip(a.split(), pois[0][1].split()) if x != y]
            yield c, a, f"records {d} built over different prior memory content serialise differently ({pois[0][0].line} vs {c.line})"
    # (2) order / spelling independence of archive bytes
    first = {}
    for c, a in zip(cases_, impl):
        if not c.tag.startswith("order-and-spelling:"): continue
        m = re.match(r"ok (\S+)", a)
        if not m:
            yield c, a, "packing a duplicate-free file set failed"; continue
        if c.tag in first and first[c.tag][0] != m.group(1):
            yield c, a, f"the same files listed in another order / spelled differently give different archive bytes: {m.group(1)} vs {first[c.tag][0]} ({first[c.tag][1][:120]})"
        first.setdefault(c.tag, (m.group(1), c.line))
    # (2b) the same line gives the same output whatever the process did before
    seen = {}
    for c, a in zip(cases_, impl):
        if c.line in seen and seen[c.line][1] != a and not c.tag.startswith("order-and-spelling:"):
            yield c, a, f"the same input gave {a[:140]!r} here and {seen[c.line][1][:140]!r} earlier in the run: the output depends on what the process did before"
        seen.setdefault(c.line, (c, a))
    # (3) the same scenarios in processes whose fresh heap and stack memory hold different garbage
    lines = [c.line for c in cases_]
    for name, flags, asan in VARIANTS:
        exe, err = build.build_driver(variant=name, extra_flags=flags)
        if not exe:
            yield cases_[0], "", f"variant build {name} failed: {err[-300:]}"; continue
        outs = run_impl_par(exe, lines, {"ASAN_OPTIONS": BASE_ASAN + ":" + asan})
        for c, a, b in zip(cases_, impl, outs):
            if a != b:
                yield c, b, f"output depends on what fresh memory holds: process variant '{name}' returned {b[:160]!r}, the base process {a[:160]!r}"

def search(drv, model, diverged, lean, rng):
    return None
