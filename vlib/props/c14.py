"""C14 — writers write exactly what the history implies and refuse what does not fit."""
import itertools
from ..framework import Case
from ..common import hexs
from .streamref import M64

LEAN_MODULES = ["Op2Proofs.Props.C14", "Op2Proofs.Props.C14_Gen"]
RULE = ("fixed-buffer writer between two 16-byte guard zones: all histories of length <= 2 (thorough: <= 3) over {Write(0..3 bytes, "
        "and up to len+1), Seek, SeekForward, SeekBackward, SeekBeginning, SeekEnd} with boundary arguments on buffers of length 0, 1, 5; "
        "buffer content, guard zones, Position and Length observed after every step and compared with an independent Python "
        "rendering of the N-arithmetic specification; growing writer likewise (content read back through GetReader after every "
        "step); stream copies for every (source length 0..10, chunk in {1,2,3,7,16}, start 0..len) x backend plus the real chunk "
        "size around 128 KiB boundaries; size prefixes of 1/2 bytes at 255/256 and 65535/65536; the full 16 x {exists, absent} "
        "open-flag matrix on a real scratch directory, also with the target in a directory that does not exist (no CanOpenNew => neither file nor directory may appear); file-writer histories of writes and seeks (fixed + random) for every flag value x {absent, empty, 10-byte file}: position after every step and bytes on disk after close")
PROVED = ("fixed writer model (u64 guards) = N specification on every op/argument/history; a refused op changes nothing and the "
          "buffer never changes size; a write touches exactly [pos, pos+n); growing writer = history fold (append, zero fill, "
          "truncate) and the reader handed back over the content returns exactly the content and refuses anything longer (C14_dynamic_readback); prefix refusal and acceptance; u16/u32 codecs invert, and for EVERY width w the w little-endian bytes written for v read back as v (as v mod 2^(8w) when v does not fit) and writing the value read from b reproduces b (C14_le_roundtrip, C14_le_inverse: mutual inverses); a size-prefixed container accepted by Write<SizeType> is returned by Read<SizeType> for every prefix width, signedness and element size at any stream position with the reader left exactly behind it (C14_prefixed_roundtrip), also through the u64-guarded MemoryReader model that GetReader() hands back (C14_prefixed_roundtrip_memory); copy loop transfers exactly the remaining bytes for "
          "EVERY chunk size B>0 and source, and for EVERY reader backend: the loop run on a live object of any backend (copyLoopRd in Op2Model/StreamSys.lean, executed by the copy commands) hands the writer exactly the bytes from the cursor to the end of what the object exposes (C14_copy_every_backend, via the refinement Rd.step_abs); open-flag decision table equals the documented meaning on all 32 rows (decide); a writer opened with Append keeps the prior content as a prefix and ends as prior ++ bytes written for EVERY history of writes and seeks (C14_append_history, C14_append_preserves); L2: guards and cursor updates of MemoryWriter (Seek/SeekForward/SeekBackward/WriteImplementation) and DynamicMemoryWriter (SeekForward/SeekBackward/Seek/WriteImplementation) are re-translated from the C++ on every run (Gen/Streams.lean) and proved equal to the models' on all 64-bit values (C14_gen_*)")
PARTIAL = ("what std::ofstream does with an open mode is OS/library behaviour: assumed (ofstreamKeeps) and checked on disk. The row "
           "'existing file, neither Truncate nor Append' carries no property clause (the flags say nothing about prior content).")
TRUSTED = ["std::ofstream open-mode semantics (out truncates unless app)", "std::vector::resize zero-fills / truncates"]
ASSUMPTIONS = []

def spec_memw(init: bytes, ops):
    buf = bytearray(init); pos = 0; n = len(init); out = []
    for t in ops:
        c = t[0]; ok = True
        if c == 'w':
            b = bytes.fromhex(t[1:]) if t[1:] != "-" else b""
            if pos + len(b) <= n: buf[pos:pos + len(b)] = b; pos += len(b)
            else: ok = False
        else:
            a = int(t[1:]) if len(t) > 1 else 0
            if c == 's':
                if a <= n: pos = a
                else: ok = False
            elif c == 'f':
                if pos + a <= n: pos += a
                else: ok = False
            elif c == 'b':
                if a <= pos: pos -= a
                else: ok = False
            elif c == 'B': pos = 0
            elif c == 'E': pos = n
        out.append(f"{'ok' if ok else 'err'}:{pos}:{n}:{hexs(bytes(buf))}")
    return ",".join(out)

def show(b):
    if len(b) <= 48: return hexs(b)
    h = 14695981039346656037
    for x in b: h = ((h ^ x) * 1099511628211) & M64
    return f"#{len(b)}:{h}"

def spec_dynw(ops):
    c = bytearray(); out = []
    for t in ops:
        k = t[0]; ok = True
        if k == 'w': c += bytes.fromhex(t[1:]) if t[1:] != "-" else b""
        else:
            a = int(t[1:]) if len(t) > 1 else 0
            if k == 's':
                if a <= len(c): del c[a:]
                else: c += bytes(a - len(c))
            elif k == 'f': c += bytes(a)
            elif k == 'b':
                if a <= len(c): del c[len(c) - a:]
                else: ok = False
            elif k == 'B': del c[:]
            elif k == 'E': pass
        out.append(f"{'ok' if ok else 'err'}:{len(c)}:{show(bytes(c))}")
    return ",".join(out)

def gen_bytes(n, seed): return bytes(((i * 131 + seed * 7 + (i >> 8)) & 0xFF) for i in range(n))

def fw_seq_oracle(fl, prior, ops):
    """what the open flags demand of `fw.seq` (content on disk after close); None where they leave it open"""
    E, N, T, A = fl & 1, fl & 2, fl & 4, fl & 8
    ex = prior is not None
    written = b"".join(bytes.fromhex(t[1:]) for t in ops if t[0] == 'w' and t[1:] != "-")
    seeks = any(t[0] != 'w' for t in ops)
    if not (E or N) or (T and A) or (ex and not E) or (not ex and not N):
        want = "refused " + (show(prior) if ex else "absent")
        return lambda out: None if out == want else f"open must be refused and leave the destination alone: want {want}"
    if A:
        want = show((prior or b"") + written)
        return lambda out: None if out.split(" ")[-1] == want else f"Append: the file must be its prior content followed by the bytes written ({want}) whatever seeks the history contains"
    if (not ex or T) and not seeks:
        want = show(written)
        return lambda out: None if out.split(" ")[-1] == want else f"new/truncated file must hold exactly the bytes written ({want})"
    return None

def fw_seq_cases(tier, rng):
    priors = [None, b"", b"HEADERDATA"]
    fixed = [[], ["w4142"], ["w4142", "s0", "w5859"], ["s0", "w5859"], ["b4", "w5859"], ["w41", "b3", "w5859", "E", "w5a"],
             ["B", "w5859", "s3", "w51", "f2", "w52"], ["s12", "w5859"], ["w-", "s2", "w-", "w41"], ["b99", "w41"]]
    for fl in range(16):
        for prior in priors:
            for ops in fixed:
                yield Case(f"fw.seq {fl} {hexs(prior) if prior is not None else 'absent'} {','.join(ops) or '-'}",
                           check=fw_seq_oracle(fl, prior, ops), tag="open-flags-history")
    for _ in range(400 if tier == "thorough" else 120):
        fl = rng.choice([9, 11, 11, 10, 3, 7, 1, 5, 2, 6])
        prior = rng.choice([None, b"", bytes(rng.randrange(256) for _ in range(rng.randrange(1, 20)))])
        ops = []
        for _ in range(rng.randrange(1, 12)):
            c = rng.choice("wwwsfbBE")
            if c == 'w': ops.append("w" + hexs(bytes(rng.randrange(256) for _ in range(rng.randrange(0, 6)))))
            elif c in "BE": ops.append(c)
            else: ops.append(c + str(rng.randrange(0, 30)))
        yield Case(f"fw.seq {fl} {hexs(prior) if prior is not None else 'absent'} {','.join(ops)}",
                   check=fw_seq_oracle(fl, prior, ops), tag="open-flags-history-random")

def cases(tier, rng):
    thorough = tier == "thorough"
    for n in (0, 1, 5):
        init = bytes([0x10 + i for i in range(n)])
        args = sorted({0, 1, max(n - 1, 0), n, n + 1, 1 << 32, 1 << 63, M64, M64 - 1, (1 << 64) - n if n else M64, (1 << 64) - 3})
        ops = [f"w{hexs(bytes([0xA0 + i for i in range(k)]))}" for k in sorted({0, 1, 2, 3, n, n + 1})]
        ops += [c + str(a) for c in "sfb" for a in args] + ["B", "E"]
        for h in itertools.product(ops, repeat=1): yield Case(f"wr.mem {hexs(init)} {','.join(h)}", expect=spec_memw(init, h), tag="fixed-len1")
        for h in itertools.product(ops, repeat=2): yield Case(f"wr.mem {hexs(init)} {','.join(h)}", expect=spec_memw(init, h), tag="fixed-len2")
        if thorough and n == 5:
            for h in itertools.product(ops, repeat=3): yield Case(f"wr.mem {hexs(init)} {','.join(h)}", expect=spec_memw(init, h), tag="fixed-len3")
    for _ in range(3000 if thorough else 600):
        n = rng.choice([0, 1, 5, 9, 20]); init = bytes(rng.randrange(256) for _ in range(n)); h = []
        for _ in range(rng.randrange(1, 25)):
            c = rng.choice("wwwsfbBE")
            if c == 'w': h.append("w" + hexs(bytes(rng.randrange(256) for _ in range(rng.randrange(0, 5)))))
            elif c in "BE": h.append(c)
            else: h.append(c + str(rng.choice([rng.randrange(0, n + 2), M64, 1 << 63, (1 << 64) - rng.randrange(1, 4)])))
        yield Case(f"wr.mem {hexs(init)} {','.join(h)}", expect=spec_memw(init, h), tag="fixed-random")
    # growing writer
    dops = ["w-", "wa1", "wa1a2a3", "s0", "s2", "s7", "f0", "f3", "b0", "b1", "b2", "b9", f"b{M64}", "B", "E"]
    for h in itertools.product(dops, repeat=2): yield Case(f"wr.dyn {','.join(h)}", expect=spec_dynw(h), tag="dynamic-len2")
    if thorough:
        for h in itertools.product(dops, repeat=3): yield Case(f"wr.dyn {','.join(h)}", expect=spec_dynw(h), tag="dynamic-len3")
    for _ in range(2000 if thorough else 400):
        h = []
        for _ in range(rng.randrange(1, 30)):
            c = rng.choice("wwwsfbBE")
            if c == 'w': h.append("w" + hexs(bytes(rng.randrange(256) for _ in range(rng.randrange(0, 9)))))
            elif c in "BE": h.append(c)
            else: h.append(c + str(rng.randrange(0, 70)))
        yield Case(f"wr.dyn {','.join(h)}", expect=spec_dynw(h), tag="dynamic-random")
    # seeks no allocator can satisfy must be ordinary errors (isolated: the allocator aborts under ASan)
    for h in ([f"f{M64}"], ["wa1", f"f{M64}"], [f"s{1 << 62}"], [f"f{1 << 40}"]):
        yield Case(f"!wr.dyn {','.join(h)}", tag="dynamic-huge", check=lambda out: None if out.startswith("err") or ":" in out else f"unexpected {out}")
    # prefix types narrower than the container
    for w, sg, lim in ((1, 0, 255), (2, 0, 65535), (1, 1, 127), (2, 1, 32767)):
        for n in (0, 1, lim - 1, lim, lim + 1, lim + 2, 2 * lim + 1, 2 * lim + 2, 200, 40000):
            exp = show(n.to_bytes(w, "little") + b"x" * n) if n <= lim else "err:0"
            yield Case(f"wr.prefixed {w} {n} {sg}", expect=exp, tag=f"prefix-{'i' if sg else 'u'}{8*w}")
    yield Case("wr.prefixed 4 70000 0", expect=show((70000).to_bytes(4, "little") + b"x" * 70000), tag="prefix-u32")
    yield Case("wr.prefixed 4 70000 1", expect=show((70000).to_bytes(4, "little") + b"x" * 70000), tag="prefix-i32")
    # stream copies: every (length, chunk, start, backend)
    for L in range(0, 11):
        data = bytes(0x30 + i for i in range(L))
        for chunk in (1, 2, 3, 7, 16):
            for start in range(0, L + 1):
                for be, parent in (("mem", data), ("file", data), ("dyn", data), (f"mslice2:2:{L}", b"\x01\x02" + data + b"\x03"),
                                   (f"fslice:2:{L}", b"\x01\x02" + data + b"\x03"), (f"fss:1:{L+2}:1:{L}", b"\x01\x02" + data + b"\x03")):
                    yield Case(f"copy {be} {hexs(parent)} {start} {chunk}", expect=f"{show(data[start:])} {L}", tag=f"copy-chunk{chunk}")
    for L in (0x1FFFF, 0x20000, 0x20001, 0x40000, 0x40001) + ((0x3FFFF, 0x60001) if thorough else ()):
        for start in (0, 1, 5):
            for be in ("mem", "file", f"fslice:0:{L}"):
                d = gen_bytes(L, 3)
                yield Case(f"copy {be} gen:{L}:3 {start} 131072", expect=f"{show(d[start:])} {L}", tag="copy-real-chunk")
    for chunk in (4096,):
        for L in (4095, 4096, 4097, 8192):
            d = gen_bytes(L, 5)
            yield Case(f"copy mem gen:{L}:5 0 {chunk}", expect=f"{show(d)} {L}", tag="copy-chunk4096")
    # open flags x {exists, absent}
    for fl in range(16):
        for ex in (0, 1):
            E, N, T, A = fl & 1, fl & 2, fl & 4, fl & 8
            prior = b"HELLO" if ex else None
            if not (E or N) or (T and A) or (ex and not E) or (not ex and not N): exp = "refused " + (hexs(prior) if ex else "absent")
            elif not ex: exp = "ok " + hexs(b"XY")
            elif T: exp = "ok " + hexs(b"XY")
            elif A: exp = "ok " + hexs(b"HELLOXY")
            else: exp = None          # the flags say nothing about prior content
            yield Case(f"fw.open {fl} {ex} 5859", expect=exp, tag="open-flags")
    # the same flags with the target in a directory that does not exist: a writer that may create the file creates the directory
    # too; one that may not create anything (no CanOpenNew) must leave the disk as it was — no file and no directory
    for fl in range(16):
        E, N, T, A = fl & 1, fl & 2, fl & 4, fl & 8
        if not N: exp = "refused nodir absent"; chk = None
        elif T and A:      # contradictory flags: refused, no file; the property does not say whether the directory appears
            exp = None; chk = (lambda out: None if out in ("refused nodir absent", "refused dir absent") else f"contradictory flags must be refused without creating the file: {out}")
        else: exp = "ok dir 5859"; chk = None
        yield Case(f"fw.opendir {fl} 5859", expect=exp, check=chk, tag="open-flags-missing-directory", nomodel=True)
    yield from fw_seq_cases(tier, rng)
