"""Independent Python rendering of the WAV grammar and of the CLM layout (shared by c03 / c05_clm / c20_clm).

Nothing here is derived from the library or from the Lean model: it is the format as documented
(RIFF chunk = 4-byte tag, u32 little-endian length, body; CLM = 60-byte header, 16-byte index entries, data)."""
import struct
from ..common import hexs

M32 = (1 << 32) - 1
M64 = (1 << 64) - 1
VERSION = b"OP2 Clump File Version 1.0\x1a\0\0\0\0\0"
UNKNOWN = bytes([0, 0, 0, 0, 1, 0])
DEFAULT_FMT = struct.pack("<HHIIHH", 1, 1, 22050, 44100, 2, 16)
assert len(VERSION) == 32

def show(b: bytes) -> str:
    if len(b) <= 48: return hexs(b)
    h = 14695981039346656037
    for x in b: h = ((h ^ x) * 1099511628211) & M64
    return f"#{len(b)}:{h}"

def u32(v): return struct.pack("<I", v & M32)

def chunk(tag: bytes, body: bytes, length=None) -> bytes:
    assert len(tag) == 4
    return tag + u32(len(body) if length is None else length) + body

def wav(fmt16: bytes, data: bytes, pre=(), mid=(), post=(), fmt_extra=b"", riff_size=None) -> bytes:
    """RIFF/WAVE file: [pre chunks] 'fmt ' [mid chunks] 'data' [post chunks]; chunks are (tag, body) pairs"""
    assert len(fmt16) == 16
    body = b"".join(chunk(t, b) for t, b in pre) + chunk(b"fmt ", fmt16 + fmt_extra) \
        + b"".join(chunk(t, b) for t, b in mid) + chunk(b"data", data) + b"".join(chunk(t, b) for t, b in post)
    size = 4 + len(body) if riff_size is None else riff_size
    return b"RIFF" + u32(size) + b"WAVE" + body

def wav_fields(fmt16: bytes, data: bytes, pre=(), mid=(), post=(), fmt_extra=b""):
    """(bytes, field map [(offset, width, name)]) of the same file — every integer field"""
    b = wav(fmt16, data, pre, mid, post, fmt_extra)
    fields = [(4, 4, "riff.size")]
    pos = 12
    def walk(chs, label):
        nonlocal pos
        for i, (t, body) in enumerate(chs):
            fields.append((pos + 4, 4, f"{label}{i}.len")); pos += 8 + len(body)
    walk(pre, "pre")
    fields.append((pos + 4, 4, "fmt.len"))
    for off, w, nm in ((0, 2, "tag"), (2, 2, "channels"), (4, 4, "rate"), (8, 4, "avg"), (12, 2, "align"), (14, 2, "bits")):
        fields.append((pos + 8 + off, w, "fmt." + nm))
    if len(fmt_extra) >= 2: fields.append((pos + 24, 2, "fmt.cbSize"))
    pos += 8 + 16 + len(fmt_extra)
    walk(mid, "mid")
    fields.append((pos + 4, 4, "data.len")); pos += 8 + len(data)
    walk(post, "post")
    assert pos == len(b)
    return b, fields

def lower_key(name: bytes):
    """case-insensitive order of the property's alphabet: fold ASCII letters, shorter first on a tie"""
    return bytes((c + 32) if 65 <= c <= 90 else c for c in name)

def clm_encode(fmt18: bytes, members) -> bytes:
    """members: [(name <= 8 bytes, data)] in archive order"""
    assert len(fmt18) == 18
    n = len(members)
    out = VERSION + fmt18 + UNKNOWN + u32(n)
    off = 60 + 16 * n
    for name, data in members:
        assert len(name) <= 8
        out += name + bytes(8 - len(name)) + u32(off) + u32(len(data))
        off += len(data)
    for _, data in members: out += data
    return out

def clm_fields(n):
    """field map of an archive with n members: every integer field of header and index"""
    f = [(32, 2, "fmt.tag"), (34, 2, "fmt.channels"), (36, 4, "fmt.rate"), (40, 4, "fmt.avg"), (44, 2, "fmt.align"), (46, 2, "fmt.bits"),
         (48, 2, "fmt.cbSize"), (56, 4, "count")]
    for i in range(n):
        f.append((60 + 16 * i + 8, 4, f"e{i}.offset")); f.append((60 + 16 * i + 12, 4, f"e{i}.length"))
    return f

def clm_parse(b: bytes):
    """what a conforming reader may rely on: None when the header/index cannot be read, else (fmt18, [(name, off, len)])"""
    if len(b) < 60 or b[:32] != VERSION or b[50:56] != UNKNOWN: return None
    n = struct.unpack_from("<I", b, 56)[0]
    if 60 + 16 * n > len(b): return None
    ents = []
    for i in range(n):
        raw = b[60 + 16 * i: 68 + 16 * i]
        name = raw.split(b"\0")[0]
        off, ln = struct.unpack_from("<II", b, 68 + 16 * i)
        ents.append((name, off, ln))
    return b[32:50], ents

def wav_header(fmt18: bytes, n: int) -> bytes:
    """the canonical 46-byte header an extracted track carries"""
    return b"RIFF" + u32(4 + 26 + 8 + n) + b"WAVE" + b"fmt " + u32(18) + fmt18[:16] + b"\0\0" + b"data" + u32(n)

def content_arg(b: bytes, zeros=0) -> str:
    return hexs(b) + (f"+{zeros}" if zeros else "")

def file_arg(rel: bytes, b: bytes, zeros=0) -> str:
    return rel.hex() + "=" + content_arg(b, zeros)
