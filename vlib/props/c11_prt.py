"""C11 (PRT part) — the PRT loader is safe on arbitrary bytes; what it returns is safe to use (validate, Write, sprite
extraction by any index against any pixel file)."""
import struct
from ..framework import Case, run_impl
from . import prtref as R
from .c10 import BOUND32, BOUND16, BOUND8, mutate

LEAN_MODULES = ["Op2Proofs.Props.C11_Prt"]
RULE = ("every case in a forked child under ASan+UBSan+_GLIBCXX_ASSERTIONS with a watchdog: reference-encoded files x "
        "{every proper prefix (one sweep per file), every integer field x boundary values, coordinated image-record corruptions "
        "(width/scan-line/height/offset/shadow bit chosen so that the size cross-checks pass, incl. 32-bit wrap of the round-up), "
        "count fields that demand huge allocations, consistent multi-field edits of the totals}; on every returned object: "
        "VerifyImageIndexInBounds and ExtractImage for every index 0..count+2 against pixel files that are empty / shorter than "
        "the bitmap header / exactly long enough / long, Write, ImageCount/AnimationCount/FrameCount/LayerCount (in-range indices)")
PROVED = ("for ALL byte strings b, pixel files and indices: the reader has no raw memory operation (it is built from Reader::Read "
          "alone) and refuses every proper prefix that cuts into what it consumes; on every object it returns, extractImage never "
          "reaches a Fault (imageMetas[index], palettes[paletteIndex], the 2^bitCount palette copy, the pixel slice and every "
          "row pointer of the bitmap writer are in bounds) and returns an ordinary error for every index >= |imageMetas|; "
          "FrameCount/LayerCount have no Fault for in-range indices")
PARTIAL = ("FrameCount(i)/LayerCount(i,j) index without a check in the C++ (precondition i,j in range; the statement lists extraction "
           "'by any index', not these accessors) - modelled with the fault, proved and run for in-range indices only. Allocation "
           "failure, the file system and the BMP writer's internals beyond the row addressing are visible to the sanitizer run only.")
TRUSTED = []
ASSUMPTIONS = ["allocation requests above 1 GiB are refused by the harness allocator (err:alloc)"]

def use_check(out):
    """direct oracle on `prt.use`: indices >= count are refused by both the index check and the extraction"""
    if out.startswith("err"): return None
    p = dict(x.split("=", 1) for x in out.split()[1:]) if out.startswith("ok ") else None
    if not p or not {"v", "w", "c", "x"} <= set(p): return f"unexpected output {out!r}"
    n = int(p["c"].split("/")[0])
    v = p["v"]; xs = p["x"].split(",")
    if v[:n] != "o" * n or set(v[n:]) - {"e"}: return f"VerifyImageIndexInBounds: expected {n} accepted then refused, got {v}"
    if len(xs) != len(v): return f"unexpected output {out!r}"
    for i, x in enumerate(xs):
        if i >= n and x != "e": return f"ExtractImage({i}) with {n} images did not fail with an ordinary error: {x}"
    if p["w"] == "refused": return "Write refused an object the reader returned"
    return None

PIX = {"empty": b"", "short": R.pixel_file(100), "hdr": R.pixel_file(1078), "mid": R.pixel_file(1078 + 96), "long": R.pixel_file(6000)}

def arts(rng, thorough):
    out = [R.gen_art(rng, 1, 2, 1, layer_counts=(1, 2)), R.gen_art(rng, 2, 3, 2), R.gen_art(rng, 0, 0, 1), R.gen_art(rng, 1, 0, 0),
           R.Art([], [], [], 0)]
    for _ in range(7 if thorough else 3): out.append(R.gen_art(rng))
    # a zero-width image of height h makes the bitmap writer run h empty row writes: terminating, but 2^31 of them outlast the
    # watchdog.  Zero widths are exercised with small heights in image_lattice; here every width is > 0 so that the height field
    # can take every boundary value.
    for a in out:
        for m in a.images:
            if m.w == 0: m.w, m.scan = 4, 4
    return out

def image_lattice(rng, thorough):
    """coordinated corruptions of one image record (accepted by the loader or not: both must be safe)"""
    ws = [0, 1, 3, 4, 5, 8, 9, 0x7FFFFFFC, 0x7FFFFFFD, 0x7FFFFFFF, 0x80000000, 0x80000001, 0xFFFFFFF9, 0xFFFFFFFC, 0xFFFFFFFD, 0xFFFFFFFE, 0xFFFFFFFF]
    hs = [0, 1, 2, 8, 0x7FFFFFFF, 0x80000000, 0xFFFFFFFF]
    offs = [0, 1, 96, 0xFFFFFFFF]
    for w in ws:
        scans = {R.round4(w) & R.M32, ((w + 3) & R.M32) & ~3}
        for scan in scans:
            for h in hs:
                if scan == 0 and h > 8: continue      # see arts(): 2^31 empty row writes are slow, not unsafe
                for ty in (0, 4):
                    for off in (offs if thorough or h in (0, 1, 8) else offs[:2]):
                        yield R.Image(scan, off, h, w, ty, 0)

def cases(tier, rng):
    thorough = tier == "thorough"
    pal = R.gen_palette(rng, 0)
    for a in arts(rng, thorough):
        b = R.encode(a); hx = b.hex()
        yield Case(f"!prt.prefixes {hx}", expect=f"{len(b)} 0 -", tag="prefixes")
        for k, pix in PIX.items():
            yield Case(f"!prt.use {hx} {pix.hex() if pix else '-'} 2", check=use_check, tag="use-valid-" + k)
        # extraction "by any index": indices that are in range only after truncation to 32 (or 16, 8) bits must be refused too
        n = len(a.images)
        for idx in sorted({n, n + 1, 255, 256, 65535, 65536, (1 << 32) - 1, 1 << 32, (1 << 63), (1 << 64) - 1}
                          | {(1 << 32) + i for i in range(n)} | {(1 << 16) + i for i in range(n)} | {(1 << 48) + i for i in range(n)}):
            if idx >= n:
                yield Case(f"!prt.extract {hx} {idx} {PIX['mid'].hex()}", expect="e", tag="extract-huge-index")
        fields = []
        R.encode(a, fields=fields)
        picks = []
        for off, w, name in fields:
            cur = int.from_bytes(b[off:off + w], "little")
            for v in {4: BOUND32, 2: BOUND16, 1: BOUND8}[w]:
                if v != cur: picks.append((off, w, name, v))
        if not thorough and len(picks) > 120: picks = rng.sample(picks, 120)
        for off, w, name, v in picks:
            kind = name.split(".")[-1].rstrip("0123456789")
            yield Case(f"!prt.use {mutate(b, off, w, v).hex()} {PIX['mid'].hex()} 1", check=use_check, tag="field-" + kind)
        # two fields at once
        for _ in range(40 if thorough else 15):
            if len(fields) < 2: break
            (o1, w1, _), (o2, w2, _) = rng.sample(fields, 2)
            mb = mutate(mutate(b, o1, w1, rng.choice({4: BOUND32, 2: BOUND16, 1: BOUND8}[w1])), o2, w2, rng.choice({4: BOUND32, 2: BOUND16, 1: BOUND8}[w2]))
            yield Case(f"!prt.use {mb.hex()} {PIX['mid'].hex()} 1", check=use_check, tag="field-pair")
    for im in image_lattice(rng, thorough):
        b = R.encode(R.Art([pal], [im], [], 0))
        pix = PIX["mid"] if im.off != 96 else PIX["mid"]
        yield Case(f"!prt.use {b.hex()} {pix.hex()} 1", check=use_check, tag="image-lattice")
    # zero-width images whose height does not fit a signed 32-bit bitmap height: refused at once by a correct
    # extraction (2^31 - 1 is left out: it is legal, and its 2^31 empty row writes outlast the watchdog)
    for h in (0x80000000, 0x80000001, 0xFFFFFFFF, 0xC0000000):
        for off in (0, 1, 96):
            for ty in (0, 4):
                b = R.encode(R.Art([pal], [R.Image(0, off, h, 0, ty, 0), R.Image(4, 10, 2, 3, 0, 0)], [], 0))
                yield Case(f"!prt.use {b.hex()} {PIX['mid'].hex()} 1", check=use_check, tag="zero-width-huge-height")
    # palette index out of range combined with the geometries for which other checks are trivially satisfied
    # (zero width / zero scan line / zero height): the palette lookup of the extraction must still be guarded
    for (scan, w, h) in ((0, 0, 0), (0, 0, 1), (0, 0, 8), (4, 1, 0), (4, 4, 1), (8, 5, 2)):
        for pidx in (1, 2, 255, 65535):
            for ty in (0, 4):
                b = R.encode(R.Art([pal], [R.Image(scan, 10, h, w, ty, pidx), R.Image(4, 10, 2, 3, 0, 0)], [], 0))
                yield Case(f"!prt.use {b.hex()} {PIX['mid'].hex()} 1", check=use_check, tag="palette-index-with-degenerate-geometry")
    # pixel range exactly at / one past the end of the pixel file
    for w, h in [(4, 4), (8, 3), (1, 1), (3, 2)]:
        n = R.round4(w) * h
        for extra in (-1, 0, 1):
            if n + extra < 0: continue
            pix = R.pixel_file(1078 + 10 + n + extra)
            b = R.encode(R.Art([pal], [R.Image(R.round4(w), 10, h, w, 0, 0), R.Image(R.round4(w), 10, h, w, 4, 0)], [], 0))
            yield Case(f"!prt.use {b.hex()} {pix.hex()} 1", check=use_check, tag="pixel-range-edge")
    # counts that demand huge allocations; totals edited consistently
    for n in [0x100001, 0x7FFFFFFF, 0x80000000, 0xFFFFFFFF, 0x4000001, 0x3333334]:
        yield Case(f"!prt.use {(b'CPAL' + struct.pack('<I', n)).hex()} - 0", check=use_check, tag="huge-count")
        yield Case(f"!prt.use {(b'CPAL' + struct.pack('<II', 0, n)).hex()} - 0", check=use_check, tag="huge-count")
        yield Case(f"!prt.use {(b'CPAL' + struct.pack('<IIIIII', 0, 0, n, 0, 0, 0)).hex()} - 0", check=use_check, tag="huge-count")
        yield Case(f"!prt.use {(b'CPAL' + struct.pack('<IIIIII', 0, 0, 1, n, 0, 0) + bytes(32) + struct.pack('<I', n)).hex()} - 0", check=use_check, tag="huge-count")
        yield Case(f"!prt.use {(b'CPAL' + struct.pack('<IIIIII', 0, 0, 1, 0, 0, 0) + bytes(36) + struct.pack('<I', n)).hex()} - 0", check=use_check, tag="huge-count")
    a = R.Art([pal], [R.gen_image(rng, 1)], [R.gen_anim(rng, 2, (1, 2), 1)], 3)
    nf = 2; nl = sum(len(f.layers) for f in a.anims[0].frames)
    for t in [(1, nf, nl), (1, nf + 1, nl), (1, nf, nl - 1), (2, nf, nl), (0, 0, 0), (1, R.M32, R.M32)]:
        yield Case(f"!prt.use {R.encode(a, totals=t).hex()} {PIX['mid'].hex()} 1", check=use_check, tag="totals")

def search(drv, model, diverged, lean, rng):
    cs = list(cases("quick", rng))      # a fresh sample (other seed) of the quick stream; the thorough one takes minutes
    outs = run_impl(drv, [c.line for c in cs])
    for c, o in zip(cs, outs):
        if o.startswith("fault:") or o == "hang": return c, o, f"implementation outcome {o}"
        if c.expect is not None and o != c.expect: return c, o, f"direct oracle: property demands {c.expect!r}, implementation returned {o!r}"
        if c.check is not None:
            m = c.check(o)
            if m: return c, o, "direct oracle: " + m
    return None
