"""C20 (VOL part) — CreateArchive refuses members and offsets that do not fit the 31/32-bit fields, before touching the destination."""
from ..framework import Case
from ..common import hexs
from . import volref as V

LEAN_MODULES = ["Op2Proofs.Props.C20_Vol"]
RULE = ("one case = one CreateArchive call on sparse input files (ftruncate) in a forked child with a watchdog: member sizes 2^31-1 "
        "(thorough only: the archive is really written), 2^31, 2^31+1, 2^32-1, 2^32, 2^32+5 alone and among small members, in "
        "every position of the sort order; sets of 2-3 members below the size limit whose accumulated block offset crosses 2^32 "
        "(at the second / third / last member, by 4 bytes and by gigabytes); with and without a pre-existing destination whose "
        "content must be unchanged / which must not appear; small sets below every limit must succeed")
PROVED = ("for ALL file lists: C20_vol_member_too_large (a member >= 2^31 bytes anywhere in the list => error and file system unchanged), "
          "C20_vol_offset_overflow (some block offset >= 2^32 => error and file system unchanged), C20_vol_fits_succeeds (converse: "
          "below every limit the archive is written and equals the reference encoding), C20_vol_refusal_exact (success iff all members "
          "< 2^31 and all offsets < 2^32, other conditions fixed); file contents are bytes | zeros n, so 4 GiB members are numbers")
PARTIAL = ("C20_vol_offset_overflow assumes the header below 2 GiB (first offset computed in 32 bits as written); 'before the destination "
           "is created' is structural in the model and tied to the code by the dest=absent/same observation of every case")
TRUSTED = []
ASSUMPTIONS = ["sparse files read as zeros; scratch space for the single 2 GiB success case of the thorough tier"]
# a correct library refuses every over-limit case at once; only a violating one writes gigabytes, bounded per case by the watchdog
# (quick: 8 s; thorough: 150 s, where one 2 GiB archive is really written) and on disk by vol.big removing stale outputs
ENV = {"OP2DRV_WATCHDOG": "30"}

G2 = 1 << 31
G4 = 1 << 32

def line(pre, members): return "!vol.big " + pre + "".join(f" {hexs(n)} {s}" for n, s in members)

def archive_len(members):
    ms = sorted(members, key=lambda m: V.sort_key(m[0]))
    names = sum(len(n) + 1 for n, _ in ms)
    return 32 + V.pad4(4 + names) + V.pad4(14 * len(ms)) + sum(8 + V.pad4(s) for _, s in ms)

def cases(tier, rng):
    thorough = tier == "thorough"
    ENV["OP2DRV_WATCHDOG"] = "150" if thorough else "30"
    for pre, dest in (("-", "absent"), ("00112233", "same")):
        refuse = lambda ms, tag: Case(line(pre, ms), expect=f"err dest={dest}", tag=tag)
        # a member that does not fit the 31-bit block length / int32 size field
        for big in (G2, G2 + 1, G2 + 4096, G4 - 1, G4, G4 + 5, 3 * G2 + 7):
            yield refuse([(b"big", big)], "member-too-large-alone")
            if pre == "-" or thorough or big in (G2, G4):
                yield refuse([(b"a", 5), (b"m", big), (b"z", 3)], "member-too-large-in-the-middle")
                yield refuse([(b"big", big), (b"z", 0)], "member-too-large-first")
                yield refuse([(b"a", 1), (b"b", 2), (b"big", big)], "member-too-large-last")
        # every member fits, the accumulated offset does not — in whatever order the members are laid out (the sets are chosen
        # so that header + all members but the largest already exceed 2^32: this property does not depend on the sort order)
        yield refuse([(b"a", G2 - 1), (b"b", G2 - 1), (b"c", G2 - 1)], "offset-crosses-2^32-three-large")
        yield refuse([(b"a", G2 - 1), (b"b", G2 - 1), (b"c", G2 - 1), (b"d", 5)], "offset-crosses-2^32-three-large-one-small")
        yield refuse([(b"a", G2 - 1), (b"b", G2 - 64), (b"c", G2 - 1)], "offset-crosses-2^32-by-40-bytes")
        yield refuse([(b"a", G2 - 1), (b"b", G2 - 1), (b"c", G2 - 104)], "offset-crosses-2^32-by-0-bytes")
        yield refuse([(b"a", 1 << 30), (b"b", 1 << 30), (b"c", 1 << 30), (b"d", 1 << 30), (b"e", 1 << 30)], "offset-crosses-2^32-at-fifth")
        yield refuse([(b"x%d" % i, (1 << 29) - 8) for i in range(10)], "offset-crosses-2^32-ten-members")
        # below every limit: must succeed
        for ms in ([(b"a", 5), (b"b", 7)], [], [(b"only", 0)], [(b"p", 131073), (b"q", 1)]):
            yield Case(line(pre, ms), expect="ok", tag="below-limits-succeeds")
    if thorough:
        ms = [(b"a", G2 - 1)]
        # really writes 2 GiB: give it a watchdog of its own (a loaded machine needs minutes under ASan)
        yield Case(line("-", ms).replace("!vol.big", "!900!vol.big", 1), expect="ok", tag="largest-member-that-fits-succeeds")

def search(drv, model, diverged, lean, rng):
    from ..framework import run_impl
    cs = list(cases("quick", rng))
    outs = run_impl(drv, [c.line for c in cs], ENV)
    for c, o in zip(cs, outs):
        if o.startswith("fault:") or o == "hang": return c, o, f"implementation outcome {o}"
        if c.expect is not None and o != c.expect: return c, o, f"direct oracle: property demands {c.expect!r}, implementation returned {o!r}"
    return None

# L2 guard-sequence fragment (extract/gen_guards.py -> lean/Op2Model/Gen/Guards.lean; notes/l2guards.md)
LEAN_MODULES = LEAN_MODULES + ["Op2Proofs.Props.C01_Gen"]
PROVED = PROVED + ("; " +
          "L2 guard fragment: C01_gen_prepareHeader_refuses (member size > INT32_MAX, name table / index table / next block offset > UINT32_MAX in 64-bit arithmetic, regenerated from the clang AST on every run, equal the model's refusals for all values of the C++ types)")
