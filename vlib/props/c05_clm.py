"""C05, part clm — the CLM reader and the WAV intake of CLM creation are safe on arbitrary bytes."""
import itertools, struct
from ..framework import Case, run_impl
from .clmref import *

LEAN_MODULES = ["Op2Proofs.Props.C05_Clm"]
RULE = ("every case runs in a forked child under ASan/UBSan/_GLIBCXX_ASSERTIONS with a watchdog. CLM reader: every prefix of valid "
        "archives with 0..3 members; every integer field of header and index replaced by every boundary value (0,1,2, 2^15/2^31 "
        "+-1, max-1, max, and the values that put offset+length at file length -1/0/+1, 2^31, 2^32-1); coordinated corruptions "
        "(count 2^32-1 / 2^28 / one more than the index holds, extents ending at / beyond EOF, both fields 0xFFFFFFFF, damaged "
        "version text / fixed bytes); each opened with a call list over count, name, size, stream, extract, index-of-name, "
        "contains, stream-by-name, extract-all with indices 0,1,count-1,count,2^32,2^64-1; ALL call sequences of length <= 2 "
        "(thorough: <= 3) over 12 calls on a valid and on a half-damaged archive; every call list is run on one long-lived "
        "object and again call by call on fresh objects (fresh=1 demanded). WAV intake: every prefix of grammar-built WAVs, "
        "every integer field x boundary values incl. chunk lengths that wrap a 32-bit cursor (0xFFFFFFF8, 0xFFFFFFF0, the "
        "values that land on 0, 12, the chunk itself, or a 2-chunk cycle), random byte strings and random mutations")
PROVED = ("C05_walk_terminates: the chunk walk with the 64-bit cursor returns within len/8+1 rounds on every content < 2^63 bytes and "
          "every tag (+ fuel independence); C05_create_returns: arbitrary bytes offered as WAVs end in err or an archive, never hang; "
          "C05_D9_32bit_cursor_never_returns: with the pinned 32-bit cursor the walk exhausts EVERY fuel on the D9 witness; "
          "C05_stream_exact / C05_stream_refuses_outside / C05_extract_exact: exactly the recorded extent or refusal, never short; "
          "C05_index_out_of_bounds; C05_open_reads_inside (header and whole index inside the file, entry i = the 16 bytes at 60+16i); "
          "C05_truncated_refused (every prefix cutting into header or index); C05_history_independent; C05_gen_cursor_width")
PARTIAL = ("memory safety proper (heap layout, allocator) is not a model value: covered by the instrumented run only. An index "
           "whose size exceeds the harness allocation cap (1 GiB) is canonicalised as err:alloc on both sides. History "
           "independence is immediate in the model because the C++ object keeps no mutable state after construction (every "
           "stream is a fresh FileReader); the tie is the long-lived vs fresh comparison.")
TRUSTED = ["std::ifstream seek/read/tellg behave as the FileReader model of C12 says"]
ASSUMPTIONS = ["the archive file is not modified while it is open"]

FMT = struct.pack("<HHIIHH", 1, 1, 22050, 44100, 2, 16)
FMT18 = FMT + b"\0\0"

def archives():
    return [
        ("n0", clm_encode(FMT18, [])),
        ("n1", clm_encode(FMT18, [(b"solo", b"0123456789")])),
        ("n2", clm_encode(FMT18, [(b"a", b"AAAA"), (b"Bb_2", b"BBBBB")])),
        ("n3", clm_encode(FMT18, [(b"abcdefgh", b""), (b"m", b"x"), (b"zz", bytes(range(60)))])),
    ]

def op_list(b, count=None):
    """the standard call list for one archive image"""
    p = clm_parse(b)
    n = count if count is not None else (len(p[1]) if p else 2)
    idx = sorted({0, 1, max(n - 1, 0), n, n + 1, 1 << 32, M64})
    ops = ["c"]
    for i in idx: ops += [f"n{i}", f"z{i}", f"s{i}", f"x{i}"]
    names = [e[0] for e in p[1]][:3] if p else [b"a"]
    for nm in names + [b"nosuch", b"./a", b"A"]:
        h = nm.hex() if nm else "-"
        ops += [f"i{h}", f"h{h}", f"S{h}"]
    ops.append("X")
    return ops

def check_open(b, ops):
    """direct oracle on the implementation's output alone: exact extents or refusal; long-lived == fresh"""
    def chk(out):
        if out in ("err", "err:alloc"): return None
        if " fresh=" not in out: return f"unexpected output {out[:80]!r}"
        body, fresh = out.rsplit(" fresh=", 1)
        if fresh != "1": return "a call behaved differently on the long-lived object than on a fresh one (or the archive file changed)"
        rs = body.split(",")
        if len(rs) != len(ops): return f"{len(rs)} results for {len(ops)} calls"
        count = struct.unpack_from("<I", b, 56)[0] if len(b) >= 60 else 0
        def recorded(i):
            if i >= count or 60 + 16 * i + 16 > len(b): return None
            return struct.unpack_from("<II", b, 68 + 16 * i)
        for op, r in zip(ops, rs):
            if op[0] in "sx" and r not in ("err", "err:alloc"):
                e = recorded(int(op[1:]))
                if e is None: return f"{op}: a stream was delivered for a member the index does not hold"
                off, ln = e
                if off + ln > len(b): return f"{op}: recorded extent [{off},{off+ln}) is not inside the {len(b)}-byte file but was not refused (got {r[:40]})"
                want = show(b[off:off + ln])
                got = r.split("/", 1)[1] if (op[0] == "x" and "/" in r) else r      # extraction: the payload behind the WAV header
                if got != want: return f"{op}: delivered {got[:60]} instead of the recorded extent {want[:60]}"
        return None
    return chk

def open_case(b, ops, tag):
    return Case("!clm.open " + content_arg(b) + " " + ",".join(ops), check=check_open(b, ops), tag=tag)

def put(b, off, width, v):
    return b[:off] + (v % (1 << (8 * width))).to_bytes(width, "little") + b[off + width:]

def boundary(width, extra=()):
    m = (1 << (8 * width)) - 1
    return sorted({0, 1, 2, m // 2 - 1, m // 2, m // 2 + 1, m - 1, m} | {v & m for v in extra if 0 <= v})

def wav_samples():
    c = [
        ("minimal", dict(fmt16=FMT, data=b"abcdef")),
        ("extras", dict(fmt16=FMT, data=b"abcde", pre=[(b"LIST", b"1234")], mid=[(b"fact", b"\4\0\0\0")], post=[(b"JUNK", b"")], fmt_extra=b"\0\0")),
        ("fmt40", dict(fmt16=FMT, data=b"", fmt_extra=b"\x16\0" + bytes(22))),
    ]
    return [(k, wav_fields(**kw)) for k, kw in c]

def pack1(b, tag, zeros=0):
    return Case("!clm.pack " + file_arg(b"a.wav", b, zeros), tag=tag)

def cases(tier, rng):
    thorough = tier == "thorough"
    arcs = archives()
    # ---- reader: valid archives, every prefix
    for name, b in arcs:
        yield open_case(b, op_list(b), f"valid-{name}")
        for k in range(len(b)):
            yield open_case(b[:k], op_list(b[:k], count=len(clm_parse(b)[1])), f"prefix-{name}")
        yield open_case(b + b"\0", op_list(b), f"one-byte-longer-{name}")
    # ---- reader: every integer field x boundary values
    for name, b in arcs[1:]:
        n = len(clm_parse(b)[1])
        for off, width, fname in clm_fields(n):
            if fname.startswith("fmt.") and name != "n2" and not thorough: continue    # the reader never interprets the format
            extra = []
            if fname.endswith(".offset"):
                ln = struct.unpack_from("<I", b, off + 4)[0]
                extra = [len(b) - ln - 1, len(b) - ln, len(b) - ln + 1, (1 << 31) - ln, (1 << 32) - 1 - ln, (1 << 32) - ln, len(b), len(b) - 1]
            if fname.endswith(".length"):
                o = struct.unpack_from("<I", b, off - 4)[0]
                extra = [len(b) - o - 1, len(b) - o, len(b) - o + 1, (1 << 31) - o, (1 << 32) - 1 - o, (1 << 32) - o]
            if fname == "count":
                extra = [n - 1, n + 1, n + 2, (len(b) - 60) // 16, (len(b) - 60) // 16 + 1, 1 << 20, (1 << 28) - 1, 1 << 28, (1 << 26) + 1, 1 << 30]
                if thorough: extra += [1 << 26, (1 << 26) - 1]
            for v in boundary(width, extra):
                if fname == "count" and not thorough and (1 << 21) < v <= (1 << 26): continue   # each costs a real allocation of up to 1 GiB
                m = put(b, off, width, v)
                yield open_case(m, op_list(m, count=n), f"field-{fname.split('.')[-1] if fname[0] == 'e' else fname}")
    # ---- reader: coordinated corruptions
    name, b = arcs[2]
    co = []
    co.append(("count-max", put(b, 56, 4, M32)))
    co.append(("count-one-more-than-index", put(b[:60 + 32], 56, 4, 3)))
    co.append(("count-exactly-index-no-data", b[:60 + 32]))
    co.append(("extent-ends-at-eof", put(put(b, 68, 4, len(b) - 3), 72, 4, 3)))
    co.append(("extent-one-past-eof", put(put(b, 68, 4, len(b) - 3), 72, 4, 4)))
    co.append(("extent-both-max", put(put(b, 68, 4, M32), 72, 4, M32)))
    co.append(("extent-len-max", put(put(b, 68, 4, 1), 72, 4, M32)))
    co.append(("extent-empty-at-eof", put(put(b, 68, 4, len(b)), 72, 4, 0)))
    co.append(("extent-empty-past-eof", put(put(b, 68, 4, len(b) + 1), 72, 4, 0)))
    co.append(("extent-inside-header", put(put(b, 68, 4, 0), 72, 4, 60)))
    co.append(("second-extent-bad-first-good", put(b, 88, 4, 1000)))
    co.append(("names-equal", b[:76] + b[60:68] + b[84:]))
    co.append(("name-no-nul", b[:60] + b"ABCDEFGH" + b[68:]))
    co.append(("name-empty", b[:60] + bytes(8) + b[68:]))
    co.append(("name-nul-then-text", b[:60] + b"a\0bcdefg" + b[68:]))
    for i in range(32): co.append(("version-byte", b[:i] + bytes([b[i] ^ 0x20]) + b[i + 1:]))
    for i in range(50, 56): co.append(("unknown-byte", b[:i] + bytes([b[i] ^ 1]) + b[i + 1:]))
    for tag, m in co:
        yield open_case(m, op_list(m, count=2), "corrupt-" + tag)
    # ---- reader: every call sequence up to depth 2 (3) on a sound and on a half-damaged archive
    half = put(b, 72, 4, 1000)      # member 0's extent runs past the end, member 1 is intact
    alphabet = ["c", "n0", "n2", "z1", "s0", "s1", "s2", "x0", "x1", "i42625f32", "S61", "h61"]
    for arc, label in ((b, "sound"), (half, "half-damaged")):
        for depth in (1, 2, 3) if thorough else (1, 2):
            for seq in itertools.product(alphabet, repeat=depth):
                yield open_case(arc, list(seq), f"sequences-{label}-{depth}")
    for _ in range(200 if thorough else 40):
        seq = [rng.choice(alphabet + ["X", f"s{M64}", f"x{1 << 32}"]) for _ in range(rng.choice([4, 8, 16]))]
        yield open_case(rng.choice([b, half]), seq, "sequences-random")
    # ---- reader: random bytes and random mutations
    for _ in range(300 if thorough else 60):
        base = bytearray(rng.choice(arcs)[1])
        for _ in range(rng.choice([1, 1, 2, 4])):
            if not base: break
            k = rng.randrange(len(base)); base[k] = rng.choice([0, 1, 0x7F, 0x80, 0xFF, rng.randrange(256)])
        if rng.random() < 0.3: base = base[: rng.randrange(len(base) + 1)]
        m = bytes(base)
        yield open_case(m, op_list(m), "mutated")
    for n in (0, 1, 59, 60, 61, 76, 200):
        m = bytes(rng.randrange(256) for _ in range(n))
        yield open_case(m, op_list(m), "random-bytes")
        m2 = (VERSION + bytes(rng.randrange(256) for _ in range(18)) + UNKNOWN + bytes([rng.randrange(4), 0, 0, 0]) + bytes(rng.randrange(256) for _ in range(n)))
        yield open_case(m2, op_list(m2), "random-after-valid-header")

    # ---- WAV intake: every prefix, every integer field x boundary values
    for label, (w, fields) in wav_samples():
        yield pack1(w, f"wav-valid-{label}")
        for k in range(len(w)):
            yield pack1(w[:k], f"wav-prefix-{label}")
            if k >= 8:   # the same prefix with a RIFF size that matches it, so the chunk walk is reached
                yield pack1(put(w[:k], 4, 4, k - 8), f"wav-prefix-resized-{label}")
        for off, width, fname in fields:
            extra = []
            if fname.endswith(".len"):
                p = off - 4    # position of this chunk's header
                # stored in 32 bits the next position would be: 0, 12, this chunk, the previous 8 bytes, the last byte, EOF
                for target in (0, 12, p, p - 8, len(w) - 1, len(w), len(w) - 8, len(w) - 7):
                    extra.append(((1 << 32) + target - p - 8) & M32)
                extra += [len(w) - p - 8, len(w) - p - 9, len(w) - p - 7, 0xFFFFFFF8, 0xFFFFFFF0, 0xFFFFFFF7, 0xFFFFFFF9]
            if fname == "riff.size":
                extra = [len(w) - 8, len(w) - 9, len(w) - 7, len(w), (1 << 32) - 8 + len(w)]
            for v in boundary(width, extra):
                m = put(w, off, width, v)
                yield pack1(m, "wav-field-" + (fname.split(".")[-1] if not fname.startswith("fmt.") else fname))
                if fname.endswith(".len"):
                    # the same corruption with the RIFF size still consistent and room behind it, so the walk goes on
                    m2 = m + bytes(24)
                    yield pack1(put(m2, 4, 4, len(m2) - 8), "wav-field-len-padded")
    # ---- WAV intake: cursor-wrapping chunk chains (one-chunk and two-chunk cycles in 32 bits), and the same for 'data' after a good 'fmt '
    def riff(body): return b"RIFF" + u32(4 + len(body)) + b"WAVE" + body
    cyc = [
        riff(chunk(b"junk", b"", length=0xFFFFFFF8) + bytes(8)),
        riff(chunk(b"junk", b"", length=0) + chunk(b"JUNK", b"", length=0xFFFFFFF0) + bytes(8)),
        riff(chunk(b"junk", b"", length=8) + bytes(8) + chunk(b"JUNK", b"", length=0xFFFFFFE0) + bytes(8)),
        riff(chunk(b"fmt ", FMT) + chunk(b"junk", b"", length=0xFFFFFFF8) + bytes(8)),
        riff(chunk(b"fmt ", FMT) + chunk(b"junk", b"", length=0xFFFFFFD0) + bytes(8)),
        riff(chunk(b"fmt ", FMT, length=0xFFFFFFF8) + chunk(b"data", b"abcd")),
        riff(chunk(b"junk", b"", length=0xFFFFFFF8 - 12) + bytes(8)),
        riff(chunk(b"junk", b"", length=0xFFFFFFFF) + bytes(9)),
        riff(chunk(b"junk", b"", length=0x7FFFFFFF) + bytes(9)),
        riff(chunk(b"junk", b"", length=0x80000000) + bytes(9)),
    ]
    for m in cyc:
        yield pack1(m, "wav-cursor-wrap")
        yield Case("!clm.pack " + file_arg(b"a.wav", wav(FMT, b"ok")) + " " + file_arg(b"b.wav", m), tag="wav-cursor-wrap")
    # ---- WAV intake: random bytes and random mutations
    for _ in range(400 if thorough else 80):
        base = bytearray(rng.choice(wav_samples())[1][0])
        for _ in range(rng.choice([1, 1, 2, 3])):
            k = rng.randrange(len(base)); base[k] = rng.choice([0, 1, 0x7F, 0x80, 0xFF, 0xF8, rng.randrange(256)])
        if rng.random() < 0.3:
            base = base[: rng.randrange(8, len(base) + 1)]
        if rng.random() < 0.7 and len(base) >= 8:
            base[4:8] = u32(len(base) - 8)
        yield pack1(bytes(base), "wav-mutated")
    for n in (0, 1, 11, 12, 19, 20, 21, 64):
        yield pack1(bytes(rng.randrange(256) for _ in range(n)), "wav-random-bytes")
        body = bytes(rng.randrange(256) for _ in range(n))
        yield pack1(b"RIFF" + u32(4 + n) + b"WAVE" + body, "wav-random-after-riff")

def search(drv, model, diverged, lean, rng):
    cs = [c for c in cases("thorough", rng)]
    outs = run_impl(drv, [c.line for c in cs])
    for c, o in zip(cs, outs):
        if o.startswith("fault:") or o == "hang":
            return c, o, f"implementation outcome {o}"
        if c.check is not None:
            msg = c.check(o)
            if msg: return c, o, "direct oracle: " + msg
    return None
