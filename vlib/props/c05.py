"""C05 — VOL / CLM readers and WAV intake are safe on arbitrary bytes (family parts glued together)."""
from .combine import combine
import os
_parts = [p for p in ("c05_vol", "c05_clm") if os.path.exists(os.path.join(os.path.dirname(__file__), p + ".py"))]
combine(globals(), _parts)
