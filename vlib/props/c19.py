"""C19 — ordering, path-equality and bit helpers obey the laws their callers assume."""
import itertools
from ..framework import Case
from ..common import hexs

LEAN_MODULES = ["Op2Proofs.Props.C19"]
RULE = ("exhaustive pairs/triples of strings over {a,A,b,B,1,_,.,/} up to length 3 (quick: pairs to length 2 + "
        "sampled triples), random longer strings incl. bytes >= 0x80; each line is one call of a free function; "
        "a case is non-trivial when the implementation answered (not bad-op); distinct = distinct lines")
PROVED = ("strict weak ordering (irreflexive, transitive, incomparability transitive and = IsEqual) for all strings; "
          "uniqueness of the sorted arrangement on duplicate-free input for ANY sorted permutation (so std::sort's "
          "choice is irrelevant); completeness of adjacent-duplicate detection; PathsAreEqual is an equivalence "
          "containing IsEqual; path laws on the path model, all strings, no length bound: PathsAreEqual(\"./\"+p, p) "
          "for every p not starting with '/' and for no other p (iff; the empty path included); "
          "HasRootComponent(p) is false iff p does not start with '/'; GetFilename(Append(d, n)) = n for every d "
          "without root component and every non-empty '/'-free n; Append(GetDirectory p, GetFilename p) succeeds and "
          "PathsAreEqual to p for every p without root component (trailing slash and empty path included); "
          "ExtensionMatches(ChangeFileExtension(f, e), e') for EVERY path f (directories, roots, empty included), e = s or "
          "'.'+s with s non-empty and free of '.' and '/', e' equal to e ignoring case; "
          "IsPowerOf2 exact on all v<2^32; Log2OfPowerOf2 exact on the 32 powers; translated "
          "IsPowerOf2/Log2OfPowerOf2 equal the model")
PARTIAL = ("the path laws are theorems about the model of std::experimental::filesystem::path (trusted base, tied by "
           "correspondence and the direct oracles); join and re-join laws are proved for paths without root component "
           "only — the unrestricted statements are refuted in Lean (C19_filename_of_join_full_fails: Append(\"//\",\"b\") "
           "has file name \"//b\"; C19_split_rejoin_full_fails: re-joining \"/\" is refused) and the library agrees; "
           "the extension law needs e to be an extension in the library's sense (\"x.y\" is not: the new extension is \".y\")")
TRUSTED = ["model of std::experimental::filesystem::path (Op2Model/Path.lean) — validated exhaustively over small strings",
           "glibc C-locale tolower/toupper table (Op2Model/Str.lean) — validated over all 256 bytes"]
ASSUMPTIONS = ["std::sort returns a permutation of its input sorted w.r.t. the comparator (theorem covers every such result)"]

ALPHA = [b"a", b"A", b"b", b"B", b"1", b"_", b".", b"/"]

def strings(maxlen, alpha=ALPHA):
    out = [b""]
    for n in range(1, maxlen + 1):
        for t in itertools.product(alpha, repeat=n): out.append(b"".join(t))
    return out

def rand_str(rng, n):
    pool = [0x41, 0x61, 0x5A, 0x7A, 0x40, 0x5B, 0x60, 0x7B, 0x2E, 0x2F, 0x30, 0x5F, 0x80, 0xC8, 0xE9, 0xFF, 0x20]
    return bytes(rng.choice(pool) if rng.random() < 0.7 else rng.randrange(1, 256) for _ in range(n))

def swapcase(b): return bytes((c ^ 0x20) if (65 <= c <= 90 or 97 <= c <= 122) else c for c in b)

def cases(tier, rng):
    thorough = tier == "thorough"
    for b in range(256):
        yield Case(f"str.lower1 {b}", tag="ctype")
    small = strings(2)
    S = strings(3) if thorough else small
    # pairs: comparator laws + path equality (model correspondence; relational oracles below)
    for a in S:
        for b in S:
            yield Case(f"str.lt {hexs(a)} {hexs(b)}", tag="lt-pair")
            yield Case(f"str.eq {hexs(a)} {hexs(b)}", tag="eq-pair")
            yield Case(f"path.eq {hexs(a)} {hexs(b)}", tag="patheq-pair")
    # every byte value against its bit-neighbours (the other letter case lives at distance 0x20 — so does '[' from '{', '@' from
    # '`', 0xC1 from 0xE1, which are NOT equal ignoring case), in both argument orders, for the comparator, IsEqual and path equality
    for c in range(1, 256):
        for d in sorted({c ^ 0x20, c ^ 0x80, c ^ 0x01, (c + 1) & 255, (c + 0x20) & 255, (c - 0x20) & 255} - {0, c}):
            a = b"x" + bytes([c]); b = b"x" + bytes([d])
            if c < d or (d ^ 0x20) != c and (d ^ 0x80) != c and (d ^ 0x01) != c:      # each unordered pair once per direction
                yield Case(f"str.lt {hexs(a)} {hexs(b)}", tag="lt-pair")
                yield Case(f"str.lt {hexs(b)} {hexs(a)}", tag="lt-pair")
                yield Case(f"str.eq {hexs(a)} {hexs(b)}", tag="eq-pair")
                yield Case(f"str.eq {hexs(b)} {hexs(a)}", tag="eq-pair")
                yield Case(f"path.eq {hexs(a)} {hexs(b)}", tag="patheq-pair")
                yield Case(f"path.eq {hexs(b)} {hexs(a)}", tag="patheq-pair")
    yield from cmpfn_cases()
    # irreflexivity / reflexivity: direct oracles
    for a in strings(3):
        yield Case(f"str.lt {hexs(a)} {hexs(a)}", expect="0", tag="lt-irrefl")
        yield Case(f"str.eq {hexs(a)} {hexs(swapcase(a))}", expect="1", tag="eq-case")
        yield Case(f"path.eq {hexs(a)} {hexs(swapcase(a))}", expect="1", tag="patheq-case")
        if not a.startswith(b"/"):
            yield Case(f"path.eq {hexs(b'./' + a)} {hexs(a)}", expect="1", tag="patheq-dotslash")
        for c in ("path.filename", "path.ext", "path.dir", "path.hasroot"):
            yield Case(f"{c} {hexs(a)}", tag="path-unary")
    # every letter of the alphabet in both cases (an ASCII fold with an off-by-one at either end of a range shows on one letter only)
    for c in range(97, 123):
        lo = bytes([c]); up = bytes([c - 32])
        for a, b in ((lo, up), (b"d" + lo + b"/" + lo + up + b"." + lo, b"D" + up + b"/" + up + lo + b"." + up), (b"./" + lo, up)):
            yield Case(f"path.eq {hexs(a)} {hexs(b)}", expect="1", tag="patheq-every-letter")
            yield Case(f"path.eq {hexs(b)} {hexs(a)}", expect="1", tag="patheq-every-letter")
        yield Case(f"str.eq {hexs(lo + b'1' + up)} {hexs(up + b'1' + lo)}", expect="1", tag="eq-every-letter")
        yield Case(f"str.lt {hexs(lo)} {hexs(up)}", expect="0", tag="lt-every-letter")
        yield Case(f"str.lt {hexs(up)} {hexs(lo)}", expect="0", tag="lt-every-letter")
        yield Case(f"path.chextmatch {hexs(b'file.txt')} {hexs(b'b' + lo + b'2')} {hexs(b'B' + up + b'2')}", expect="1", tag="ext-every-letter")
        yield Case(f"path.chextmatch {hexs(b'file')} {hexs(b'.' + up)} {hexs(lo)}", expect="1", tag="ext-every-letter")
    # join / split / extension laws as direct oracles on the implementation
    plain = [s for s in strings(3, [b"a", b"B", b"1", b"_", b"."]) if s and s not in (b".", b"..")]
    reldirs = [d for d in strings(3, [b"a", b"B", b".", b"/"]) if not d.startswith(b"/")]
    for d in reldirs:
        for n in (plain if thorough else plain[:40]):
            # filename(append(d, n)) = n
            yield Case(f"path.fnappend {hexs(d)} {hexs(n)}", expect=hexs(n), tag="join-filename")
    for p in strings(4 if thorough else 3, [b"a", b"B", b".", b"/"]):
        # append(directory p, filename p) equals p   (paths whose file name is a real name)
        yield Case(f"path.rejoin {hexs(p)}", expect=(None if p.startswith(b"/") else "1"), tag="split-rejoin")
    exts = [b"x", b"X", b"xy", b"vol", b"Clm", b".x", b".Vo"]
    for f in plain:
        for e in exts:
            yield Case(f"path.chextmatch {hexs(f)} {hexs(e)} {hexs(swapcase(e))}", expect="1", tag="ext-replace")
            yield Case(f"path.chext {hexs(f)} {hexs(e)}", tag="ext-replace-corr")
    for a in small:
        for b in small:
            yield Case(f"path.append {hexs(a)} {hexs(b)}", tag="append")
            yield Case(f"path.extmatch {hexs(a)} {hexs(b)}", tag="extmatch")
    # random longer strings incl. bytes >= 0x80
    n = 4000 if thorough else 800
    for _ in range(n):
        a = rand_str(rng, rng.randrange(0, 12)); b = rand_str(rng, rng.randrange(0, 12))
        if rng.random() < 0.3: b = swapcase(a)
        if rng.random() < 0.2: b = a[: rng.randrange(0, len(a) + 1)]
        yield Case(f"str.lt {hexs(a)} {hexs(b)}", tag="lt-random")
        yield Case(f"str.eq {hexs(a)} {hexs(b)}", tag="eq-random")
        yield Case(f"str.upper {hexs(a)}", tag="upper-random")
    for _ in range(n // 4):
        k = rng.randrange(2, 9)
        xs = [rand_str(rng, rng.randrange(0, 6)) for _ in range(k)]
        # distinct ignoring case so that the sorted order is unique
        seen = set(); ys = []
        for x in xs:
            key = bytes(c + 32 if 65 <= c <= 90 else c for c in x)
            if key not in seen: seen.add(key); ys.append(x)
        yield Case("str.sort " + " ".join(hexs(y) for y in ys), tag="sort")
    # bits
    for k in range(32):
        yield Case(f"bits.pow2 {1 << k}", expect="1", tag="pow2")
        yield Case(f"bits.log2 {1 << k}", expect=str(k), tag="log2")
        for d in (-1, 1, 3):
            v = ((1 << k) + d) % (1 << 32)
            is_p = v != 0 and (v & (v - 1)) == 0
            yield Case(f"bits.pow2 {v}", expect="1" if is_p else "0", tag="pow2-near")
    for _ in range(2000):
        v = rng.randrange(1 << 32)
        yield Case(f"bits.pow2 {v}", expect="1" if (v & (v - 1)) == 0 and v else "0", tag="pow2-random")
    if thorough:
        yield Case("bits.pow2all", expect="0 0 32", tag="pow2-all-2^32", nomodel=True)

CMP_PATHS = [b"a", b"B", b"b", b"A1", b"d/a", b"zz/A", b"./b", b"x/y/B", b"zz/a.txt", b"B.TXT", b"m.txt", b"zz/M.TXT", b"a_b", b"d/aab",
             b"e/a_B", b"Zz", b"d/e/zz", b"./A1", b"k/", b"q/a[", b"a["]

def cmpfn_cases():
    """the relation the archives are sorted with, on PATHS (bare and directory-qualified mixed): it must order by the final
    component only"""
    for a in CMP_PATHS:
        for b in CMP_PATHS:
            yield Case(f"path.cmpfn {hexs(a)} {hexs(b)}", tag="cmpfn-pair")

def cmpfn_oracle(cases, outs):
    lt = {}; idx = {}
    for c, o in zip(cases, outs):
        if c.tag != "cmpfn-pair": continue
        p = c.line.split(); lt[(p[1], p[2])] = o; idx[(p[1], p[2])] = c
    names = sorted({a for a, _ in lt})
    def fn(h): return bytes.fromhex(h).rsplit(b"/", 1)[-1].lower() if h != "-" else b""
    for a in names:
        if lt.get((a, a)) == "1": yield idx[(a, a)], "1", f"comes-before is not irreflexive on {a}"
        for b in names:
            if lt.get((a, b)) == "1" and lt.get((b, a)) == "1": yield idx[(a, b)], "1", f"comes-before holds both ways on {a},{b}"
            inc = lt.get((a, b)) == "0" and lt.get((b, a)) == "0"
            if not a.endswith("2f") and not b.endswith("2f") and inc != (fn(a) == fn(b)):
                yield idx[(a, b)], lt.get((a, b)), f"incomparability of paths {a},{b} differs from equality of their file names ignoring case"
    for a in names:
        for b in names:
            if lt.get((a, b)) != "1": continue
            for c in names:
                if lt.get((b, c)) == "1" and lt.get((a, c)) != "1":
                    yield idx[(a, c)], lt.get((a, c)), f"comes-before not transitive on paths {a},{b},{c}"; return

def relational_oracles(cases, outs):
    """transitivity / symmetry over the exhaustive pair tables, evaluated on the implementation's answers only"""
    bad0 = list(cmpfn_oracle(cases, outs))[:3]
    if bad0: return bad0
    lt = {}; eq = {}; pe = {}
    idx = {}
    for c, o in zip(cases, outs):
        p = c.line.split()
        if c.tag == "lt-pair": lt[(p[1], p[2])] = o; idx[("lt", p[1], p[2])] = c
        elif c.tag == "eq-pair": eq[(p[1], p[2])] = o
        elif c.tag == "patheq-pair": pe[(p[1], p[2])] = o; idx[("pe", p[1], p[2])] = c
    names = sorted({a for a, _ in lt})
    bad = []
    for a in names:
        for b in names:
            l_ab = lt.get((a, b)); l_ba = lt.get((b, a))
            if l_ab is None or l_ba is None: continue
            inc = (l_ab == "0" and l_ba == "0")
            if inc != (eq.get((a, b)) == "1"):
                bad.append((idx[("lt", a, b)], l_ab, f"incomparability of {a},{b} differs from IsEqual")); break
            if pe.get((a, b)) != pe.get((b, a)):
                bad.append((idx[("pe", a, b)], pe.get((a, b)), f"PathsAreEqual not symmetric on {a},{b}")); break
            if eq.get((a, b)) == "1" and pe.get((a, b)) != "1":
                bad.append((idx[("pe", a, b)], pe.get((a, b)), f"PathsAreEqual does not contain IsEqual on {a},{b}")); break
        if len(bad) > 3: return bad
    # transitivity on a bounded number of triples (all triples over the short names)
    short = [n for n in names if len(n) <= 4]
    for a in short:
        for b in short:
            if lt.get((a, b)) != "1" and pe.get((a, b)) != "1": continue
            for c in short:
                # (pairs outside the exhaustive tables — the bit-neighbour pairs — are only judged where all three answers exist)
                if lt.get((a, b)) == "1" and lt.get((b, c)) == "1" and lt.get((a, c)) not in ("1", None):
                    bad.append((idx[("lt", a, c)], lt.get((a, c)), f"comes-before not transitive on {a},{b},{c}"))
                if pe.get((a, b)) == "1" and pe.get((b, c)) == "1" and pe.get((a, c)) not in ("1", None):
                    bad.append((idx[("pe", a, c)], pe.get((a, c)), f"PathsAreEqual not transitive on {a},{b},{c}"))
                if len(bad) > 3: return bad
    return bad
