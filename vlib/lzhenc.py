"""An independent LZH encoder (Python): LZSS tokens -> adaptive-Huffman bit stream, as the format is documented
(314 symbols = 256 literals + match lengths 3..60 as 256..313, 12-bit distance-1 with a variable-length code for the
upper six bits, MSB-first packing, zero padding).  Used to generate inputs whose payload is known."""

class Tree:
    """LZHUF-style adaptive Huffman tree (freq / prnt / son)"""
    def __init__(self, T=314):
        self.T = T; self.N = 2 * T - 1; self.R = self.N - 1
        N = self.N
        self.freq = [0] * (N + 1); self.prnt = [0] * (N + T); self.son = [0] * N
        for i in range(T):
            self.freq[i] = 1; self.son[i] = i + N; self.prnt[i + N] = i
        i = 0; j = T
        while j <= self.R:
            self.freq[j] = self.freq[i] + self.freq[i + 1]; self.son[j] = i
            self.prnt[i] = self.prnt[i + 1] = j
            i += 2; j += 1
        self.freq[N] = 1 << 40; self.prnt[self.R] = 0
    def full(self): return self.freq[self.R] >= 65535
    def code_bits(self, c):
        bits = []; k = self.prnt[c + self.N]
        while k != self.R:
            bits.append(k & 1); k = self.prnt[k]
        return bits[::-1]
    def update(self, c):
        freq, prnt, son, N = self.freq, self.prnt, self.son, self.N
        c = prnt[c + N]
        while True:
            freq[c] += 1; k = freq[c]
            l = c + 1
            if c != self.R and k > freq[l]:
                while k > freq[l + 1]: l += 1
                freq[c] = freq[l]; freq[l] = k
                i = son[c]; prnt[i] = l
                if i < N: prnt[i + 1] = l
                j = son[l]; son[l] = i
                prnt[j] = c
                if j < N: prnt[j + 1] = c
                son[c] = j
                c = l
            if c == self.R: break
            c = prnt[c]

def bits_of(k, v): return [(v >> (k - 1 - i)) & 1 for i in range(k)]

def offset_bits(off):
    up, lo = off >> 6, off & 63
    if up == 0: pre = bits_of(3, 0)
    elif up < 4: pre = bits_of(4, up + 1)
    elif up < 12: pre = bits_of(5, up + 6)
    elif up < 24: pre = bits_of(6, up + 24)
    elif up < 48: pre = bits_of(7, up + 72)
    else: pre = bits_of(8, up + 192)
    return pre + bits_of(6, lo)

def encode(tokens):
    """tokens: ('l', byte) | ('m', len, dist).  Returns (bytes, number of tokens encoded before the tree filled up)"""
    t = Tree(); bits = []; n = 0
    for tok in tokens:
        if t.full(): break
        if tok[0] == 'l':
            bits += t.code_bits(tok[1]); t.update(tok[1])
        else:
            c = tok[1] + 253
            bits += t.code_bits(c); t.update(c); bits += offset_bits(tok[2] - 1)
        n += 1
    out = bytearray()
    for i in range(0, len(bits), 8):
        chunk = bits[i:i + 8]; chunk += [0] * (8 - len(chunk))
        v = 0
        for b in chunk: v = (v << 1) | b
        out.append(v)
    return bytes(out), n

def expand(tokens):
    out = bytearray()
    for tok in tokens:
        if tok[0] == 'l': out.append(tok[1])
        else:
            for _ in range(tok[1]):
                d = tok[2]
                out.append(out[-d] if d <= len(out) else 32)
    return bytes(out)

def tokens_str(tokens):
    return ",".join(f"l{t[1]}" if t[0] == 'l' else f"m{t[1]}:{t[2]}" for t in tokens) or "-"

def greedy_tokens(payload, rng=None, max_dist=4096):
    """a simple LZSS tokeniser (longest match in the window, including the space pre-history)"""
    toks = []; i = 0; n = len(payload)
    hist = b" " * 4096 + payload
    while i < n:
        best = (0, 0); pos = i + 4096
        lo = max(0, pos - max_dist)
        # cheap search: look at a few candidate distances
        cands = set()
        key = hist[pos:pos + 3]
        j = hist.rfind(key, lo, pos + 2) if len(key) == 3 else -1
        tries = 0
        while j != -1 and j < pos and tries < 8:
            cands.add(pos - j); tries += 1
            j = hist.rfind(key, lo, j + 2) if j > lo else -1
        for d in cands:
            l = 0
            while l < 60 and i + l < n and hist[pos - d + l] == payload[i + l]: l += 1
            if l > best[0]: best = (l, d)
        if best[0] >= 3:
            toks.append(('m', best[0], best[1])); i += best[0]
        else:
            toks.append(('l', payload[i])); i += 1
    return toks
