#!/usr/bin/env python3
"""L2, guard-sequence fragment: the refusal conditions (`if (cond) throw …;`) of named functions, regenerated from
clang-14's typed JSON AST on every run.  Output: lean/Op2Model/Gen/Guards.lean (plug-in of extract/extract.py).

For every function F of GUARD_FUNCTIONS (Lean prefix `<Id>`):

  def <Id>_guards_translated : Bool        -- false = F left the fragment: dummy definitions, lemmas vacuous, tied by L3 only
  def <Id>_guard_count : Nat
  def <Id>_guard<k> (inputs… : Int) : Bool -- k-th `throw` in source order: the conjunction of the conditions under which
                                           --   control reaches it from the start of its scope (see below)
  def <Id>_refuses (inputs… : Int) : Bool  -- the disjunction of the guards' conditions (spelled out, not `guard0 || …`): the only
                                           --   definition lemmas should mention — its meaning does not change when guards are
                                           --   split, merged or reordered

RULES OF THE FRAGMENT
* A *guard* is a `throw` expression statement (or a call of a function listed in ALWAYS_THROW) lexically inside F or inside
  a file-local free function / lambda that F calls (those are inlined: parameters bound to the translated arguments).  Its
  condition is the conjunction of the `if` conditions around it and of the negations of the conditions under which an
  earlier `return` / `break` / `continue` of the same scope was taken.  Exceptions that propagate out of calls the fragment
  does not look into (other member functions, the standard library, stream I/O) are NOT part of `<Id>_refuses`.
* Scope = the function body, or ONE ITERATION of the innermost enclosing loop (`for` / range-`for` / `while` / `do`): every
  integer variable assigned in the loop (body, condition, increment) is an *input* at the head of the iteration, the loop
  condition is not assumed, and the conditions outside the loop are not conjoined.  After a loop such a variable is unknown.
* Integer definitions `T x = e;`, assignments, compound assignments and `++`/`--` on integer locals, on members of `this`
  and on scalar fields of parameter objects are tracked (substituted into later conditions; merged with `if c then a else b`
  after a two-armed `if`).  Integer semantics are those of extract/c2lean.py (`TrM`): every arithmetic node is reduced to the
  range of the C++ type clang assigned to it, conversions come from clang's implicit casts, comparisons / && / || / ! are
  Props.  New here: `<<`, `>>` on unsigned operands (`x * 2^k` reduced / `x / 2^k`; a shift count ≥ the width is a fault the
  fragment does not model), `sizeof(T)` for the records measured in Gen/Layout.lean, `sizeof e` of an integer expression,
  file-scope integer constants (their initialiser is translated), `std::numeric_limits<T>::max()`.
* *Inputs* are the values the fragment cannot see: integer parameters (`param<i>`), members, fields of objects, array /
  vector elements, results of calls (`x.size()`, `stream.Length()`, `ReadTag(TagVOL_)`), loop-carried locals.  Each is
  identified by a canonical access path computed from the AST (never from source text): `this.` for members, the *type*
  name for objects of a project record type (`MapHeader.lgWidthInTiles`, so renaming the local is harmless), the variable
  name (or `param<i>`) for standard-library objects, `[]` for any subscript / iterator dereference / range-`for` variable
  (the index expression is NOT tracked), reference locals resolved to what they are bound to.  The table maps paths
  (regular expressions) to the Lean parameter; the Lean signature is the table's, whatever the body does.  A condition that
  reads a path outside the table, or uses a node kind outside the fragment, makes the whole function fall back.
  Reading the same path twice is assumed to give the same value (no call in these functions changes the objects concerned
  between two guards).
* Statements the fragment does not understand are skipped when they contain no `throw`/`return`/`break` (integer variables
  they assign, or pass by reference, become inputs / unknown); otherwise the function falls back.
"""
import os, re, sys
sys.path.insert(0, os.path.dirname(os.path.dirname(os.path.abspath(__file__))))
from extract import c2lean
from extract.c2lean import TrM, ctype, is_int, strip, is_this, lname, ucast, dump_ast, TYPES, WRAPPERS

NI = NotImplementedError

# calls that never return (statement position): treated as `throw`
ALWAYS_THROW = {'throwReadError', 'ThrowReadError', 'abort', 'terminate'}
# member functions the target functions call on `this` in the pinned source: their exceptions are not part of F_refuses (they are
# modelled where they are defined); any OTHER member call on `this` is inlined (a helper split off by a refactoring)
OPAQUE_METHODS = {'ReadTag', 'ReadStringTable', 'CountValidEntries'}
# class / namespace constants measured by harness/drv/layout.cpp (name -> definition in Gen/Layout.lean)
LAYOUT_CONSTS = {'MinMapVersion': 'MinMapVersion'}

def G(id, tu, fn, inputs, sizeof=None, doc=''):
    """id: Lean prefix; tu: translation unit relative to src/; fn: qualified name (AST filter); inputs: [(lean name, [path regex, …])]
    in the order of the Lean signature; sizeof: last component of the type name -> definition in Gen/Layout.lean"""
    return dict(id=id, tu=tu, fn=fn, inputs=inputs, sizeof=sizeof or {}, doc=doc)

GUARD_FUNCTIONS = [
    G('ClmFile_PrepareIndex', 'Archive/ClmFile.cpp', 'ClmFile::PrepareIndex',
      [('offset', [r'offset']), ('dataLength', [r'param2\[\]\.dataLength', r'indexEntries\[\]\.dataLength'])],
      {'IndexEntry': 'size_ClmIndexEntry'}),
    G('ClmFile_CreateArchive', 'Archive/ClmFile.cpp', 'ClmFile::CreateArchive',
      [('nameSize', [r'names\[\]\.(size|length)\(\)'])], {'IndexEntry': 'size_ClmIndexEntry'}),
    G('VolFile_PrepareHeader', 'Archive/VolFile.cpp', 'VolFile::PrepareHeader',
      [('fileSize', [r'CreateVolumeInfo\.fileStreamReaders\[\]\.Length\(\)']),
       ('stringTableLength', [r'CreateVolumeInfo\.stringTableLength']),
       ('nameSize', [r'CreateVolumeInfo\.names\[\]\.(size|length)\(\)']),
       ('fileCount', [r'CreateVolumeInfo\.fileCount\(\)', r'CreateVolumeInfo\.(names|filesToPack|fileStreamReaders)\.size\(\)']),
       ('prevOffset', [r'CreateVolumeInfo\.indexEntries\[\]\.dataBlockOffset']),
       ('prevSize', [r'CreateVolumeInfo\.indexEntries\[\]\.fileSize']),
       ('entryCount', [r'CreateVolumeInfo\.indexEntries\.size\(\)'])],
      {'IndexEntry': 'size_VolIndexEntry', 'SectionHeader': 'size_VolSectionHeader'}),
    G('VolFile_ReadVolHeader', 'Archive/VolFile.cpp', 'VolFile::ReadVolHeader',
      [('fileLength', [r'this\.archiveFileReader\.Length\(\)']),
       ('headerLength', [r'this\.ReadTag\(TagVOL_\)']), ('volhLength', [r'this\.ReadTag\(TagVOLH\)']),
       ('stringTableLength', [r'this\.ReadTag\(TagVOLS\)']), ('indexTableLength', [r'this\.ReadTag\(TagVOLI\)'])],
      {'IndexEntry': 'size_VolIndexEntry', 'SectionHeader': 'size_VolSectionHeader'}),
    G('ArtFile_WriteFrame', 'Sprite/ArtWriter.cpp', 'ArtFile::WriteFrame',
      [('count', [r'Frame\.layerMetadata\.count']), ('layers', [r'Frame\.layers\.size\(\)'])]),
    G('ArtFile_ValidateImageMetadata', 'Sprite/ArtFile.cpp', 'ArtFile::ValidateImageMetadata',
      [('scanLineByteWidth', [r'this\.imageMetas\[\]\.scanLineByteWidth']), ('width', [r'this\.imageMetas\[\]\.width']),
       ('paletteIndex', [r'this\.imageMetas\[\]\.paletteIndex']), ('paletteCount', [r'this\.palettes\.size\(\)'])]),
    G('Map_ReadMapBeginning', 'Map/MapReader.cpp', 'Map::ReadMapBeginning',
      [('lgWidthInTiles', [r'MapHeader\.lgWidthInTiles']), ('heightInTiles', [r'MapHeader\.heightInTiles'])],
      {'MapHeader': 'size_MapHeader'}),
    G('Map_CheckMinVersionTag', 'Map/Map.cpp', 'Map::CheckMinVersionTag', [('versionTag', [r'param0'])]),
]

class Poison:
    def __init__(self, why): self.why = why

def type_short(node):
    """last component of a project record type, or None for standard-library / template / non-record types"""
    q = (node.get('type') or {}).get('qualType', '')
    q = re.sub(r'\b(const|struct|class|volatile)\b', '', q).replace('&', '').replace('*', '').strip()
    if not q or '<' in q or q.startswith('std::') or q.startswith('__') or '(' in q: return None
    return q.split('::')[-1].strip() or None

def contains(n, kinds):
    if not isinstance(n, dict): return False
    if n.get('kind') in kinds: return True
    return any(contains(c, kinds) for c in n.get('inner', []) or [])

def callee_decl(n):
    c = n['inner'][0]
    while c.get('kind') in ('ImplicitCastExpr', 'ParenExpr'): c = c['inner'][0]
    return c

class TrG(TrM):
    def __init__(self, spec, src_text, find_function, find_constant, find_method=None):
        self.find_method = find_method or (lambda name, nargs: None)
        super().__init__('', {}, dict(ins=[], outs=[], effects=[]), {}, src_text)
        self.g = spec
        self.table = [(name, [re.compile(p) for p in pats]) for name, pats in spec['inputs']]
        self.vals = {}; self.refs = {}; self.lambdas = {}
        self.pc = []; self.guards = []; self.used = set(); self.notes = []
        self.find_function, self.find_constant = find_function, find_constant
        self.depth = 0; self.saw_return = False

    # ---------- inputs ----------
    def input(self, key):
        for name, pats in self.table:
            if any(p.fullmatch(key) for p in pats):
                self.used.add(name); return 'in_' + lname(name)
        raise NI(f'a guard reads `{key}`, which is not among the declared inputs')
    def value(self, key):
        v = self.vals[key]
        if isinstance(v, Poison): raise NI(f'a guard reads `{key}`: {v.why}')
        if isinstance(v, tuple): return self.input(v[1])
        return v

    # ---------- canonical access paths ----------
    def apath(self, n):
        n = strip(n); k = n.get('kind')
        if k in ('ImplicitCastExpr', 'CXXStaticCastExpr', 'CStyleCastExpr', 'CXXConstCastExpr', 'CXXFunctionalCastExpr'):
            return self.apath(n['inner'][0])
        if k == 'CXXThisExpr': return 'this'
        if k == 'DeclRefExpr':
            name = n['referencedDecl']['name']
            if name in self.refs: return self.refs[name]
            return type_short(n) or name
        if k == 'MemberExpr': return self.apath(n['inner'][0]) + '.' + n['name']
        if k == 'ArraySubscriptExpr': return self.apath(n['inner'][0]) + '[]'
        if k == 'UnaryOperator' and n.get('opcode') in ('*', '&'): return self.apath(n['inner'][0]) + ('[]' if n['opcode'] == '*' and not is_this(n['inner'][0]) else '')
        if k == 'CXXOperatorCallExpr':
            op = callee_decl(n).get('referencedDecl', {}).get('name', '')
            if op == 'operator[]': return self.apath(n['inner'][1]) + '[]'
            if op == 'operator->': return self.apath(n['inner'][1])
            if op == 'operator*' and len(n['inner']) == 2: return self.apath(n['inner'][1]) + '[]'
            raise NI('path through ' + op)
        if k == 'CXXMemberCallExpr':
            callee = n['inner'][0]
            if callee.get('kind') != 'MemberExpr': raise NI('call through ' + callee.get('kind', '?'))
            m = callee['name']
            if m in ('at', 'front', 'back') : return self.apath(callee['inner'][0]) + '[]'
            if m in ('get',) and len(n['inner']) == 1: return self.apath(callee['inner'][0])
            return self.apath(callee['inner'][0]) + '.' + m + '(' + ','.join(self.arg_text(a) for a in n['inner'][1:]) + ')'
        if k == 'CallExpr':
            name = callee_decl(n).get('referencedDecl', {}).get('name', '?')
            return name + '(' + ','.join(self.arg_text(a) for a in n['inner'][1:]) + ')'
        raise NI('access path through ' + str(k))
    def arg_text(self, a):
        a = strip(a)
        while a.get('kind') in ('ImplicitCastExpr', 'CXXStaticCastExpr', 'CXXFunctionalCastExpr', 'CXXConstructExpr') and a.get('inner'): a = strip(a['inner'][0])
        if a.get('kind') == 'IntegerLiteral': return str(a['value'])
        if a.get('kind') == 'DeclRefExpr': return a['referencedDecl']['name']
        if a.get('kind') == 'CXXDefaultArgExpr': return ''
        try: return self.apath(a)
        except NI: return '?'

    # ---------- expressions ----------
    def constant(self, n):
        name = n['referencedDecl']['name']
        if name in LAYOUT_CONSTS:
            b, s = ctype(n); return ucast(b, s, f'(Op2.Gen.Layout.{LAYOUT_CONSTS[name]} : Int)')
        init = self.find_constant(name)
        if init is None: raise NI(f'constant {name}: no integer initialiser found in this translation unit')
        saved = (self.vals, self.refs); self.vals, self.refs = {}, {}
        try:
            b, s = ctype(n); return ucast(b, s, self.expr(init))
        finally: self.vals, self.refs = saved
    def expr(self, n):
        k = n['kind']
        if k == 'DeclRefExpr':
            ctype(n); rd = n['referencedDecl']; name = rd['name']
            if name in self.vals: return self.value(name)
            if name in self.refs: return self.input(self.refs[name])
            if rd.get('kind') == 'VarDecl': return self.constant(n)
            raise NI(f'reference to {rd.get("kind")} {name}')
        if k == 'MemberExpr':
            ctype(n); key = self.apath(n)
            if key in self.vals: return self.value(key)
            return self.input(key)
        if k in ('ArraySubscriptExpr',):
            ctype(n); return self.input(self.apath(n))
        if k == 'CXXMemberCallExpr':
            ctype(n); return self.input(self.apath(n))
        if k == 'CXXOperatorCallExpr':
            op = callee_decl(n).get('referencedDecl', {}).get('name', '')
            if op == 'operator()':
                obj = strip(n['inner'][1])
                while obj.get('kind') == 'ImplicitCastExpr': obj = strip(obj['inner'][0])
                lam = self.lambdas.get(obj.get('referencedDecl', {}).get('name')) if obj.get('kind') == 'DeclRefExpr' else None
                if lam is None: raise NI('call of a function object that is not a local lambda')
                return self.inline(lam, n['inner'][2:], True)
            ctype(n); return self.input(self.apath(n))
        if k == 'CallExpr':
            v = self.limits(n)
            if v is not None: return v
            cd = callee_decl(n); name = cd.get('referencedDecl', {}).get('name')
            if cd.get('kind') == 'DeclRefExpr' and cd['referencedDecl'].get('kind') == 'FunctionDecl':
                decl = self.find_function(name, len(n['inner']) - 1)
                if decl is not None: return self.inline(decl, n['inner'][1:], True)
            ctype(n); return self.input(self.apath(n))
        if k == 'UnaryExprOrTypeTraitExpr':
            if n.get('name') != 'sizeof': raise NI('type trait ' + str(n.get('name')))
            if 'argType' in n:
                t = re.sub(r'\b(const|struct|class)\b', '', n['argType'].get('qualType', '')).strip()
                q = n['argType'].get('desugaredQualType', t).replace('const ', '').strip()
                if q in TYPES: return f'({TYPES[q][0] // 8 if TYPES[q][0] > 1 else 1} : Int)'
                short = t.split('::')[-1].strip()
                if short in self.g['sizeof']: return f'(Op2.Gen.Layout.{self.g["sizeof"][short]} : Int)'
                raise NI(f'sizeof({t}) is not measured in Gen/Layout')
            a = strip(n['inner'][0])
            if is_int(a): return f'({max(ctype(a)[0] // 8, 1)} : Int)'
            short = type_short(a)
            if short in self.g['sizeof']: return f'(Op2.Gen.Layout.{self.g["sizeof"][short]} : Int)'
            raise NI('sizeof of an expression that is not an integer')
        if k == 'BinaryOperator' and n['opcode'] in ('<<', '>>'):
            b, s = ctype(n); l = self.expr(n['inner'][0]); r = self.expr(n['inner'][1])
            if s: raise NI('signed shift')
            if n['opcode'] == '<<': return ucast(b, s, f'({l} * 2 ^ ({r}).toNat)')
            return f'({l} / 2 ^ ({r}).toNat)'
        if k == 'BinaryOperator' and n['opcode'] == ',': raise NI('comma operator')
        if k == 'CXXBoolLiteralExpr' or k == 'IntegerLiteral' or k in WRAPPERS: return super().expr(n)
        if k == 'CharacterLiteral': return f'({n["value"]} : Int)'
        if k in ('ImplicitCastExpr', 'CXXStaticCastExpr', 'CStyleCastExpr', 'CXXFunctionalCastExpr', 'UnaryOperator',
                 'BinaryOperator', 'ConditionalOperator'): return super().expr(n)
        raise NI('expr ' + k)
    def inlinable(self, n):
        """(definition, arguments) when `n` calls a local lambda or a free function defined in this translation unit's own file"""
        k = n.get('kind')
        if k == 'CXXOperatorCallExpr' and callee_decl(n).get('referencedDecl', {}).get('name') == 'operator()':
            obj = strip(n['inner'][1])
            while obj.get('kind') == 'ImplicitCastExpr': obj = strip(obj['inner'][0])
            lam = self.lambdas.get(obj.get('referencedDecl', {}).get('name')) if obj.get('kind') == 'DeclRefExpr' else None
            return (lam, n['inner'][2:]) if lam is not None else None
        if k == 'CallExpr':
            cd = callee_decl(n)
            if cd.get('kind') == 'DeclRefExpr' and cd['referencedDecl'].get('kind') == 'FunctionDecl':
                decl = self.find_function(cd['referencedDecl'].get('name'), len(n['inner']) - 1)
                if decl is not None: return decl, n['inner'][1:]
        return None
    def cond(self, n):
        k = n['kind']
        if k in ('CXXOperatorCallExpr', 'CallExpr') and is_int(n) and ctype(n) == (1, False):
            hit = self.inlinable(n)
            if hit: return self.inline(hit[0], hit[1], 'cond')      # a predicate: its returned condition, as a Prop
        if k in ('CXXOperatorCallExpr', 'CallExpr', 'CXXMemberCallExpr') and is_int(n) and ctype(n) == (1, False):
            return f'({self.expr(n)} ≠ 0)'
        return super().cond(n)

    # ---------- inlining of file-local functions and lambdas ----------
    def inline(self, decl, args, want_value):
        """decl: FunctionDecl / the lambda's operator() (with ParmVarDecl and CompoundStmt children)"""
        if self.depth >= 4: raise NI('inlining deeper than 4 calls')
        params = [c for c in decl.get('inner', []) if c.get('kind') == 'ParmVarDecl']
        body = [c for c in decl.get('inner', []) if c.get('kind') == 'CompoundStmt']
        args = [a for a in args if strip(a).get('kind') != 'CXXDefaultArgExpr']
        if not body or len(params) < len(args): raise NI('cannot inline ' + decl.get('name', '?'))
        bound_v = {}; bound_r = {}
        for p, a in zip(params, args):
            q = p.get('type', {}).get('qualType', '')
            if is_int(p):
                if q.rstrip().endswith('&') and 'const' not in q: raise NI('inlined function takes an integer by non-const reference')
                try: bound_v[p['name']] = self.expr(strip(a))
                except NI as e: bound_v[p['name']] = Poison(str(e))
            else:
                try: bound_r[p['name']] = self.apath(a)
                except NI: pass
        for p in params[len(args):]: bound_v[p.get('name', '_')] = Poison('defaulted parameter')
        is_lambda = decl.get('name') == 'operator()'
        saved = (self.vals, self.refs, self.saw_return)
        # a lambda sees the enclosing variables (captures); a free function does not
        self.vals = dict(self.vals if is_lambda else {k: v for k, v in self.vals.items() if '.' in k}); self.vals.update(bound_v)
        self.refs = dict(self.refs if is_lambda else {}); self.refs.update(bound_r)
        self.saw_return = False; self.depth += 1
        try:
            ss = list(body[0].get('inner', []))
            ret = None
            if ss and strip(ss[-1]).get('kind') == 'ReturnStmt' and strip(ss[-1]).get('inner'):
                ret = strip(ss[-1])['inner'][0]; ss = ss[:-1]
            if is_lambda and self.assigned_in(ss): raise NI('a lambda that assigns to variables')
            pc0 = list(self.pc)
            ft = self.walk(ss)
            early = self.saw_return
            if want_value:
                if early: raise NI('value of a function with more than one return')
                if ret is None: raise NI('value of a function without a final return')
                v = self.cond(strip(ret)) if want_value == 'cond' else self.cond_or_expr(ret)
            else: v = None
            self.pc = pc0
            return v if want_value else ('True' if early else ft)
        finally:
            self.vals, self.refs, self.saw_return = saved; self.depth -= 1
    def cond_or_expr(self, n):
        n0 = strip(n)
        if is_int(n0): return self.expr(n0)
        raise NI('inlined function returns a non-integer')

    # ---------- statements ----------
    def key_of(self, lhs):
        """tracked place (integer local, member of this, scalar field of an object) -> key, or None for array elements etc."""
        lhs = strip(lhs)
        if not is_int(lhs): return None
        if lhs['kind'] == 'DeclRefExpr':
            name = lhs['referencedDecl']['name']
            return None if name in self.refs else name
        if lhs['kind'] == 'MemberExpr':
            try: p = self.apath(lhs)
            except NI: return None
            return None if '[]' in p or '(' in p else p
        return None
    def assigned_in(self, nodes):
        out = set()
        def rec(n):
            if not isinstance(n, dict): return
            k = n.get('kind')
            if k == 'CXXThrowExpr' or k == 'LambdaExpr': return
            if (k == 'BinaryOperator' and n.get('opcode') == '=') or k == 'CompoundAssignOperator' or \
               (k == 'UnaryOperator' and n.get('opcode') in ('++', '--')):
                key = self.key_of(n['inner'][0])
                if key: out.add(key)
            if k in ('CallExpr', 'CXXMemberCallExpr', 'CXXOperatorCallExpr', 'CXXConstructExpr'):
                for a in n.get('inner', [])[1 if k != 'CXXConstructExpr' else 0:]:
                    key = self.byref_key(a)
                    if key: out.add(key)
            for c in n.get('inner', []) or []: rec(c)
        for n in nodes: rec(n)
        return out
    def byref_key(self, a):
        a = strip(a)
        if a.get('kind') == 'UnaryOperator' and a.get('opcode') == '&': a = strip(a['inner'][0])
        if a.get('kind') in ('DeclRefExpr', 'MemberExpr') and a.get('valueCategory') == 'lvalue' and is_int(a):
            q = a.get('type', {}).get('qualType', '')
            if q.startswith('const '): return None
            return self.key_of(a)
        return None
    def lazy(self, f):
        try: return f()
        except NI as e: return Poison(str(e))
    def set_input(self, key): self.vals[key] = ('input', key)
    def add_guard(self, n):
        line = (n.get('range', {}).get('begin', {}) or {}).get('line')
        self.guards.append((' ∧ '.join(self.pc) if self.pc else 'True', line))
    def opaque(self, n):
        """an expression / statement the fragment does not interpret"""
        if contains(n, ('CXXThrowExpr',)): raise NI('a throw inside ' + n.get('kind', '?'))
        for key in self.assigned_in([n]): self.set_input(key) if '.' not in key and key not in self.top_params else self.vals.__setitem__(key, Poison('changed by a statement outside the fragment'))
    def walk(self, ss):
        """walks a statement list under self.pc; returns the condition (relative to the entry) under which control reaches the end"""
        added = []
        def result():
            return 'True' if not added else '(' + ' ∧ '.join(added) + ')'
        for s in ss:
            ft = self.stmt(s)
            if ft == 'False':
                self.pc = self.pc[:len(self.pc) - len(added)]; return 'False'
            if ft != 'True': added.append(ft); self.pc.append(ft)
        r = result()
        self.pc = self.pc[:len(self.pc) - len(added)]
        return r
    def stmt(self, s):
        if not isinstance(s, dict) or 'kind' not in s: return 'True'
        if s.get('kind') != 'CompoundStmt': s = strip(s)
        k = s['kind']
        if k == 'CompoundStmt': return self.walk(s.get('inner', []))
        if k == 'NullStmt': return 'True'
        if k == 'CXXThrowExpr': self.add_guard(s); return 'False'
        if k == 'ReturnStmt':
            if s.get('inner'): self.opaque(s['inner'][0])
            self.saw_return = True; return 'False'
        if k in ('BreakStmt', 'ContinueStmt'): return 'False'
        if k == 'DeclStmt':
            for v in s.get('inner', []):
                if v.get('kind') != 'VarDecl': continue
                name = v['name']; init = v['inner'][0] if v.get('inner') else None
                self.vals.pop(name, None); self.refs.pop(name, None); self.lambdas.pop(name, None)
                if init is not None and contains(init, ('CXXThrowExpr',)) and not contains(init, ('LambdaExpr',)): raise NI('a throw inside an initialiser')
                i0 = strip(init) if init is not None else None
                while i0 is not None and i0.get('kind') in ('CXXConstructExpr', 'ImplicitCastExpr') and len(i0.get('inner', [])) == 1 and not is_int(v): i0 = strip(i0['inner'][0])
                if i0 is not None and i0.get('kind') == 'LambdaExpr':
                    ops = [m for c in i0.get('inner', []) if c.get('kind') == 'CXXRecordDecl' for m in c.get('inner', [])
                           if m.get('kind') == 'CXXMethodDecl' and m.get('name') == 'operator()']
                    if ops: self.lambdas[name] = ops[0]; continue
                    raise NI('lambda without a call operator')
                if init is not None and contains(init, ('LambdaExpr',)) and contains(init, ('CXXThrowExpr',)): raise NI('a throw inside a lambda that is not a plain local')
                q = v.get('type', {}).get('qualType', '')
                if is_int(v) and not q.rstrip().endswith('&'):
                    if init is None: self.set_input(name)
                    else:
                        for key in self.assigned_in([init]): self.set_input(key)
                        self.vals[name] = self.lazy(lambda: self.expr(init))
                elif init is not None:
                    for key in self.assigned_in([init]): self.set_input(key)
                    if q.rstrip().endswith('&') or q.rstrip().endswith('*'):
                        try: self.refs[name] = self.apath(init)
                        except NI: pass
            return 'True'
        if k == 'IfStmt':
            if s.get('hasInit') or s.get('hasVar'): raise NI('if with initialiser')
            for key in self.assigned_in([s['inner'][0]]): self.set_input(key)
            has_exit = contains(s, ('CXXThrowExpr', 'ReturnStmt', 'BreakStmt', 'ContinueStmt')) or self.calls_inlinable(s)
            try: c = self.cond(s['inner'][0])
            except NI:
                if has_exit: raise
                self.opaque(s); return 'True'
            th = s['inner'][1]; el = s['inner'][2] if len(s['inner']) > 2 else None
            v0 = dict(self.vals); r0 = dict(self.refs)
            self.pc.append(c); ft_t = self.walk([th]); self.pc.pop(); v_t = self.vals
            self.vals = dict(v0); self.refs = dict(r0)
            self.pc.append(f'(¬ {c})'); ft_e = self.walk([el]) if el else 'True'; self.pc.pop(); v_e = self.vals
            self.refs = r0
            if ft_t == 'False' and ft_e == 'False': self.vals = v0; return 'False'
            if ft_t == 'False': self.vals = v_e; return f'(¬ {c})' if ft_e == 'True' else f'((¬ {c}) ∧ {ft_e})'
            if ft_e == 'False': self.vals = v_t; return c if ft_t == 'True' else f'({c} ∧ {ft_t})'
            merged = {}
            for key in set(v_t) | set(v_e):
                a, b = v_t.get(key), v_e.get(key)
                if a is None or b is None: merged[key] = a if b is None else b      # declared inside one arm: out of scope anyway
                elif a == b or (isinstance(a, tuple) and a == b): merged[key] = a
                elif isinstance(a, Poison) or isinstance(b, Poison): merged[key] = a if isinstance(a, Poison) else b
                else:
                    try: merged[key] = f'(if {c} then {self.resolve(a)} else {self.resolve(b)})'
                    except NI as e: merged[key] = Poison(str(e))
            self.vals = merged
            if ft_t == 'True' and ft_e == 'True': return 'True'
            return f'(({c} ∧ {ft_t}) ∨ ((¬ {c}) ∧ {ft_e}))'
        if k in ('ForStmt', 'WhileStmt', 'DoStmt', 'CXXForRangeStmt'): return self.loop(s)
        if k == 'BinaryOperator' and s['opcode'] == '=':
            key = self.key_of(s['inner'][0])
            for k2 in self.assigned_in([s['inner'][1]]): self.set_input(k2)
            if contains(s['inner'][1], ('CXXThrowExpr',)): raise NI('a throw inside an expression')
            if key: self.vals[key] = self.lazy(lambda: self.expr(s['inner'][1]))
            return 'True'
        if k == 'CompoundAssignOperator':
            key = self.key_of(s['inner'][0])
            if key:
                def f():
                    op = s['opcode'][:-1]
                    if op not in ('+', '-', '*'): raise NI('compound assignment ' + s['opcode'])
                    def ty(kk):
                        q = s[kk].get('desugaredQualType', s[kk].get('qualType', '')).replace('const ', '').strip()
                        if q not in TYPES: raise NI('type ' + q)
                        return TYPES[q]
                    cb, cs = ty('computeResultType'); lb, ls = ctype(s)
                    l = self.expr(s['inner'][0])
                    if ty('computeLHSType') != (lb, ls): l = ucast(*ty('computeLHSType'), l)
                    v = ucast(cb, cs, f'({l} {op} {self.expr(s["inner"][1])})')
                    return ucast(lb, ls, v) if (cb, cs) != (lb, ls) else v
                self.vals[key] = self.lazy(f)
            return 'True'
        if k == 'UnaryOperator' and s['opcode'] in ('++', '--'):
            key = self.key_of(s['inner'][0])
            if key:
                b, sg = ctype(s)
                self.vals[key] = self.lazy(lambda: ucast(b, sg, f'({self.expr(s["inner"][0])} {s["opcode"][0]} 1)'))
            return 'True'
        if k in ('CallExpr', 'CXXOperatorCallExpr', 'CXXMemberCallExpr'):
            cd = callee_decl(s); name = (cd.get('referencedDecl') or {}).get('name') or cd.get('name')
            if name in ALWAYS_THROW: self.add_guard(s); return 'False'
            decl = None
            if k == 'CallExpr' and cd.get('kind') == 'DeclRefExpr' and cd['referencedDecl'].get('kind') == 'FunctionDecl':
                decl = self.find_function(name, len(s['inner']) - 1); args = s['inner'][1:]
            if k == 'CXXOperatorCallExpr' and name == 'operator()':
                obj = strip(s['inner'][1])
                while obj.get('kind') == 'ImplicitCastExpr': obj = strip(obj['inner'][0])
                if obj.get('kind') == 'DeclRefExpr': decl = self.lambdas.get(obj['referencedDecl']['name']); args = s['inner'][2:]
            if k == 'CXXMemberCallExpr' and cd.get('kind') == 'MemberExpr' and name not in OPAQUE_METHODS:
                # a call of another member function of the same object, defined in this translation unit, that the pinned
                # source did not make: a helper split off by a refactoring - its guards are still F's guards
                obj = cd['inner'][0] if cd.get('inner') else {}
                while obj.get('kind') in ('ImplicitCastExpr', 'ParenExpr'): obj = obj['inner'][0]
                if obj.get('kind') == 'CXXThisExpr':
                    decl = self.find_method(name, len(s['inner']) - 1); args = s['inner'][1:]
                    if decl is None and name and not name.startswith('operator'): raise NI('call of member function ' + name + ' whose body is not in this translation unit')
            if decl is not None: return self.inline(decl, args, False)
            self.opaque(s); return 'True'
        if k in ('SwitchStmt', 'CXXTryStmt', 'GotoStmt', 'LabelStmt', 'CaseStmt', 'DefaultStmt'):
            if contains(s, ('CXXThrowExpr', 'ReturnStmt')) or self.calls_inlinable(s): raise NI('a throw / return inside ' + k)
            self.opaque(s); return 'True'
        self.opaque(s); return 'True'
    def calls_inlinable(self, n):
        """does the subtree call a local lambda or a file-local function (whose body may throw)?"""
        if not isinstance(n, dict): return False
        k = n.get('kind')
        if k in ('CallExpr', 'CXXOperatorCallExpr'):
            cd = callee_decl(n); rd = cd.get('referencedDecl') or {}
            if k == 'CallExpr' and rd.get('kind') == 'FunctionDecl' and (rd.get('name') in ALWAYS_THROW or self.find_function(rd.get('name'), len(n['inner']) - 1) is not None): return True
            if rd.get('name') == 'operator()': return True
        return any(self.calls_inlinable(c) for c in n.get('inner', []) or [])
    def resolve(self, v):
        if isinstance(v, Poison): raise NI(v.why)
        return self.input(v[1]) if isinstance(v, tuple) else v
    def loop(self, s):
        k = s['kind']; inner = s.get('inner', [])
        if k == 'ForStmt': init, cond, inc, body = inner[0], inner[2], inner[3], inner[4]
        elif k == 'WhileStmt': init, cond, inc, body = None, inner[-2], None, inner[-1]
        elif k == 'DoStmt': init, cond, inc, body = None, inner[1], None, inner[0]
        else:
            init = inner[0] if inner[0] and inner[0].get('kind') else None
            cond = inc = None; body = inner[-1]
        if init is not None and init.get('kind'): self.stmt(init)
        rv = None
        if k == 'CXXForRangeStmt':
            rng = [v for d in inner[:-2] if isinstance(d, dict) and d.get('kind') == 'DeclStmt' for v in d.get('inner', [])
                   if v.get('kind') == 'VarDecl' and v.get('name', '').startswith('__range')]
            var = [v for v in inner[-2].get('inner', []) if v.get('kind') == 'VarDecl']
            if not rng or not var: raise NI('range-for of an unexpected shape')
            rv = var[0]['name']; self.vals.pop(rv, None)
            try: self.refs[rv] = self.apath(rng[0]['inner'][0]) + '[]'
            except NI as e:
                self.refs.pop(rv, None); self.vals[rv] = Poison(str(e))
        parts = [p for p in (cond, inc, body) if isinstance(p, dict) and p.get('kind')]
        assigned = self.assigned_in(parts)
        for key in assigned: self.set_input(key)
        saved_pc = self.pc; self.pc = []
        saw = self.saw_return
        try:
            if k == 'DoStmt': self.walk([body])
            else: self.walk([body])
        finally:
            self.pc = saved_pc
        self.saw_return = saw          # a return inside a loop does not end the scope for the code after the loop (over-approximation)
        for key in assigned: self.vals[key] = Poison('assigned in a loop; its value after the loop is outside the fragment')
        return 'True'

    def function(self, decl):
        params = [c for c in decl.get('inner', []) if c['kind'] == 'ParmVarDecl']
        self.top_params = set()
        for i, p in enumerate(params):
            name = p.get('name')
            if not name: continue
            if is_int(p) and not p.get('type', {}).get('qualType', '').rstrip().endswith('&'):
                self.vals[name] = ('input', f'param{i}'); self.top_params.add(name)
            elif is_int(p): self.vals[name] = ('input', f'param{i}'); self.top_params.add(name)
            elif type_short(p) is None: self.refs[name] = f'param{i}' if False else name
        body = [c for c in decl.get('inner', []) if c['kind'] == 'CompoundStmt']
        if not body: raise NI('no body')
        self.walk(body)
        return self.guards

PRELUDE = """-- GENERATED by extract/gen_guards.py (guard-sequence fragment) from the clang-14 typed AST of the current sources; do not edit
import Op2Model.Gen.Formulas
/-!
Refusal conditions of functions that contain I/O and loops: one definition per `throw` (the condition under which control
reaches it within its scope: the function body, or one iteration of the enclosing loop) and their disjunction `<F>_refuses`.
Inputs (`in_…`) are the values the fragment cannot see, identified by access paths of the AST; the signature is fixed by the
table in extract/gen_guards.py.  Unsigned nodes are reduced modulo 2^width where clang's typed AST says so.
`<F>_guards_translated = false`: the function left the fragment; the definitions are dummies and every lemma about them is vacuous.
-/
set_option linter.unusedVariables false
namespace Op2.Gen.Guards
open Op2.Gen.Formulas
"""

def main_file_functions(objs, name, nargs):
    """FunctionDecl (free function) with a body and `nargs` or more parameters, defined in the translation unit's own file"""
    for o in objs:
        stack = [o]
        while stack:
            n = stack.pop()
            if not isinstance(n, dict): continue
            if n.get('kind') == 'FunctionDecl' and n.get('name') == name and any(c.get('kind') == 'CompoundStmt' for c in n.get('inner', [])):
                np = len([c for c in n['inner'] if c.get('kind') == 'ParmVarDecl'])
                inc = (n.get('loc') or {}).get('includedFrom') or ((n.get('range') or {}).get('begin') or {}).get('includedFrom')
                if np >= nargs and not inc: return n
            if n.get('kind') in ('NamespaceDecl', 'TranslationUnitDecl', 'LinkageSpecDecl'): stack.extend(n.get('inner', []))
    return None

def find_decl(objs, qualified):
    cls, _, fn = qualified.rpartition('::')
    best = None
    def rec(n):
        nonlocal best
        if not isinstance(n, dict): return
        if n.get('kind') in ('CXXMethodDecl', 'FunctionDecl', 'CXXConstructorDecl') and n.get('name') == fn and \
           any(c.get('kind') == 'CompoundStmt' for c in n.get('inner', [])):
            if best is None: best = n
            return
        if n.get('kind') in ('NamespaceDecl', 'TranslationUnitDecl', 'CXXRecordDecl', 'LinkageSpecDecl'):
            for c in n.get('inner', []): rec(c)
    for o in objs: rec(o)
    return best

def generate(repo):
    """plug-in entry point: (file name under Gen/, text, fallbacks)"""
    from concurrent.futures import ThreadPoolExecutor
    def load(g): return dump_ast(repo, g['fn'], path=repo + '/src/' + g['tu'])
    with ThreadPoolExecutor(4) as ex: dumps = list(ex.map(load, GUARD_FUNCTIONS))
    out = [PRELUDE]; fallback = []
    cache = {}
    for g, (objs, err) in zip(GUARD_FUNCTIONS, dumps):
        tu = repo + '/src/' + g['tu']
        ins = ['in_' + lname(n) for n, _ in g['inputs']]
        sig = ' '.join(ins)
        def lazy_dump(name):
            if (tu, name) not in cache: cache[(tu, name)] = dump_ast(repo, name, path=tu)[0]
            return cache[(tu, name)]
        def find_function(name, nargs):
            if not name or not re.fullmatch(r'[A-Za-z_]\w*', name) or name in ('memcpy', 'memcmp', 'strncpy', 'move', 'forward', 'min', 'max', 'to_string', 'make_unique', 'sort'): return None
            return main_file_functions(lazy_dump(name), name, nargs)
        def find_constant(name):
            for o in lazy_dump(name):
                stack = [o]
                while stack:
                    n = stack.pop()
                    if not isinstance(n, dict): continue
                    if n.get('kind') == 'VarDecl' and n.get('name') == name and n.get('inner') and is_int(n):
                        init = [c for c in n['inner'] if c.get('kind') and not c['kind'].endswith('Attr')]
                        if init: return init[-1]
                    if n.get('kind') in ('NamespaceDecl', 'TranslationUnitDecl', 'CXXRecordDecl', 'LinkageSpecDecl'): stack.extend(n.get('inner', []))
            return None
        try:
            try:
                with open(tu, encoding='utf-8', errors='replace') as f: src_text = {g['tu']: f.read()}
            except OSError: src_text = {}
            decl = find_decl(objs, g['fn'])
            if decl is None: raise NI('no definition found' + ('' if objs else ' (clang: ' + err.strip()[-200:] + ')'))
            def find_method(name, nargs):
                """CXXMethodDecl with a body, defined in the translation unit's own file (out-of-line member definition)"""
                if not name or not re.fullmatch(r'[A-Za-z_]\w*', name): return None
                best = None
                def rec(n):
                    nonlocal best
                    if not isinstance(n, dict) or best is not None: return
                    if n.get('kind') == 'CXXMethodDecl' and n.get('name') == name and any(c.get('kind') == 'CompoundStmt' for c in n.get('inner', [])):
                        np = len([c for c in n['inner'] if c.get('kind') == 'ParmVarDecl'])
                        inc = (n.get('loc') or {}).get('includedFrom') or ((n.get('range') or {}).get('begin') or {}).get('includedFrom')
                        if np >= nargs and not inc: best = n; return
                    if n.get('kind') in ('NamespaceDecl', 'TranslationUnitDecl', 'CXXRecordDecl', 'LinkageSpecDecl'):
                        for c in n.get('inner', []): rec(c)
                for o in lazy_dump(name): rec(o)
                return best
            tr = TrG(g, src_text, find_function, find_constant, find_method)
            guards = tr.function(decl)
            lines = [f'def {g["id"]}_guards_translated : Bool := true', f'def {g["id"]}_guard_count : Nat := {len(guards)}']
            for i, (c, line) in enumerate(guards):
                lines.append(f'/-- `{g["fn"]}` ({g["tu"]}), throw no. {i} in source order: it is reached (within its scope) when … -/')
                lines.append(f'def {g["id"]}_guard{i} ({sig} : Int) : Bool :=\n  decide ({c})')
            # the conditions are repeated (not `guard<k> …`), so that a proof can unfold `_refuses` without naming the guards
            dis = ' ||\n  '.join(f'decide ({c})' for c, _ in guards) or 'false'
            unused = [n for n, _ in g['inputs'] if n not in tr.used]
            lines.append(f'/-- `{g["fn"]}` refuses (one of its {len(guards)} throw statements is reached within its scope)'
                         + (f'; inputs no guard reads: {", ".join(unused)}' if unused else '') + ' -/')
            lines.append(f'def {g["id"]}_refuses ({sig} : Int) : Bool :=\n  {dis}')
            out.append('\n'.join(lines) + '\n')
        except Exception as e:
            why = str(e) if isinstance(e, NI) else f'{type(e).__name__}: {e}'
            why = why.replace('\n', ' ')
            fallback.append(f'guards of {g["fn"]}: {why}')
            blanks = ' '.join('_' for _ in ins)
            out.append(f'-- {g["fn"]}: outside the guard fragment ({why}); tied by correspondence (L3) only\n'
                       f'def {g["id"]}_guards_translated : Bool := false\ndef {g["id"]}_guard_count : Nat := 0\n'
                       f'def {g["id"]}_refuses ({blanks} : Int) : Bool := false\n')
    out.append('end Op2.Gen.Guards\n')
    return 'Guards.lean', '\n'.join(out), fallback

if __name__ == '__main__':
    name, txt, fb = generate(sys.argv[1] if len(sys.argv) > 1 else '/repo')
    print(txt); print(fb, file=sys.stderr)
