#!/usr/bin/env python3
"""L2 generator plug-in: the *validation* functions the bitmap / tileset properties (C08, C09, C11) rest on, translated from
the clang-14 typed AST of the current sources into lean/Op2Model/Gen/Validate.lean.

For every function of TABLE

    def <Lean name>_translated : Bool                                 -- false = outside the fragment (tied by L3 only)
    def <Lean name> (inputs… arguments… : Int) : Option Unit | Option Int   -- none = the function throws

The signature is fixed by the table (declared inputs = the fields the function may read, number of integer arguments, kind of
result), never by the body, so a bridging lemma keeps type-checking whatever the source does; a body that leaves the
fragment, or reads a field that is not declared, gives `_translated := false` and `none` as a dummy body.

Fragment (on top of the expression fragment of c2lean.TrM, which this module reuses):
  * `throw …` is `none`; nothing inside the throw expression is looked at (messages, std::to_string, concatenation);
    calls of the helpers in ALWAYS_THROWS count as throws;
  * fields are *paths*: `bitCount`, `sectionHead.length` (of `this`), `arg0.imageHeader.height` (of the first parameter when
    it is an object); a `Tag` field is four inputs `<path>_0 … <path>_3` (its characters);
  * class / namespace / local constants are resolved through their initialisers in the AST (`DefaultPlanes`,
    `DefaultPixelHeightMultiple = DefaultPixelWidth`, …); `Tag` constants through the string literal they are built from;
    `sizeof(T)` is evaluated by clang itself (an enumerator `= sizeof(T)` appended to the unit, read back from the AST);
  * calls: a callee whose body is one `return e;` is substituted as an expression (also lambdas); any other callee (a function
    of TABLE or any helper of the same unit, found through the AST) is *inlined*: its statements are translated in place, with
    the rest of the caller continued at each of its return points, its parameters and locals renamed apart (`…_i<n>`) — the
    result is one flat tree of `if`s whatever the way the source is cut into functions (composition with `Option.bind` made
    `simp` take minutes on `ImageHeader::Validate`).  A call with statements is refused inside the right operand of && / ||
    and inside ?:, where lifting it to the statement would change what is evaluated; calls into Gen/Formulas.lean (EXTERNAL)
    are used as they are there;
  * `std::find(A.begin(), A.end(), v) != A.end()` over a constant array, `switch` with terminated groups, `std::abs`,
    `<<` `>>`, signed `%` and `&`, scalar `T{e}`.
The generated file ends with the tactics `gen_validate_unfold (at loc)?` / `gen_validate_simp [extra lemmas] (at loc)?` = `simp only` with *every* definition
of the file (whatever helpers this run produced), so that bridging proofs do not depend on how the source is cut into functions.
"""
import json, os, re, subprocess, sys
from concurrent.futures import ThreadPoolExecutor
if __name__ == '__main__': sys.path.insert(0, os.path.dirname(os.path.dirname(os.path.abspath(__file__))))
from extract.c2lean import TrM, strip, is_this, is_int, ctype, ucast, lname, dump_ast, WRAPPERS, BASE_CASTS

# ---------------------------------------------------------------------------------------------------------- tables
# unit -> (translation unit relative to src/, AST filter)
UNITS = {
    'ImageHeader':   ('Bitmap/ImageHeader.cpp', 'ImageHeader'),
    'BitmapFile':    ('Bitmap/BitmapFile.cpp', 'BitmapFile'),
    'TilesetHeader': ('Sprite/TilesetHeaders.cpp', 'TilesetHeader'),
    'PpalHeader':    ('Sprite/TilesetHeaders.cpp', 'PpalHeader'),
    'Tileset':       ('Sprite/TilesetLoader.cpp', 'ValidateTileset'),
}

def V(unit, fn, np, lean, ins, nargs, ret):
    """unit, C++ name, number of parameters (of any type), Lean name, declared inputs (paths; `path:tag` = a Tag),
    number of integer parameters, result ('unit' = void, 'int' = integer / bool)"""
    return dict(unit=unit, fn=fn, np=np, lean=lean, ins=list(ins), nargs=nargs, ret=ret)

IH = ['headerSize', 'width', 'height', 'planes', 'bitCount', 'usedColorMapEntries', 'importantColorCount']
TABLE = [   # in dependency order
    V('ImageHeader', 'IsValidBitCount', 1, 'ImageHeader_IsValidBitCount', [], 1, 'int'),
    V('ImageHeader', 'IsIndexedImage', 1, 'ImageHeader_IsIndexedImage', [], 1, 'int'),
    V('ImageHeader', 'VerifyValidBitCount', 1, 'ImageHeader_VerifyValidBitCount', [], 1, 'unit'),
    V('ImageHeader', 'VerifyDimensions', 2, 'ImageHeader_VerifyDimensions', [], 2, 'unit'),
    V('ImageHeader', 'CalcMaxIndexedPaletteSize', 1, 'ImageHeader_CalcMaxIndexedPaletteSize', [], 1, 'int'),
    V('ImageHeader', 'CalcMaxIndexedPaletteSize', 0, 'ImageHeader_CalcMaxIndexedPaletteSize0', ['bitCount'], 0, 'int'),
    V('ImageHeader', 'Validate', 0, 'ImageHeader_Validate', IH, 0, 'unit'),
    V('BitmapFile', 'VerifyIndexedPaletteSizeDoesNotExceedBitCount', 2, 'BitmapFile_VerifyIndexedPaletteSize', [], 2, 'unit'),
    V('BitmapFile', 'VerifyPixelSizeMatchesImageDimensionsWithPitch', 4, 'BitmapFile_VerifyPixelSize', [], 4, 'unit'),
    V('BitmapFile', 'VerifyIndexedImageForSerialization', 1, 'BitmapFile_VerifyIndexedImageForSerialization', [], 1, 'unit'),
    V('TilesetHeader', 'Validate', 0, 'TilesetHeader_Validate',
      ['sectionHead.tag:tag', 'sectionHead.length', 'tagCount', 'pixelWidth', 'pixelHeight'], 0, 'unit'),
    V('PpalHeader', 'Validate', 0, 'PpalHeader_Validate',
      ['ppal.tag:tag', 'ppal.length', 'head.tag:tag', 'head.length', 'tagCount'], 0, 'unit'),
    V('Tileset', 'ValidateTileset', 1, 'Tileset_ValidateTileset',
      ['arg0.imageHeader.bitCount', 'arg0.imageHeader.width', 'arg0.imageHeader.height'], 0, 'unit'),
]
# helpers that always throw (src/Sprite/TilesetCommon.h: `throwReadError` is `throw std::runtime_error(format…)`)
ALWAYS_THROWS = {'throwReadError'}
# functions already translated into Gen/Formulas.lean: (C++ name, number of arguments) -> Lean name there
EXTERNAL = {('CalculatePitch', 2): 'gen_CalculatePitch', ('CalcPixelByteWidth', 2): 'gen_CalcPixelByteWidth'}
FUNCTION_KINDS = ('CXXMethodDecl', 'FunctionDecl', 'CXXConstructorDecl')

def in_name(key):
    """Lean variable of an input path"""
    key = key.split(':')[0]
    return lname(('' if key.startswith('arg') else 'self_') + key.replace('.', '_').replace('()', ''))
def in_vars(key):
    return [f'{in_name(key)}_{i}' for i in range(4)] if key.endswith(':tag') else [in_name(key)]

# ---------------------------------------------------------------------------------------------------------- AST units
class Unit:
    def __init__(self, repo, key):
        self.repo, self.key = repo, key
        self.tu, self.flt = UNITS[key]
        self.by_id = {}; self.defs = {}; self.prev = {}; self.vars = {}; self.asked = set(); self.sizes = {}
    def add(self, objs):
        def walk(n):
            k = n.get('kind')
            if k in FUNCTION_KINDS and 'id' in n:
                if any(c.get('kind') == 'CompoundStmt' for c in n.get('inner', [])) and not n.get('isImplicit'):
                    np = len([c for c in n['inner'] if c['kind'] == 'ParmVarDecl'])
                    if n['id'] not in self.by_id: self.defs.setdefault((n['name'], np), []).append(n)
                    self.by_id[n['id']] = n
                    if n.get('previousDecl'): self.prev[n['previousDecl']] = n
            if k == 'VarDecl' and 'id' in n:
                self.by_id.setdefault(n['id'], n)
                if n.get('inner'): self.vars.setdefault(n['name'], []).append(n)
            for c in n.get('inner', []): walk(c)
        for o in objs: walk(o)
    def load(self):
        objs, self.err = dump_ast(self.repo, self.flt, path=self.repo + '/src/' + self.tu)
        self.add(objs)
        quals = set()                                   # evaluate every sizeof(T) of the unit with one more run of clang
        def walk(n):
            if n.get('kind') == 'UnaryExprOrTypeTraitExpr' and n.get('name') == 'sizeof' and n.get('argType', {}).get('qualType'):
                quals.add(n['argType']['qualType'])
            for c in n.get('inner', []): walk(c)
        for d in self.by_id.values():
            if d.get('kind') in FUNCTION_KINDS: walk(d)
        try: self.probe(sorted(q for q in quals if re.fullmatch(r'[A-Za-z_][A-Za-z0-9_:]*', q)))
        except NotImplementedError: pass
        return self
    def probe(self, quals):
        if not quals: return
        text = f'#include "{self.tu}"\nenum : unsigned long long {{ ' + ', '.join(
            f'gv_sizeof_probe_{i} = sizeof(::{q.lstrip(":")})' for i, q in enumerate(quals)) + ' };\n'
        objs, err = dump_ast(self.repo, 'gv_sizeof_probe_', text=text)
        val = {}
        def walk(n, name):
            if n.get('kind') == 'EnumConstantDecl': name = n.get('name')
            if n.get('kind') == 'ConstantExpr' and 'value' in n and name: val.setdefault(name, int(n['value']))
            for c in n.get('inner', []): walk(c, name)
        for o in objs: walk(o, None)
        if len(val) != len(quals): raise NotImplementedError(f'sizeof({", ".join(quals)}) could not be evaluated')
        for i, q in enumerate(quals): self.sizes[q] = val[f'gv_sizeof_probe_{i}']
    def ask(self, name):
        """one more filtered dump of the same unit (a callee / constant that the unit's own filter does not show)"""
        if name in self.asked or not re.fullmatch(r'[A-Za-z_][A-Za-z0-9_]*', name): return
        self.asked.add(name)
        objs, _ = dump_ast(self.repo, name, path=self.repo + '/src/' + self.tu)
        self.add(objs)
    def function(self, ref_id, name, nargs, ask=True):
        for _ in ((0, 1) if ask else (0,)):
            d = self.by_id.get(ref_id)
            if d is not None and d.get('kind') in FUNCTION_KINDS: return d
            if ref_id in self.prev: return self.prev[ref_id]
            c = self.defs.get((name, nargs), [])
            if len(c) == 1: return c[0]
            if ask: self.ask(name)
        return None
    def variable(self, ref_id, name):
        for _ in (0, 1):
            d = self.by_id.get(ref_id)
            if d is not None and d.get('kind') == 'VarDecl' and d.get('inner'): return d
            c = self.vars.get(name, [])
            if len(c) == 1: return c[0]
            if len({json.dumps(x.get('inner'), sort_keys=True) for x in c}) == 1 and c: return c[0]
            self.ask(name)
        return None
    def sizeof(self, qual):
        """value of sizeof(<qualified type>), computed by clang: an enumerator initialised with it, read back from the AST"""
        if qual not in self.sizes:
            if not re.fullmatch(r'[A-Za-z_][A-Za-z0-9_:]*', qual): raise NotImplementedError('sizeof ' + qual)
            self.probe([qual])
        return self.sizes[qual]

def is_tag(n):
    q = n.get('type', {}).get('desugaredQualType', n.get('type', {}).get('qualType', ''))
    return q.replace('const ', '').strip() in ('OP2Utility::Tag', 'Tag')

def single_return(decl):
    """`{ return e; }` -> e"""
    body = [c for c in decl.get('inner', []) if c.get('kind') == 'CompoundStmt']
    ss = [s for s in (body[0].get('inner', []) if body else []) if s.get('kind') != 'NullStmt']
    if len(ss) == 1 and ss[0].get('kind') == 'ReturnStmt' and ss[0].get('inner'):
        e = ss[0]['inner'][0]
        if is_int(strip(e)): return e
    return None

# ---------------------------------------------------------------------------------------------------------- translator
class Ctx:
    """what one run has produced so far"""
    def __init__(self, repo):
        self.repo = repo; self.units = {}; self.done = {}; self.failed = {}; self.out = []; self.names = []
        self.ncall = 0; self.ninl = 0

class TrV(TrM):
    def __init__(self, ctx, unit, spec, dynamic=False):
        super().__init__(unit.key, {}, dict(ins=[], outs=[], effects=[]), {}, {})
        self.ctx, self.unit, self.vspec, self.dynamic = ctx, unit, spec, dynamic
        self.declared = list(spec['ins'])       # declared inputs (fixed for a table function, collected for a helper)
        self.env = {}                           # decl id -> Lean text (substituted parameters) / None for plain locals
        self.objparams = {}                     # decl id of an object parameter -> 'arg<i>'
        self.this_path = ''                     # path of the object whose member function is being substituted
        self.pending = []; self.guarded = 0; self.lambdas = {}; self.uses = set(); self.depth = 0
        self.suffix = ''; self.plain = set(); self.finish_k = None
        try: self.src_text = {unit.tu: open(unit.repo + '/src/' + unit.tu, encoding='utf-8', errors='replace').read()}
        except OSError: self.src_text = {}

    # ---------- inputs ----------
    def input(self, key):
        tagged = key + ':tag'
        if key not in self.declared and tagged not in self.declared:
            if not self.dynamic:
                raise NotImplementedError(f'reads {key}, which is not among the declared inputs {self.declared}')
            self.declared.append(key)
        return in_name(key)
    def tag_input(self, key):
        if key + ':tag' not in self.declared:
            if not self.dynamic: raise NotImplementedError(f'reads the tag {key}, which is not among the declared inputs {self.declared}')
            self.declared.append(key + ':tag')
        return in_vars(key + ':tag')
    def mpath(self, n):
        """a chain of member accesses rooted at `this` or at an object parameter, as an input key"""
        n = strip(n)
        while n.get('kind') == 'ImplicitCastExpr' and n.get('castKind') in BASE_CASTS + ('LValueToRValue',): n = strip(n['inner'][0])
        if n.get('kind') == 'CXXThisExpr': return self.this_path
        if n.get('kind') == 'DeclRefExpr' and n['referencedDecl'].get('id') in self.objparams:
            return self.objparams[n['referencedDecl']['id']]
        if n.get('kind') == 'MemberExpr' and n.get('inner'):
            p = self.mpath(n['inner'][0])
            return (p + '.' if p else '') + n['name']
        raise NotImplementedError('member of ' + n.get('kind', '?'))

    # ---------- calls ----------
    def callee(self, n):
        """(reference id, name, 'this' | object path | None for a free / static call, argument nodes)"""
        c = n['inner'][0]; args = n['inner'][1:]
        if n['kind'] == 'CXXMemberCallExpr':
            c = strip(c)
            if c.get('kind') != 'MemberExpr': raise NotImplementedError('call through ' + c.get('kind', '?'))
            return c.get('referencedMemberDecl'), c['name'], self.mpath(c['inner'][0]), args
        while c.get('kind') in ('ImplicitCastExpr',) + WRAPPERS: c = c['inner'][0]
        if c.get('kind') != 'DeclRefExpr': raise NotImplementedError('call through ' + c.get('kind', '?'))
        return c['referencedDecl'].get('id'), c['referencedDecl'].get('name', '?'), None, args
    def int_args(self, args):
        out = []
        for a in args:
            a0 = strip(a)
            if a0.get('kind') == 'CXXDefaultArgExpr': a0 = strip(a0['inner'][0]) if a0.get('inner') else a0
            if not is_int(a0): raise NotImplementedError('call with a non-integer argument')
            out.append(self.expr(a0))
        return out
    def substitute(self, unit, decl, argtexts, obj, body, as_cond):
        params = [c for c in decl.get('inner', []) if c['kind'] == 'ParmVarDecl']
        if len(params) != len(argtexts): raise NotImplementedError('call with default / variadic arguments')
        if self.depth > 12: raise NotImplementedError('recursion')
        saved = (dict(self.env), self.this_path, self.unit)
        for p, a in zip(params, argtexts):
            if not is_int(p): raise NotImplementedError('callee with a non-integer parameter')
            self.env[p['id']] = a
        if obj is not None: self.this_path = obj
        self.unit = unit
        self.depth += 1
        try: return self.cond(body) if as_cond else self.expr(body)
        finally:
            self.depth -= 1; self.env, self.this_path, self.unit = saved
    def user_call(self, n, as_cond=False):
        """value of a call of a function of the library (None for a void call)"""
        ref, name, obj, args = self.callee(n)
        if (name, len(args)) in EXTERNAL and obj is None:
            lean = EXTERNAL[(name, len(args))]
            self.uses.add(f'Op2.Gen.Formulas.{lean}_translated')
            v = f'(Op2.Gen.Formulas.{lean} {" ".join(self.int_args(args))})'
            return f'({v} ≠ 0)' if as_cond else v
        if name in ALWAYS_THROWS: raise NotImplementedError(f'{name}(…) inside an expression')
        unit = self.unit
        decl = unit.function(ref, name, len(args), ask=False)
        if decl is None and obj is None:                 # a static function of another unit of the table (by name and arity)
            spec = [s for s in TABLE if s['fn'] == name and s['np'] == len(args) and s['unit'] != self.unit.key]
            if len(spec) == 1:
                unit = self.ctx.units[spec[0]['unit']]
                c = unit.defs.get((name, len(args)), [])
                decl = c[0] if len(c) == 1 else None
        if decl is None: unit = self.unit; decl = unit.function(ref, name, len(args))
        if decl is None: raise NotImplementedError(f'call of {name}, whose definition was not found')
        e = single_return(decl)
        if e is not None: return self.substitute(unit, decl, self.int_args(args), obj, e, as_cond)
        # a callee with statements: its body is inlined at the statement that contains the call (see `hoisted`)
        if self.guarded: raise NotImplementedError('call of a function with statements inside &&, || or ?: (it may throw)')
        void = decl.get('type', {}).get('qualType', '').split('(')[0].strip() == 'void'
        self.ctx.ncall += 1; v = f'call_{self.ctx.ncall}'
        self.pending.append((unit, decl, self.int_args(args), obj, v, void))
        if void: return None
        return f'({v} ≠ 0)' if as_cond else v
    def inline(self, unit, decl, argtexts, obj, var, void, body, indent):
        """the callee's statements, with `body` (already translated, in the caller's scope) continued at each of its return points;
        the callee's parameters and locals get a suffix of their own, so they cannot capture a name `body` uses"""
        if self.depth > 12: raise NotImplementedError('recursion')
        params = [c for c in decl.get('inner', []) if c['kind'] == 'ParmVarDecl']
        if len(params) != len(argtexts): raise NotImplementedError('call with default / variadic arguments')
        self.ctx.ninl += 1
        sub = TrV(self.ctx, unit, self.vspec, self.dynamic)
        sub.declared = self.declared; sub.uses = self.uses; sub.depth = self.depth + 1; sub.suffix = f'_i{self.ctx.ninl}'
        sub.this_path = self.this_path if obj is None else obj
        pad = '  ' * indent; pre = ''
        for p, a in zip(params, argtexts):
            if not is_int(p): raise NotImplementedError('callee with a non-integer parameter')
            name = lname(p.get('name', 'p')) + sub.suffix
            sub.env[p['id']] = name; sub.plain.add(p['id'])
            pre += f'let {name} : Int := {a}\n{pad}'
        def k(ret):
            if void: return body
            if ret is None: raise NotImplementedError('a path returns no value')
            return f'let {var} : Int := {ret}\n{pad}{body}'
        sub.finish_k = k
        return pre + sub.stmts([c for c in decl.get('inner', []) if c['kind'] == 'CompoundStmt'], indent)

    # ---------- tags ----------
    def tag(self, n):
        n = strip(n)
        while n.get('kind') in ('ImplicitCastExpr', 'CXXConstructExpr', 'CXXFunctionalCastExpr') and len(n.get('inner', [])) == 1 and is_tag(n):
            n = strip(n['inner'][0])
        if n.get('kind') == 'MemberExpr': return self.tag_input(self.mpath(n))
        if n.get('kind') == 'DeclRefExpr' and n['referencedDecl'].get('kind') == 'VarDecl':
            d = self.unit.variable(n['referencedDecl']['id'], n['referencedDecl']['name'])
            if d is None or not (d.get('constexpr') or 'const' in d.get('type', {}).get('qualType', '')):
                raise NotImplementedError('tag ' + n['referencedDecl']['name'] + ' is not a constant with a visible initialiser')
            lits = []; kinds = set()
            def walk(x):
                kinds.add(x.get('kind'))
                if x.get('kind') == 'StringLiteral': lits.append(x.get('value'))
                if x.get('kind') == 'DeclRefExpr' and x.get('referencedDecl', {}).get('name') not in ('MakeTag',): kinds.add('other')
                for c in x.get('inner', []): walk(c)
            walk(d['inner'][0])
            ok = {'StringLiteral', 'CallExpr', 'CXXConstructExpr', 'ImplicitCastExpr', 'DeclRefExpr', 'ExprWithCleanups',
                  'MaterializeTemporaryExpr', 'CXXFunctionalCastExpr', 'CXXTemporaryObjectExpr', 'ConstantExpr', 'InitListExpr'}
            if len(lits) != 1 or not kinds <= ok: raise NotImplementedError('tag constant built from something else than one string literal')
            s = json.loads(lits[0]) if lits[0].startswith('"') else lits[0]
            if len(s) != 4: raise NotImplementedError('tag literal of length ' + str(len(s)))
            return [f'({ord(c)} : Int)' for c in s]
        raise NotImplementedError('tag expression ' + n.get('kind', '?'))
    def operator_call(self, n, as_cond):
        c = n['inner'][0]
        while c.get('kind') == 'ImplicitCastExpr': c = c['inner'][0]
        op = c.get('referencedDecl', {}).get('name', '')
        args = n['inner'][1:]
        if op in ('operator==', 'operator!=') and len(args) == 2 and all(is_tag(strip(a)) for a in args):
            a, b = self.tag(args[0]), self.tag(args[1])
            eq = '(' + ' ∧ '.join(f'{x} = {y}' for x, y in zip(a, b)) + ')'
            p = eq if op == 'operator==' else f'(¬ {eq})'
            return p if as_cond else f'(if {p} then (1 : Int) else 0)'
        if op == 'operator()' and args:
            f = strip(args[0])
            while f.get('kind') == 'ImplicitCastExpr': f = strip(f['inner'][0])
            lam = self.lambdas.get(f.get('referencedDecl', {}).get('id')) if f.get('kind') == 'DeclRefExpr' else None
            if lam is None: raise NotImplementedError('call of a function object')
            e = single_return(lam)
            if e is None: raise NotImplementedError('lambda with statements')
            return self.substitute(self.unit, lam, self.int_args(args[1:]), None, e, as_cond)
        raise NotImplementedError('operator call ' + op)

    # ---------- membership: std::find(A.begin(), A.end(), v) ==/!= A.end() ----------
    def array_of(self, n, which):
        n = strip(n)
        if n.get('kind') != 'CXXMemberCallExpr': return None
        c = strip(n['inner'][0])
        if c.get('kind') != 'MemberExpr' or c.get('name') not in which or len(n['inner']) != 1: return None
        a = strip(c['inner'][0])
        while a.get('kind') == 'ImplicitCastExpr': a = strip(a['inner'][0])
        if a.get('kind') != 'DeclRefExpr' or a['referencedDecl'].get('kind') != 'VarDecl': return None
        return a['referencedDecl']
    def array_values(self, ref):
        d = self.unit.variable(ref['id'], ref['name'])
        if d is None or not (d.get('constexpr') or 'const' in d.get('type', {}).get('qualType', '')):
            raise NotImplementedError('array ' + ref['name'] + ' is not a constant with a visible initialiser')
        vals = []
        def walk(x):
            x = strip(x)
            if x.get('kind') == 'InitListExpr':
                for c in x.get('inner', []): walk(c)
            elif is_int(x): vals.append(TrV(self.ctx, self.unit, V(self.unit.key, '', 0, '', [], 0, 'int')).expr(x))
            else: raise NotImplementedError('array initialiser ' + x.get('kind', '?'))
        walk(d['inner'][0])
        return vals
    def membership(self, n):
        """Prop for `std::find(A.begin(), A.end(), v) != A.end()` (or `==`: negated), else None"""
        if n.get('kind') != 'BinaryOperator' or n.get('opcode') not in ('==', '!='): return None
        l, r = strip(n['inner'][0]), strip(n['inner'][1])
        if self.array_of(l, ('end', 'cend')) is not None: l, r = r, l
        end = self.array_of(r, ('end', 'cend'))
        if end is None or l.get('kind') != 'CallExpr': return None
        c = l['inner'][0]
        while c.get('kind') == 'ImplicitCastExpr': c = c['inner'][0]
        if c.get('referencedDecl', {}).get('name') != 'find' or len(l['inner']) != 4: return None
        b = self.array_of(l['inner'][1], ('begin', 'cbegin')); e = self.array_of(l['inner'][2], ('end', 'cend'))
        if b is None or e is None or not (b['id'] == e['id'] == end['id']): return None
        v = strip(l['inner'][3])
        while v.get('kind') == 'ImplicitCastExpr' and v.get('castKind') in ('NoOp',): v = strip(v['inner'][0])
        if not is_int(v): return None
        x = self.expr(v)
        p = '(' + ' ∨ '.join(f'{x} = {a}' for a in self.array_values(end)) + ')' if self.array_values(end) else 'False'
        return p if n['opcode'] == '!=' else f'(¬ {p})'

    # ---------- expressions ----------
    def expr(self, n):
        k = n['kind']
        if k in WRAPPERS: return self.expr(n['inner'][0])
        if k == 'MemberExpr':
            ctype(n); key = self.mpath(n)
            return self.input(key)
        if k == 'DeclRefExpr':
            rd = n['referencedDecl']; ctype(n)
            if rd.get('id') in self.env: return self.env[rd['id']]
            if rd.get('kind') == 'ParmVarDecl': raise NotImplementedError('parameter of an enclosing function: ' + rd.get('name', '?'))
            if rd.get('kind') == 'EnumConstantDecl': raise NotImplementedError('enumerator ' + rd.get('name', '?'))
            d = self.unit.variable(rd.get('id'), rd.get('name', '?'))
            if d is None or not (d.get('constexpr') or 'const' in d.get('type', {}).get('qualType', '')):
                raise NotImplementedError('variable ' + rd.get('name', '?') + ' is not a constant with a visible initialiser')
            b, s = ctype(d)
            v = TrV(self.ctx, self.unit, V(self.unit.key, '', 0, '', [], 0, 'int')); v.depth = self.depth + 1
            if v.depth > 12: raise NotImplementedError('recursion')
            return ucast(b, s, v.expr(d['inner'][0]))
        if k == 'InitListExpr':
            if len(n.get('inner', [])) == 1 and is_int(n): return self.expr(n['inner'][0])
            raise NotImplementedError('initialiser list')
        if k == 'UnaryExprOrTypeTraitExpr':
            q = n.get('argType', {}).get('qualType')
            if n.get('name') != 'sizeof' or not q: raise NotImplementedError('sizeof of an expression / ' + str(n.get('name')))
            return f'({self.unit.sizeof(q)} : Int)'
        if k == 'CallExpr':
            v = self.limits(n)
            if v is not None: return v
            ref, name, obj, args = self.callee(n)
            if name == 'abs' and len(args) == 1 and is_int(strip(args[0])) and ctype(n)[1]:
                b, s = ctype(n); a = self.expr(strip(args[0]))
                return f'(if {a} < 0 then {ucast(b, s, f"(-{a})")} else {a})'
            r = self.user_call(n)
            if r is None: raise NotImplementedError('value of a void call')
            return r
        if k == 'CXXMemberCallExpr':
            ref, name, obj, args = self.callee(n)
            d = self.unit.function(ref, name, len(args)) if (obj == self.this_path or self.unit.by_id.get(ref)) else None
            if d is None and not args:                      # `palette.size()`-like getter of a member object: an input
                ctype(n); return self.input((obj + '.' if obj else '') + name + '()')
            r = self.user_call(n)
            if r is None: raise NotImplementedError('value of a void call')
            return r
        if k == 'CXXOperatorCallExpr':
            ctype(n); return self.operator_call(n, False)
        if k == 'BinaryOperator':
            op = n['opcode']
            if op in ('==', '!=') and not is_int(strip(n['inner'][0])):
                p = self.membership(n)
                if p is None: raise NotImplementedError('comparison of non-integers')
                return f'(if {p} then (1 : Int) else 0)'
            if op in ('&&', '||'): return f'(if {self.cond(n)} then (1 : Int) else 0)'
            if op in ('<<', '>>'):
                b, s = ctype(n); l = self.expr(n['inner'][0]); r = self.expr(n['inner'][1])
                if op == '<<': return ucast(b, s, f'(shl {l} {r})')
                if s: raise NotImplementedError('signed >>')
                return f'(shr {l} {r})'
            if op in ('%', '&') and ctype(n)[1]:
                b, s = ctype(n); l = self.expr(n['inner'][0]); r = self.expr(n['inner'][1])
                if op == '%':                                # truncated remainder (sign of the dividend)
                    return f'(if 0 ≤ {l} then {l} % {r} else -((-{l}) % {r}))'
                return ucast(b, True, f'(Int.ofNat (({l} % {2 ** b}).toNat &&& ({r} % {2 ** b}).toNat))')
        if k == 'ConditionalOperator':
            c = self.cond(n['inner'][0])
            self.guarded += 1
            try: a = self.expr(n['inner'][1]); b = self.expr(n['inner'][2])
            finally: self.guarded -= 1
            return f'(if {c} then {a} else {b})'
        return super().expr(n)
    def cond(self, n):
        k = n['kind']
        if k in WRAPPERS: return self.cond(n['inner'][0])
        if k == 'BinaryOperator' and n['opcode'] in ('&&', '||'):
            a = self.cond(n['inner'][0])
            self.guarded += 1
            try: b = self.cond(n['inner'][1])
            finally: self.guarded -= 1
            return f'({a} {"∧" if n["opcode"] == "&&" else "∨"} {b})'
        if k == 'BinaryOperator' and n['opcode'] in ('==', '!=') and not is_int(strip(n['inner'][0])):
            p = self.membership(n)
            if p is None: raise NotImplementedError('comparison of non-integers')
            return p
        if k == 'CXXOperatorCallExpr': return self.operator_call(n, True)
        if k in ('CallExpr', 'CXXMemberCallExpr') and n.get('type', {}).get('qualType') == 'bool' and self.limits(n) is None:
            ref, name, obj, args = self.callee(n)
            if k == 'CallExpr' or obj == self.this_path or self.unit.by_id.get(ref):
                r = self.user_call(n, as_cond=True)
                if r is None: raise NotImplementedError('value of a void call')
                return r
        return super().cond(n)

    # ---------- statements ----------
    def finish(self, ret):
        if self.finish_k is not None: return self.finish_k(ret)
        if self.vspec['ret'] == 'unit':
            return 'some ()'
        if ret is None: raise NotImplementedError('a path returns no value')
        return f'some ({ret})'
    def hoisted(self, f, indent):
        """run f (which translates expressions); returns (wrap, its result): `wrap(text)` is `text` placed at the return points of the
        inlined callees of the calls that f met"""
        saved = self.pending; self.pending = []
        try: v = f(); calls = self.pending
        finally: self.pending = saved
        def wrap(body):
            for unit, decl, args, obj, var, void in reversed(calls):
                body = self.inline(unit, decl, args, obj, var, void, body, indent)
            return body
        return wrap, v
    def switch(self, s, rest, indent):
        pad = '  ' * indent
        pre, x = self.hoisted(lambda: self.expr(s['inner'][0]), indent)
        body = s['inner'][-1]
        if body.get('kind') != 'CompoundStmt': raise NotImplementedError('switch without a block')
        groups = []; labels = None; stmts = []; seen_default = False
        def open_labels(c):
            """peel `case a: case b: stmt` -> ([a, b] / 'default', stmt)"""
            ls = []
            while c.get('kind') in ('CaseStmt', 'DefaultStmt'):
                if c['kind'] == 'DefaultStmt': ls.append(None); c = c['inner'][0]
                else:
                    if len(c['inner']) != 2: raise NotImplementedError('case range')
                    ls.append(self.expr(strip(c['inner'][0]))); c = c['inner'][1]
            return ls, c
        for c in body.get('inner', []):
            if c.get('kind') in ('CaseStmt', 'DefaultStmt'):
                ls, first = open_labels(c)
                if labels is not None and stmts:
                    if not self.terminates_or_breaks(stmts): raise NotImplementedError('switch group that falls through')
                    groups.append((labels, stmts)); labels = []; stmts = []
                labels = (labels or []) + ls; stmts = stmts + [first]
            else:
                if labels is None: raise NotImplementedError('statement before the first case')
                stmts.append(c)
        if labels is not None:
            groups.append((labels, stmts))
        out = ''; default = None
        def body_of(stmts):
            """statements of a group; a trailing `break` continues after the switch"""
            ss = list(stmts); cont = []
            if ss and strip(ss[-1]).get('kind') == 'BreakStmt': ss = ss[:-1]; cont = rest
            elif not self.terminates(dict(kind='CompoundStmt', inner=ss)): cont = rest      # last group may run off the end
            if any(self.has_break(x) for x in ss): raise NotImplementedError('break inside a switch group')
            saved = (dict(self.cur), self.path.copy(), dict(self.env))
            t = self.stmts(ss + cont, indent + 1)
            self.cur, self.path, self.env = saved
            return t
        for i, (ls, stmts) in enumerate(groups):
            if i < len(groups) - 1 and not self.terminates_or_breaks(stmts): raise NotImplementedError('switch group that falls through')
            if None in ls:
                if default is not None: raise NotImplementedError('two defaults')
                default = stmts; continue
            p = '(' + ' ∨ '.join(f'{x} = {v}' for v in ls) + ')'
            out += f'if {p} then\n{pad}  {body_of(stmts)}\n{pad}else '
        tail = body_of(default) if default is not None else self.stmts(rest, indent + 1)
        return pre(out + (f'\n{pad}  ' if out else '') + tail)
    def has_break(self, s):
        if s.get('kind') == 'BreakStmt': return True
        if s.get('kind') in ('SwitchStmt', 'ForStmt', 'WhileStmt', 'DoStmt', 'CXXForRangeStmt', 'LambdaExpr'): return False
        return any(self.has_break(c) for c in s.get('inner', []))
    def terminates_or_breaks(self, stmts):
        if not stmts: return False
        last = stmts[-1] if stmts[-1].get('kind') == 'CompoundStmt' else strip(stmts[-1])
        return last.get('kind') == 'BreakStmt' or self.terminates(dict(kind='CompoundStmt', inner=stmts))
    def stmts(self, ss, indent):
        pad = '  ' * indent
        if not ss: return self.finish(None)
        s = ss[0]; rest = ss[1:]
        if s.get('kind') != 'CompoundStmt': s = strip(s)
        k = s['kind']
        if k == 'CompoundStmt': return self.stmts(s.get('inner', []) + rest, indent)
        if k == 'NullStmt': return self.stmts(rest, indent)
        if k == 'CXXThrowExpr': return 'none'
        if k == 'ReturnStmt':
            if not s.get('inner'): return self.finish(None)
            v = strip(s['inner'][0])
            if v.get('type', {}).get('qualType') == 'void': return self.call_stmt(v, [], indent)      # `return g(x);` in a void function
            pre, val = self.hoisted(lambda: self.expr(v), indent)
            return pre(self.finish(val))
        if k == 'DeclStmt':
            decls = [v for v in s['inner'] if v['kind'] not in ('StaticAssertDecl', 'TypedefDecl', 'TypeAliasDecl', 'UsingDecl', 'UsingDirectiveDecl')]
            if not decls: return self.stmts(rest, indent)
            v = decls[0]
            rest = ([dict(kind='DeclStmt', inner=decls[1:])] if decls[1:] else []) + rest
            if v['kind'] != 'VarDecl' or not v.get('inner'): raise NotImplementedError('declaration without initialiser')
            init = strip(v['inner'][0])
            while init.get('kind') in ('CXXConstructExpr', 'ImplicitCastExpr') and len(init.get('inner', [])) == 1 and not is_int(init):
                init = strip(init['inner'][0])
            if init.get('kind') == 'LambdaExpr':
                ops = [m for c in init.get('inner', []) if c.get('kind') == 'CXXRecordDecl'
                       for m in c.get('inner', []) if m.get('kind') == 'CXXMethodDecl' and m.get('name') == 'operator()']
                if len(ops) != 1: raise NotImplementedError('generic lambda')
                self.lambdas[v['id']] = ops[0]
                return self.stmts(rest, indent)
            ctype(v)
            wrap, val = self.hoisted(lambda: self.expr(v['inner'][0]), indent)
            name = lname(v['name']) + self.suffix
            self.env[v['id']] = name; self.plain.add(v['id'])
            return wrap(self.bind(name, val, indent) + self.stmts(rest, indent))
        if k == 'IfStmt':
            if s.get('hasInit') or s.get('hasVar'): raise NotImplementedError('if with initialiser')
            pre, c = self.hoisted(lambda: self.cond(s['inner'][0]), indent)
            th = s['inner'][1]; el = s['inner'][2] if len(s['inner']) > 2 else None
            saved = (dict(self.cur), self.path.copy(), dict(self.env))
            t = self.stmts([th] + ([] if self.terminates(th) else rest), indent + 1)
            self.cur, self.path, self.env = dict(saved[0]), saved[1].copy(), dict(saved[2])
            e = self.stmts(([el] if el else []) + ([] if el and self.terminates(el) else rest), indent + 1)
            self.cur, self.path, self.env = saved
            return pre(f'if {c} then\n{pad}  {t}\n{pad}else\n{pad}  {e}')
        if k == 'SwitchStmt':
            if s.get('hasInit') or s.get('hasVar'): raise NotImplementedError('switch with initialiser')
            return self.switch(s, rest, indent)
        if k in ('CallExpr', 'CXXMemberCallExpr', 'CXXOperatorCallExpr'):
            return self.call_stmt(s, rest, indent)
        if (k == 'BinaryOperator' and s['opcode'] == '=') or k == 'CompoundAssignOperator' or (k == 'UnaryOperator' and s['opcode'] in ('++', '--')):
            t = strip(s['inner'][0])
            if t.get('kind') != 'DeclRefExpr' or t['referencedDecl'].get('id') not in self.plain or self.lambdas or self.suffix:
                raise NotImplementedError('assignment to something else than a plain local of the function itself')
            n0 = len(self.pending)
            r = TrM.stmts(self, ss, indent)
            if len(self.pending) != n0: raise NotImplementedError('call inside an assignment')
            return r
        raise NotImplementedError('stmt ' + k)
    def terminates(self, s):
        if s.get('kind') != 'CompoundStmt': s = strip(s)
        if s.get('kind') in ('CallExpr',):
            try:
                if self.callee(s)[1] in ALWAYS_THROWS: return True
            except NotImplementedError: pass
        if s.get('kind') == 'CompoundStmt': return any(self.terminates(x) for x in s.get('inner', []))
        return super().terminates(s)
    def call_stmt(self, s, rest, indent):
        """a call in statement position (its value, if any, is dropped)"""
        if s['kind'] == 'CXXOperatorCallExpr':
            pre, _ = self.hoisted(lambda: self.operator_call(s, True), indent)
            return pre(self.stmts(rest, indent))
        ref, name, obj, args = self.callee(s)
        if name in ALWAYS_THROWS: return 'none'
        pre, _ = self.hoisted(lambda: self.user_call(s), indent)
        return pre(self.stmts(rest, indent))

def literal_casts(term):
    """`(castS n e)` -> `((e + 2^(n-1)) % 2^n - 2^(n-1))` with literal numerals: unfolding `castS` inside the condition of an
    `if` would leave the `Decidable` instance of the folded form behind, and `split` then refuses the term"""
    while True:
        m = re.search(r'\(castS (\d+) ', term)
        if not m: return term
        depth = 0; i = m.start()
        for j in range(i, len(term)):
            if term[j] == '(': depth += 1
            elif term[j] == ')':
                depth -= 1
                if depth == 0: break
        n = int(m.group(1)); e = term[m.end():j]
        term = term[:i] + f'(({e} + {2 ** (n - 1)}) % {2 ** n} - {2 ** (n - 1)})' + term[j + 1:]

def translate(ctx, unit, spec, decl, dynamic=False):
    """emit the definition of one function into ctx.out (raises NotImplementedError when outside the fragment)"""
    tr = TrV(ctx, unit, spec, dynamic)
    params = [c for c in decl.get('inner', []) if c['kind'] == 'ParmVarDecl']
    ints = [p for p in params if is_int(p)]
    if len(ints) != spec['nargs']: raise NotImplementedError(f'{len(ints)} integer parameters, the table expects {spec["nargs"]}')
    for i, p in enumerate(params):
        if is_int(p): tr.env[p['id']] = lname(p['name']) if p.get('name') else f'unnamed_{i}'; tr.plain.add(p['id'])
        else: tr.objparams[p['id']] = f'arg{i}'
    rt = decl.get('type', {}).get('qualType', '').split('(')[0].strip()
    if (rt == 'void') != (spec['ret'] == 'unit'): raise NotImplementedError(f'return type {rt}, the table expects {spec["ret"]}')
    body = [c for c in decl.get('inner', []) if c['kind'] == 'CompoundStmt']
    term = literal_casts(tr.stmts(body, 1))
    spec = dict(spec, ins=list(tr.declared))
    ins = [v for i in spec['ins'] for v in in_vars(i)]
    args = [lname(p['name']) if p.get('name') else f'unnamed_{i}' for i, p in enumerate(ints)]
    ps = ' '.join(ins + args)
    flags = ' && '.join(['true'] + sorted(tr.uses))
    doc = (f'/-- `{unit.key}::{spec["fn"]}` — {unit.tu}' + (' (helper translated on demand)' if dynamic else '') +
           f'\n    inputs: {" ".join(ins) or "—"}; arguments: {" ".join(args) or "—"}; none = throws -/\n')
    rtype = 'Option Unit' if spec['ret'] == 'unit' else 'Option Int'
    ctx.out.append(f'def {spec["lean"]}_translated : Bool := {flags}\n{doc}def {spec["lean"]}' + (f' ({ps} : Int)' if ps else '')
                   + f' : {rtype} :=\n  {term}\n')
    ctx.done[spec['lean']] = spec; ctx.names.append(spec['lean'])
    return spec

PRELUDE = """-- GENERATED by extract/gen_validate.py from the clang-14 typed AST of the current sources; do not edit
import Op2Model.Gen.Formulas
/-!
Validation functions of the bitmap and tileset code.  `none` = the function throws (whatever the message), `some ()` /
`some v` = it returns.  Inputs are the fields read (`self_<path>` of `*this`, `arg<i>_<path>` of an object parameter; a `Tag`
is its four characters `…_0 … …_3`), then the integer parameters.  Unsigned nodes are reduced modulo 2^width where clang's
typed AST says so.  Calls of functions with statements are inlined (their locals carry a suffix `_i<n>`).
-/
set_option linter.unusedVariables false
namespace Op2.Gen.Validate
open Op2.Gen.Formulas
/-- `x << r` before reduction to the result type (definitions of their own: with a symbolic shift count the power stays an
    atom for `omega`; unfold them once the count is a numeral) -/
def shl (x r : Int) : Int := x * 2 ^ r.toNat
/-- `x >> r` (unsigned) -/
def shr (x r : Int) : Int := x / 2 ^ r.toNat
"""

def generate(repo):
    """returns (file name under lean/Op2Model/Gen, text, list of functions that fell back)"""
    ctx = Ctx(repo)
    keys = list(UNITS)
    with ThreadPoolExecutor(len(keys)) as ex: loaded = list(ex.map(lambda k: Unit(repo, k).load(), keys))
    ctx.units = dict(zip(keys, loaded))
    fallback = []
    for spec in TABLE:
        unit = ctx.units[spec['unit']]
        mark = len(ctx.out), len(ctx.names)
        try:
            cands = unit.defs.get((spec['fn'], spec['np']), [])
            if len(cands) != 1:
                raise NotImplementedError(('no' if not cands else 'more than one') + f' definition with {spec["np"]} parameters found'
                                          + ('' if unit.by_id else ' (clang: ' + unit.err.strip()[-200:] + ')'))
            translate(ctx, unit, spec, cands[0])
        except Exception as e:
            why = (str(e) if isinstance(e, NotImplementedError) else f'{type(e).__name__}: {e}').replace('\n', ' ')
            del ctx.out[mark[0]:]; del ctx.names[mark[1]:]
            ctx.failed[spec['lean']] = why
            fallback.append(f'{spec["unit"]}::{spec["fn"]}/{spec["np"]}: {why}')
            vars_ = [v for i in spec['ins'] for v in in_vars(i)]
            blanks = ' '.join('_' for _ in range(len(vars_) + spec['nargs']))
            rtype = 'Option Unit' if spec['ret'] == 'unit' else 'Option Int'
            ctx.out.append(f'-- {spec["unit"]}::{spec["fn"]}: outside the fragment ({why}); tied by correspondence (L3) only\n'
                           f'def {spec["lean"]}_translated : Bool := false\n'
                           f'def {spec["lean"]}' + (f' ({blanks} : Int)' if blanks else '') + f' : {rtype} := none\n')
    names = ', '.join(ctx.names)
    doc = '/-- `simp only` with every definition of this file unfolded (plus the given lemmas) -/\n'
    tail = ('open Lean Parser Tactic in\n' + doc +
            'macro "gen_validate_simp" "[" extra:simpLemma,+ "]" loc:(location)? : tactic =>\n'
            f'  `(tactic| simp only [{names + ", " if names else ""}$extra,*] $[$loc]?)\n'
            'open Lean Parser Tactic in\n' + doc +
            'macro "gen_validate_unfold" loc:(location)? : tactic =>\n'
            f'  `(tactic| simp only [{names + ", " if names else ""}Option.bind_some] $[$loc]?)\n'
            'end Op2.Gen.Validate\n')
    return 'Validate.lean', '\n'.join([PRELUDE] + ctx.out + [tail]), fallback

if __name__ == '__main__':
    name, txt, fb = generate(sys.argv[1] if len(sys.argv) > 1 else '/repo')
    print(txt); print(fb, file=sys.stderr)
