#!/usr/bin/env python3
"""Prototype: clang-14 typed JSON AST -> Lean 4 definitions over Int, for loop-free integer functions.
Every expression is translated to the exact mathematical value it has in C++ (already reduced to the
range of the type clang assigned to that node). Signed overflow / over-wide shifts are not yet turned
into faults in this prototype (they are marked TODO-fault in the output)."""
import json, subprocess, sys, re
REPO = '/repo'

TYPES = {  # canonical type -> (bits, signed)
 'unsigned long': (64, False), 'long': (64, True), 'unsigned int': (32, False), 'int': (32, True),
 'unsigned short': (16, False), 'short': (16, True), 'unsigned char': (8, False), 'signed char': (8, True),
 'char': (8, True), 'bool': (1, False), 'unsigned long long': (64, False), 'long long': (64, True)}

def ctype(node):
    t = node.get('type', {})
    q = t.get('desugaredQualType', t.get('qualType', ''))
    q = q.replace('const ', '').strip()
    if q not in TYPES:
        raise NotImplementedError('type ' + q)
    return TYPES[q]

def cast(bits, signed, e):
    return f'(castS {bits} {e})' if signed else f'(castU {bits} {e})'

# records whose sizeof, and constants whose value, Gen/Layout.lean carries (harness/drv/layout.cpp measures them on every run)
SIZEOF = {'Tag', 'TilesetHeader', 'PpalHeader'}
CONSTS = {'DefaultPaletteHeaderSize': 'ts_DefaultPaletteHeaderSize', 'DefaultPixelWidth': 'ts_DefaultPixelWidth'}

class Tr:
    def __init__(self): self.tables = {}; self.locals = set()
    def expr(self, n):
        k = n['kind']
        if k == 'IntegerLiteral': return f'({n["value"]} : Int)'
        if k == 'ParenExpr': return self.expr(n['inner'][0])
        if k in ('ImplicitCastExpr', 'CXXStaticCastExpr', 'CStyleCastExpr', 'CXXFunctionalCastExpr'):
            ck = n.get('castKind')
            inner = n['inner'][0]
            if ck in ('LValueToRValue', 'NoOp'): return self.expr(inner)
            if ck == 'IntegralCast':
                b, s = ctype(n); return cast(b, s, self.expr(inner))
            if ck == 'IntegralToBoolean': return f'(if {self.expr(inner)} ≠ 0 then 1 else 0)'
            if ck == 'ArrayToPointerDecay': return self.expr(inner)
            raise NotImplementedError('cast ' + str(ck))
        if k == 'DeclRefExpr':
            rd = n['referencedDecl']; name = rd['name']
            if rd.get('kind') == 'VarDecl' and name not in self.locals:
                # a namespace / class constant: its value is the one layout.cpp measures from the same sources
                if name not in CONSTS: raise NotImplementedError('constant ' + name + ' (not measured in Gen/Layout)')
                b, s = ctype(n); return cast(b, s, f'(Op2.Gen.Layout.{CONSTS[name]} : Int)')
            return name
        if k == 'MemberExpr':
            return 'self_' + n['name']
        if k == 'UnaryOperator':
            op = n['opcode']; a = self.expr(n['inner'][0]); b, s = ctype(n)
            if op == '!': return f'(if {a} = 0 then 1 else 0)'
            if op == '~': return cast(b, s, f'(-{a} - 1)')
            if op == '-': return cast(b, s, f'(-{a})')
            raise NotImplementedError('unop ' + op)
        if k == 'BinaryOperator':
            op = n['opcode']; l = self.expr(n['inner'][0]); r = self.expr(n['inner'][1])
            if op in ('<', '>', '<=', '>=', '==', '!='):
                lop = {'==': '=', '!=': '≠', '<=': '≤', '>=': '≥'}.get(op, op)
                return f'(if {l} {lop} {r} then 1 else 0)'
            if op == '&&': return f'(if {l} ≠ 0 ∧ {r} ≠ 0 then 1 else 0)'
            if op == '||': return f'(if {l} ≠ 0 ∨ {r} ≠ 0 then 1 else 0)'
            b, s = ctype(n)
            if op in ('+', '-', '*'): return cast(b, s, f'({l} {op} {r})')
            if op == '/': return f'({l} / {r})'          # operands non-negative in this fragment (TODO-fault: signed, zero)
            if op == '%': return f'({l} % {r})'
            if op == '<<': return cast(b, s, f'({l} * 2 ^ ({r}).toNat)')   # TODO-fault: r >= bits
            if op == '>>': return f'({l} / 2 ^ ({r}).toNat)'
            if op == '&': return f'(Int.ofNat (({l}).toNat &&& ({r}).toNat))'
            if op == '|': return f'(Int.ofNat (({l}).toNat ||| ({r}).toNat))'
            raise NotImplementedError('binop ' + op)
        if k == 'ConditionalOperator':
            c, a, b = (self.expr(x) for x in n['inner'])
            return f'(if {c} ≠ 0 then {a} else {b})'
        if k == 'ArraySubscriptExpr':
            arr = self.expr(n['inner'][0]); idx = self.expr(n['inner'][1])
            return f'({arr}.getD ({idx}).toNat 0)'
        if k == 'CallExpr':
            callee = n['inner'][0]
            while callee['kind'] in ('ImplicitCastExpr',): callee = callee['inner'][0]
            name = callee['referencedDecl']['name']
            args = ' '.join(self.expr(a) for a in n['inner'][1:])
            return f'(gen_{name} {args})'
        if k == 'UnaryExprOrTypeTraitExpr':
            t = n.get('argType', {}).get('qualType', '').split('::')[-1].strip()
            if n.get('name') != 'sizeof' or t not in SIZEOF: raise NotImplementedError('sizeof ' + t + ' (not measured in Gen/Layout)')
            return f'(Op2.Gen.Layout.size_{t} : Int)' 
        if k == 'InitListExpr':
            return '(' + ', '.join(self.expr(x) for x in n['inner']) + ')'
        if k in ('ExprWithCleanups', 'MaterializeTemporaryExpr', 'CXXBindTemporaryExpr'): return self.expr(n['inner'][0])
        raise NotImplementedError('expr ' + k)
    def stmts(self, ss, indent):
        """translate a statement list to a Lean term (the function's return value)"""
        if not ss: return 'default'
        s = ss[0]; rest = ss[1:]; k = s['kind']; pad = '  ' * indent
        if k == 'CompoundStmt': return self.stmts(s.get('inner', []) + rest, indent)
        if k == 'ReturnStmt': return self.expr(s['inner'][0])
        if k == 'DeclStmt':
            out = ''
            for v in s['inner']:
                if v['kind'] != 'VarDecl': continue   # static_assert, using, typedef: no run-time meaning
                self.locals.add(v['name'])
                init = v['inner'][0]
                if init['kind'] == 'InitListExpr':   # constant table
                    vals = ', '.join(str(x['value']) for x in init['inner'])
                    out += f'let {v["name"]} : List Int := [{vals}]\n{pad}'
                else:
                    out += f'let {v["name"]} : Int := {self.expr(init)}\n{pad}'
            return out + self.stmts(rest, indent)
        if k == 'IfStmt':
            c = self.expr(s['inner'][0]); th = s['inner'][1]
            els = s['inner'][2] if len(s['inner']) > 2 else None
            t = self.stmts([th], indent + 1)
            e = self.stmts(([els] if els else []) + rest, indent + 1) if (els or rest) else 'default'
            return f'if {c} ≠ 0 then\n{pad}  {t}\n{pad}else\n{pad}  {e}'
        raise NotImplementedError('stmt ' + k)

def dump(src, fn):
    out = subprocess.run(['clang++-14', '-std=gnu++17', '-fsyntax-only', '-I' + REPO + '/src', '-Xclang', '-ast-dump=json',
                          '-Xclang', '-ast-dump-filter=' + fn, src], capture_output=True, text=True)
    txt = out.stdout; dec = json.JSONDecoder(); i = 0; objs = []
    while i < len(txt):
        while i < len(txt) and txt[i] in ' \n\r\t': i += 1
        if i >= len(txt): break
        o, j = dec.raw_decode(txt, i); objs.append(o); i = j
    return objs

def translate(src, fn, nparams, members=()):
    for o in dump(src, fn):
        params = [c for c in o.get('inner', []) if c['kind'] == 'ParmVarDecl']
        body = [c for c in o.get('inner', []) if c['kind'] == 'CompoundStmt']
        if body and len(params) == nparams and o.get('name') == fn:
            tr = Tr()
            term = tr.stmts(body, 1)
            ps = ' '.join(f'({m} : Int)' for m in members) + ' ' + ' '.join(f'({p["name"]} : Int)' for p in params)
            return f'def gen_{fn}_translated : Bool := true\ndef gen_{fn} {ps.strip()} :=\n  {term}\n'
    raise RuntimeError('no definition for ' + fn)

def dummy(fn, nparams, members, shape):
    """the function left the fragment: same signature, `_translated = false`, bridging lemmas become vacuous (tied by L3 only)"""
    ps = ' '.join(f'(_a{i} : Int)' for i in range(nparams + len(members)))
    val = '((0 : Int), (0 : Int))' if shape == 'pair' else '(0 : Int)'
    return f'def gen_{fn}_translated : Bool := false\ndef gen_{fn} {ps} :=\n  {val}\n'

PRELUDE = '''-- GENERATED by extract/c2lean.py from the clang-14 typed AST of /repo's current sources; do not edit
import Op2Model.Gen.Layout
namespace Op2.Gen.Formulas
/-- conversion to an unsigned type of `bits` bits -/
def castU (bits : Nat) (x : Int) : Int := x % (2 ^ bits : Int)
/-- conversion to a signed type of `bits` bits (two's complement, as g++ / clang do) -/
def castS (bits : Nat) (x : Int) : Int := (x + 2 ^ (bits - 1)) % (2 ^ bits : Int) - 2 ^ (bits - 1)
'''

# (source file relative to /repo/src, function, number of parameters, member variables read)
FUNCTIONS = [
    ('Map/Map.cpp', 'GetTileIndex', 2, ['self_heightInTiles']),
    ('Bitmap/ImageHeader.cpp', 'CalcPixelByteWidth', 2, []),
    ('Bitmap/ImageHeader.cpp', 'CalculatePitch', 2, []),
    ('BitTwiddle.cpp', 'IsPowerOf2', 1, []),
    ('BitTwiddle.cpp', 'Log2OfPowerOf2', 1, []),
    ('Archive/HuffLZ.cpp', 'GetOffsetModifiers', 1, [], 'pair'),
    ('Map/MapHeader.h', 'WidthInTiles', 0, ['self_lgWidthInTiles']),
    ('Map/MapHeader.h', 'TileCount', 0, ['self_heightInTiles', 'self_lgWidthInTiles']),
    ('Sprite/TilesetLoader.cpp', 'CalculatePixelHeaderLength', 1, []),
    ('Sprite/TilesetLoader.cpp', 'CalculatePbmpSectionSize', 1, []),
]

def generate(repo):
    """returns (lean text, list of functions that fell back)"""
    global REPO
    REPO = repo
    out = [PRELUDE]; fallback = []
    failed = set()
    for src, fn, n, members, *shape in FUNCTIONS:
        try:
            txt = translate(repo + '/src/' + src, fn, n, members)
            # a function that calls one that fell back falls back too (its body would mention the dummy)
            callee_failed = [g for g in failed if f'(gen_{g} ' in txt]
            if callee_failed: raise NotImplementedError('calls ' + callee_failed[0] + ' which was not translated')
            out.append(txt)
        except Exception as e:  # node kind outside the fragment, or the function is gone
            failed.add(fn)
            fallback.append(f'{fn}: {e}')
            out.append(f'-- {fn}: not translated ({e})\n' + dummy(fn, n, members, shape[0] if shape else 'int'))
    out.append('end Op2.Gen.Formulas\n')
    return '\n'.join(out), fallback

# ======================================================================================================
# Member functions of the stream classes: `[locals]; if (guard) throw …; [assignments to members]; [return]`
# ======================================================================================================
# Output: lean/Op2Model/Gen/Streams.lean (its own file: a change to a stream guard must not disturb the
# modules — and the model driver — that import Formulas.lean).  For every function of MEMBER_CLASSES
#
#   def <Class>_<Fn>_translated : Bool                              -- false = outside the fragment (fallback to L3)
#   def <Class>_<Fn> (inputs… arguments… : Int) : Option (Int × …)  -- none = the function throws
#
# inputs   = integer data members read (`self_<member>`) and zero-argument getters of member objects
#            (`wrappedStream.Length()` -> `self_wrappedStream_Length`, `streamBuffer.size()` -> …);
# result   = the values, at exit, of the members / return value / *effects* named in the table.  An effect is
#            a call the fragment cannot look into — `memcpy`, a call on a member object (`wrappedStream.Seek(x)`,
#            `streamBuffer.resize(n, 0)`), the construction of the returned object; only its integer arguments
#            are recorded (a pointer `member + e` / `&member[e]` is recorded as the offset `e`; pointers and
#            objects that come from parameters are omitted).  The bytes moved by memcpy are NOT translated.
# Every unsigned node is reduced modulo 2^width in place (literal modulus, so `omega` needs no unfolding);
# comparisons and && || ! are emitted as Props (`a > b` as `b < a`, which `split`/`simp` leave alone).
# Calls on `this`: zero-argument getters are inlined; calls to other translated member functions are
# composed (`(<Class>_<Callee> …).bind fun results => …`).
# The signature (inputs, number of integer arguments, results) is fixed by the table, not by the source, so a
# bridging lemma keeps type-checking whatever the body does; a body that reads or writes anything outside its
# declared interface, or uses a node kind outside the fragment, falls back.

LEAN_KEYWORDS = {'end', 'from', 'at', 'in', 'do', 'then', 'else', 'if', 'let', 'have', 'show', 'fun', 'match', 'with',
                 'open', 'where', 'by', 'calc', 'def', 'theorem', 'instance', 'structure', 'class', 'namespace',
                 'section', 'variable', 'universe', 'import', 'return', 'for', 'mut', 'private', 'protected', 'Type',
                 'Prop', 'Sort', 'using', 'deriving', 'export', 'set_option', 'macro', 'syntax', 'notation', 'infix',
                 'prefix', 'postfix', 'local', 'attribute', 'abbrev', 'axiom', 'example', 'inductive', 'mutual', 'opaque',
                 'partial', 'unsafe', 'noncomputable', 'nomatch', 'nofun', 'some', 'none'}

def lname(name):
    name = re.sub(r'[^A-Za-z0-9_]', '_', name)
    return name + '_' if name in LEAN_KEYWORDS else name

def ucast(bits, signed, e):
    if signed: return f'(castS {bits} {e})'
    return f'({e} % {2 ** bits})'

def is_int(n):
    try: ctype(n); return True
    except NotImplementedError: return False

WRAPPERS = ('ExprWithCleanups', 'MaterializeTemporaryExpr', 'CXXBindTemporaryExpr', 'ParenExpr', 'ConstantExpr')
def strip(n):
    """drop wrappers that carry no arithmetic"""
    while n.get('kind') in WRAPPERS: n = n['inner'][0]
    return n

BASE_CASTS = ('NoOp', 'UncheckedDerivedToBase', 'DerivedToBase')
def is_this(n):
    n = strip(n)
    while n.get('kind') == 'ImplicitCastExpr' and n.get('castKind') in BASE_CASTS: n = strip(n['inner'][0])
    return n.get('kind') == 'CXXThisExpr'

def this_member(name, ty):
    return {'kind': 'MemberExpr', 'name': name, 'inner': [{'kind': 'CXXThisExpr'}], 'type': ty}

class Path:
    """what has happened on the current control-flow path"""
    def __init__(self, effects=None, touched=None):
        self.effects = dict(effects or {})      # effect name -> list of Lean variable names
        self.touched = set(touched or ())       # member objects that received a call which may change them
    def copy(self): return Path(self.effects, self.touched)

class TrM(Tr):
    def __init__(self, cls, methods, spec, done, src_text):
        """methods: (name, nparams) -> definition in the same class; spec: this function's table entry;
        done: (name, number of integer args) -> table entry of the functions already translated; src_text: file -> text"""
        super().__init__()
        self.cls, self.methods, self.spec, self.done, self.src_text = cls, methods, spec, done, src_text
        self.inputs = list(spec['ins'])
        self.skipped = []; self.cur = {}; self.path = Path(); self.shapes = {}
        self.objects = set()                    # object-valued locals whose construction was recorded as an effect

    # ---------- expressions ----------
    def input(self, key):
        if key not in self.inputs:
            raise NotImplementedError(f'reads {key}, which is not among the declared inputs {self.inputs}')
        return 'self_' + lname(key.replace('.', '_').replace('()', ''))
    def member_call(self, n):
        """(object, method name, args): object = 'this' or the name of a data member"""
        callee = n['inner'][0]
        if callee.get('kind') != 'MemberExpr': raise NotImplementedError('call through ' + callee.get('kind', '?'))
        base = strip(callee['inner'][0])
        if is_this(base): return 'this', callee['name'], n['inner'][1:]
        while base.get('kind') == 'ImplicitCastExpr' and base.get('castKind') in BASE_CASTS: base = strip(base['inner'][0])
        if base.get('kind') == 'MemberExpr' and is_this(base['inner'][0]): return base['name'], callee['name'], n['inner'][1:]
        raise NotImplementedError('member call on ' + base.get('kind', '?'))
    def limits(self, n):
        """std::numeric_limits<T>::max() / min(): the value follows from the (typed) result; the spelling is checked"""
        callee = n['inner'][0]
        while callee.get('kind') == 'ImplicitCastExpr': callee = callee['inner'][0]
        name = callee.get('referencedDecl', {}).get('name')
        if callee.get('kind') != 'DeclRefExpr' or name not in ('max', 'min') or len(n['inner']) != 1: return None
        b = n.get('range', {}).get('begin', {}); e = n.get('range', {}).get('end', {})
        if 'offset' not in b or 'offset' not in e: return None
        pat = r'(std::)?numeric_limits<[^<>;]*(\([^()]*\))?[^<>;]*>::' + name + r'\(\)'
        if not any(re.fullmatch(pat, t[b['offset']: e['offset'] + e.get('tokLen', 1)]) for t in self.src_text.values()): return None
        bits, signed = ctype(n)
        if name == 'max': return f'({2 ** (bits - 1) - 1 if signed else 2 ** bits - 1} : Int)'
        return f'({-(2 ** (bits - 1)) if signed else 0} : Int)'
    def expr(self, n):
        k = n['kind']
        if k in WRAPPERS: return self.expr(n['inner'][0])
        if k == 'CXXBoolLiteralExpr': return '(1 : Int)' if n.get('value') else '(0 : Int)'
        if k == 'IntegerLiteral': return f'({n["value"]} : Int)'
        if k == 'MemberExpr':
            if not is_this(n['inner'][0]): raise NotImplementedError('member of another object: ' + n.get('name', '?'))
            ctype(n)
            return self.cur.get(n['name']) or self.input(n['name'])
        if k == 'DeclRefExpr':
            ctype(n); return lname(n['referencedDecl']['name'])
        if k == 'CXXMemberCallExpr':
            obj, m, args = self.member_call(n)
            ctype(n)
            if args: raise NotImplementedError(f'value of {obj}.{m}(…) with arguments')
            if obj == 'this':                                  # inline a getter: `{ return e; }`
                d = self.methods.get((m, 0))
                body = [c for c in (d or {}).get('inner', []) if c['kind'] == 'CompoundStmt']
                ss = body[0].get('inner', []) if body else []
                if len(ss) != 1 or ss[0]['kind'] != 'ReturnStmt': raise NotImplementedError(f'{m}() is not a plain getter')
                return self.expr(ss[0]['inner'][0])
            if obj in self.path.touched: raise NotImplementedError(f'{obj}.{m}() read after a call that may change {obj}')
            return self.input(f'{obj}.{m}()')
        if k == 'CallExpr':
            v = self.limits(n)
            if v is None: raise NotImplementedError('call of a free function inside an expression')
            return v
        if k in ('ImplicitCastExpr', 'CXXStaticCastExpr', 'CStyleCastExpr', 'CXXFunctionalCastExpr'):
            ck = n.get('castKind'); inner = n['inner'][0]
            if ck in ('LValueToRValue', 'NoOp'): return self.expr(inner)
            if ck == 'IntegralCast':
                b, s = ctype(n)
                if ctype(inner) == (1, False): return f'(if {self.cond(inner)} then (1 : Int) else 0)'
                return ucast(b, s, self.expr(inner))
            if ck == 'IntegralToBoolean': return f'(if {self.cond(n)} then (1 : Int) else 0)'
            raise NotImplementedError('cast ' + str(ck))
        if k == 'UnaryOperator':
            op = n['opcode']
            if op == '!': return f'(if {self.cond(n)} then (1 : Int) else 0)'
            b, s = ctype(n); a = self.expr(n['inner'][0])
            if op == '+': return a
            if op == '~': return ucast(b, s, f'(-{a} - 1)')
            if op == '-': return ucast(b, s, f'(-{a})')
            raise NotImplementedError('unop ' + op)
        if k == 'BinaryOperator':
            op = n['opcode']
            if op in ('<', '>', '<=', '>=', '==', '!=', '&&', '||'): return f'(if {self.cond(n)} then (1 : Int) else 0)'
            if op in ('=', ','): raise NotImplementedError(f'operator {op} inside an expression')
            b, s = ctype(n); l = self.expr(n['inner'][0]); r = self.expr(n['inner'][1])
            if op in ('+', '-', '*'): return ucast(b, s, f'({l} {op} {r})')
            if s: raise NotImplementedError(f'signed {op}')
            if op == '/': return f'({l} / {r})'      # unsigned; a zero divisor is a fault the fragment does not model
            if op == '%': return f'({l} % {r})'
            if op == '&': return f'(Int.ofNat (({l}).toNat &&& ({r}).toNat))'
            if op == '|': return f'(Int.ofNat (({l}).toNat ||| ({r}).toNat))'
            raise NotImplementedError('binop ' + op)
        if k == 'ConditionalOperator':
            c = self.cond(n['inner'][0]); a = self.expr(n['inner'][1]); b = self.expr(n['inner'][2])
            return f'(if {c} then {a} else {b})'
        raise NotImplementedError('expr ' + k)
    def cond(self, n):
        """a bool-valued node as a Lean Prop"""
        k = n['kind']
        if k in WRAPPERS: return self.cond(n['inner'][0])
        if k == 'CXXBoolLiteralExpr': return 'True' if n.get('value') else 'False'
        if k == 'ImplicitCastExpr' and n.get('castKind') == 'IntegralToBoolean': return f'({self.expr(n["inner"][0])} ≠ 0)'
        if k == 'ImplicitCastExpr' and n.get('castKind') in ('LValueToRValue', 'NoOp') and ctype(n) == (1, False):
            return self.cond(n['inner'][0])
        if k == 'UnaryOperator' and n['opcode'] == '!': return f'(¬ {self.cond(n["inner"][0])})'
        if k == 'BinaryOperator':
            op = n['opcode']; a, b = n['inner']
            if op == '&&': return f'({self.cond(a)} ∧ {self.cond(b)})'
            if op == '||': return f'({self.cond(a)} ∨ {self.cond(b)})'
            if op in ('<', '>', '<=', '>=', '==', '!='):
                l = self.expr(a); r = self.expr(b)
                return {'<': f'({l} < {r})', '>': f'({r} < {l})', '<=': f'({l} ≤ {r})', '>=': f'({r} ≤ {l})',
                        '==': f'({l} = {r})', '!=': f'({l} ≠ {r})'}[op]
        return f'({self.expr(n)} ≠ 0)'
    def pointer(self, n):
        """a pointer expression as (base member, or None when it comes from a parameter; offset)"""
        n = strip(n); k = n['kind']
        if k in ('ImplicitCastExpr', 'CXXStaticCastExpr', 'CStyleCastExpr', 'CXXReinterpretCastExpr'):
            if n.get('castKind') in ('LValueToRValue', 'NoOp', 'BitCast', 'ArrayToPointerDecay'): return self.pointer(n['inner'][0])
            raise NotImplementedError('pointer cast ' + str(n.get('castKind')))
        if k == 'DeclRefExpr' and n['referencedDecl'].get('kind') == 'ParmVarDecl': return None, '(0 : Int)'
        if k == 'MemberExpr' and is_this(n['inner'][0]): return n['name'], '(0 : Int)'
        if k == 'CXXMemberCallExpr':
            obj, m, args = self.member_call(n)
            if obj != 'this' and not args and m == 'data': return obj + '.data()', '(0 : Int)'
            raise NotImplementedError(f'pointer from {obj}.{m}()')
        if k == 'BinaryOperator' and n['opcode'] in ('+', '-'):
            a, b = n['inner']
            if is_int(a) and n['opcode'] == '+': a, b = b, a
            base, off = self.pointer(a)
            return base, (self.expr(b) if off == '(0 : Int)' and n['opcode'] == '+' else f'({off} {n["opcode"]} {self.expr(b)})')
        if k == 'UnaryOperator' and n['opcode'] == '&':
            s = strip(n['inner'][0])
            if s['kind'] == 'ArraySubscriptExpr':
                base, off = self.pointer(s['inner'][0])
                return base, (self.expr(s['inner'][1]) if off == '(0 : Int)' else f'({off} + {self.expr(s["inner"][1])})')
        raise NotImplementedError('pointer expression ' + k)
    def effect_args(self, args):
        """integer arguments of a call the fragment cannot look into (see the header comment)"""
        out = []; shape = []
        for a in args:
            a0 = strip(a)
            if a0.get('kind') == 'CXXDefaultArgExpr': shape.append('(default argument, omitted)')
            elif is_int(a0): out.append(self.expr(a0)); shape.append('int')
            elif a0.get('type', {}).get('qualType', '').rstrip().endswith('*'):
                base, off = self.pointer(a0)
                if base is not None: out.append(off); shape.append(f'offset in {base}')
                else: shape.append('(pointer parameter, omitted)')
            else: shape.append('(object, omitted)')
        return out, shape

    # ---------- statements ----------
    def bind(self, name, value, indent):
        return f'let {name} : Int := {value}\n{"  " * indent}'
    def lhs(self, n):
        """assignable place -> (kind, C++ name, Lean name)"""
        n = strip(n)
        if n['kind'] == 'MemberExpr' and is_this(n['inner'][0]):
            ctype(n)
            if n['name'] not in self.spec['outs']:
                raise NotImplementedError(f'writes member {n["name"]}, which is not among the declared results {self.spec["outs"]}')
            return 'member', n['name'], 'self_' + lname(n['name'])
        if n['kind'] == 'DeclRefExpr' and n['referencedDecl'].get('kind') in ('VarDecl', 'ParmVarDecl'):
            ctype(n); return 'local', n['referencedDecl']['name'], lname(n['referencedDecl']['name'])
        raise NotImplementedError('assignment to ' + n['kind'])
    def assign(self, target, value, indent):
        kind, cname, lean = self.lhs(target)
        if kind == 'member': self.cur[cname] = lean
        return self.bind(lean, value, indent)
    def effect_vars(self, name, arity):
        if name in self.path.effects: raise NotImplementedError(f'{name} called twice on one path')
        want = dict(self.spec['effects']).get(name)
        if want is None: raise NotImplementedError(f'call of {name}, which is not among the declared effects')
        if arity != want: raise NotImplementedError(f'{name}: {arity} integer arguments, the table expects {want}')
        names = [f'eff_{lname(name.replace(".", "_"))}_{i}' for i in range(arity)]
        self.path.effects[name] = names
        if '.' in name: self.path.touched.add(name.split('.')[0])
        return names
    def record(self, name, args, shape, indent):
        names = self.effect_vars(name, len(args))
        self.shapes[name] = shape
        return ''.join(self.bind(v, a, indent) for v, a in zip(names, args))
    def finish(self, ret):
        vals = []
        for o in self.spec['outs']:
            if o == 'ret':
                if ret is None: raise NotImplementedError('a path returns no value')
                vals.append(ret)
            else: vals.append(self.cur.get(o) or self.input(o))
        for name, arity in self.spec['effects']:
            vals += self.path.effects.get(name) or ['(-1 : Int)'] * arity      # -1: not performed on this path
        return 'some (' + ', '.join(vals) + ')' if vals else 'some ()'
    def compose(self, m, args, rest, indent):
        """a call, in statement position, of another member function of this class that is already translated"""
        if any(not is_int(strip(a)) for a in args): raise NotImplementedError(f'{m}(…) with a non-integer argument')
        callee = self.done.get((m, len(args)))
        if callee is None: raise NotImplementedError(f'call of {m}(), which is not translated')
        actual = [self.cur.get(i) or self.input(i) for i in callee['ins']] + [self.expr(strip(a)) for a in args]
        pats = []; pad = '  ' * indent
        for o in callee['outs']:
            if o == 'ret': pats.append('_')
            else:
                self.lhs(this_member(o, {'qualType': 'unsigned long'}))
                self.cur[o] = 'self_' + lname(o); pats.append(self.cur[o])
        for name, arity in callee['effects']:
            pats += self.effect_vars(name, arity)
            self.shapes.setdefault(name, [f'as in {m}'])
        pat = '(' + ', '.join(pats) + ')' if len(pats) > 1 else (pats[0] if pats else '_')
        return (f'({self.cls}_{callee["lean"]} {" ".join(actual)}).bind fun {pat} =>\n{pad}'
                + self.stmts(rest, indent))
    def terminates(self, s):
        if s.get('kind') != 'CompoundStmt': s = strip(s)
        k = s.get('kind')
        if k in ('ReturnStmt', 'CXXThrowExpr'): return True
        if k == 'CompoundStmt': return any(self.terminates(x) for x in s.get('inner', []))
        if k == 'IfStmt' and len(s['inner']) > 2: return self.terminates(s['inner'][1]) and self.terminates(s['inner'][2])
        return False
    def stmts(self, ss, indent):
        pad = '  ' * indent
        if not ss: return self.finish(None)
        s = ss[0]; rest = ss[1:]
        if s.get('kind') != 'CompoundStmt': s = strip(s)
        k = s['kind']
        if k == 'CompoundStmt': return self.stmts(s.get('inner', []) + rest, indent)
        if k == 'NullStmt': return self.stmts(rest, indent)
        if k == 'CXXThrowExpr': return 'none'
        if k == 'ReturnStmt':
            if not s.get('inner'): return self.finish(None)
            v = strip(s['inner'][0])
            if is_int(v) and not (v['kind'] == 'CXXMemberCallExpr' and self.member_call(v)[0] != 'this' and self.member_call(v)[2]):
                return self.finish(self.expr(v))
            if v['kind'] == 'CXXConstructExpr' and len(v.get('inner', [])) == 1:      # `return local;` (copy / move of an object
                a = strip(v['inner'][0])                                             #  whose construction is already recorded)
                while a.get('kind') == 'ImplicitCastExpr' and a.get('castKind') == 'NoOp': a = strip(a['inner'][0])
                if a.get('kind') == 'DeclRefExpr' and a['referencedDecl'].get('name') in self.objects: return self.finish(None)
            if v['kind'] in ('CXXMemberCallExpr', 'CXXConstructExpr', 'CXXTemporaryObjectExpr'):
                return self.stmts([v], indent)          # the returned object / the forwarded call is an effect
            raise NotImplementedError('return of ' + v['kind'])
        if k == 'DeclStmt':
            out = ''
            if len(s['inner']) == 1 and s['inner'][0]['kind'] == 'VarDecl' and s['inner'][0].get('inner') and not is_int(s['inner'][0]):
                init = strip(s['inner'][0]['inner'][0])       # `auto obj = OtherMember(…);` — the object is the callee's effect
                if init.get('kind') == 'CXXMemberCallExpr' and self.member_call(init)[0] == 'this':
                    self.objects.add(s['inner'][0]['name'])
                    return self.compose(self.member_call(init)[1], self.member_call(init)[2], rest, indent)
                raise NotImplementedError('object-valued local initialised by ' + init.get('kind', '?'))
            for v in s['inner']:
                if v['kind'] != 'VarDecl' or not v.get('inner'): raise NotImplementedError('declaration without initialiser')
                ctype(v)
                out += self.bind(lname(v['name']), self.expr(v['inner'][0]), indent)
            return out + self.stmts(rest, indent)
        if k == 'IfStmt':
            if s.get('hasInit') or s.get('hasVar'): raise NotImplementedError('if with initialiser')
            c = self.cond(s['inner'][0]); th = s['inner'][1]; el = s['inner'][2] if len(s['inner']) > 2 else None
            saved = (dict(self.cur), self.path.copy())
            t = self.stmts([th] + ([] if self.terminates(th) else rest), indent + 1)
            self.cur, self.path = dict(saved[0]), saved[1].copy()
            e = self.stmts(([el] if el else []) + ([] if el and self.terminates(el) else rest), indent + 1)
            self.cur, self.path = saved
            return f'if {c} then\n{pad}  {t}\n{pad}else\n{pad}  {e}'
        if k == 'BinaryOperator' and s['opcode'] == '=':
            return self.assign(s['inner'][0], self.expr(s['inner'][1]), indent) + self.stmts(rest, indent)
        if k == 'CompoundAssignOperator':
            op = s['opcode'][:-1]
            if op not in ('+', '-', '*'): raise NotImplementedError('compound assignment ' + s['opcode'])
            def ty(key):
                q = s[key].get('desugaredQualType', s[key].get('qualType', '')).replace('const ', '').strip()
                if q not in TYPES: raise NotImplementedError('type ' + q)
                return TYPES[q]
            cb, cs = ty('computeResultType'); lb, ls = ctype(s)
            l = self.expr(s['inner'][0])
            if ty('computeLHSType') != (lb, ls): l = ucast(*ty('computeLHSType'), l)
            v = ucast(cb, cs, f'({l} {op} {self.expr(s["inner"][1])})')
            if (cb, cs) != (lb, ls): v = ucast(lb, ls, v)
            return self.assign(s['inner'][0], v, indent) + self.stmts(rest, indent)
        if k == 'UnaryOperator' and s['opcode'] in ('++', '--'):
            b, sg = ctype(s); a = self.expr(s['inner'][0])
            return self.assign(s['inner'][0], ucast(b, sg, f'({a} {s["opcode"][0]} 1)'), indent) + self.stmts(rest, indent)
        if k == 'CXXMemberCallExpr':
            obj, m, args = self.member_call(s)
            if obj == 'this': return self.compose(m, args, rest, indent)
            a, shape = self.effect_args(args)
            return self.record(f'{obj}.{m}', a, shape, indent) + self.stmts(rest, indent)
        if k == 'CallExpr':
            callee = s['inner'][0]
            while callee.get('kind') == 'ImplicitCastExpr': callee = callee['inner'][0]
            name = callee.get('referencedDecl', {}).get('name')
            if name != 'memcpy': raise NotImplementedError(f'call of {name}')
            a, shape = self.effect_args(s['inner'][1:])
            self.skipped.append('the bytes moved by memcpy')
            return self.record('memcpy', a, shape, indent) + self.stmts(rest, indent)
        if k in ('CXXConstructExpr', 'CXXTemporaryObjectExpr'):
            a, shape = self.effect_args(s.get('inner', []))
            return self.record('construct', a, shape, indent) + self.stmts(rest, indent)
        raise NotImplementedError('stmt ' + k)

    def function(self, decl):
        params = [c for c in decl.get('inner', []) if c['kind'] == 'ParmVarDecl']
        ints = [p for p in params if is_int(p)]
        if len(ints) != self.spec['nargs']:
            raise NotImplementedError(f'{len(ints)} integer parameters, the table expects {self.spec["nargs"]}')
        pre = ''
        for ci in [c for c in decl.get('inner', []) if c['kind'] == 'CXXCtorInitializer']:   # constructor: member(value)
            fld = ci.get('anyInit', {})
            if fld.get('kind') != 'FieldDecl': continue                                        # base-class initialiser
            init = strip(ci['inner'][0]) if ci.get('inner') else None
            if init is not None and is_int(init) and is_int(fld):
                pre += self.assign(this_member(fld['name'], fld['type']), self.expr(init), 1)
            else: self.skipped.append(f'initialisation of member {fld.get("name")}')
        body = [c for c in decl.get('inner', []) if c['kind'] == 'CompoundStmt']
        term = pre + self.stmts(body, 1)
        return [lname(p['name']) for p in ints], term

def collect_methods(objs, cls):
    """(name, number of parameters) -> definition, for the member functions of class `cls` (for a template: of its
    instantiation) found in a filtered AST dump"""
    found = {}
    def walk(n):
        k = n.get('kind')
        if k == 'ClassTemplateDecl':
            for c in n.get('inner', []):
                if c.get('kind') == 'ClassTemplateSpecializationDecl' and c.get('name') == cls: walk(c)
            return
        if k in ('CXXMethodDecl', 'CXXConstructorDecl') and not n.get('isImplicit'):
            if any(c.get('kind') == 'CompoundStmt' for c in n.get('inner', [])):
                np = len([c for c in n['inner'] if c['kind'] == 'ParmVarDecl'])
                found.setdefault((n['name'], np), n)
            return
        if k in ('CXXRecordDecl', 'ClassTemplateSpecializationDecl', 'NamespaceDecl', 'TranslationUnitDecl', 'LinkageSpecDecl'):
            for c in n.get('inner', []): walk(c)
    for o in objs: walk(o)
    return found

def dump_ast(repo, flt, path=None, text=None):
    cmd = ['clang++-14', '-std=gnu++17', '-fsyntax-only', '-I' + repo + '/src', '-Xclang', '-ast-dump=json',
           '-Xclang', '-ast-dump-filter=' + flt]
    cmd += ['-x', 'c++', '-'] if text is not None else [path]
    out = subprocess.run(cmd, input=text, capture_output=True, text=True)
    txt = out.stdout; dec = json.JSONDecoder(); i = 0; objs = []
    while i < len(txt):
        while i < len(txt) and txt[i] in ' \n\r\t': i += 1
        if i >= len(txt): break
        o, j = dec.raw_decode(txt, i); objs.append(o); i = j
    return objs, out.stderr

def F(fn, np, lean, ins, nargs, outs, effects=()):
    """C++ name, number of parameters (of any type), Lean name, inputs, number of integer parameters,
    results (members / 'ret'), effects ((name, number of recorded integer arguments), …)"""
    return dict(fn=fn, np=np, lean=lean, ins=ins, nargs=nargs, outs=outs, effects=list(effects))

MR = ['streamSize', 'position']; MW = ['streamSize', 'offset']; DW = ['streamBuffer.size()']
SL = ['startingOffset', 'sliceLength', 'wrappedStream.Position()']
SLICE_TU = '#include "Stream/SliceReader.h"\ntemplate class OP2Utility::Stream::SliceReader<OP2Utility::Stream::FileReader>;\n'
# (class, translation unit relative to src/ — or None with the text of a unit that instantiates the template —, AST
#  filter, files whose text is consulted for the spelling `numeric_limits<…>::max()`, functions in dependency order)
MEMBER_CLASSES = [
    ('MemoryReader', 'Stream/MemoryReader.cpp', None, ['Stream/MemoryReader.cpp'], [
        F('Seek', 1, 'Seek', MR, 1, ['position']),
        F('SeekForward', 1, 'SeekForward', MR, 1, ['position']),
        F('SeekBackward', 1, 'SeekBackward', MR, 1, ['position']),
        F('ReadImplementation', 2, 'ReadImplementation', MR, 1, ['position'], [('memcpy', 2)]),
        F('ReadPartial', 2, 'ReadPartial', MR, 1, ['position', 'ret'], [('memcpy', 2)]),
        F('Slice', 2, 'Slice2', MR, 2, [], [('construct', 2)]),
        F('Slice', 1, 'Slice1', MR, 1, ['position'], [('construct', 2)]),
    ]),
    ('MemoryWriter', 'Stream/MemoryWriter.cpp', None, ['Stream/MemoryWriter.cpp'], [
        F('Seek', 1, 'Seek', MW, 1, ['offset']),
        F('SeekForward', 1, 'SeekForward', MW, 1, ['offset']),
        F('SeekBackward', 1, 'SeekBackward', MW, 1, ['offset']),
        F('WriteImplementation', 2, 'WriteImplementation', MW, 1, ['offset'], [('memcpy', 2)]),
    ]),
    ('DynamicMemoryWriter', 'Stream/DynamicMemoryWriter.cpp', None, ['Stream/DynamicMemoryWriter.cpp'], [
        F('SeekForward', 1, 'SeekForward', DW, 1, [], [('streamBuffer.resize', 2)]),
        F('SeekBackward', 1, 'SeekBackward', DW, 1, [], [('streamBuffer.resize', 2)]),
        F('Seek', 1, 'Seek', DW, 1, [], [('streamBuffer.resize', 2)]),
        F('WriteImplementation', 2, 'WriteImplementation', DW, 1, [], [('streamBuffer.resize', 1), ('memcpy', 2)]),
    ]),
    ('SliceReader', None, SLICE_TU, ['Stream/SliceReader.h'], [
        F('Position', 0, 'Position', SL, 0, ['ret']),
        F('Initialize', 0, 'Initialize', ['startingOffset', 'sliceLength', 'wrappedStream.Length()'], 0, [], [('wrappedStream.Seek', 1)]),
        F('SliceReader', 3, 'Create', ['wrappedStream.Length()'], 2, ['startingOffset', 'sliceLength'], [('wrappedStream.Seek', 1)]),
        F('ReadImplementation', 2, 'ReadImplementation', SL, 1, [], [('wrappedStream.Read', 1)]),
        F('ReadPartial', 2, 'ReadPartial', SL, 1, [], [('wrappedStream.ReadPartial', 1)]),
        F('Seek', 1, 'Seek', SL, 1, [], [('wrappedStream.Seek', 1)]),
        F('SeekForward', 1, 'SeekForward', SL, 1, [], [('wrappedStream.SeekForward', 1)]),
        F('SeekBackward', 1, 'SeekBackward', SL, 1, [], [('wrappedStream.SeekBackward', 1)]),
        F('Slice', 2, 'Slice2', SL, 2, [], [('construct', 2)]),
        F('Slice', 1, 'Slice1', SL, 1, [], [('construct', 2), ('wrappedStream.SeekForward', 1)]),
    ]),
]

STREAMS_PRELUDE = """-- GENERATED by extract/c2lean.py (member-function fragment) from the clang-14 typed AST of the current sources; do not edit
import Op2Model.Gen.Formulas
/-!
Guards and cursor updates of the stream classes.  `none` = the function throws.  `some (..)` = the values at exit of the
members, the return value and the integer arguments of the calls the fragment does not look into ("effects": memcpy,
calls on a member object, construction of the returned object; `-1` = not performed on that path), in the order given
in each comment.  Unsigned nodes are reduced modulo 2^width where clang's typed AST says so.
-/
set_option linter.unusedVariables false
namespace Op2.Gen.Streams
open Op2.Gen.Formulas
"""

def result_type(spec):
    n = len(spec['outs']) + sum(a for _, a in spec['effects'])
    return 'Unit' if n == 0 else ' × '.join(['Int'] * n)

def generate_streams(repo):
    """returns (lean text, list of functions that fell back)"""
    from concurrent.futures import ThreadPoolExecutor
    def load(entry):
        cls, tu, text, srcs, _ = entry
        return dump_ast(repo, cls, path=repo + '/src/' + tu if tu else None, text=text)
    with ThreadPoolExecutor(len(MEMBER_CLASSES)) as ex: dumps = list(ex.map(load, MEMBER_CLASSES))
    out = [STREAMS_PRELUDE]; fallback = []
    for (cls, tu, text, srcs, entries), (objs, err) in zip(MEMBER_CLASSES, dumps):
        src_text = {}
        for rel in srcs:
            try:
                with open(repo + '/src/' + rel, encoding='utf-8', errors='replace') as f: src_text[rel] = f.read()
            except OSError: pass
        methods = collect_methods(objs, cls)
        done = {}
        where = tu if tu else srcs[0] + ' (instantiated for FileReader)'
        for spec in entries:
            name = f'{cls}_{spec["lean"]}'
            ins = ['self_' + lname(i.replace('.', '_').replace('()', '')) for i in spec['ins']]
            rt = result_type(spec)
            try:
                decl = methods.get((spec['fn'], spec['np']))
                if decl is None:
                    raise NotImplementedError('no definition with %d parameters found%s' %
                                              (spec['np'], '' if objs else ' (clang: ' + err.strip()[-200:] + ')'))
                tr = TrM(cls, methods, spec, done, src_text)
                args, term = tr.function(decl)
                res = list(spec['outs'])
                for en, ar in spec['effects']:
                    res.append(f'{en}[' + '; '.join(x for x in tr.shapes.get(en, ['not performed']) if not x.startswith('(')) + ']')
                doc = (f'/-- `{cls}::{spec["fn"]}` — {where}\n    inputs: {" ".join(ins) or "—"}; arguments: {" ".join(args) or "—"}\n'
                       f'    result: some ({", ".join(res)}) | none = throws'
                       + (f'\n    not translated: {"; ".join(sorted(set(tr.skipped)))}' if tr.skipped else '') + ' -/\n')
                ps = ' '.join(ins + args)
                out.append(f'def {name}_translated : Bool := true\n{doc}def {name}' + (f' ({ps} : Int)' if ps else '')
                           + f' : Option ({rt}) :=\n  {term}\n')
                done[(spec['fn'], spec['nargs'])] = spec
            except Exception as e:
                why = str(e) if isinstance(e, NotImplementedError) else f'{type(e).__name__}: {e}'
                why = why.replace('\n', ' ')
                fallback.append(f'{cls}::{spec["fn"]}: {why}')
                blanks = ' '.join('_' for _ in range(len(ins) + spec['nargs']))
                out.append(f'-- {cls}::{spec["fn"]}: outside the fragment ({why}); tied by correspondence (L3) only\n'
                           f'def {name}_translated : Bool := false\n'
                           f'def {name}' + (f' ({blanks} : Int)' if blanks else '') + f' : Option ({rt}) := none\n')
    out.append('end Op2.Gen.Streams\n')
    return '\n'.join(out), fallback


if __name__ == '__main__':
    if len(sys.argv) > 2 and sys.argv[2] == 'streams':
        txt, fb = generate_streams(sys.argv[1])
    else:
        txt, fb = generate(sys.argv[1] if len(sys.argv) > 1 else '/repo')
    print(txt); print(fb, file=sys.stderr)
