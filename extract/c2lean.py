#!/usr/bin/env python3
"""Prototype: clang-14 typed JSON AST -> Lean 4 definitions over Int, for loop-free integer functions.
Every expression is translated to the exact mathematical value it has in C++ (already reduced to the
range of the type clang assigned to that node). Signed overflow / over-wide shifts are not yet turned
into faults in this prototype (they are marked TODO-fault in the output)."""
import json, subprocess, sys, re
REPO = '/repo'

TYPES = {  # canonical type -> (bits, signed)
 'unsigned long': (64, False), 'long': (64, True), 'unsigned int': (32, False), 'int': (32, True),
 'unsigned short': (16, False), 'short': (16, True), 'unsigned char': (8, False), 'signed char': (8, True),
 'char': (8, True), 'bool': (1, False), 'unsigned long long': (64, False), 'long long': (64, True)}

def ctype(node):
    t = node.get('type', {})
    q = t.get('desugaredQualType', t.get('qualType', ''))
    q = q.replace('const ', '').strip()
    if q not in TYPES:
        raise NotImplementedError('type ' + q)
    return TYPES[q]

def cast(bits, signed, e):
    return f'(castS {bits} {e})' if signed else f'(castU {bits} {e})'

class Tr:
    def __init__(self): self.tables = {}
    def expr(self, n):
        k = n['kind']
        if k == 'IntegerLiteral': return f'({n["value"]} : Int)'
        if k == 'ParenExpr': return self.expr(n['inner'][0])
        if k in ('ImplicitCastExpr', 'CXXStaticCastExpr', 'CStyleCastExpr', 'CXXFunctionalCastExpr'):
            ck = n.get('castKind')
            inner = n['inner'][0]
            if ck in ('LValueToRValue', 'NoOp'): return self.expr(inner)
            if ck == 'IntegralCast':
                b, s = ctype(n); return cast(b, s, self.expr(inner))
            if ck == 'IntegralToBoolean': return f'(if {self.expr(inner)} ≠ 0 then 1 else 0)'
            if ck == 'ArrayToPointerDecay': return self.expr(inner)
            raise NotImplementedError('cast ' + str(ck))
        if k == 'DeclRefExpr': return n['referencedDecl']['name']
        if k == 'MemberExpr':
            return 'self_' + n['name']
        if k == 'UnaryOperator':
            op = n['opcode']; a = self.expr(n['inner'][0]); b, s = ctype(n)
            if op == '!': return f'(if {a} = 0 then 1 else 0)'
            if op == '~': return cast(b, s, f'(-{a} - 1)')
            if op == '-': return cast(b, s, f'(-{a})')
            raise NotImplementedError('unop ' + op)
        if k == 'BinaryOperator':
            op = n['opcode']; l = self.expr(n['inner'][0]); r = self.expr(n['inner'][1])
            if op in ('<', '>', '<=', '>=', '==', '!='):
                lop = {'==': '=', '!=': '≠', '<=': '≤', '>=': '≥'}.get(op, op)
                return f'(if {l} {lop} {r} then 1 else 0)'
            if op == '&&': return f'(if {l} ≠ 0 ∧ {r} ≠ 0 then 1 else 0)'
            if op == '||': return f'(if {l} ≠ 0 ∨ {r} ≠ 0 then 1 else 0)'
            b, s = ctype(n)
            if op in ('+', '-', '*'): return cast(b, s, f'({l} {op} {r})')
            if op == '/': return f'({l} / {r})'          # operands non-negative in this fragment (TODO-fault: signed, zero)
            if op == '%': return f'({l} % {r})'
            if op == '<<': return cast(b, s, f'({l} * 2 ^ ({r}).toNat)')   # TODO-fault: r >= bits
            if op == '>>': return f'({l} / 2 ^ ({r}).toNat)'
            if op == '&': return f'(Int.ofNat (({l}).toNat &&& ({r}).toNat))'
            if op == '|': return f'(Int.ofNat (({l}).toNat ||| ({r}).toNat))'
            raise NotImplementedError('binop ' + op)
        if k == 'ConditionalOperator':
            c, a, b = (self.expr(x) for x in n['inner'])
            return f'(if {c} ≠ 0 then {a} else {b})'
        if k == 'ArraySubscriptExpr':
            arr = self.expr(n['inner'][0]); idx = self.expr(n['inner'][1])
            return f'({arr}.getD ({idx}).toNat 0)'
        if k == 'CallExpr':
            callee = n['inner'][0]
            while callee['kind'] in ('ImplicitCastExpr',): callee = callee['inner'][0]
            name = callee['referencedDecl']['name']
            args = ' '.join(self.expr(a) for a in n['inner'][1:])
            return f'(gen_{name} {args})'
        if k == 'UnaryExprOrTypeTraitExpr':
            raise NotImplementedError('sizeof (needs Layout)')
        if k == 'InitListExpr':
            return '(' + ', '.join(self.expr(x) for x in n['inner']) + ')'
        if k in ('ExprWithCleanups', 'MaterializeTemporaryExpr', 'CXXBindTemporaryExpr'): return self.expr(n['inner'][0])
        raise NotImplementedError('expr ' + k)
    def stmts(self, ss, indent):
        """translate a statement list to a Lean term (the function's return value)"""
        if not ss: return 'default'
        s = ss[0]; rest = ss[1:]; k = s['kind']; pad = '  ' * indent
        if k == 'CompoundStmt': return self.stmts(s.get('inner', []) + rest, indent)
        if k == 'ReturnStmt': return self.expr(s['inner'][0])
        if k == 'DeclStmt':
            out = ''
            for v in s['inner']:
                init = v['inner'][0]
                if init['kind'] == 'InitListExpr':   # constant table
                    vals = ', '.join(str(x['value']) for x in init['inner'])
                    out += f'let {v["name"]} : List Int := [{vals}]\n{pad}'
                else:
                    out += f'let {v["name"]} : Int := {self.expr(init)}\n{pad}'
            return out + self.stmts(rest, indent)
        if k == 'IfStmt':
            c = self.expr(s['inner'][0]); th = s['inner'][1]
            els = s['inner'][2] if len(s['inner']) > 2 else None
            t = self.stmts([th], indent + 1)
            e = self.stmts(([els] if els else []) + rest, indent + 1) if (els or rest) else 'default'
            return f'if {c} ≠ 0 then\n{pad}  {t}\n{pad}else\n{pad}  {e}'
        raise NotImplementedError('stmt ' + k)

def dump(src, fn):
    out = subprocess.run(['clang++-14', '-std=gnu++17', '-fsyntax-only', '-I' + REPO + '/src', '-Xclang', '-ast-dump=json',
                          '-Xclang', '-ast-dump-filter=' + fn, src], capture_output=True, text=True)
    txt = out.stdout; dec = json.JSONDecoder(); i = 0; objs = []
    while i < len(txt):
        while i < len(txt) and txt[i] in ' \n\r\t': i += 1
        if i >= len(txt): break
        o, j = dec.raw_decode(txt, i); objs.append(o); i = j
    return objs

def translate(src, fn, nparams, members=()):
    for o in dump(src, fn):
        params = [c for c in o.get('inner', []) if c['kind'] == 'ParmVarDecl']
        body = [c for c in o.get('inner', []) if c['kind'] == 'CompoundStmt']
        if body and len(params) == nparams and o.get('name') == fn:
            tr = Tr()
            term = tr.stmts(body, 1)
            ps = ' '.join(f'({m} : Int)' for m in members) + ' ' + ' '.join(f'({p["name"]} : Int)' for p in params)
            return f'def gen_{fn} {ps.strip()} :=\n  {term}\n'
    raise RuntimeError('no definition for ' + fn)

PRELUDE = '''-- GENERATED by extract/c2lean.py from the clang-14 typed AST of /repo's current sources; do not edit
namespace Op2.Gen.Formulas
/-- conversion to an unsigned type of `bits` bits -/
def castU (bits : Nat) (x : Int) : Int := x % (2 ^ bits : Int)
/-- conversion to a signed type of `bits` bits (two's complement, as g++ / clang do) -/
def castS (bits : Nat) (x : Int) : Int := (x + 2 ^ (bits - 1)) % (2 ^ bits : Int) - 2 ^ (bits - 1)
'''

# (source file relative to /repo/src, function, number of parameters, member variables read)
FUNCTIONS = [
    ('Map/Map.cpp', 'GetTileIndex', 2, ['self_heightInTiles']),
    ('Bitmap/ImageHeader.cpp', 'CalcPixelByteWidth', 2, []),
    ('Bitmap/ImageHeader.cpp', 'CalculatePitch', 2, []),
    ('BitTwiddle.cpp', 'IsPowerOf2', 1, []),
    ('BitTwiddle.cpp', 'Log2OfPowerOf2', 1, []),
    ('Archive/HuffLZ.cpp', 'GetOffsetModifiers', 1, []),
    ('Map/MapHeader.h', 'WidthInTiles', 0, ['self_lgWidthInTiles']),
    ('Map/MapHeader.h', 'TileCount', 0, ['self_heightInTiles', 'self_lgWidthInTiles']),
]

def generate(repo):
    """returns (lean text, list of functions that fell back)"""
    global REPO
    REPO = repo
    out = [PRELUDE]; fallback = []
    for src, fn, n, members in FUNCTIONS:
        try:
            out.append(translate(repo + '/src/' + src, fn, n, members))
        except Exception as e:  # node kind outside the fragment, or the function is gone
            fallback.append(f'{fn}: {e}')
            out.append(f'-- {fn}: not translated ({e})\n')
    out.append('end Op2.Gen.Formulas\n')
    return '\n'.join(out), fallback

if __name__ == '__main__':
    txt, fb = generate(sys.argv[1] if len(sys.argv) > 1 else '/repo')
    print(txt); print(fb, file=sys.stderr)
