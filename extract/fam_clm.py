"""Literal facts of src/Archive/ClmFile.cpp that the CLM proofs depend on (C03, C05 part clm, C20 part clm)."""
import os, re

WIDTH = {"uint32_t": 32, "std::uint32_t": 32, "unsigned": 32, "unsigned int": 32, "uint64_t": 64, "std::uint64_t": 64,
         "std::size_t": 64, "size_t": 64, "unsigned long": 64, "unsigned long long": 64, "uintmax_t": 64}
LIMITS = {"UINT32_MAX": (1 << 32) - 1, "UINT64_MAX": (1 << 64) - 1, "UINT16_MAX": (1 << 16) - 1, "INT32_MAX": (1 << 31) - 1,
          "std::numeric_limits<uint32_t>::max()": (1 << 32) - 1, "std::numeric_limits<uint64_t>::max()": (1 << 64) - 1}

def scrape(repo):
    out = {}; problems = []
    with open(os.path.join(repo, "src", "Archive", "ClmFile.cpp")) as f: c = f.read()
    m = re.search(r"([A-Za-z_:0-9 ]+?)\s+currentPosition\s*=\s*sizeof\(RiffHeader\)", c)
    if m and m.group(1).strip() in WIDTH: out["clm_cursorBits"] = WIDTH[m.group(1).strip()]
    else: problems.append("clm_cursorBits: declaration of FindChunk's currentPosition not recognised")
    m = re.search(r"offset\s*\+\s*indexEntries\[i\]\.dataLength\s*>\s*([A-Za-z0-9_:<>()]+)\)\s*\{", c)
    if m and (m.group(1) in LIMITS or m.group(1).isdigit()): out["clm_offsetLimit"] = LIMITS.get(m.group(1)) or int(m.group(1))
    else: problems.append("clm_offsetLimit: guard of PrepareIndex not recognised")
    m = re.search(r"name\.size\(\)\s*>\s*(\d+)", c)
    if m: out["clm_nameMax"] = int(m.group(1))
    else: problems.append("clm_nameMax: name length guard of CreateArchive not recognised")
    m = re.search(r"return WaveFormatEx\s*\{(.*?)\};", c, re.S)
    if m:
        body = re.sub(r"//[^\n]*", "", m.group(1))
        try: out["clm_defaultFormat"] = [int(x.strip(), 0) for x in body.split(",") if x.strip()]
        except ValueError: problems.append("clm_defaultFormat: non-literal field")
    else: problems.append("clm_defaultFormat: PrepareWaveFormat default not recognised")
    return out, problems
