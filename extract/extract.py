#!/usr/bin/env python3
"""L2: regenerate lean/Op2Model/Gen/*.lean from /repo's current working tree.

  Layout.lean    - sizeof/offsetof/bit-field masks/public constants, measured by the `layout.dump`
                   command of the driver built from the current headers
  Formulas.lean  - loop-free integer functions translated from clang-14's typed AST
  Streams.lean   - guards and cursor updates of the stream classes' member functions (same translator,
                   member-function fragment); a file of its own so that only C12-C14 depend on it
  Constants.lean - literals scraped from function bodies the two above cannot see
Files are only rewritten when their content changes (keeps `lake build` incremental)."""
import json, os, re, subprocess, sys
sys.path.insert(0, os.path.dirname(os.path.dirname(os.path.abspath(__file__))))
from vlib.common import *
from extract import c2lean

GEN = os.path.join(LEAN, "Op2Model", "Gen")

def _write_if_changed(path, text):
    old = None
    if os.path.exists(path):
        with open(path) as f: old = f.read()
    if old != text:
        with open(path, "w") as f: f.write(text)
        return True
    return False

def scrape_constants(repo):
    """returns (dict name -> int or list, list of problems)"""
    out = {}; problems = []
    def src(rel):
        with open(os.path.join(repo, "src", rel)) as f: return f.read()
    NUM = r"(0[xX][0-9A-Fa-f]+|\d+)[uUlL]*"      # a literal in any spelling
    def grab(name, text, pattern, conv=lambda m: int(m.group(1), 0)):
        pattern = pattern.replace("<NUM>", NUM)
        m = re.search(pattern, text)
        if not m: problems.append(f"{name}: pattern not found"); return
        try: out[name] = conv(m)
        except Exception as e: problems.append(f"{name}: {e}")
    h = src("Archive/HuffLZ.cpp")
    grab("huff_symbolCount", h, r"AdaptiveHuffmanTree\(<NUM>\)")
    # const int maxFill = 4096 - (314 - 253) - 1;
    grab("huff_maxFill", h, r"maxFill\s*=\s*([^;]+);", lambda m: int(eval(m.group(1), {"__builtins__": {}})))
    grab("huff_matchBase", h, r"code\s*-=\s*<NUM>")
    grab("huff_literalLimit", h, r"if\s*\(code\s*<\s*<NUM>\)")
    grab("huff_fillByte", h, r"memset\(m_DecompressBuffer,\s*'(.)'", lambda m: ord(m.group(1)))
    grab("huff_windowMask", h, r"m_BuffWriteIndex \+ 1\)\s*&\s*<NUM>")
    m = src("Map/MapReader.cpp")
    grab("map_savedGameSkip", m, r"SeekForward\(<NUM>\)")
    grab("map_tilesetHeader", m, r'tilesetHeader\{\s*"([^"]+)"\s*\}',
         lambda mm: list(mm.group(1).encode().decode("unicode_escape").encode("latin1")) + [0])
    c = src("Archive/ClmFile.cpp")
    grab("clm_fileVersion", c, r'standardFileVersion\s*\{\s*"([^"]+)"\s*\}',
         lambda mm: list(re.sub(r"\\x01A", "\x1a", mm.group(1)).replace("\\0", "\0").encode("latin1")) + [0])
    grab("clm_unknown", c, r"standardUnknown\s*\{\s*([^}]+)\}", lambda mm: [int(x) for x in mm.group(1).split(",")])
    v = src("Archive/VolFile.cpp")
    grab("vol_namePad", v, r"paddedStringTableLength = \(volInfo\.stringTableLength \+ <NUM>\) & ~3")
    grab("vol_indexPad", v, r"paddedIndexTableLength = \(volInfo\.indexTableLength \+ <NUM>\) & ~3")
    grab("vol_blockPad", v, r"previousIndex\.fileSize \+ <NUM>\) & ~")
    grab("vol_firstBlockExtra", v, r"dataBlockOffset\s*=\s*volInfo\.paddedStringTableLength\s*\+\s*volInfo\.paddedIndexTableLength\s*\+\s*<NUM>\s*;")
    grab("vol_headerExtra", v, r"TagVOL_\s*,\s*volInfo\.paddedStringTableLength\s*\+\s*volInfo\.paddedIndexTableLength\s*\+\s*<NUM>\s*\)")
    # family scrapers: extract/fam_<name>.py with `scrape(repo) -> (dict name -> int | list of int, list of problems)`
    import glob, importlib
    for f in sorted(glob.glob(os.path.join(os.path.dirname(os.path.abspath(__file__)), "fam_*.py"))):
        name = os.path.basename(f)[:-3]
        try:
            d, pr = importlib.import_module("extract." + name).scrape(repo)
            for k, val in d.items():
                if k in out and out[k] != val: problems.append(f"{name}: constant {k} defined twice with different values")
                out[k] = val
            problems += [f"{name}: {x}" for x in pr]
        except Exception as e:
            problems.append(f"{name}: {type(e).__name__}: {e}")
    return out, problems

def lean_value(v):
    if isinstance(v, list): return "[" + ", ".join(str(x) for x in v) + "]", "List Nat"
    return str(v), "Nat"

def regenerate(drv_exe, repo=REPO):
    """returns dict with 'changed' (list of files rewritten), 'fallback', 'problems'"""
    os.makedirs(GEN, exist_ok=True)
    info = {"changed": [], "fallback": [], "problems": []}
    r = subprocess.run([drv_exe], input="layout.dump\n", capture_output=True, text=True,
                       env=dict(os.environ, ASAN_OPTIONS="detect_leaks=0"))
    if r.returncode != 0 or "namespace Op2.Gen.Layout" not in r.stdout:
        info["problems"].append("layout.dump failed: " + r.stderr[-500:])
    else:
        text = r.stdout
        # facts the probes could not measure on this tree (private records / members renamed or moved: layout.cpp was built with
        # LAYOUT_PUBLIC_ONLY) keep their pinned values, so the theorems still build; they are listed as layout_unmeasured
        pinned_path = os.path.join(os.path.dirname(os.path.abspath(__file__)), "pinned_layout.json")
        have = dict((m.group(1), m.group(0)) for m in re.finditer(r"^def (\w+) : [^\n]*$", text, re.M))
        try:
            with open(pinned_path) as f: pinned_layout = json.load(f)
        except Exception: pinned_layout = {}
        missing = [k for k in pinned_layout if k not in have]
        if missing:
            info["layout_unmeasured"] = missing
            text = text.replace("end Op2.Gen.Layout", "-- not measured on this tree (pinned values):\n" + "\n".join(pinned_layout[k] for k in missing) + "\nend Op2.Gen.Layout")
        if _write_if_changed(os.path.join(GEN, "Layout.lean"), text): info["changed"].append("Layout.lean")
    txt, fb = c2lean.generate(repo)
    info["fallback"] = fb
    if _write_if_changed(os.path.join(GEN, "Formulas.lean"), txt): info["changed"].append("Formulas.lean")
    try:
        stxt, sfb = c2lean.generate_streams(repo)
        info["fallback"] = list(fb) + sfb
        if _write_if_changed(os.path.join(GEN, "Streams.lean"), stxt): info["changed"].append("Streams.lean")
    except Exception as e:   # clang missing, …: leave the committed file in place and say so
        info["problems"].append(f"Streams.lean not regenerated: {type(e).__name__}: {e}")
    # generator plug-ins: extract/gen_<name>.py exposing `generate(repo) -> (file name under Gen/, text, fallbacks)`; a plug-in that
    # cannot run leaves its committed file in place and is reported as a problem (never an alarm by itself)
    import glob as _glob, importlib as _importlib
    for f in sorted(_glob.glob(os.path.join(os.path.dirname(os.path.abspath(__file__)), "gen_*.py"))):
        name = os.path.basename(f)[:-3]
        try:
            fname, text, gfb = _importlib.import_module("extract." + name).generate(repo)
            info["fallback"] = list(info["fallback"]) + list(gfb)
            if _write_if_changed(os.path.join(GEN, fname), text): info["changed"].append(fname)
        except Exception as e:
            info["problems"].append(f"{name}: {type(e).__name__}: {e}")
    consts, problems = scrape_constants(repo)
    info["problems"] += problems
    # a literal the scraper no longer recognises (moved, renamed, respelled beyond its patterns) keeps its pinned value with
    # `<name>_scraped := false`: the bridging lemma `<name>_scraped = true → <name> = model value` is then vacuous and the fact
    # is tied by the differential run alone (listed under generated_facts.unscraped in the evidence) - not an alarm
    with open(os.path.join(os.path.dirname(os.path.abspath(__file__)), "pinned_constants.json")) as f: pinned = json.load(f)
    info["unscraped"] = sorted(k for k in pinned if k not in consts)
    lines = ["-- GENERATED by extract/extract.py (literal scraper) from /repo's current sources; do not edit",
             "namespace Op2.Gen.Constants"]
    for k in sorted(set(consts) | set(pinned)):
        val, ty = lean_value(consts.get(k, pinned.get(k)))
        lines.append(f"def {k} : {ty} := {val}")
        lines.append(f"def {k}_scraped : Bool := {'true' if k in consts else 'false'}")
    lines.append("end Op2.Gen.Constants\n")
    if _write_if_changed(os.path.join(GEN, "Constants.lean"), "\n".join(lines)): info["changed"].append("Constants.lean")
    return info

if __name__ == "__main__":
    from vlib import build
    exe, err = build.build_driver()
    if not exe:
        print(err); sys.exit(1)
    print(regenerate(exe))
