#!/usr/bin/env python3
"""L2 for the loop-free pieces of the LZH decompressor: `BitStreamReader`, the index arithmetic of `HuffLZ`, the accessors and
the constructor arithmetic of `AdaptiveHuffmanTree`  ->  lean/Op2Model/Gen/Bits.lean  (plug-in of extract/extract.py).

Built on the member-function translator of extract/c2lean.py (`TrM`, see notes/l2streams.md); this file adds, as a subclass:

  * element reads of a member array / pointer / std::vector (`m_Buffer[e]`, `linkOrData[e]`): the array is an *input of type
    `Int → Int`* named in the table, the read is the application `(self_m_Buffer e)`;
  * element stores (`m_DecompressBuffer[e] = v`): an effect `store.<array>` recording index and value;
  * `<<`, `>>` (unsigned and signed), signed `& | ^ / %`, all compound assignments (`<<=  >>=  &=  |=  ^=  /=  %=`);
  * locals declared without initialiser (reading one before it is assigned falls back), pointer-valued locals
    (`p = &array[e]`: the offset), stores through a pointer parameter (`*sizeAvailableData = e`: a result named `*name`);
  * several calls of one effect on a path (`memcpy`, `memcpy#2`: numbered in path order); the destination offset inside a
    pointer parameter is recorded too;
  * struct-valued calls of a function `Gen/Formulas.lean` already carries (`GetOffsetModifiers`), fields as projections;
  * **opaque loops**: a `for`/`while`/`do` whose body the fragment does not look into.  Members the loop may write must not be
    results; every local the loop assigns is *havocked*: it continues as the input `loop_<name>` if the table declares one,
    and reading it otherwise falls back.  (Used for `GetRepeatOffset`: the arithmetic before and after the extra-bit loop,
    and for the constructor of the tree: the member initialisers before the two filling loops.)
  * `guard` functions: the first `while (c)` is translated as the result `loop.guard = (c ? 1 : 0)` and translation stops
    there (`FillDecompressBuffer`: "is another code decompressed?"); a path that returns before the loop yields `-1`;
  * opaque calls `this->F()` named in the table, allowed only before any member is read or written: the inputs are then the
    members' values *after* that call (`GetInternalBuffer`: `FillDecompressBuffer()` first).
Signatures are fixed by the table; a body outside the fragment gives `<Fn>_translated := false` and a dummy body."""
import os, re, sys
sys.path.insert(0, os.path.dirname(os.path.dirname(os.path.abspath(__file__))))
from extract import c2lean
from extract.c2lean import TrM, F, TYPES, ctype, is_int, strip, is_this, lname, ucast, this_member, BASE_CASTS

CASTS = ('ImplicitCastExpr', 'CXXStaticCastExpr', 'CStyleCastExpr', 'CXXFunctionalCastExpr')

def G(fn, np, lean, ins, nargs, outs, effects=(), **kw):
    d = F(fn, np, lean, ins, nargs, outs, effects)
    d.update(arrays=[], opaque=[], loopvars=[], guard=False, consuming=[], need=[])
    d.update(kw)
    return d

def tyof(q):
    q = q.replace('const ', '').strip()
    if q not in TYPES: raise NotImplementedError('type ' + q)
    return TYPES[q]

def walk(n):
    yield n
    for c in n.get('inner', []) or []:
        if isinstance(c, dict): yield from walk(c)

class TrB(TrM):
    def __init__(self, cls, methods, spec, done, src_text, structs):
        super().__init__(cls, methods, spec, done, src_text)
        self.structs = structs                  # record name -> field names in declaration order
        self.struct_locals = {}                 # local -> field names
        self.member_seen = False
        self.nloops = 0
    # per-path state that `if` must save and restore lives in self.cur under keys no member can have
    def unset(self): return self.cur.get('#unset', frozenset())
    def set_unset(self, s): self.cur['#unset'] = frozenset(s)

    # ---------- arrays ----------
    def array_of(self, n):
        """`member[e]` (built-in subscript on an array / pointer member, or operator[] of a vector member) -> (member, index node)"""
        n = strip(n)
        if n.get('kind') == 'ArraySubscriptExpr': base, idx = n['inner'][0], n['inner'][1]
        elif n.get('kind') == 'CXXOperatorCallExpr' and len(n.get('inner', [])) == 3:
            callee = n['inner'][0]
            while callee.get('kind') == 'ImplicitCastExpr': callee = callee['inner'][0]
            if callee.get('referencedDecl', {}).get('name') != 'operator[]': return None
            base, idx = n['inner'][1], n['inner'][2]
        else: return None
        base = strip(base)
        while base.get('kind') in CASTS and base.get('castKind') in ('LValueToRValue', 'NoOp', 'ArrayToPointerDecay') + BASE_CASTS:
            base = strip(base['inner'][0])
        if base.get('kind') == 'MemberExpr' and is_this(base['inner'][0]): return base['name'], idx
        return None
    def array_read(self, n):
        a = self.array_of(n)
        if a is None: raise NotImplementedError('subscript of something that is not a member array')
        name, idx = a
        if name not in self.spec['arrays']:
            raise NotImplementedError(f'reads an element of {name}, which is not among the declared arrays {self.spec["arrays"]}')
        if ('store.' + name) in self.path.effects: raise NotImplementedError(f'{name} read after a store to it')
        self.member_seen = True
        ctype(n)
        return f'(self_{lname(name)} {self.expr(idx)})'

    # ---------- expressions ----------
    def binop(self, op, l, r, bits, signed):
        M = 2 ** bits
        if op in ('+', '-', '*'): return ucast(bits, signed, f'({l} {op} {r})')
        if op == '<<': return ucast(bits, signed, f'({l} * 2 ^ ({r}).toNat)')          # shift count < width: not modelled as a fault
        if op == '>>': return f'({l} / 2 ^ ({r}).toNat)'                                # floor = arithmetic shift on negatives
        if op in ('&', '|', '^'):
            lop = {'&': '&&&', '|': '|||', '^': '^^^'}[op]
            if not signed: return f'(Int.ofNat (({l}).toNat {lop} ({r}).toNat))'
            # two's complement: through the unsigned representation and back
            return ucast(bits, True, f'(Int.ofNat ((({l}) % {M}).toNat {lop} (({r}) % {M}).toNat))')
        if op in ('/', '%'):
            if signed: raise NotImplementedError(f'signed {op}')
            return f'({l} {op} {r})'                                                     # a zero divisor is a fault the fragment does not model
        raise NotImplementedError('binop ' + op)
    def expr(self, n):
        k = n['kind']
        if k in ('ArraySubscriptExpr', 'CXXOperatorCallExpr'): return self.array_read(n)
        if k == 'BinaryOperator' and n['opcode'] in ('<<', '>>', '&', '|', '^', '/', '%'):
            b, s = ctype(n)
            return self.binop(n['opcode'], self.expr(n['inner'][0]), self.expr(n['inner'][1]), b, s)
        if k == 'UnaryOperator' and n['opcode'] == '*':
            p = strip(n['inner'][0])
            while p.get('kind') in CASTS and p.get('castKind') in ('LValueToRValue', 'NoOp'): p = strip(p['inner'][0])
            if p.get('kind') == 'DeclRefExpr' and p['referencedDecl'].get('kind') == 'ParmVarDecl':
                key = '*' + p['referencedDecl']['name']
                if key in self.cur: ctype(n); return self.cur[key]
                raise NotImplementedError(f'reads {key} before the function stored to it')
            raise NotImplementedError('dereference')
        if k == 'MemberExpr':
            base = strip(n['inner'][0])
            if base.get('kind') == 'DeclRefExpr' and base['referencedDecl'].get('name') in self.struct_locals:
                fields = self.struct_locals[base['referencedDecl']['name']]
                if n['name'] not in fields or len(fields) != 2: raise NotImplementedError('field ' + n['name'])
                ctype(n)
                return f'({lname(base["referencedDecl"]["name"])}.{fields.index(n["name"]) + 1})'
            if is_this(n['inner'][0]): self.member_seen = True
            return super().expr(n)
        if k == 'DeclRefExpr':
            name = n['referencedDecl'].get('name')
            if name in self.unset(): raise NotImplementedError(f'local {name} read before it is assigned (or after a loop changed it)')
            if n['referencedDecl'].get('kind') not in ('VarDecl', 'ParmVarDecl'): raise NotImplementedError('reference to ' + str(name))
            return super().expr(n)
        if k == 'CXXMemberCallExpr':
            obj, m, args = self.member_call(n)
            v = super().expr(n)
            if obj != 'this' and f'{obj}.{m}()' in self.spec['consuming']: self.path.touched.add(obj)
            return v
        return super().expr(n)

    def pointer(self, n):
        s = strip(n)
        while s.get('kind') in CASTS and s.get('castKind') in ('LValueToRValue', 'NoOp'): s = strip(s['inner'][0])
        if s.get('kind') == 'DeclRefExpr' and ('#ptr:' + s['referencedDecl'].get('name', '')) in self.cur:
            nm = s['referencedDecl']['name']
            return self.cur['#ptr:' + nm], lname(nm)
        if s.get('kind') == 'DeclRefExpr' and s['referencedDecl'].get('kind') == 'ParmVarDecl':
            return '(' + s['referencedDecl']['name'] + ')', '(0 : Int)'          # parameter: base in parentheses
        return super().pointer(n)
    def effect_args(self, args):
        """as TrM, but the offset inside a pointer *parameter* is recorded too (memcpy destination)"""
        out = []; shape = []
        for a in args:
            a0 = strip(a)
            if a0.get('kind') == 'CXXDefaultArgExpr': shape.append('(default argument, omitted)')
            elif is_int(a0): out.append(self.expr(a0)); shape.append('int')
            elif a0.get('type', {}).get('qualType', '').rstrip().endswith('*'):
                base, off = self.pointer(a0)
                out.append(off); shape.append(f'offset in {base}')
            else: shape.append('(object, omitted)')
        return out, shape

    # ---------- statements ----------
    def lhs(self, n):
        n0 = strip(n)
        if n0['kind'] == 'MemberExpr' and is_this(n0['inner'][0]): self.member_seen = True
        r = super().lhs(n)
        if r[0] == 'local': self.set_unset(self.unset() - {r[1]})
        return r
    def effect_vars(self, name, arity):
        declared = dict(self.spec['effects'])
        if name in self.path.effects:                      # a second, third … call on this path
            i = 2
            while f'{name}#{i}' in self.path.effects: i += 1
            if f'{name}#{i}' not in declared: raise NotImplementedError(f'{name} called {i} times on one path')
            name = f'{name}#{i}'
        want = declared.get(name)
        if want is None: raise NotImplementedError(f'call of {name}, which is not among the declared effects')
        if arity != want: raise NotImplementedError(f'{name}: {arity} integer arguments, the table expects {want}')
        names = [f'eff_{lname(name.replace(".", "_").replace("#", "_"))}_{i}' for i in range(arity)]
        self.path.effects[name] = names
        if '.' in name and not name.startswith(('store.', 'init.', 'loop.')): self.path.touched.add(name.split('.')[0])
        return names
    def record(self, name, args, shape, indent):
        before = set(self.path.effects)
        names = self.effect_vars(name, len(args))
        used = (set(self.path.effects) - before).pop()
        self.shapes[used] = shape
        return ''.join(self.bind(v, a, indent) for v, a in zip(names, args))

    def loop_effects(self, loop):
        """members possibly written, locals assigned, member objects called, inside a loop the fragment does not look into"""
        members = set(); locs = set(); objs = set(); anything = False
        for x in walk(loop):
            k = x.get('kind')
            tgt = None
            if k == 'BinaryOperator' and x.get('opcode') == '=': tgt = x['inner'][0]
            elif k == 'CompoundAssignOperator': tgt = x['inner'][0]
            elif k == 'UnaryOperator' and x.get('opcode') in ('++', '--'): tgt = x['inner'][0]
            elif k == 'CXXMemberCallExpr':
                try:
                    obj, m, _ = self.member_call(x)
                    if obj == 'this': anything = True       # another member function: may write any member
                    else: objs.add(obj)
                except NotImplementedError: anything = True
            elif k == 'CallExpr': pass                        # free function: cannot reach private members
            if tgt is not None:
                t = strip(tgt)
                if t.get('kind') == 'MemberExpr' and is_this(t['inner'][0]): members.add(t['name'])
                elif t.get('kind') == 'DeclRefExpr': locs.add(t['referencedDecl'].get('name'))
                elif self.array_of(t) is not None: members.add(self.array_of(t)[0])
                else: anything = True
        return members, locs, objs, anything
    def opaque_loop(self, s, rest, indent):
        members, locs, objs, anything = self.loop_effects(s)
        outs = [o for o in self.spec['outs'] if o != 'ret' and not o.startswith('*')]
        if anything and outs: raise NotImplementedError('loop calling member functions, with members among the results')
        bad = [m for m in members if m in outs or m in self.spec['ins'] or m in self.spec['arrays']]
        if bad or (anything and (self.spec['ins'] or self.spec['arrays'])):
            raise NotImplementedError(f'loop may write {", ".join(bad) or "members"} of the declared interface')
        self.path.touched |= objs
        self.nloops += 1
        self.skipped.append('the body of the loop(s) (their effect on locals enters as the inputs loop_<local>)')
        out = ''
        declared_here = {v['name'] for d in s.get('inner', []) if isinstance(d, dict) and d.get('kind') == 'DeclStmt'
                         for v in d.get('inner', []) if v.get('kind') == 'VarDecl'}
        for name in sorted(locs - declared_here):
            if ('loop_' + name) in self.spec['loopvars']:
                out += self.bind(lname(name), 'loop_' + lname(name), indent)
                self.set_unset(self.unset() - {name})
            else: self.set_unset(self.unset() | {name})
        return out + self.stmts(rest, indent)

    def struct_init(self, v):
        """`auto m = GetOffsetModifiers(e);` -> pair from Gen/Formulas"""
        init = strip(v['inner'][0])
        while init.get('kind') in ('CXXConstructExpr',) and len(init.get('inner', [])) == 1: init = strip(init['inner'][0])
        while init.get('kind') in CASTS and init.get('castKind') == 'NoOp': init = strip(init['inner'][0])
        if init.get('kind') != 'CallExpr': return None
        callee = init['inner'][0]
        while callee.get('kind') == 'ImplicitCastExpr': callee = callee['inner'][0]
        name = callee.get('referencedDecl', {}).get('name')
        if name not in self.spec['need']: return None
        rec = v.get('type', {}).get('desugaredQualType', v.get('type', {}).get('qualType', '')).split('::')[-1].strip()
        if rec not in self.structs: raise NotImplementedError('record ' + rec)
        args = ' '.join(self.expr(a) for a in init['inner'][1:])
        self.struct_locals[v['name']] = self.structs[rec]
        return f'let {lname(v["name"])} : Int × Int := Op2.Gen.Formulas.gen_{name} {args}\n'

    def stmts(self, ss, indent):
        pad = '  ' * indent
        if not ss: return self.finish(None)
        s = ss[0]; rest = ss[1:]
        if s.get('kind') != 'CompoundStmt': s = strip(s)
        k = s['kind']
        if k in ('ForStmt', 'DoStmt'): return self.opaque_loop(s, rest, indent)
        if k == 'WhileStmt':
            if self.spec['guard'] and 'loop.guard' not in self.path.effects:
                c = self.cond(s['inner'][-2] if len(s['inner']) > 1 else s['inner'][0])
                self.skipped.append('the loop body and everything after it (only the first test of the loop condition is translated)')
                return self.record('loop.guard', [f'(if {c} then (1 : Int) else 0)'], ['first test of the loop condition'], indent) + self.finish(None)
            return self.opaque_loop(s, rest, indent)
        if k == 'DeclStmt':
            vs = [v for v in s.get('inner', []) if v.get('kind') == 'VarDecl']
            if len(vs) == len(s.get('inner', [])) and vs:
                out = ''
                for v in vs:
                    q = v.get('type', {}).get('desugaredQualType', v.get('type', {}).get('qualType', ''))
                    if not v.get('inner'):
                        if is_int(v): self.set_unset(self.unset() | {v['name']})
                        elif q.rstrip().endswith('*'): self.cur['#ptr:' + v['name']] = None
                        else: raise NotImplementedError('declaration of ' + q)
                    elif is_int(v):
                        ctype(v); out += self.bind(lname(v['name']), self.expr(v['inner'][0]), indent)
                        self.set_unset(self.unset() - {v['name']})
                    else:
                        t = self.struct_init(v)
                        if t is None:
                            if len(vs) == 1: return super().stmts(ss, indent)
                            raise NotImplementedError('object-valued local')
                        out += t + pad
                return out + self.stmts(rest, indent)
        if k == 'BinaryOperator' and s['opcode'] == '=':
            tgt = strip(s['inner'][0])
            a = self.array_of(tgt)
            if a is not None:                                                   # array[e] = v
                idx = self.expr(a[1]); val = self.expr(s['inner'][1])
                self.member_seen = True
                return self.record('store.' + a[0], [idx, val], ['index', 'value'], indent) + self.stmts(rest, indent)
            if tgt.get('kind') == 'UnaryOperator' and tgt.get('opcode') == '*':  # *param = v
                p = strip(tgt['inner'][0])
                while p.get('kind') in CASTS and p.get('castKind') in ('LValueToRValue', 'NoOp'): p = strip(p['inner'][0])
                if p.get('kind') == 'DeclRefExpr' and p['referencedDecl'].get('kind') == 'ParmVarDecl':
                    key = '*' + p['referencedDecl']['name']
                    if key not in self.spec['outs']: raise NotImplementedError(f'stores to {key}, which is not among the declared results')
                    ctype(tgt)
                    var = 'out_' + lname(p['referencedDecl']['name'])
                    v = self.expr(s['inner'][1]); self.cur[key] = var
                    return self.bind(var, v, indent) + self.stmts(rest, indent)
                raise NotImplementedError('store through a pointer')
            if tgt.get('kind') == 'DeclRefExpr' and ('#ptr:' + tgt['referencedDecl'].get('name', '')) in self.cur:
                base, off = self.pointer(s['inner'][1])
                nm = tgt['referencedDecl']['name']; self.cur['#ptr:' + nm] = base
                return self.bind(lname(nm), off, indent) + self.stmts(rest, indent)
        if k == 'CompoundAssignOperator' and s['opcode'][:-1] not in ('+', '-', '*'):
            op = s['opcode'][:-1]
            cb, cs = tyof(s['computeResultType'].get('desugaredQualType', s['computeResultType'].get('qualType', '')))
            lt = tyof(s['computeLHSType'].get('desugaredQualType', s['computeLHSType'].get('qualType', '')))
            lb, ls = ctype(s)
            l = self.expr(s['inner'][0])
            if lt != (lb, ls): l = ucast(*lt, l)
            v = self.binop(op, l, self.expr(s['inner'][1]), cb, cs)
            if (cb, cs) != (lb, ls): v = ucast(lb, ls, v)
            return self.assign(s['inner'][0], v, indent) + self.stmts(rest, indent)
        if k == 'CXXMemberCallExpr':
            obj, m, args = self.member_call(s)
            if obj == 'this' and m in self.spec['opaque']:
                if self.member_seen or self.cur.get('#opaque_done'):
                    raise NotImplementedError(f'{m}() called after a member was read or written')
                self.skipped.append(f'{m}() (called first: the inputs are the members after that call)')
                return self.stmts(rest, indent)
        if k == 'ReturnStmt' and s.get('inner'):
            v = strip(s['inner'][0])
            if not is_int(v) and v.get('type', {}).get('qualType', '').rstrip().endswith('*'):
                base, off = self.pointer(v)
                self.shapes['ret'] = [f'offset in {base}']
                return self.finish(off)
        return super().stmts(ss, indent)

    def function(self, decl):
        params = [c for c in decl.get('inner', []) if c['kind'] == 'ParmVarDecl']
        ints = [p for p in params if is_int(p)]
        if len(ints) != self.spec['nargs']:
            raise NotImplementedError(f'{len(ints)} integer parameters, the table expects {self.spec["nargs"]}')
        pre = ''
        for ci in [c for c in decl.get('inner', []) if c['kind'] == 'CXXCtorInitializer']:
            fld = ci.get('anyInit', {})
            if fld.get('kind') != 'FieldDecl': continue
            init = strip(ci['inner'][0]) if ci.get('inner') else None
            if init is not None and is_int(init) and is_int(fld):
                pre += self.assign(this_member(fld['name'], fld['type']), self.expr(init), 1)
            elif init is not None and init.get('kind') == 'CXXConstructExpr' and ('init.' + fld['name']) in dict(self.spec['effects']):
                a, shape = self.effect_args(init.get('inner', []))
                pre += self.record('init.' + fld['name'], a, shape, 1)
            else: self.skipped.append(f'initialisation of member {fld.get("name")}')
        body = [c for c in decl.get('inner', []) if c['kind'] == 'CompoundStmt']
        term = pre + self.stmts(body, 1)
        return [lname(p['name']) for p in ints], term

# ------------------------------------------------------------------------------------------------------
BS = ['m_BufferBitSize', 'm_ReadBitIndex', 'm_ReadBuff']
HZ = ['m_BuffWriteIndex', 'm_BuffReadIndex']
AH = ['nodeCount']
CLASSES = [
    ('BitStreamReader', 'Archive/BitStreamReader.cpp', ['Archive/BitStreamReader.cpp'], [
        G('BitStreamReader', 2, 'Create', [], 1, BS),
        G('ReadNextBit', 0, 'ReadNextBit', BS, 0, ['ret', 'm_ReadBitIndex', 'm_ReadBuff'], arrays=['m_Buffer']),
        G('ReadNext8Bits', 0, 'ReadNext8Bits', BS, 0, ['ret', 'm_ReadBitIndex', 'm_ReadBuff'], arrays=['m_Buffer']),
        G('EndOfStream', 0, 'EndOfStream', BS, 0, ['ret']),
        G('GetBitReadPos', 0, 'GetBitReadPos', BS, 0, ['ret']),
    ]),
    ('HuffLZ', 'Archive/HuffLZ.cpp', ['Archive/HuffLZ.cpp'], [
        G('WriteCharToBuffer', 1, 'WriteCharToBuffer', ['m_BuffWriteIndex'], 1, ['m_BuffWriteIndex'], [('store.m_DecompressBuffer', 2)]),
        G('CopyAvailableData', 2, 'CopyAvailableData', HZ, 1, ['ret', 'm_BuffReadIndex'], [('memcpy', 3), ('memcpy#2', 3)]),
        G('GetInternalBuffer', 1, 'GetInternalBuffer', HZ, 0, ['ret', '*sizeAvailableData', 'm_BuffReadIndex'], opaque=['FillDecompressBuffer']),
        G('FillDecompressBuffer', 0, 'FillDecompressBuffer', HZ + ['m_EOS'], 0, [], [('loop.guard', 1)], guard=True),
        G('GetRepeatOffset', 0, 'GetRepeatOffset', ['m_BitStreamReader.ReadNext8Bits()'], 0, ['ret'], loopvars=['loop_offset'],
          consuming=['m_BitStreamReader.ReadNext8Bits()'], need=['GetOffsetModifiers']),
    ]),
    ('AdaptiveHuffmanTree', 'Archive/AdaptiveHuffmanTree.cpp', ['Archive/AdaptiveHuffmanTree.cpp'], [
        G('AdaptiveHuffmanTree', 1, 'Create', [], 1, ['terminalNodeCount', 'nodeCount', 'rootNodeIndex'],
          [('init.linkOrData', 1), ('init.subtreeCount', 1), ('init.parentIndex', 1)]),
        G('VerifyNodeIndexInBounds', 1, 'VerifyNodeIndexInBounds', AH, 1, []),
        G('VerifyNodeDataInBounds', 1, 'VerifyNodeDataInBounds', ['terminalNodeCount'], 1, []),
        G('GetRootNodeIndex', 0, 'GetRootNodeIndex', ['rootNodeIndex'], 0, ['ret']),
        G('GetChildNode', 2, 'GetChildNode', AH, 2, ['ret'], arrays=['linkOrData']),
        G('IsLeaf', 1, 'IsLeaf', AH, 1, ['ret'], arrays=['linkOrData']),
        G('GetNodeData', 1, 'GetNodeData', AH, 1, ['ret'], arrays=['linkOrData']),
    ]),
]

PRELUDE = """-- GENERATED by extract/gen_bits.py (member-function fragment of extract/c2lean.py + arrays, shifts, opaque loops) from the
-- clang-14 typed AST of the current sources; do not edit
import Op2Model.Gen.Formulas
/-!
`BitStreamReader`, the index arithmetic of `HuffLZ`, the accessors and constructor arithmetic of `AdaptiveHuffmanTree`.
`none` = the function throws.  `some (..)` = the values at exit of the members / return value / `*out` parameters named in
each comment, followed by the integer arguments of the effects (memcpy: destination offset, source offset, length; `store`:
index, value; `init`: the size a vector member is constructed with; `loop.guard`: 1 = the loop body is entered; `-1` = not
performed on that path).  Arrays are inputs of type `Int → Int` (`m_Buffer[e]` is `self_m_Buffer e`).  `loop_<x>` = the value of
the local `x` after a loop whose body is not translated.  Every node is reduced to the range of the type clang gave it.
-/
set_option linter.unusedVariables false
namespace Op2.Gen.Bits
open Op2.Gen.Formulas
"""

def find_structs(objs):
    out = {}
    for o in objs:
        for x in walk(o):
            if x.get('kind') == 'CXXRecordDecl' and x.get('completeDefinition') and x.get('name'):
                f = [c['name'] for c in x.get('inner', []) if c.get('kind') == 'FieldDecl']
                if f: out.setdefault(x['name'], f)
    return out

def sig(spec):
    ins = ['self_' + lname(i.replace('.', '_').replace('()', '')) for i in spec['ins']]
    arrs = ['self_' + lname(a) for a in spec['arrays']]
    loops = [lname(v) for v in spec['loopvars']]
    return ins, arrs, loops

def generate(repo):
    """returns (file name under lean/Op2Model/Gen, lean text, list of functions that fell back)"""
    from concurrent.futures import ThreadPoolExecutor
    def load(entry): return c2lean.dump_ast(repo, entry[0], path=repo + '/src/' + entry[1])
    with ThreadPoolExecutor(len(CLASSES)) as ex: dumps = list(ex.map(load, CLASSES))
    out = [PRELUDE]; fallback = []
    for (cls, tu, srcs, entries), (objs, err) in zip(CLASSES, dumps):
        src_text = {}
        for rel in srcs:
            try:
                with open(repo + '/src/' + rel, encoding='utf-8', errors='replace') as f: src_text[rel] = f.read()
            except OSError: pass
        methods = c2lean.collect_methods(objs, cls)
        structs = find_structs(objs)
        done = {}
        for spec in entries:
            name = f'{cls}_{spec["lean"]}'
            ins, arrs, loops = sig(spec)
            rt = c2lean.result_type(spec)
            nargs = spec['nargs']
            try:
                decl = methods.get((spec['fn'], spec['np']))
                if decl is None:
                    raise NotImplementedError('no definition with %d parameters found%s' %
                                              (spec['np'], '' if objs else ' (clang: ' + err.strip()[-200:] + ')'))
                tr = TrB(cls, methods, spec, done, src_text, structs)
                args, term = tr.function(decl)
                res = [o + ('[' + '; '.join(tr.shapes['ret']) + ']' if o == 'ret' and 'ret' in tr.shapes else '') for o in spec['outs']]
                for en, ar in spec['effects']:
                    res.append(f'{en}[' + '; '.join(x for x in tr.shapes.get(en, ['not performed']) if not x.startswith('(default') and not x.startswith('(object')) + ']')
                doc = (f'/-- `{cls}::{spec["fn"]}` — {tu}\n    inputs: {" ".join(ins + arrs + loops) or "—"}; arguments: {" ".join(args) or "—"}\n'
                       f'    result: some ({", ".join(res)}) | none = throws'
                       + (f'\n    not translated: {"; ".join(sorted(set(tr.skipped)))}' if tr.skipped else '') + ' -/\n')
                ps = (f' ({" ".join(ins)} : Int)' if ins else '') + (f' ({" ".join(arrs)} : Int → Int)' if arrs else '') \
                     + (f' ({" ".join(loops + args)} : Int)' if loops + args else '')
                out.append(f'def {name}_translated : Bool := true\n{doc}def {name}{ps} : Option ({rt}) :=\n  {term}\n')
                done[(spec['fn'], spec['nargs'])] = spec
            except Exception as e:
                why = str(e) if isinstance(e, NotImplementedError) else f'{type(e).__name__}: {e}'
                why = why.replace('\n', ' ')
                fallback.append(f'{cls}::{spec["fn"]}: {why}')
                ps = (f' ({" ".join("_" for _ in ins)} : Int)' if ins else '') + (f' ({" ".join("_" for _ in arrs)} : Int → Int)' if arrs else '') \
                     + (f' ({" ".join("_" for _ in range(len(loops) + nargs))} : Int)' if len(loops) + nargs else '')
                out.append(f'-- {cls}::{spec["fn"]}: outside the fragment ({why}); tied by correspondence (L3) only\n'
                           f'def {name}_translated : Bool := false\n'
                           f'def {name}{ps} : Option ({rt}) := none\n')
    out.append('end Op2.Gen.Bits\n')
    return 'Bits.lean', '\n'.join(out), fallback

if __name__ == '__main__':
    fname, txt, fb = generate(sys.argv[1] if len(sys.argv) > 1 else '/repo')
    print(txt); print(fb, file=sys.stderr)
