import Op2Model.Map
import Op2Proofs.Map.ParserInv
/-!
# The map / saved-game readers: locality, absence of faults, post-conditions
-/
namespace Op2.Map
open Op2 Op2.Parser

/-! ## every reader is `Local` (built from `take / bind / pure / fail` only) -/

theorem local_rU32 : Local rU32 := local_u32

theorem local_pHeader : Local pHeader :=
  local_bind local_rU32 fun _ => local_bind local_rU32 fun _ => local_bind local_rU32 fun _ =>
  local_bind local_rU32 fun _ => local_bind local_rU32 fun _ => local_pure _

theorem local_pSource : Local pSource :=
  local_bind local_rU32 fun len => local_bind (local_take len) fun _ => local_bind (local_guard _ _) fun _ => by
    split
    · exact local_pure _
    · exact local_bind local_rU32 fun _ => local_pure _

theorem local_pBlobs (sz : Nat) : Local (pBlobs sz) :=
  local_bind local_rU32 fun n => local_many (local_take sz) n

theorem local_pBody (hd : Header) (w n : Nat) : Local (pBody hd w n) :=
  local_bind (local_many local_rU32 n) fun _ => local_bind (local_take _) fun _ =>
  local_bind (local_many local_pSource _) fun _ => local_bind (local_take _) fun _ =>
  local_bind (local_guard _ _) fun _ => local_bind (local_pBlobs _) fun _ => local_bind (local_pBlobs _) fun _ =>
  local_pure _

theorem local_pBeginning : Local pBeginning :=
  local_bind local_pHeader fun hd => local_bind (local_guard _ _) fun _ => local_bind (local_guard _ _) fun _ => by
    split
    · exact local_pure _
    · exact local_map _ (local_pBody _ _ _)

theorem local_pVersionTag (last : Nat) : Local (pVersionTag last) :=
  local_bind local_rU32 fun _ => local_bind (local_guard _ _) fun _ => local_guard _ _

theorem local_pGroup : Local pGroup :=
  local_bind local_rU32 fun _ => local_bind local_rU32 fun _ => local_bind (local_many local_rU32 _) fun _ =>
  local_bind local_rU32 fun len => local_bind (local_take len) fun _ => local_pure _

theorem local_pGroups : Local pGroups :=
  local_bind local_rU32 fun n => local_bind local_rU32 fun _ => local_many local_pGroup n

theorem local_pMap : Local pMap :=
  local_bind local_pBeginning fun r => by
    split
    · exact local_pure _
    · exact local_bind (local_pVersionTag _) fun _ => local_bind (local_pVersionTag _) fun _ =>
        local_bind local_pGroups fun _ => local_pure _

theorem local_pUnits : Local pUnits :=
  local_bind local_rU32 fun _ => local_bind local_rU32 fun _ => local_bind local_rU32 fun _ =>
  local_bind local_rU32 fun _ => local_bind local_rU32 fun _ => local_bind (local_guard _ _) fun _ =>
  local_bind local_rU32 fun _ => local_bind local_rU32 fun _ => local_bind (local_take _) fun _ =>
  local_bind (local_take _) fun _ => local_bind local_rU32 fun _ => local_bind local_rU32 fun _ =>
  local_bind (local_take _) fun _ => by
    split
    · exact local_bind (local_take _) fun _ => local_pure _
    · exact local_pure _

theorem local_pSavedGame : Local pSavedGame :=
  local_bind (local_take _) fun _ => local_bind local_pBeginning fun r => by
    split
    · exact local_pure _
    · exact local_bind (local_pVersionTag _) fun _ => local_bind local_pUnits fun _ =>
        local_bind (local_pVersionTag _) fun _ => local_pure _

/-! ## the dimension guard makes the checked shifts safe and exact -/

theorem dims_of_ok {lg h : Nat} (hh : h < W32) (hok : dimsOk lg h = true) :
    lg < 32 ∧ h * 2 ^ lg < W32 ∧ dims lg h = .ok (2 ^ lg, h * 2 ^ lg) := by
  unfold dimsOk at hok
  split at hok
  · rename_i hlg
    have hp : 2 ^ lg ≤ 2 ^ 31 := Nat.pow_le_pow_right (by omega) (by omega)
    have hp0 : 0 < 2 ^ lg := Nat.pow_pos (by omega)
    have hprod : h * 2 ^ lg < W64 := by
      have : h * 2 ^ lg ≤ h * 2 ^ 31 := Nat.mul_le_mul_left h hp
      unfold W32 at hh; unfold W64; omega
    have hle : h * 2 ^ lg ≤ 4294967295 := by
      have := of_decide_eq_true hok
      unfold u64 at this; rw [Nat.mod_eq_of_lt hprod] at this; exact this
    refine ⟨hlg, by unfold W32; omega, ?_⟩
    have h1 : shlOne lg = .ok (2 ^ lg) := by
      unfold shlOne; rw [if_neg (by omega)]; unfold u32 W32; rw [Nat.mod_eq_of_lt (by omega)]
    have h2 : shl32 h lg = .ok (h * 2 ^ lg) := by
      unfold shl32; rw [if_neg (by omega)]; unfold u32 W32; rw [Nat.mod_eq_of_lt (by omega)]
    unfold dims; rw [h1, h2]
  · simp at hok

/-! ## inversion of the readers -/

theorem rU32_ok {xs r : Bytes} {v : Nat} (h : rU32 xs = .ok (v, r)) : v < W32 ∧ xs = encU32 v ++ r := u32_ok h

theorem pHeader_ok {xs r : Bytes} {hd : Header} (h : pHeader xs = .ok (hd, r)) :
    hd.tag < W32 ∧ hd.sg < W32 ∧ hd.lg < W32 ∧ hd.height < W32 ∧ hd.nsrc < W32 ∧
    xs = encU32 hd.tag ++ encU32 hd.sg ++ encU32 hd.lg ++ encU32 hd.height ++ encU32 hd.nsrc ++ r := by
  unfold pHeader at h
  obtain ⟨a1, r1, h1, h⟩ := bind_ok h
  obtain ⟨a2, r2, h2, h⟩ := bind_ok h
  obtain ⟨a3, r3, h3, h⟩ := bind_ok h
  obtain ⟨a4, r4, h4, h⟩ := bind_ok h
  obtain ⟨a5, r5, h5, h⟩ := bind_ok h
  obtain ⟨rfl, rfl⟩ := pure_ok h
  obtain ⟨b1, e1⟩ := rU32_ok h1
  obtain ⟨b2, e2⟩ := rU32_ok h2
  obtain ⟨b3, e3⟩ := rU32_ok h3
  obtain ⟨b4, e4⟩ := rU32_ok h4
  obtain ⟨b5, e5⟩ := rU32_ok h5
  refine ⟨b1, b2, b3, b4, b5, ?_⟩
  rw [e1, e2, e3, e4, e5]; simp [List.append_assoc]

/-- what `ReadMapBeginning` guarantees about the map it returns, and the bytes it consumed -/
structure BeginOk (xs : Bytes) (m : Map) (r : Bytes) : Prop where
  hd : ∃ hd : Header, pHeader xs = .ok (hd, xs.drop headerSize) ∧ minMapVersion ≤ hd.tag ∧ dimsOk hd.lg hd.height = true ∧
    pBody hd (2 ^ hd.lg) (hd.height * 2 ^ hd.lg) (xs.drop headerSize) = .ok (m, r)

theorem pBeginning_ok {xs r : Bytes} {res : Except Fault Map} (h : pBeginning xs = .ok (res, r)) :
    ∃ m, res = .ok m ∧ BeginOk xs m r := by
  unfold pBeginning at h
  obtain ⟨hd, r1, h1, hA⟩ := bind_ok h
  obtain ⟨_, r2, g1, hB⟩ := bind_ok hA
  obtain ⟨c1, e1⟩ := guard_ok g1
  subst e1
  obtain ⟨_, r3, g2, hC⟩ := bind_ok hB
  obtain ⟨c2, e2⟩ := guard_ok g2
  subst e2
  obtain ⟨_, _, _, hh, _, ex⟩ := pHeader_ok h1
  obtain ⟨hlg, hprod, hd3⟩ := dims_of_ok hh c2
  rw [hd3] at hC
  obtain ⟨m, hb, rfl⟩ := map_ok hC
  have hr : r3 = xs.drop headerSize := by
    rw [ex]; simp [headerSize, encU32]
  subst hr
  exact ⟨m, rfl, ⟨hd, h1, of_decide_eq_true c1, c2, hb⟩⟩

/-- never a fault from `ReadMapBeginning` -/
theorem pBeginning_no_fault {xs r : Bytes} {f : Fault} : pBeginning xs ≠ .ok (.error f, r) := by
  intro h
  obtain ⟨m, hm, _⟩ := pBeginning_ok h
  cases hm

theorem pMap_ok {xs r : Bytes} {res : Except Fault Map} (h : pMap xs = .ok (res, r)) :
    ∃ m0 r1 r2 r3 gs, pBeginning xs = .ok (.ok m0, r1) ∧ pVersionTag m0.versionTag r1 = .ok ((), r2) ∧
      pVersionTag m0.versionTag r2 = .ok ((), r3) ∧ pGroups r3 = .ok (gs, r) ∧ res = .ok { m0 with groups := gs } := by
  unfold pMap at h
  obtain ⟨res0, r1, h1, h⟩ := bind_ok h
  obtain ⟨m0, rfl, _⟩ := pBeginning_ok h1
  obtain ⟨_, r2, t1, h⟩ := bind_ok h
  obtain ⟨_, r3, t2, h⟩ := bind_ok h
  obtain ⟨gs, r4, hg, h⟩ := bind_ok h
  obtain ⟨rfl, rfl⟩ := pure_ok h
  exact ⟨m0, r1, r2, r3, gs, h1, t1, t2, hg, rfl⟩

theorem pSavedGame_ok {xs r : Bytes} {res : Except Fault Map} (h : pSavedGame xs = .ok (res, r)) :
    ∃ m0 r1 r2 r3, savedGameSkip ≤ xs.length ∧ pBeginning (xs.drop savedGameSkip) = .ok (.ok m0, r1) ∧
      pVersionTag m0.versionTag r1 = .ok ((), r2) ∧ pUnits r2 = .ok ((), r3) ∧ pVersionTag m0.versionTag r3 = .ok ((), r) ∧
      res = .ok m0 := by
  unfold pSavedGame at h
  obtain ⟨_, r0, h0, h⟩ := bind_ok h
  obtain ⟨hk, _, rfl⟩ := take_ok h0
  obtain ⟨res0, r1, h1, h⟩ := bind_ok h
  obtain ⟨m0, rfl, _⟩ := pBeginning_ok h1
  obtain ⟨_, r2, t1, h⟩ := bind_ok h
  obtain ⟨_, r3, hu, h⟩ := bind_ok h
  obtain ⟨_, r4, t2, h⟩ := bind_ok h
  obtain ⟨rfl, rfl⟩ := pure_ok h
  exact ⟨m0, r1, r2, r3, hk, h1, t1, hu, t2, rfl⟩

theorem pVersionTag_ok {last : Nat} {xs r : Bytes} (h : pVersionTag last xs = .ok ((), r)) :
    minMapVersion ≤ last ∧ last < W32 ∧ xs = encU32 last ++ r := by
  unfold pVersionTag at h
  obtain ⟨t, r1, h1, hA⟩ := bind_ok h
  obtain ⟨_, r2, g1, hB⟩ := bind_ok hA
  obtain ⟨c1, e1⟩ := guard_ok g1
  subst e1
  obtain ⟨c2, e2⟩ := guard_ok hB
  subst e2
  obtain ⟨b, e⟩ := rU32_ok h1
  have : t = last := by simpa using c2
  subst this
  exact ⟨of_decide_eq_true c1, b, e⟩

/-! ## outcomes -/

theorem outcome_ok {p : Parser (Except Fault Map)} {b : Bytes} {m : Map} {n : Nat} (h : outcome p b = .ok m n) :
    ∃ r, p b = .ok (.ok m, r) ∧ n = b.length - r.length := by
  unfold outcome at h
  split at h
  · rename_i m' n' hr
    obtain ⟨r, hp, hn⟩ := run_ok hr
    cases h; exact ⟨r, hp, hn⟩
  · cases h
  · cases h

theorem outcome_fault {p : Parser (Except Fault Map)} {b : Bytes} {f : Fault} (h : outcome p b = .fault f) :
    ∃ r, p b = .ok (.error f, r) := by
  unfold outcome at h
  split at h
  · cases h
  · rename_i f' n' hr
    obtain ⟨r, hp, _⟩ := run_ok hr
    cases h; exact ⟨r, hp⟩
  · cases h

theorem outcome_of_ok {p : Parser (Except Fault Map)} {b : Bytes} {m : Map} {r : Bytes} (h : p b = .ok (.ok m, r)) :
    outcome p b = .ok m (b.length - r.length) := by
  unfold outcome; rw [run_of_ok h]

theorem outcome_of_err {p : Parser (Except Fault Map)} {b : Bytes} {e : Err} (h : p b = .error e) :
    outcome p b = .err e := by
  unfold outcome; rw [run_of_err h]

/-! ## shape and prefix strictness, once for both readers -/

theorem beginning_shape {xs r : Bytes} {m : Map} (h : BeginOk xs m r) :
    ∃ k, k < 32 ∧ m.width = 2 ^ k ∧ m.tiles.length = m.width * m.height ∧ m.height < W32 ∧ m.width * m.height < W32 := by
  obtain ⟨hd, hh, _, hok, hb⟩ := h.hd
  obtain ⟨_, _, _, hlt, _, _⟩ := pHeader_ok hh
  obtain ⟨hlg, hprod, _⟩ := dims_of_ok hlt hok
  unfold pBody at hb
  obtain ⟨tiles, r1, ht, hb⟩ := bind_ok hb
  obtain ⟨clip, r2, _, hb⟩ := bind_ok hb
  obtain ⟨srcs, r3, _, hb⟩ := bind_ok hb
  obtain ⟨mk, r4, _, hb⟩ := bind_ok hb
  obtain ⟨_, r5, _, hb⟩ := bind_ok hb
  obtain ⟨maps, r6, _, hb⟩ := bind_ok hb
  obtain ⟨ters, r7, _, hb⟩ := bind_ok hb
  obtain ⟨rfl, _⟩ := pure_ok hb
  have hl := many_ok_length _ ht
  refine ⟨hd.lg, hlg, rfl, ?_, hlt, ?_⟩
  · simp only [hl]; exact Nat.mul_comm _ _
  · simp only []; rw [Nat.mul_comm]; exact hprod

theorem prefix_strict_of_local {p : Parser (Except Fault Map)} (hp : Local p) (b : Bytes) (m : Map) (n : Nat)
    (h : outcome p b = .ok m n) (k : Nat) (hk : k < n) : ∃ e, outcome p (b.take k) = .err e := by
  obtain ⟨r, hpb, rfl⟩ := outcome_ok h
  obtain ⟨e, he⟩ := hp.prefix_refused hpb k hk
  exact ⟨e, outcome_of_err he⟩

end Op2.Map
