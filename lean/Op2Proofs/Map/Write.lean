import Op2Proofs.Map.Read
import Op2Proofs.Props.C19
/-!
# The map writer: what it produces is read back exactly (`Reads`), for every well-formed map
-/
namespace Op2.Map
open Op2 Op2.Parser

/-! ## stepping a `bind` over a part that is known to be read back -/

theorem bind_reads {α β : Type} {p : Parser α} {f : α → Parser β} {s : Bytes} {a : α} (h : Reads p s a) (t : Bytes) :
    Parser.bind p f (s ++ t) = f a t := by
  unfold Parser.bind; rw [h t]

theorem bind_guard_true {β : Type} {f : Unit → Parser β} {e : Err} (t : Bytes) :
    Parser.bind (Parser.guard true e) f t = f () t := rfl

theorem reads_rU32 (v : Nat) (h : v < W32) : Reads rU32 (encU32 v) v := reads_u32 v h

theorem encU32s_eq (vs : List Nat) : encU32s vs = vs.flatMap encU32 := rfl

theorem reads_words (vs : List Nat) (h : ∀ v ∈ vs, v < W32) : Reads (many rU32 vs.length) (encU32s vs) vs :=
  reads_many_of (P := fun v => v < W32) (fun v hv => reads_rU32 v hv) vs h

theorem reads_blob (sz : Nat) (b : Bytes) (h : b.length = sz) : Reads (take sz) (id b) b := reads_take' b sz h

theorem reads_pBlobs (sz : Nat) (bs : List Bytes) (hn : bs.length < W32) (h : ∀ b ∈ bs, b.length = sz) :
    Reads (pBlobs sz) (encBlobs bs) bs := by
  intro rest
  unfold pBlobs encBlobs
  rw [List.append_assoc, bind_reads (reads_rU32 _ hn)]
  exact reads_many_of (P := fun b => b.length = sz) (fun b hb => reads_blob sz b hb) bs h rest

/-! ## tileset sources -/

/-- a source as the format can hold it -/
def Source.WF (s : Source) : Prop := s.name.length ≤ maxNameLen ∧ s.numTiles < W32 ∧ (s.name.length = 0 → s.numTiles = 0)

theorem reads_pSource (s : Source) (h : s.WF) : Reads pSource (encSource s) s := by
  intro rest
  obtain ⟨hl, hn, hz⟩ := h
  have hl32 : s.name.length < W32 := by unfold maxNameLen at hl; unfold W32; omega
  unfold pSource encSource
  simp only [List.append_assoc]
  rw [bind_reads (reads_rU32 _ hl32), bind_reads (reads_take s.name)]
  rw [decide_eq_true hl, bind_guard_true]
  by_cases h0 : s.name.length = 0
  · rw [if_pos h0, if_pos h0]
    have : s = ⟨s.name, 0⟩ := by cases s; simp at hz h0 ⊢; exact hz h0
    rw [← this]; rfl
  · rw [if_neg h0, if_neg h0, bind_reads (reads_rU32 _ hn)]; rfl

theorem reads_sources (ss : List Source) (h : ∀ s ∈ ss, s.WF) : Reads (many pSource ss.length) (ss.flatMap encSource) ss :=
  reads_many_of (P := Source.WF) reads_pSource ss h

/-! ## tile groups -/

def Group.WF (g : Group) : Prop :=
  g.w < W32 ∧ g.h < W32 ∧ g.idx.length = u32 (g.w * g.h) ∧ (∀ i ∈ g.idx, i < W32) ∧ g.name.length < W32

theorem reads_pGroup (g : Group) (h : g.WF) : Reads pGroup (encGroup g) g := by
  intro rest
  obtain ⟨hw, hh, hl, hi, hn⟩ := h
  unfold pGroup encGroup
  simp only [List.append_assoc]
  rw [bind_reads (reads_rU32 _ hw), bind_reads (reads_rU32 _ hh), ← hl, bind_reads (reads_words _ hi),
    bind_reads (reads_rU32 _ hn), bind_reads (reads_take g.name)]
  rfl

theorem reads_pGroups (gs : List Group) (hn : gs.length < W32) (h : ∀ g ∈ gs, g.WF) : Reads pGroups (encGroups gs) gs := by
  intro rest
  have hu : unknownWord gs < W32 := by
    unfold unknownWord; split
    · unfold W32; omega
    · have : u32 gs.length < W32 := Nat.mod_lt _ (by unfold W32; omega)
      omega
  unfold pGroups encGroups
  simp only [List.append_assoc]
  rw [bind_reads (reads_rU32 _ hn), bind_reads (reads_rU32 _ hu)]
  exact reads_many_of (P := Group.WF) reads_pGroup gs h rest

/-! ## version tags, header -/

theorem reads_pVersionTag (t : Nat) (h1 : minMapVersion ≤ t) (h2 : t < W32) : Reads (pVersionTag t) (encU32 t) () := by
  intro rest
  unfold pVersionTag
  rw [bind_reads (reads_rU32 _ h2), decide_eq_true h1, bind_guard_true]
  simp [Parser.guard, Parser.pure]

theorem reads_pHeader (tag : Nat) (sg : Bool) (lg h n : Nat) (h1 : tag < W32) (h3 : lg < W32) (h4 : h < W32) (h5 : n < W32) :
    Reads pHeader (encHeader tag sg lg h n) ⟨tag, if sg then 1 else 0, lg, h, n⟩ := by
  intro rest
  have h2 : (if sg then 1 else 0) < W32 := by split <;> (unfold W32; omega)
  unfold pHeader encHeader
  simp only [List.append_assoc]
  rw [bind_reads (reads_rU32 _ h1), bind_reads (reads_rU32 _ h2), bind_reads (reads_rU32 _ h3),
    bind_reads (reads_rU32 _ h4), bind_reads (reads_rU32 _ h5)]
  rfl

theorem dimsOk_of {lg h : Nat} (hlg : lg < 32) (hp : h * 2 ^ lg < W32) : dimsOk lg h = true := by
  unfold dimsOk; rw [if_pos hlg]
  apply decide_eq_true
  unfold u64; unfold W32 at hp
  rw [Nat.mod_eq_of_lt (by unfold W64; omega)]; omega

/-! ## the whole map -/

/-- the bytes `Map::Write` lays out after the header and before the two trailing version tags -/
def bodyLayout (m : Map) : Bytes :=
  encU32s m.tiles ++ m.clip ++ m.sources.flatMap encSource ++ marker ++ encBlobs m.mappings ++ encBlobs m.terrains

/-- the bytes `Map::Write` lays out for log-width `lg` -/
def layout (m : Map) (lg : Nat) : Bytes :=
  encHeader m.versionTag m.savedGame lg m.height m.sources.length ++ bodyLayout m ++
  encU32 m.versionTag ++ encU32 m.versionTag ++ encGroups m.groups

theorem reads_pBody (m : Map) (k : Nat) (h : Spec.WF m) (hcount : m.tiles.length = m.height * 2 ^ k) (hw : m.width = 2 ^ k) :
    Reads (pBody ⟨m.versionTag, if m.savedGame then 1 else 0, k, m.height, m.sources.length⟩ (2 ^ k) (m.height * 2 ^ k))
      (bodyLayout m) { m with groups := [] } := by
  intro rest
  unfold pBody bodyLayout
  simp only [List.append_assoc]
  rw [← hcount, bind_reads (reads_words _ h.tiles), bind_reads (reads_take' m.clip rectSize h.clip),
    bind_reads (reads_sources _ h.src), bind_reads (reads_take' marker 10 rfl)]
  have : (marker == marker) = true := by decide
  rw [this, bind_guard_true, bind_reads (reads_pBlobs _ _ h.nmap h.maps), bind_reads (reads_pBlobs _ _ h.nter h.ters)]
  have e : m.savedGame = ((if m.savedGame then 1 else 0) != 0) := by cases m.savedGame <;> rfl
  simp only [Parser.pure, ← hw, ← e]

theorem reads_pBeginning (m : Map) (k : Nat) (hk : k < 32) (hw : m.width = 2 ^ k) (h : Spec.WF m) :
    Reads pBeginning (encHeader m.versionTag m.savedGame k m.height m.sources.length ++ bodyLayout m)
      (.ok { m with groups := [] }) := by
  intro rest
  have hprod : m.height * 2 ^ k < W32 := by rw [← hw]; exact h.countLt
  have hcount : m.tiles.length = m.height * 2 ^ k := by rw [← hw]; exact h.count
  have hk32 : k < W32 := by unfold W32; omega
  unfold pBeginning
  rw [List.append_assoc, bind_reads (reads_pHeader m.versionTag m.savedGame k m.height m.sources.length h.tagLt hk32 h.heightLt h.nsrc)]
  simp only []
  rw [decide_eq_true h.tagMin, bind_guard_true, dimsOk_of hk hprod, bind_guard_true]
  rw [(dims_of_ok h.heightLt (dimsOk_of hk hprod)).2.2]
  simp only []
  exact reads_map Except.ok (reads_pBody m k h hcount hw) rest

/-- a well-formed map, laid out with its log-width, is read back in every field, consuming exactly the layout -/
theorem reads_layout (m : Map) (k : Nat) (hk : k < 32) (hw : m.width = 2 ^ k) (h : Spec.WF m) :
    Reads pMap (layout m k) (.ok m) := by
  intro rest
  unfold layout pMap
  simp only [List.append_assoc]
  rw [← List.append_assoc (encHeader _ _ _ _ _), bind_reads (reads_pBeginning m k hk hw h)]
  simp only []
  rw [bind_reads (reads_pVersionTag _ h.tagMin h.tagLt), bind_reads (reads_pVersionTag _ h.tagMin h.tagLt),
    bind_reads (reads_pGroups _ h.ngrp h.grps)]
  rfl

end Op2.Map
