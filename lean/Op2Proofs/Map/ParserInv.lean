import Op2Proofs.ParserLemmas
/-!
# Inversion lemmas for sequential parsers (what a *successful* run tells about the input and the result)

`Local` and `Reads` (ParserLemmas) speak about which inputs are accepted; the lemmas here go the other way:
from `p xs = ok (a, rest)` to facts about `a` (post-conditions such as "the list has `n` elements", "the word is below
2^32") and to the exact bytes consumed (`Writes p enc`: `xs = enc a ++ rest`), closed under `bind / many`.
-/
namespace Op2.Parser
open Op2

theorem bind_ok {α β : Type} {p : Parser α} {f : α → Parser β} {xs : Bytes} {b : β} {r : Bytes}
    (h : Parser.bind p f xs = .ok (b, r)) : ∃ a r1, p xs = .ok (a, r1) ∧ f a r1 = .ok (b, r) := by
  unfold Parser.bind at h
  split at h
  · rename_i a r1 hp; exact ⟨a, r1, hp, h⟩
  · simp at h

theorem bind_err {α β : Type} {p : Parser α} {f : α → Parser β} {xs : Bytes} {e : Err}
    (h : p xs = .error e) : Parser.bind p f xs = .error e := by
  unfold Parser.bind; rw [h]

theorem bind_step {α β : Type} {p : Parser α} {f : α → Parser β} {xs : Bytes} {a : α} {r1 : Bytes}
    (h : p xs = .ok (a, r1)) : Parser.bind p f xs = f a r1 := by
  unfold Parser.bind; rw [h]

theorem pure_ok {α : Type} {a b : α} {xs r : Bytes} (h : Parser.pure a xs = .ok (b, r)) : b = a ∧ r = xs := by
  simp [Parser.pure] at h; exact ⟨h.1.symm, h.2.symm⟩

theorem guard_ok {c : Bool} {e : Err} {xs r : Bytes} {u : Unit} (h : Parser.guard c e xs = .ok (u, r)) :
    c = true ∧ r = xs := by
  unfold Parser.guard at h
  cases c
  · simp [Parser.fail] at h
  · simp [Parser.pure] at h; exact ⟨rfl, h.symm⟩

theorem guard_false {e : Err} {xs : Bytes} : Parser.guard false e xs = .error e := rfl
theorem guard_true {e : Err} {xs : Bytes} : Parser.guard true e xs = .ok ((), xs) := rfl

theorem map_ok {α β : Type} {p : Parser α} {f : α → β} {xs r : Bytes} {b : β}
    (h : Parser.map p f xs = .ok (b, r)) : ∃ a, p xs = .ok (a, r) ∧ b = f a := by
  obtain ⟨a, r1, hp, h2⟩ := bind_ok h
  obtain ⟨rfl, rfl⟩ := pure_ok h2
  exact ⟨a, hp, rfl⟩

theorem take_ok {k : Nat} {xs a r : Bytes} (h : Parser.take k xs = .ok (a, r)) :
    k ≤ xs.length ∧ a = xs.take k ∧ r = xs.drop k := by
  unfold Parser.take at h
  split at h
  · rename_i hk; simp at h; exact ⟨hk, h.1.symm, h.2.symm⟩
  · simp at h

theorem take_ok_length {k : Nat} {xs a r : Bytes} (h : Parser.take k xs = .ok (a, r)) : a.length = k := by
  obtain ⟨hk, rfl, _⟩ := take_ok h
  simp [List.length_take]; omega

theorem take_ok_bytes {k : Nat} {xs a r : Bytes} (h : Parser.take k xs = .ok (a, r)) : xs = a ++ r := by
  obtain ⟨_, rfl, rfl⟩ := take_ok h
  simp

/-! ### the 32-bit word -/

theorem decU32_lt (bs : Bytes) : decU32 bs < 4294967296 := by
  unfold decU32
  split
  · rename_i a b c d _
    have := a.toNat_lt; have := b.toNat_lt; have := c.toNat_lt; have := d.toNat_lt
    omega
  · omega

theorem encU32_decU32 (a b c d : UInt8) (t : Bytes) : encU32 (decU32 (a :: b :: c :: d :: t)) = [a, b, c, d] := by
  have ha := a.toNat_lt; have hb := b.toNat_lt; have hc := c.toNat_lt; have hd := d.toNat_lt
  simp only [encU32, decU32]
  have e1 : UInt8.ofNat (a.toNat + 256 * b.toNat + 65536 * c.toNat + 16777216 * d.toNat) = a := by
    apply UInt8.toNat_inj.mp; rw [UInt8.toNat_ofNat']; omega
  have e2 : UInt8.ofNat ((a.toNat + 256 * b.toNat + 65536 * c.toNat + 16777216 * d.toNat) / 256) = b := by
    apply UInt8.toNat_inj.mp; rw [UInt8.toNat_ofNat']; omega
  have e3 : UInt8.ofNat ((a.toNat + 256 * b.toNat + 65536 * c.toNat + 16777216 * d.toNat) / 65536) = c := by
    apply UInt8.toNat_inj.mp; rw [UInt8.toNat_ofNat']; omega
  have e4 : UInt8.ofNat ((a.toNat + 256 * b.toNat + 65536 * c.toNat + 16777216 * d.toNat) / 16777216) = d := by
    apply UInt8.toNat_inj.mp; rw [UInt8.toNat_ofNat']; omega
  rw [e1, e2, e3, e4]

theorem u32_ok {xs r : Bytes} {v : Nat} (h : Parser.u32 xs = .ok (v, r)) :
    v < 4294967296 ∧ xs = encU32 v ++ r := by
  obtain ⟨a, ha, rfl⟩ := map_ok h
  obtain ⟨hk, rfl, rfl⟩ := take_ok ha
  refine ⟨decU32_lt _, ?_⟩
  match xs, hk with
  | a :: b :: c :: d :: t, _ =>
    have : decU32 (List.take 4 (a :: b :: c :: d :: t)) = decU32 (a :: b :: c :: d :: t) := by simp [decU32]
    rw [this, encU32_decU32]; simp

/-! ### post-conditions and exact consumption -/

/-- every successful result satisfies `P` -/
def Ensures {α : Type} (p : Parser α) (P : α → Prop) : Prop := ∀ xs a r, p xs = .ok (a, r) → P a

/-- a successful run consumed exactly `enc a` -/
def Writes {α : Type} (p : Parser α) (enc : α → Bytes) : Prop := ∀ xs a r, p xs = .ok (a, r) → xs = enc a ++ r

theorem ensures_u32 : Ensures Parser.u32 (fun v => v < 4294967296) := fun _ _ _ h => (u32_ok h).1
theorem writes_u32 : Writes Parser.u32 encU32 := fun _ _ _ h => (u32_ok h).2
theorem ensures_take (k : Nat) : Ensures (Parser.take k) (fun a => a.length = k) := fun _ _ _ h => take_ok_length h
theorem writes_take (k : Nat) : Writes (Parser.take k) id := fun _ _ _ h => take_ok_bytes h

theorem many_ok_length {α : Type} {p : Parser α} : ∀ (n : Nat) {xs : Bytes} {as : List α} {r : Bytes},
    Parser.many p n xs = .ok (as, r) → as.length = n
  | 0, xs, as, r, h => by
    obtain ⟨rfl, _⟩ := pure_ok (by simpa [Parser.many] using h); rfl
  | n + 1, xs, as, r, h => by
    simp only [Parser.many] at h
    obtain ⟨a, r1, _, h2⟩ := bind_ok h
    obtain ⟨as', r2, h3, h4⟩ := bind_ok h2
    obtain ⟨rfl, _⟩ := pure_ok h4
    simp [many_ok_length n h3]

theorem many_ok_all {α : Type} {p : Parser α} {P : α → Prop} (hp : Ensures p P) : ∀ (n : Nat) {xs : Bytes} {as : List α} {r : Bytes},
    Parser.many p n xs = .ok (as, r) → ∀ a ∈ as, P a
  | 0, xs, as, r, h => by
    obtain ⟨rfl, _⟩ := pure_ok (by simpa [Parser.many] using h); simp
  | n + 1, xs, as, r, h => by
    simp only [Parser.many] at h
    obtain ⟨a, r1, h1, h2⟩ := bind_ok h
    obtain ⟨as', r2, h3, h4⟩ := bind_ok h2
    obtain ⟨rfl, _⟩ := pure_ok h4
    intro x hx
    rcases List.mem_cons.mp hx with rfl | hx
    · exact hp _ _ _ h1
    · exact many_ok_all hp n h3 x hx

theorem many_writes {α : Type} {p : Parser α} {enc : α → Bytes} (hp : Writes p enc) : ∀ (n : Nat) {xs : Bytes} {as : List α} {r : Bytes},
    Parser.many p n xs = .ok (as, r) → xs = as.flatMap enc ++ r
  | 0, xs, as, r, h => by
    obtain ⟨rfl, rfl⟩ := pure_ok (by simpa [Parser.many] using h); simp
  | n + 1, xs, as, r, h => by
    simp only [Parser.many] at h
    obtain ⟨a, r1, h1, h2⟩ := bind_ok h
    obtain ⟨as', r2, h3, h4⟩ := bind_ok h2
    obtain ⟨rfl, rfl⟩ := pure_ok h4
    rw [hp _ _ _ h1, many_writes hp n h3]
    simp [List.flatMap_cons]

/-! ### `run` -/

theorem run_ok {α : Type} {p : Parser α} {xs : Bytes} {a : α} {n : Nat} (h : Parser.run p xs = .ok (a, n)) :
    ∃ r, p xs = .ok (a, r) ∧ n = xs.length - r.length := by
  unfold Parser.run at h
  split at h
  · rename_i a' r hp; simp at h; exact ⟨r, by rw [hp, h.1], h.2.symm⟩
  · simp at h

theorem run_of_ok {α : Type} {p : Parser α} {xs : Bytes} {a : α} {r : Bytes} (h : p xs = .ok (a, r)) :
    Parser.run p xs = .ok (a, xs.length - r.length) := by
  unfold Parser.run; rw [h]

theorem run_of_err {α : Type} {p : Parser α} {xs : Bytes} {e : Err} (h : p xs = .error e) :
    Parser.run p xs = .error e := by
  unfold Parser.run; rw [h]

/-- a `Local` parser's consumed length, as a number -/
theorem Local.consumed {α : Type} {p : Parser α} (hp : Local p) {xs : Bytes} {a : α} {r : Bytes} (h : p xs = .ok (a, r)) :
    r.length ≤ xs.length ∧ r = xs.drop (xs.length - r.length) := by
  obtain ⟨n, hn, rfl, _, _⟩ := hp xs a r h
  have : (xs.drop n).length = xs.length - n := by simp
  constructor
  · omega
  · rw [this]; congr 1; omega

end Op2.Parser
