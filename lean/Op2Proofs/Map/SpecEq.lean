import Op2Proofs.Map.WF
/-!
# The writer against the frozen format description; the edits preserve well-formedness
-/
namespace Op2.Map
open Op2 Op2.Parser

theorem spec_lg_pow : ∀ k : Nat, k < 32 → Spec.lg (2 ^ k) = k := by decide

theorem lgOf_pow (k : Nat) (hk : k < 32) : lgOf (2 ^ k) = .ok k := by
  have hp : 2 ^ k ≤ 2 ^ 31 := Nat.pow_le_pow_right (by omega) (by omega)
  have h1 : Bits.isPow2 (2 ^ k) = true := (Props.C19.C19_isPow2_exact (2 ^ k) (by unfold W32; omega)).mpr ⟨k, hk, rfl⟩
  unfold lgOf
  rw [h1, Props.C19.C19_log2_exact k hk]
  simp

theorem fits_of_wf {m : Map} (h : Spec.WF m) : fits m = true := by
  unfold fits
  have a1 := h.nsrc; have a2 := h.nmap; have a3 := h.nter; have a4 := h.ngrp
  unfold W32 at a1 a2 a3 a4
  simp only [Bool.and_eq_true, decide_eq_true_eq, List.all_eq_true]
  refine ⟨⟨⟨⟨⟨by omega, ?_⟩, by omega⟩, by omega⟩, by omega⟩, ?_⟩
  · intro s hs; have := (h.src s hs).1; unfold maxNameLen at this; omega
  · intro g hg; have := (h.grps g hg).2.2.2.2; unfold W32 at this; omega

/-- `Map::Write` on a well-formed map produces its layout -/
theorem write_layout {m : Map} (h : Spec.WF m) (k : Nat) (hk : k < 32) (hw : m.width = 2 ^ k) : write m = .ok (layout m k) := by
  unfold write
  rw [hw, lgOf_pow k hk]
  simp only []
  rw [if_pos (fits_of_wf h)]
  simp only [layout, bodyLayout, List.append_assoc]

theorem unknownWord_eq (gs : List Group) (h : gs.length < W32) : unknownWord gs = gs.length - 1 := by
  unfold unknownWord
  cases gs with
  | nil => rfl
  | cons g t => simp only [List.isEmpty_cons, Bool.false_eq_true, if_false]; unfold u32; rw [Nat.mod_eq_of_lt h]

theorem encSource_spec (s : Source) :
    encSource s = encU32 s.name.length ++ s.name ++ (if s.name = [] then [] else encU32 s.numTiles) := by
  unfold encSource
  by_cases h : s.name = []
  · simp [h]
  · have : s.name.length ≠ 0 := fun e => h (List.length_eq_zero_iff.mp e)
    simp [h, this]

/-- the layout the writer produces is the frozen description of the format -/
theorem layout_eq_encode {m : Map} (h : Spec.WF m) (k : Nat) (hk : k < 32) (hw : m.width = 2 ^ k) :
    layout m k = Spec.encode m := by
  unfold layout bodyLayout Spec.encode encHeader encGroups
  rw [hw, spec_lg_pow k hk, unknownWord_eq _ h.ngrp]
  have e1 : m.sources.flatMap encSource =
      m.sources.flatMap (fun s => encU32 s.name.length ++ s.name ++ (if s.name = [] then [] else encU32 s.numTiles)) := by
    congr 1; funext s; exact encSource_spec s
  have e2 : m.groups.flatMap encGroup =
      m.groups.flatMap (fun g => encU32 g.w ++ encU32 g.h ++ g.idx.flatMap encU32 ++ encU32 g.name.length ++ g.name) := rfl
  rw [e1, e2]
  simp [encBlobs, encU32s, marker, List.append_assoc]

/-! ## edits -/

theorem modify_all {P : Nat → Prop} {f : Nat → Nat} (hf : ∀ a, P a → P (f a)) :
    ∀ (l : List Nat) (i : Nat), (∀ a ∈ l, P a) → ∀ a ∈ l.modify i f, P a
  | [], _, _ => by simp
  | x :: t, 0, h => by
    intro a ha
    rw [List.modify_zero_cons] at ha
    rcases List.mem_cons.mp ha with rfl | ha
    · exact hf _ (h x (by simp))
    · exact h a (by simp [ha])
  | x :: t, i + 1, h => by
    intro a ha
    rw [List.modify_succ_cons] at ha
    rcases List.mem_cons.mp ha with rfl | ha
    · exact h _ (by simp)
    · exact modify_all hf t i (fun b hb => h b (by simp [hb])) a ha

theorem withLavaPossible_lt (w : Nat) (b : Bool) (hw : w < W32) : Tile.withLavaPossible w b < W32 := by
  unfold Tile.withLavaPossible
  unfold W32 at *
  cases b
  · simp only [Bool.false_eq_true, if_false]; omega
  · simp only [if_true]; omega

theorem withCellType_lt (w v : Nat) (hw : w < W32) : Tile.withCellType w v < W32 := by
  unfold Tile.withCellType W32 at *; omega

theorem wf_with_tiles {m : Map} (h : Spec.WF m) (ts : List Nat) (hl : ts.length = m.tiles.length) (ha : ∀ t ∈ ts, t < W32) :
    Spec.WF { m with tiles := ts } :=
  { tagMin := h.tagMin, tagLt := h.tagLt, heightLt := h.heightLt, width := h.width, count := by simp only [hl]; exact h.count,
    countLt := h.countLt, tiles := ha, clip := h.clip, nsrc := h.nsrc, src := h.src, nmap := h.nmap, maps := h.maps,
    nter := h.nter, ters := h.ters, ngrp := h.ngrp, grps := h.grps }

theorem wf_setCellType {m m' : Map} {v x y : Nat} (h : Spec.WF m) (he : setCellType m v x y = .ok (.ok m')) : Spec.WF m' := by
  unfold setCellType at he
  split at he
  · cases he
  · simp only [] at he
    split at he
    · cases he
      exact wf_with_tiles h _ (by simp [Tile.modifyAt]) (modify_all (fun a ha => withCellType_lt a v ha) _ _ h.tiles)
    · cases he

theorem wf_setLavaPossible {m m' : Map} {b : Bool} {x y : Nat} (h : Spec.WF m) (he : setLavaPossible m b x y = .ok m') :
    Spec.WF m' := by
  unfold setLavaPossible at he
  simp only [] at he
  split at he
  · cases he
    exact wf_with_tiles h _ (by simp [Tile.modifyAt]) (modify_all (fun a ha => withLavaPossible_lt a b ha) _ _ h.tiles)
  · cases he

theorem wf_setVersionTag {m : Map} {v : Nat} (h : Spec.WF m) (h1 : minMapVersion ≤ v) (h2 : v < W32) :
    Spec.WF (setVersionTag m v) :=
  { tagMin := h1, tagLt := h2, heightLt := h.heightLt, width := h.width, count := h.count,
    countLt := h.countLt, tiles := h.tiles, clip := h.clip, nsrc := h.nsrc, src := h.src, nmap := h.nmap, maps := h.maps,
    nter := h.nter, ters := h.ters, ngrp := h.ngrp, grps := h.grps }

theorem wf_trim {m : Map} (h : Spec.WF m) : Spec.WF (trimTilesetSources m) :=
  { tagMin := h.tagMin, tagLt := h.tagLt, heightLt := h.heightLt, width := h.width, count := h.count,
    countLt := h.countLt, tiles := h.tiles, clip := h.clip,
    nsrc := Nat.lt_of_le_of_lt (List.length_filter_le _ _) h.nsrc,
    src := fun s hs => h.src s (List.mem_filter.mp hs).1,
    nmap := h.nmap, maps := h.maps, nter := h.nter, ters := h.ters, ngrp := h.ngrp, grps := h.grps }

/-! ## overwriting one word of a file -/

/-- overwrite the four bytes at `off` -/
def setWord (bs : Bytes) (off : Nat) (v : Nat) : Bytes := bs.take off ++ encU32 v ++ bs.drop (off + 4)

theorem setWord_mid (a w c : Bytes) (v : Nat) (hw : w.length = 4) : setWord (a ++ w ++ c) a.length v = a ++ encU32 v ++ c := by
  unfold setWord
  have e : a ++ w ++ c = a ++ (w ++ c) := List.append_assoc _ _ _
  rw [e, List.take_left' rfl]
  have hl : a.length + 4 = (a ++ w).length := by simp [hw]
  rw [hl, ← e, List.drop_left' rfl]

end Op2.Map
