import Op2Proofs.Map.Write
/-!
# What a successful read guarantees: the map is well-formed (`Spec.WF`) and the consumed bytes are its layout
up to the two words the writer normalises
-/
namespace Op2.Map
open Op2 Op2.Parser

/-! ## the parts: post-condition and exact bytes in one inversion each -/

theorem pSource_ok {xs r : Bytes} {s : Source} (h : pSource xs = .ok (s, r)) : s.WF ∧ xs = encSource s ++ r := by
  unfold pSource at h
  obtain ⟨len, r1, h1, hA⟩ := bind_ok h
  obtain ⟨name, r2, h2, hB⟩ := bind_ok hA
  obtain ⟨_, r3, g, hC⟩ := bind_ok hB
  obtain ⟨c, e⟩ := guard_ok g
  subst e
  have hle : len ≤ maxNameLen := of_decide_eq_true c
  obtain ⟨b1, e1⟩ := rU32_ok h1
  have hnl := take_ok_length h2
  have e2 := take_ok_bytes h2
  by_cases h0 : len = 0
  · rw [if_pos h0] at hC
    obtain ⟨rfl, rfl⟩ := pure_ok hC
    refine ⟨⟨by simp only [hnl]; exact hle, by show 0 < W32; unfold W32; omega, fun _ => rfl⟩, ?_⟩
    unfold encSource
    simp only [hnl, if_pos h0]
    rw [e1, e2]; simp
  · rw [if_neg h0] at hC
    obtain ⟨cnt, r4, h4, hD⟩ := bind_ok hC
    obtain ⟨rfl, rfl⟩ := pure_ok hD
    obtain ⟨b4, e4⟩ := rU32_ok h4
    refine ⟨⟨by simp only [hnl]; exact hle, b4, fun hz => by simp only [hnl] at hz; exact absurd hz h0⟩, ?_⟩
    unfold encSource
    simp only [hnl, if_neg h0]
    rw [e1, e2, e4]; simp

theorem ensures_pSource : Ensures pSource Source.WF := fun _ _ _ h => (pSource_ok h).1
theorem writes_pSource : Writes pSource encSource := fun _ _ _ h => (pSource_ok h).2

theorem pBlobs_ok {sz : Nat} {xs r : Bytes} {bs : List Bytes} (h : pBlobs sz xs = .ok (bs, r)) :
    bs.length < W32 ∧ (∀ b ∈ bs, b.length = sz) ∧ xs = encBlobs bs ++ r := by
  unfold pBlobs at h
  obtain ⟨n, r1, h1, hA⟩ := bind_ok h
  obtain ⟨b1, e1⟩ := rU32_ok h1
  have hl := many_ok_length n hA
  refine ⟨by rw [hl]; exact b1, many_ok_all (ensures_take sz) n hA, ?_⟩
  unfold encBlobs
  rw [e1, many_writes (writes_take sz) n hA, hl]; simp

theorem pGroup_ok {xs r : Bytes} {g : Group} (h : pGroup xs = .ok (g, r)) : g.WF ∧ xs = encGroup g ++ r := by
  unfold pGroup at h
  obtain ⟨w, r1, h1, hA⟩ := bind_ok h
  obtain ⟨hh, r2, h2, hB⟩ := bind_ok hA
  obtain ⟨idx, r3, h3, hC⟩ := bind_ok hB
  obtain ⟨len, r4, h4, hD⟩ := bind_ok hC
  obtain ⟨name, r5, h5, hE⟩ := bind_ok hD
  obtain ⟨rfl, rfl⟩ := pure_ok hE
  obtain ⟨b1, e1⟩ := rU32_ok h1
  obtain ⟨b2, e2⟩ := rU32_ok h2
  obtain ⟨b4, e4⟩ := rU32_ok h4
  have hnl := take_ok_length h5
  refine ⟨⟨b1, b2, many_ok_length _ h3, many_ok_all (fun _ _ _ hx => (rU32_ok hx).1) _ h3, by simp only [hnl]; exact b4⟩, ?_⟩
  unfold encGroup
  simp only [hnl]
  rw [e1, e2, many_writes (fun _ _ _ hx => (rU32_ok hx).2) _ h3, e4, take_ok_bytes h5]
  simp [encU32s]

theorem pGroups_ok {xs r : Bytes} {gs : List Group} (h : pGroups xs = .ok (gs, r)) :
    gs.length < W32 ∧ (∀ g ∈ gs, g.WF) ∧ ∃ unk, unk < W32 ∧ xs = encU32 gs.length ++ encU32 unk ++ gs.flatMap encGroup ++ r := by
  unfold pGroups at h
  obtain ⟨n, r1, h1, hA⟩ := bind_ok h
  obtain ⟨unk, r2, h2, hB⟩ := bind_ok hA
  obtain ⟨b1, e1⟩ := rU32_ok h1
  obtain ⟨b2, e2⟩ := rU32_ok h2
  have hl := many_ok_length n hB
  refine ⟨by rw [hl]; exact b1, many_ok_all (fun _ _ _ hx => (pGroup_ok hx).1) n hB, unk, b2, ?_⟩
  rw [e1, e2, many_writes (fun _ _ _ hx => (pGroup_ok hx).2) n hB, hl]; simp

/-- `pBody`: the fields it fills and the bytes it consumed -/
theorem pBody_ok {hd : Header} {w n : Nat} {xs r : Bytes} {m : Map} (h : pBody hd w n xs = .ok (m, r)) :
    m.versionTag = hd.tag ∧ m.savedGame = (hd.sg != 0) ∧ m.width = w ∧ m.height = hd.height ∧ m.groups = [] ∧
    m.tiles.length = n ∧ (∀ t ∈ m.tiles, t < W32) ∧ m.clip.length = rectSize ∧
    m.sources.length = hd.nsrc ∧ (∀ s ∈ m.sources, s.WF) ∧
    m.mappings.length < W32 ∧ (∀ b ∈ m.mappings, b.length = mappingSize) ∧
    m.terrains.length < W32 ∧ (∀ b ∈ m.terrains, b.length = terrainSize) ∧
    xs = bodyLayout m ++ r := by
  unfold pBody at h
  obtain ⟨tiles, r1, h1, hA⟩ := bind_ok h
  obtain ⟨clip, r2, h2, hB⟩ := bind_ok hA
  obtain ⟨srcs, r3, h3, hC⟩ := bind_ok hB
  obtain ⟨mk, r4, h4, hD⟩ := bind_ok hC
  obtain ⟨_, r5, g, hE⟩ := bind_ok hD
  obtain ⟨c, e⟩ := guard_ok g
  subst e
  obtain ⟨maps, r6, h6, hF⟩ := bind_ok hE
  obtain ⟨ters, r7, h7, hG⟩ := bind_ok hF
  obtain ⟨rfl, rfl⟩ := pure_ok hG
  obtain ⟨m1, m2, m3⟩ := pBlobs_ok h6
  obtain ⟨t1, t2, t3⟩ := pBlobs_ok h7
  have hmk : mk = marker := by simpa using c
  refine ⟨rfl, rfl, rfl, rfl, rfl, many_ok_length _ h1, many_ok_all (fun _ _ _ hx => (rU32_ok hx).1) _ h1, take_ok_length h2,
    many_ok_length _ h3, many_ok_all ensures_pSource _ h3, m1, m2, t1, t2, ?_⟩
  unfold bodyLayout
  simp only []
  rw [many_writes (fun _ _ _ hx => (rU32_ok hx).2) _ h1, take_ok_bytes h2, many_writes writes_pSource _ h3, take_ok_bytes h4,
    hmk, m3, t3]
  simp [encU32s]

/-- the map `ReadMapBeginning` returns is well-formed apart from its (still empty) group list, and the bytes consumed are
    its header — with the saved-game word as found in the file — followed by its body layout -/
theorem beginOk_wf {xs r : Bytes} {m : Map} (h : BeginOk xs m r) :
    Spec.WF m ∧ m.groups = [] ∧ ∃ k sg, k < 32 ∧ m.width = 2 ^ k ∧ sg < W32 ∧ m.savedGame = (sg != 0) ∧
      xs = encU32 m.versionTag ++ encU32 sg ++ encU32 k ++ encU32 m.height ++ encU32 m.sources.length ++ bodyLayout m ++ r := by
  obtain ⟨hd, hh, hmin, hok, hb⟩ := h.hd
  obtain ⟨b1, b2, b3, b4, b5, ex⟩ := pHeader_ok hh
  obtain ⟨hlg, hprod, _⟩ := dims_of_ok b4 hok
  obtain ⟨e1, e2, e3, e4, e5, l1, a1, c1, l3, a3, m1, m2, t1, t2, eb⟩ := pBody_ok hb
  refine ⟨?_, e5, hd.lg, hd.sg, hlg, e3, b2, e2, ?_⟩
  · exact { tagMin := by rw [e1]; exact hmin, tagLt := by rw [e1]; exact b1, heightLt := by rw [e4]; exact b4,
            width := ⟨hd.lg, hlg, e3⟩, count := by rw [l1, e4, e3], countLt := by rw [e4, e3]; exact hprod,
            tiles := a1, clip := c1, nsrc := by rw [l3]; exact b5, src := a3, nmap := m1, maps := m2, nter := t1, ters := t2,
            ngrp := by rw [e5]; unfold W32; simp, grps := by rw [e5]; simp }
  · rw [e1, e4, l3]
    have : xs = encU32 hd.tag ++ encU32 hd.sg ++ encU32 hd.lg ++ encU32 hd.height ++ encU32 hd.nsrc ++ xs.drop headerSize := by
      conv => lhs; rw [ex]
    rw [this, eb]; simp [List.append_assoc]

/-- everything `ReadMap` guarantees about what it returns and what it consumed -/
theorem pMap_wf {xs r : Bytes} {m : Map} (h : pMap xs = .ok (.ok m, r)) :
    Spec.WF m ∧ ∃ k sg unk, k < 32 ∧ m.width = 2 ^ k ∧ sg < W32 ∧ m.savedGame = (sg != 0) ∧ unk < W32 ∧
      xs = encU32 m.versionTag ++ encU32 sg ++ encU32 k ++ encU32 m.height ++ encU32 m.sources.length ++ bodyLayout m ++
        encU32 m.versionTag ++ encU32 m.versionTag ++
        (encU32 m.groups.length ++ encU32 unk ++ m.groups.flatMap encGroup) ++ r := by
  obtain ⟨m0, r1, r2, r3, gs, hb, t1, t2, hg, he⟩ := pMap_ok h
  obtain ⟨m0', e0, hbo⟩ := pBeginning_ok hb
  cases e0
  cases he
  obtain ⟨wf, eg, k, sg, hk, hw, hsg, esg, ex⟩ := beginOk_wf hbo
  obtain ⟨_, _, et1⟩ := pVersionTag_ok t1
  obtain ⟨_, _, et2⟩ := pVersionTag_ok t2
  obtain ⟨gl, ga, unk, hunk, eg2⟩ := pGroups_ok hg
  refine ⟨?_, k, sg, unk, hk, hw, hsg, esg, hunk, ?_⟩
  · exact { tagMin := wf.tagMin, tagLt := wf.tagLt, heightLt := wf.heightLt, width := wf.width, count := wf.count,
            countLt := wf.countLt, tiles := wf.tiles, clip := wf.clip, nsrc := wf.nsrc, src := wf.src, nmap := wf.nmap,
            maps := wf.maps, nter := wf.nter, ters := wf.ters, ngrp := gl, grps := ga }
  · have eb : bodyLayout ({ m0 with groups := gs } : Map) = bodyLayout m0 := rfl
    rw [eb, ex, et1, et2, eg2]; simp [List.append_assoc]

end Op2.Map
