import Op2Proofs.Map.Write
/-!
# Saved games: a concrete family of files the saved-game reader accepts (non-vacuity of the C07 saved-game statements)
-/
namespace Op2.Map
open Op2 Op2.Parser

/-- the beginning of a map file as `Map::Write` lays it out (header with log-width `k`, tiles … terrain types) -/
def beginBytes (m : Map) (k : Nat) : Bytes := encHeader m.versionTag m.savedGame k m.height m.sources.length ++ bodyLayout m

/-- a unit block without units, objects or a free list: seven zero words (size-of-unit word 120), two more words, the array -/
def emptyUnits (u : Bytes) : Bytes :=
  encU32 0 ++ encU32 0 ++ encU32 0 ++ encU32 0 ++ encU32 120 ++ encU32 0 ++ encU32 0 ++ encU32 0 ++ encU32 0 ++ u

theorem reads_pUnits_empty (u : Bytes) (hu : u.length = unitsArrayBytes) :
    Reads pUnits (emptyUnits u) () := by
  intro rest
  unfold emptyUnits
  have z : (0 : Nat) < W32 := by unfold W32; omega
  have z120 : (120 : Nat) < W32 := by unfold W32; omega
  unfold pUnits
  simp only [List.append_assoc]
  rw [bind_reads (reads_rU32 0 z), bind_reads (reads_rU32 0 z), bind_reads (reads_rU32 0 z), bind_reads (reads_rU32 0 z),
    bind_reads (reads_rU32 120 z120)]
  simp only [defaultSizeOfUnit]
  rw [show (!(120 != 120 && 0 != 0)) = true by decide, bind_guard_true, bind_reads (reads_rU32 0 z), bind_reads (reads_rU32 0 z)]
  have t0 : Reads (take (object1Size * 0)) [] [] := by intro r; simp [Parser.take]
  have t1 : Reads (take (4 * 0)) [] [] := by intro r; simp [Parser.take]
  have := bind_reads (f := fun _ => Parser.bind (take (4 * 0)) fun _ => Parser.bind rU32 fun _ => Parser.bind rU32 fun _ =>
      Parser.bind (take unitsArrayBytes) fun _ =>
      if (0 : Nat) != 0 then Parser.bind (take freeUnitsBytes) fun _ => Parser.pure () else Parser.pure ()) t0
      (encU32 0 ++ (encU32 0 ++ (u ++ rest)))
  simp only [List.nil_append] at this
  rw [this]
  have := bind_reads (f := fun _ => Parser.bind rU32 fun _ => Parser.bind rU32 fun _ =>
      Parser.bind (take unitsArrayBytes) fun _ =>
      if (0 : Nat) != 0 then Parser.bind (take freeUnitsBytes) fun _ => Parser.pure () else Parser.pure ()) t1
      (encU32 0 ++ (encU32 0 ++ (u ++ rest)))
  simp only [List.nil_append] at this
  rw [this, bind_reads (reads_rU32 0 z), bind_reads (reads_rU32 0 z), bind_reads (reads_take' u unitsArrayBytes hu)]
  rfl

theorem reads_beginBytes (m : Map) (k : Nat) (hk : k < 32) (hw : m.width = 2 ^ k) (wf : Spec.WF m) :
    Reads pBeginning (beginBytes m k) (.ok { m with groups := [] }) := reads_pBeginning m k hk hw wf

end Op2.Map
