/-!
# Tactic helpers for bridging lemmas about generated definitions (`Op2.Gen.Formulas`)

Every bridging lemma has the form `gen_<fn>_translated = true → ∀ …, gen_<fn> … = model value`.  When the function left the
translator's fragment the flag is `false`, the generated body is a dummy, the lemma is vacuous (`gen_fallback`) and the
function is tied by the differential run alone (recorded as `formulas_fallback` in the evidence) — not an alarm.
-/
namespace Op2.GenTactics

/-- closes `flag = true → …` when the function fell back (flag is `false`) -/
macro "gen_fallback" : tactic => `(tactic| (intro h; exact absurd h (by decide)))

/-- `gen_guard => tac`: vacuous if the function fell back; otherwise `tac` proves the body -/
macro "gen_guard" " => " t:tacticSeq : tactic => `(tactic| first | gen_fallback | (intro _; ($t)))

end Op2.GenTactics

/-! ### `x % 2^n` is a ring homomorphism: nested reductions collapse to the outermost one, whatever the association -/
namespace Op2.GenTactics
theorem emod_mul_l (a b M : Int) : (a % M * b) % M = (a * b) % M := by
  rw [Int.mul_emod, Int.emod_emod_of_dvd _ (Int.dvd_refl M), ← Int.mul_emod]
theorem emod_mul_r (a b M : Int) : (a * (b % M)) % M = (a * b) % M := by
  rw [Int.mul_emod, Int.emod_emod_of_dvd _ (Int.dvd_refl M), ← Int.mul_emod]
theorem emod_add_l (a b M : Int) : (a % M + b) % M = (a + b) % M := by
  rw [Int.add_emod, Int.emod_emod_of_dvd _ (Int.dvd_refl M), ← Int.add_emod]
theorem emod_add_r (a b M : Int) : (a + b % M) % M = (a + b) % M := by
  rw [Int.add_emod, Int.emod_emod_of_dvd _ (Int.dvd_refl M), ← Int.add_emod]
theorem emod_sub_l (a b M : Int) : (a % M - b) % M = (a - b) % M := by
  rw [Int.sub_emod, Int.emod_emod_of_dvd _ (Int.dvd_refl M), ← Int.sub_emod]
theorem emod_sub_r (a b M : Int) : (a - b % M) % M = (a - b) % M := by
  rw [Int.sub_emod, Int.emod_emod_of_dvd _ (Int.dvd_refl M), ← Int.sub_emod]
end Op2.GenTactics

namespace Op2.GenTactics
/-- `gen_guard_h h => tac`: as `gen_guard`, naming the hypothesis `flag = true` (for lemmas that use another lemma about the same function) -/
macro "gen_guard_h " h:ident " => " t:tacticSeq : tactic => `(tactic| first | gen_fallback | (intro $h:ident; ($t)))
end Op2.GenTactics
