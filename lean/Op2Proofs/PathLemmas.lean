import Op2Model.Path
/-!
# Op2Proofs.PathLemmas — characterisation of the path model on *relative* paths

`scan`/`split` carry offsets, an accumulator and component kinds.  For a path that does not start
with a separator all of that is irrelevant to the texts: the elements are the non-empty
`/`-separated tokens (`toks`), followed by `"."` when the string ends in a separator.
Everything here is by structural induction on the byte list.
-/
namespace Op2.Path
open Op2

/-- relative path: does not start with a separator (decidable) -/
def Rel (s : Bytes) : Prop := s.head? ≠ some sep
instance (s : Bytes) : Decidable (Rel s) := by unfold Rel; infer_instance

/-- plain name: non-empty and free of separators (decidable) -/
def Plain (t : Bytes) : Prop := t ≠ [] ∧ sep ∉ t
instance (t : Bytes) : Decidable (Plain t) := by unfold Plain; infer_instance

/-- the non-empty `/`-separated tokens of `s`; `cur` is the current token, reversed -/
def toks : Bytes → Bytes → List Bytes
  | [], cur => if cur.isEmpty then [] else [cur.reverse]
  | c :: rest, cur =>
      if c = sep then (if cur.isEmpty then toks rest [] else cur.reverse :: toks rest [])
      else toks rest (c :: cur)

/-- `t₁ ++ "/" ++ t₂ ++ "/" ++ …` without the first token: every token preceded by a separator -/
def sepCat : List Bytes → Bytes
  | [] => []
  | t :: r => sep :: (t ++ sepCat r)

/-- tokens joined by single separators -/
def joinT : List Bytes → Bytes
  | [] => []
  | t :: r => t ++ sepCat r

/-! ## `scan` = `toks` on texts; all kinds are `file` -/

theorem scan_texts (s : Bytes) : ∀ (off start : Nat) (cur : Bytes) (acc : List Cmpt),
    (scan s off start cur acc).map (·.text) = acc.reverse.map (·.text) ++ toks s cur := by
  induction s with
  | nil =>
    intro off start cur acc
    simp only [scan, toks]
    split <;> simp
  | cons c rest ih =>
    intro off start cur acc
    simp only [scan, toks]
    split
    · split
      · exact ih _ _ _ _
      · rw [ih]; simp
    · exact ih _ _ _ _

theorem scan_kinds (s : Bytes) : ∀ (off start : Nat) (cur : Bytes) (acc : List Cmpt),
    (∀ c ∈ acc, c.kind = Kind.file) → ∀ c ∈ scan s off start cur acc, c.kind = Kind.file := by
  induction s with
  | nil =>
    intro off start cur acc h c hc
    simp only [scan] at hc
    split at hc
    · exact h c (by simpa using hc)
    · simp only [List.reverse_cons, List.mem_append, List.mem_reverse, List.mem_singleton] at hc
      rcases hc with hc | hc
      · exact h c hc
      · rw [hc]
  | cons c rest ih =>
    intro off start cur acc h
    simp only [scan]
    split
    · split
      · exact ih _ _ _ _ h
      · apply ih
        intro c hc
        simp only [List.mem_cons] at hc
        rcases hc with hc | hc
        · rw [hc]
        · exact h c hc
    · exact ih _ _ _ _ h

/-! ## basic facts about `toks` -/

theorem toks_ne_nil_of_cur (s : Bytes) : ∀ cur : Bytes, cur ≠ [] → toks s cur ≠ [] := by
  induction s with
  | nil => intro cur h; simp [toks, h]
  | cons c rest ih =>
    intro cur h
    simp only [toks]
    split
    · have : cur.isEmpty = false := by cases cur <;> simp_all
      simp [this]
    · exact ih _ (by simp)

theorem toks_ne_nil_of_rel (s : Bytes) (hr : Rel s) (hs : s ≠ []) : toks s [] ≠ [] := by
  cases s with
  | nil => exact absurd rfl hs
  | cons c rest =>
    have hc : c ≠ sep := by intro h; apply hr; simp [h]
    simp only [toks, if_neg hc]
    exact toks_ne_nil_of_cur _ _ (by simp)

/-- a string without separator is one token (or none, when there is nothing at all) -/
theorem toks_nosep (n : Bytes) : ∀ cur : Bytes, sep ∉ n →
    toks n cur = if cur.isEmpty ∧ n = [] then [] else [cur.reverse ++ n] := by
  induction n with
  | nil => intro cur _; cases cur <;> simp [toks]
  | cons c rest ih =>
    intro cur h
    simp only [List.mem_cons, not_or] at h
    have hc : c ≠ sep := fun e => h.1 e.symm
    simp only [toks, if_neg hc]
    rw [ih _ h.2]
    simp

/-- tokens split at a separator -/
theorem toks_append_sep (a b : Bytes) : ∀ cur : Bytes,
    toks (a ++ sep :: b) cur = toks a cur ++ toks b [] := by
  induction a with
  | nil =>
    intro cur
    simp only [List.nil_append, toks, if_true]
    split <;> simp
  | cons c rest ih =>
    intro cur
    simp only [List.cons_append, toks]
    split
    · split
      · exact ih _
      · rw [ih]; simp
    · exact ih _

/-- every token is a plain name -/
theorem toks_plain (s : Bytes) : ∀ cur : Bytes, sep ∉ cur → ∀ t ∈ toks s cur, Plain t := by
  induction s with
  | nil =>
    intro cur h t ht
    simp only [toks] at ht
    split at ht
    · simp at ht
    · simp only [List.mem_singleton] at ht
      subst ht
      refine ⟨?_, by simpa using h⟩
      cases cur <;> simp_all
  | cons c rest ih =>
    intro cur h t ht
    simp only [toks] at ht
    split at ht
    · split at ht
      · exact ih [] (by simp) t ht
      · simp only [List.mem_cons] at ht
        rcases ht with ht | ht
        · subst ht
          refine ⟨?_, by simpa using h⟩
          cases cur <;> simp_all
        · exact ih [] (by simp) t ht
    · rename_i hc
      apply ih (c :: cur) _ t ht
      simp only [List.mem_cons, not_or]
      exact ⟨fun e => hc e.symm, h⟩

/-! ## joining plain tokens and splitting again gives the tokens back -/

theorem sepCat_append (a b : List Bytes) : sepCat (a ++ b) = sepCat a ++ sepCat b := by
  induction a with
  | nil => rfl
  | cons t r ih => simp [sepCat, ih]

theorem joinT_append_singleton (a : List Bytes) (n : Bytes) (ha : a ≠ []) :
    joinT (a ++ [n]) = joinT a ++ sep :: n := by
  cases a with
  | nil => exact absurd rfl ha
  | cons t r => simp [joinT, sepCat_append, sepCat]

theorem toks_sepCat (r : List Bytes) (hr : ∀ t ∈ r, Plain t) : ∀ (t cur : Bytes), sep ∉ t →
    toks (t ++ sepCat r) cur = (if cur.isEmpty ∧ t = [] then [] else [cur.reverse ++ t]) ++ r := by
  induction r with
  | nil =>
    intro t cur h
    simp only [sepCat, List.append_nil]
    exact toks_nosep t cur h
  | cons u r ih =>
    intro t cur h
    have hu : Plain u := hr u (by simp)
    simp only [sepCat]
    rw [toks_append_sep, toks_nosep t cur h, ih (fun t ht => hr t (by simp [ht])) u [] hu.2]
    simp [hu.1]

theorem toks_joinT (ts : List Bytes) (h : ∀ t ∈ ts, Plain t) : toks (joinT ts) [] = ts := by
  cases ts with
  | nil => rfl
  | cons t r =>
    have ht : Plain t := h t (by simp)
    simp only [joinT]
    rw [toks_sepCat r (fun u hu => h u (by simp [hu])) t [] ht.2]
    simp [ht.1]

theorem or_ne_sep {x y : Option UInt8} (hx : x ≠ some sep) (hy : y ≠ some sep) : x.or y ≠ some sep := by
  cases x <;> simp_all

theorem plain_getLast {u : Bytes} (hu : Plain u) : u.getLast? ≠ some sep :=
  fun e => hu.2 (List.mem_of_getLast? e)

theorem sepCat_getLast (r : List Bytes) (hr : ∀ t ∈ r, Plain t) : (sepCat r).getLast? ≠ some sep := by
  induction r with
  | nil => simp [sepCat]
  | cons u r ih =>
    have hu : Plain u := hr u (by simp)
    simp only [sepCat]
    have hne : u ++ sepCat r ≠ [] := by simp [hu.1]
    rw [List.getLast?_cons_of_ne_nil hne, List.getLast?_append]
    exact or_ne_sep (ih (fun t ht => hr t (by simp [ht]))) (plain_getLast hu)

theorem joinT_getLast (ts : List Bytes) (h : ∀ t ∈ ts, Plain t) : (joinT ts).getLast? ≠ some sep := by
  cases ts with
  | nil => simp [joinT]
  | cons t r =>
    simp only [joinT, List.getLast?_append]
    exact or_ne_sep (sepCat_getLast r (fun u hu => h u (by simp [hu]))) (plain_getLast (h t (by simp)))

theorem joinT_rel (ts : List Bytes) (h : ∀ t ∈ ts, Plain t) : Rel (joinT ts) := by
  cases ts with
  | nil => simp [joinT, Rel]
  | cons t r =>
    have ht := h t (by simp)
    cases t with
    | nil => exact absurd rfl ht.1
    | cons c t' =>
      simp only [Rel, joinT, List.cons_append, List.head?_cons, ne_eq, Option.some.injEq]
      intro e
      exact ht.2 (by simp [e])

theorem joinT_eq_nil (ts : List Bytes) (h : ∀ t ∈ ts, Plain t) : joinT ts = [] ↔ ts = [] := by
  cases ts with
  | nil => simp [joinT]
  | cons t r => simp [joinT, (h t (by simp)).1]

end Op2.Path
