import Op2Model.Gen.Guards
import Op2Proofs.GenTactics
/-!
# Helpers for the bridging lemmas about `Op2.Gen.Guards` (refusal conditions regenerated from the C++ on every run)

Every lemma has the form `<F>_guards_translated = true → ∀ values in the ranges of the C++ types, <F>_refuses values =
the model's refusal`.  It mentions `<F>_refuses` only (never a single `guard<k>`), and is proved by unfolding that one
definition, turning the Boolean equation into an `↔` between arithmetic propositions and closing it with numeral
normalisation + `omega`: any spelling, order or grouping of the guards with the same refusal set passes, any other leaves
an `omega` goal open.
-/
namespace Op2.GenGuards
open Op2.GenTactics

/-- what a guard can see of a model result -/
def refused {ε α : Type} : Except ε α → Bool
  | .ok _ => false
  | .error _ => true
@[simp] theorem refused_ok {ε α : Type} (a : α) : refused (.ok a : Except ε α) = false := rfl
@[simp] theorem refused_error {ε α : Type} (e : ε) : refused (.error e : Except ε α) = true := rfl

/-! ## `x & ~3` (any width): the mask is a literal after numeral normalisation -/
theorem and_mask_eq (k : Nat) (x : Nat) (h : x < 2 ^ (k + 2)) : x &&& ((2 ^ k - 1) <<< 2) = x / 4 * 4 := by
  apply Nat.eq_of_testBit_eq
  intro i
  rw [Nat.testBit_and, Nat.testBit_shiftLeft, Nat.testBit_two_pow_sub_one]
  have e2 : x / 4 * 4 = (x >>> 2) <<< 2 := by
    rw [Nat.shiftLeft_eq, Nat.shiftRight_eq_div_pow]
  rw [e2, Nat.testBit_shiftLeft, Nat.testBit_shiftRight]
  by_cases h2 : 2 ≤ i
  · have : 2 + (i - 2) = i := by omega
    simp only [h2, decide_true, Bool.true_and, this]
    by_cases h3 : i - 2 < k
    · simp [h3]
    · simp only [h3, decide_false, Bool.and_false]
      have : x < 2 ^ i := by
        have : (2:Nat) ^ (k + 2) ≤ 2 ^ i := Nat.pow_le_pow_right (by decide) (by omega)
        omega
      exact (Nat.testBit_lt_two_pow this).symm
  · simp [h2]

theorem and_mask64 (x : Nat) (h : x < 18446744073709551616) : x &&& 18446744073709551612 = x / 4 * 4 := by
  have e : (18446744073709551612 : Nat) = (2 ^ 62 - 1) <<< 2 := by decide
  rw [e]; exact and_mask_eq 62 x (by simpa using h)
theorem and_mask32 (x : Nat) (h : x < 4294967296) : x &&& 4294967292 = x / 4 * 4 := by
  have e : (4294967292 : Nat) = (2 ^ 30 - 1) <<< 2 := by decide
  rw [e]; exact and_mask_eq 30 x (by simpa using h)

/-- numeral normalisation of a generated condition: literal `%`, `-`, `toNat`, casts of literals -/
macro "guard_norm" : tactic =>
  `(tactic| try simp only [Int.emod_emod, Int.reduceMod, Int.reduceNeg, Int.reduceSub, Int.reduceAdd, Int.reduceMul, Int.reduceToNat, Int.reducePow,
      Nat.reducePow, Nat.reduceMul, Nat.reduceAdd, Int.ofNat_eq_natCast, Int.cast_ofNat_Int] at *)

/-- `b = true` for a disjunction of `decide`s → the proposition -/
macro "guard_iff" : tactic =>
  `(tactic| (try simp only [gt_iff_lt, ge_iff_le, iff_true, iff_false, true_iff, false_iff, Bool.and_eq_false_iff, Bool.or_eq_false_iff, beq_eq_false_iff_ne, ne_eq, Bool.or_eq_true, Bool.and_eq_true, Bool.not_eq_true', decide_eq_true_eq,
      decide_eq_false_iff_not, Bool.false_eq_true, or_false, false_or, beq_iff_eq, bne_iff_ne, Bool.not_eq_eq_eq_not, Bool.not_true, Bool.not_false]))
/-- Boolean equation `b₁ = b₂` between disjunctions of `decide`s → equivalence of propositions -/
macro "guard_beq" : tactic => `(tactic| (rw [Bool.eq_iff_iff]; guard_iff))

/-- `nowrap v`: adds the facts `↑v / 2^64 = 0` and, when it holds, `↑v / 2^32 = 0` for a natural number `v` whose bound is in the
    context.  They only mention the model-side variable (never the generated spelling); without them `omega`, whose variable
    elimination is inexact (no dark / grey shadows), can fail to see that a `% 2^64` of an in-range value is the value. -/
macro "nowrap " v:term : tactic =>
  `(tactic| ((try have : (($v : Nat) : Int) / 18446744073709551616 = 0 := by omega);
             (try have : (($v : Nat) : Int) / 4294967296 = 0 := by omega)))

end Op2.GenGuards
