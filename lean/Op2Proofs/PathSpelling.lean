import Op2Model.Vol
import Op2Model.Clm
import Op2Proofs.SortLemmas
import Op2Proofs.Clm.Dirs
/-!
# PathSpelling — the archive writers look at an input path only through `Path.getFilename`

`Vol.create out files` and `Clm.create files` are rewritten as functions of the *logical* inputs
`(Path.getFilename path, content)`; the only place where the spelling of an input path is looked at is the
`PathsAreEqual(out, input)` test of `VolFile::WriteVolume`, which is kept as an explicit Boolean gate.
-/
namespace Op2.Str

/-- sorting by a key that is computed through `g` commutes with mapping `g` -/
theorem insertCI_map {α β : Type} (g : α → β) (key : β → Bytes) (x : α) :
    ∀ l : List α, (insertCI (fun a => key (g a)) x l).map g = insertCI key (g x) (l.map g)
  | [] => rfl
  | y :: ys => by
    simp only [insertCI, List.map_cons]
    split
    · rfl
    · rw [List.map_cons, insertCI_map g key x ys]

theorem sortCI_map {α β : Type} (g : α → β) (key : β → Bytes) :
    ∀ l : List α, (sortCI (fun a => key (g a)) l).map g = sortCI key (l.map g)
  | [] => rfl
  | x :: xs => by
    have ih := sortCI_map g key xs
    unfold sortCI at ih ⊢
    rw [List.foldr_cons, insertCI_map, ih, List.map_cons, List.foldr_cons]

end Op2.Str

namespace Op2.Vol
open Op2 Op2.Str

/-- what the writer is meant to depend on: final path component and content -/
def logical (f : InFile) : Bytes × Content := (Path.getFilename f.path, f.content)

/-- the refusal that does look at the spelling: `PathsAreEqual(out, input)` for some input -/
def outClash (out : Bytes) (files : List InFile) : Bool := files.any (fun f => Path.pathsAreEqual out f.path)

/-- `prepLoop` on logical inputs -/
def prepLoopL : List (Bytes × Content) → Nat → Except Err (List Entry × Nat)
  | [], stl => .ok ([], stl)
  | f :: fs, stl =>
    if f.2.len > int32Max then .error .refused
    else if stl + f.1.length + 1 > uint32Max then .error .refused
    else match prepLoopL fs (u32 (stl + u32 f.1.length + 1)) with
      | .ok (es, stl') => .ok ({ nameOff := stl, dataOff := 0, size := f.2.len, comp := uncompressed } :: es, stl')
      | .error e => .error e

/-- `writeFiles` on logical inputs -/
def writeFilesL : List (Bytes × Content) → List Entry → Bytes
  | f :: fs, e :: es => (sec tagVBLK e.size ++ copyAll f.2 ++ zeros ((4 - e.size % 4) % 4)) ++ writeFilesL fs es
  | _, _ => []

/-- everything `CreateArchive` computes from the logical inputs alone: every refusal except the two that concern the
    output path, and the archive bytes -/
def createCore (l : List (Bytes × Content)) : Except Err Bytes :=
  let sorted := Str.sortCI Prod.fst l
  let names := sorted.map Prod.fst
  if Str.hasAdjacentDup names then .error .refused else
  match prepLoopL sorted 0 with
  | .error e => .error e
  | .ok (es, stl) =>
    if sorted.length * entrySize > uint32Max then .error .refused else
    let itl := u32 (u32 sorted.length * entrySize)
    let paddedS := mask32 (u32 (stl + namePad))
    let paddedI := mask32 (u32 (itl + indexPad))
    match assignOffsets (u32 (paddedS + paddedI + firstBlockExtra)) es with
    | .error e => .error e
    | .ok es =>
      .ok (writeHeader { files := [], names := names, stl := stl, itl := itl, paddedS := paddedS, paddedI := paddedI, entries := es }
            ++ writeFilesL sorted es)

theorem prepLoop_logical : ∀ (l : List InFile) (stl : Nat), prepLoop l stl = prepLoopL (l.map logical) stl
  | [], _ => rfl
  | f :: fs, stl => by
    simp only [prepLoop, List.map_cons, prepLoopL]
    rw [prepLoop_logical fs]
    rfl

theorem writeFiles_logical : ∀ (l : List InFile) (es : List Entry), writeFiles l es = writeFilesL (l.map logical) es
  | [], _ => by simp [writeFiles, writeFilesL]
  | _ :: _, [] => by simp [writeFiles, writeFilesL]
  | f :: fs, e :: es => by
    simp only [writeFiles, List.map_cons, writeFilesL, writeBlock]
    rw [writeFiles_logical fs es]
    rfl

theorem sorted_logical (files : List InFile) :
    (sortCI nameOf files).map logical = sortCI Prod.fst (files.map logical) :=
  sortCI_map logical Prod.fst files

theorem any_perm {α : Type} (p : α → Bool) {l l' : List α} (h : l.Perm l') : l.any p = l'.any p := by
  rw [Bool.eq_iff_iff, List.any_eq_true, List.any_eq_true]
  exact ⟨fun ⟨x, hx, hp⟩ => ⟨x, h.mem_iff.mp hx, hp⟩, fun ⟨x, hx, hp⟩ => ⟨x, h.mem_iff.mpr hx, hp⟩⟩

/-- **factorisation**: `CreateArchive` is the core function of the logical inputs `(getFilename path, content)`, followed
    by the two output-path refusals (output names an input; output path empty).  No other use is made of the paths. -/
theorem create_factors (out : Bytes) (files : List InFile) :
    create out files =
      match createCore (files.map logical) with
      | .error e => .error e
      | .ok b => if outClash out files then .error .refused else if out.isEmpty then .error .refused else .ok b := by
  have hs := sorted_logical files
  have hany : (sortCI nameOf files).any (fun f => Path.pathsAreEqual out f.path) = outClash out files :=
    any_perm _ (sortCI_perm nameOf files)
  have hnames : (sortCI nameOf files).map nameOf = (sortCI Prod.fst (files.map logical)).map Prod.fst := by
    rw [← hs, List.map_map]; rfl
  have hlen : (sortCI nameOf files).length = (sortCI Prod.fst (files.map logical)).length := by
    rw [← hs, List.length_map]
  unfold create plan createCore
  simp only []
  rw [hany, hnames, hlen, prepLoop_logical, hs]
  generalize sortCI Prod.fst (files.map logical) = S at *
  by_cases hd : hasAdjacentDup (List.map Prod.fst S) = true
  · simp only [hd, if_true]
  · simp only [hd, Bool.false_eq_true, if_false]
    cases hp : prepLoopL S 0 with
    | error e => rfl
    | ok r =>
      obtain ⟨es, stl⟩ := r
      simp only []
      by_cases hc : S.length * entrySize > uint32Max
      · simp only [hc, if_true]
      · simp only [hc, if_false]
        cases ha : assignOffsets (u32 (mask32 (u32 (stl + namePad)) + mask32 (u32 (u32 (u32 S.length * entrySize) + indexPad)) + firstBlockExtra)) es with
        | error e => rfl
        | ok es' =>
          simp only []
          by_cases h1 : outClash out files = true
          · simp only [h1, if_true]
          · simp only [h1, Bool.false_eq_true, if_false]
            by_cases h2 : out.isEmpty = true
            · simp only [h2, if_true]
            · simp only [h2, Bool.false_eq_true, if_false, emit]
              rw [writeFiles_logical, hs]
              rfl

end Op2.Vol

namespace Op2.Clm
open Op2 Op2.Str Op2.Wave

/-- what the writer is meant to depend on: final path component and content -/
def logical (f : Bytes × Content) : Bytes × Content := (Path.getFilename f.1, f.2)

/-- `ClmFile::CreateArchive` written over the logical inputs `(file name, content)`: the member name is the file name
    without its extension, the order is the case-insensitive order of the file names -/
def createCore (l : List (Bytes × Content)) : Res Archive :=
  let sorted := Str.sortCI Prod.fst l
  match intakeAll (sorted.map (·.2)) with
  | .hang => .hang
  | .err => .err
  | .ok infos =>
    if !allSameFmt infos then .err else
    let names := sorted.map (fun f => Path.changeFileExtension f.1 [])
    if names.any (fun n => decide (n.length > nameMax)) then .err else
    if Str.hasAdjacentDup names then .err else
    let n := names.length
    let fmt := match infos with | [] => defaultFmt | i :: _ => i.fmt
    let hdr := version ++ fmt ++ unknown ++ encU32 n
    match prepareIndex (headerSize + n * entrySize) (names.zip (infos.map (·.dataLen))) with
    | none => .err
    | some idx =>
      match slices ((sorted.map (·.2)).zip infos) with
      | none => .err
      | some ds => .ok ⟨hdr ++ idx, ds⟩

theorem sorted_logical (files : List (Bytes × Content)) :
    (sortCI (fun f : Bytes × Content => Path.getFilename f.1) files).map logical = sortCI Prod.fst (files.map logical) :=
  sortCI_map logical Prod.fst files

/-- **factorisation**: `CreateArchive` is a function of the logical inputs `(getFilename path, content)`; the CLM
    writer takes no output path, so nothing else of the spelling is ever looked at -/
theorem create_factors (files : List (Bytes × Content)) : create files = createCore (files.map logical) := by
  have hs := sorted_logical files
  have hc : (sortCI (fun f : Bytes × Content => Path.getFilename f.1) files).map (·.2)
      = (sortCI Prod.fst (files.map logical)).map (·.2) := by
    rw [← hs, List.map_map]; rfl
  have hn : (sortCI (fun f : Bytes × Content => Path.getFilename f.1) files).map (fun f => nameOf f.1)
      = (sortCI Prod.fst (files.map logical)).map (fun f => Path.changeFileExtension f.1 []) := by
    rw [← hs, List.map_map]; rfl
  unfold create createCore
  simp only []
  rw [hc, hn]
  rfl

end Op2.Clm
