import Op2Proofs.PathLemmas6
import Op2Proofs.Clm.Names
/-!
# Directory-qualified paths `dir/stem[.ext]`: the file name is the part behind the last separator

`path::filename()` of `dir ++ "/" ++ n` is `n` for every byte string `dir` — relative, rooted, with a root name, with
doubled or trailing separators, empty (a leading "/") — and every non-empty separator-free `n`, **except** `dir = "/"`:
`"//n"` is a root name (one component whose text is the whole string), so its file name is `"//n"` itself.
Either way the file name is `w ++ sfx` and the stripped name is `w` for a `w` whose bytes are all above '.', which is
all the order argument needs.
-/
namespace Op2.Path
open Op2

/-- the component list ends in a component whose text is exactly `n` -/
def LastIs (cs : List Cmpt) (n : Bytes) : Prop := ∃ X c, cs = X ++ [c] ∧ c.text = n

theorem filename_of_lastIs {s n : Bytes} (h : LastIs (split s) n) : filename s = n := by
  obtain ⟨X, c, e, ht⟩ := h
  unfold filename
  rw [e]
  simp [ht]

/-- what may follow a separator in a path that ends in `/n`: the name itself, or more directories and then `/n` -/
def Tail (n w : Bytes) : Prop := w = n ∨ ∃ a, w = a ++ sep :: n

theorem scan_lastIs_dir (n : Bytes) (hn : Plain n) (a : Bytes) : ∀ (off start : Nat) (cur : Bytes) (acc : List Cmpt),
    ∃ X c, scan (a ++ sep :: n) off start cur acc = X ++ [c] ∧ c.text = n := by
  induction a with
  | nil =>
    intro off start cur acc
    simp only [List.nil_append, scan, if_true]
    split
    · rw [scan_nosep n _ _ [] _ hn.2 (fun h => hn.1 h.2)]
      exact ⟨_, _, List.reverse_cons, by simp⟩
    · rw [scan_nosep n _ _ [] _ hn.2 (fun h => hn.1 h.2)]
      exact ⟨_, _, List.reverse_cons, by simp⟩
  | cons c r ih =>
    intro off start cur acc
    simp only [List.cons_append, scan]
    split
    · split
      · exact ih _ _ _ _
      · exact ih _ _ _ _
    · exact ih _ _ _ _

theorem scan_lastIs_tail (n w : Bytes) (hn : Plain n) (hw : Tail n w) (off start : Nat) (acc : List Cmpt) :
    ∃ X c, scan w off start [] acc = X ++ [c] ∧ c.text = n := by
  rcases hw with rfl | ⟨a, rfl⟩
  · rw [scan_nosep w _ _ [] _ hn.2 (fun h => hn.1 h.2)]
    exact ⟨_, _, List.reverse_cons, by simp⟩
  · exact scan_lastIs_dir n hn a off start [] acc

theorem afterRootDir_lastIs (s : Bytes) (pre : List Cmpt) (n w : Bytes) (off : Nat) (hn : Plain n) (hw : Tail n w)
    (hs : s.getLast? ≠ some sep) : LastIs (afterRootDir s pre w off) n := by
  obtain ⟨X, c, e, ht⟩ := scan_lastIs_tail n w hn hw off off []
  unfold afterRootDir
  simp only [e]
  have hne : (X ++ [c]).isEmpty = false := by cases X <;> rfl
  rw [hne]
  simp only [Bool.false_eq_true, false_and, if_false]
  rw [withTrailingDot_noop _ _ hs]
  exact ⟨pre ++ X, c, by simp, ht⟩

/-- if `x ++ "/" ++ n` is cut at a separator and `n` has none, what follows the cut is `n` or still ends in `/n` -/
theorem cut_keeps_tail (x n u v : Bytes) (hn : sep ∉ n) (h : x ++ sep :: n = u ++ sep :: v) : Tail n v := by
  induction x generalizing u with
  | nil =>
    cases u with
    | nil =>
      simp only [List.nil_append, List.cons.injEq, true_and] at h
      exact Or.inl h.symm
    | cons d u' =>
      exfalso; apply hn
      simp only [List.nil_append, List.cons_append, List.cons.injEq] at h
      rw [h.2]; simp
  | cons c r ih =>
    cases u with
    | nil =>
      simp only [List.cons_append, List.nil_append, List.cons.injEq] at h
      exact Or.inr ⟨r, h.2.symm⟩
    | cons d u' =>
      simp only [List.cons_append, List.cons.injEq] at h
      exact ih u' h.2

theorem dropWhile_nil_all (p : UInt8 → Bool) : ∀ l : Bytes, l.dropWhile p = [] → ∀ x ∈ l, p x = true
  | [], _, x, hx => by cases hx
  | c :: r, h, x, hx => by
    by_cases hc : p c = true
    · rw [List.dropWhile_cons_of_pos hc] at h
      rcases List.mem_cons.mp hx with rfl | hx
      · exact hc
      · exact dropWhile_nil_all p r h x hx
    · rw [List.dropWhile_cons_of_neg hc] at h
      cases h

/-- every path `B/n` with `n` a plain name and `B ≠ "/"` has `n` as its last component -/
theorem split_lastIs (B n : Bytes) (hn : Plain n) (hB : B ≠ [sep]) : LastIs (split (B ++ sep :: n)) n := by
  have hlast : ∀ x : Bytes, (x ++ sep :: n).getLast? ≠ some sep := by
    intro x
    have := getLast_append_plain (x ++ [sep]) n hn
    rw [List.append_assoc] at this
    exact this
  obtain ⟨n0, n', hn0⟩ : ∃ n0 n', n = n0 :: n' := by
    cases n with
    | nil => exact absurd rfl hn.1
    | cons a b => exact ⟨a, b, rfl⟩
  have hn0s : n0 ≠ sep := by intro e; apply hn.2; rw [hn0, e]; simp
  cases B with
  | nil =>
    -- "/" ++ n
    have hs := hlast []
    rw [List.nil_append] at hs ⊢
    subst hn0
    unfold split
    simp only [if_true, if_neg hn0s]
    exact afterRootDir_lastIs _ _ _ _ 1 hn (Or.inl rfl) hs
  | cons b0 B' =>
    by_cases hrel : Rel (b0 :: B')
    · have hr : Rel ((b0 :: B') ++ sep :: n) := hrel
      rw [split_rel _ hr, withTrailingDot_noop _ _ (hlast _)]
      exact scan_lastIs_dir n hn _ 0 0 [] []
    · obtain ⟨r0, hr0⟩ := (not_rel_iff _).mp hrel
      simp only [List.cons.injEq] at hr0
      obtain ⟨rfl, rfl⟩ := hr0
      have hs := hlast (sep :: B')
      rw [List.cons_append] at hs ⊢
      unfold split
      simp only [if_true]
      cases B' with
      | nil => exact absurd rfl hB
      | cons c1 r1 =>
        simp only [List.cons_append]
        split
        · -- "//" …
          cases hr1 : r1 ++ sep :: n with
          | nil =>
            exfalso
            have := (List.append_eq_nil_iff.mp hr1).2
            cases this
          | cons c2 r2 =>
            simp only
            split
            · -- root name "//name/…"
              rw [← hr1]
              split
              · rename_i hafter
                exfalso
                have hall := dropWhile_nil_all _ _ hafter sep (by simp)
                simp at hall
              · rename_i c' after' hafter
                have hc' : c' = sep := dropWhile_head_sep _ _ _ hafter
                have hsplit := List.takeWhile_append_dropWhile (p := (· ≠ sep)) (l := r1 ++ sep :: n)
                rw [hafter, hc'] at hsplit
                have ht := cut_keeps_tail r1 n _ _ hn.2 hsplit.symm
                exact afterRootDir_lastIs _ _ n _ _ hn ht (hlast (sep :: c1 :: r1))
            · -- "///…"
              rw [← hr1, ← List.cons_append]
              exact afterRootDir_lastIs _ _ n _ 1 hn (Or.inr ⟨c1 :: r1, rfl⟩) (hlast (sep :: c1 :: r1))
        · rw [← List.cons_append]
          exact afterRootDir_lastIs _ _ n _ 1 hn (Or.inr ⟨c1 :: r1, rfl⟩) hs

/-- `path(B + "/" + n).filename()` is `n` (for `B ≠ "/"`) -/
theorem filename_dir (B n : Bytes) (hn : Plain n) (hB : B ≠ [sep]) : filename (B ++ sep :: n) = n :=
  filename_of_lastIs (split_lastIs B n hn hB)

theorem filename_plain (n : Bytes) (hn : Plain n) : filename n = n := by
  unfold filename
  rw [split_plain n hn]
  rfl

/-- the form asked for: the directory part does not reach the file name -/
theorem getFilename_dir (B n : Bytes) (hn : Plain n) (hB : B ≠ [sep]) : getFilename (B ++ sep :: n) = getFilename n := by
  unfold getFilename
  rw [filename_dir B n hn hB, filename_plain n hn]

end Op2.Path

namespace Op2.Clm
open Op2 Op2.Path

theorem nameOf_dir (B n : Bytes) (hn : Plain n) (hB : B ≠ [sep]) : nameOf (B ++ sep :: n) = nameOf n := by
  unfold nameOf
  rw [getFilename_dir B n hn hB]

theorem bare_plain (stem : Bytes) (sfx : Suffix) (hs : StemOk stem) (hx : sfx.Ok) : Plain (stem ++ sfx.bytes) := by
  refine ⟨fun e => hs.1 (List.append_eq_nil_iff.mp e).1, ?_⟩
  intro hmem
  rcases List.mem_append.mp hmem with h | h
  · exact (hs.2 sep h).2.2 rfl
  · cases sfx with
    | none => simp [Suffix.bytes] at h
    | withExt ext =>
      simp only [Suffix.bytes, List.mem_cons] at h
      rcases h with h | h
      · revert h; decide
      · exact (hx sep h).2 rfl

theorem dir_assoc (dir stem : Bytes) (sfx : Suffix) :
    dir ++ [sep] ++ stem ++ sfx.bytes = dir ++ sep :: (stem ++ sfx.bytes) := by simp

/-- file name and stripped name of `dir/stem[.ext]`, `dir ≠ "/"` -/
theorem dir_names (dir stem : Bytes) (sfx : Suffix) (hs : StemOk stem) (hx : sfx.Ok) (hd : dir ≠ [sep]) :
    getFilename (dir ++ [sep] ++ stem ++ sfx.bytes) = stem ++ sfx.bytes ∧ nameOf (dir ++ [sep] ++ stem ++ sfx.bytes) = stem := by
  have hp := bare_plain stem sfx hs hx
  rw [dir_assoc, getFilename_dir _ _ hp hd, nameOf_dir _ _ hp hd]
  exact bare_names stem sfx hs hx

/-! ## the one exception: `"//stem[.ext]"` is a root name — a single component whose text is the whole string -/

theorem split_rootName (n : Bytes) (hn : Plain n) :
    split (sep :: sep :: n) = [({ kind := Kind.rootName, pos := 0, text := sep :: sep :: n } : Cmpt)] := by
  obtain ⟨n0, n', rfl⟩ : ∃ n0 n', n = n0 :: n' := by
    cases n with
    | nil => exact absurd rfl hn.1
    | cons a b => exact ⟨a, b, rfl⟩
  have hn0s : n0 ≠ sep := by intro e; apply hn.2; rw [e]; simp
  have hall : ∀ a ∈ n0 :: n', (fun x : UInt8 => decide (x ≠ sep)) a = true := by
    intro a ha
    simp only [decide_eq_true_eq]
    intro e; apply hn.2; rw [← e]; exact ha
  have hdrop : (n0 :: n').dropWhile (· ≠ sep) = [] := by
    have := List.dropWhile_append_of_pos (l₂ := ([] : Bytes)) hall
    rw [List.append_nil] at this
    exact this
  have htake := takeWhile_eq_self_of_dropWhile_nil _ _ hdrop
  unfold split
  simp only [if_true, if_pos hn0s, hdrop, htake]

/-- the position `replace_extension` cuts at, for a name `w[.ext]` with no dot in `w` -/
theorem extPos_sfx (w : Bytes) (sfx : Suffix) (hw : w ≠ []) (hnd : ∀ x ∈ w, x ≠ dot) (hx : sfx.Ok) :
    extPos (w ++ sfx.bytes) = match sfx with | .none => none | .withExt _ => some w.length := by
  obtain ⟨c0, r0, rfl⟩ : ∃ c0 r0, w = c0 :: r0 := by
    cases w with
    | nil => exact absurd rfl hw
    | cons a b => exact ⟨a, b, rfl⟩
  have hc0 : c0 ≠ dot := hnd c0 (by simp)
  unfold extPos
  rw [if_neg (by simp)]
  rw [if_neg (by simp [hc0])]
  cases sfx with
  | none =>
    simp only [Suffix.bytes, List.append_nil]
    rw [findIdx?_none]
    intro y hy
    simp only [decide_eq_false_iff_not]
    exact hnd y (List.mem_reverse.mp hy)
  | withExt ext =>
    simp only [Suffix.bytes, List.reverse_append, List.reverse_cons, List.append_assoc, List.cons_append, List.nil_append]
    rw [findIdx?_first _ ext.reverse dot (r0.reverse ++ [c0]) (by
      intro y hy; simp only [decide_eq_false_iff_not]; exact (hx y (List.mem_reverse.mp hy)).1) (by simp)]
    simp only [List.length_reverse, List.length_append, List.length_cons]
    congr 1; omega

/-- a path that is one component (of any kind) at offset 0 spelling `w[.ext]`: the file name is the path, the stripped
    name is `w` -/
theorem single_names (w : Bytes) (sfx : Suffix) (k : Kind) (hw : w ≠ []) (hnd : ∀ x ∈ w, x ≠ dot) (hx : sfx.Ok)
    (hsplit : split (w ++ sfx.bytes) = [({ kind := k, pos := 0, text := w ++ sfx.bytes } : Cmpt)]) :
    getFilename (w ++ sfx.bytes) = w ++ sfx.bytes ∧ nameOf (w ++ sfx.bytes) = w := by
  have hfn : getFilename (w ++ sfx.bytes) = w ++ sfx.bytes := by
    simp [getFilename, filename, hsplit]
  refine ⟨hfn, ?_⟩
  unfold nameOf changeFileExtension
  rw [hfn]
  unfold replaceExtension extCmpt
  rw [hsplit]
  simp only
  rw [extPos_sfx w sfx hw hnd hx]
  cases sfx with
  | none => simp [Suffix.bytes]
  | withExt ext => simp [Suffix.bytes]

/-- file name and stripped name of `"//stem[.ext]"`: the whole string, and `"//stem"` -/
theorem rootName_names (stem : Bytes) (sfx : Suffix) (hs : StemOk stem) (hx : sfx.Ok) :
    getFilename ([sep] ++ [sep] ++ stem ++ sfx.bytes) = sep :: sep :: stem ++ sfx.bytes ∧
    nameOf ([sep] ++ [sep] ++ stem ++ sfx.bytes) = sep :: sep :: stem := by
  have hp := bare_plain stem sfx hs hx
  have e : [sep] ++ [sep] ++ stem ++ sfx.bytes = (sep :: sep :: stem) ++ sfx.bytes := by simp
  rw [e]
  apply single_names (sep :: sep :: stem) sfx Kind.rootName (by simp) _ hx
  · exact split_rootName _ hp
  · intro x hx'
    simp only [List.mem_cons] at hx'
    rcases hx' with rfl | rfl | h
    · decide
    · decide
    · exact hs.ne_dot x h

/-! ## what the order argument needs of a path -/

/-- the file name is `w ++ sfx`, the stripped name is `w`, and every byte of `w` is above '.' (and below 255) -/
def NameShape (p : Bytes) : Prop :=
  ∃ (w : Bytes) (sfx : Suffix), getFilename p = w ++ sfx.bytes ∧ nameOf p = w ∧ ∀ x ∈ w, 46 < x.toNat ∧ x.toNat < 255

theorem shape_bare (stem : Bytes) (sfx : Suffix) (hs : StemOk stem) (hx : sfx.Ok) : NameShape (stem ++ sfx.bytes) :=
  ⟨stem, sfx, (bare_names stem sfx hs hx).1, (bare_names stem sfx hs hx).2, fun x h => ⟨(hs.2 x h).1, (hs.2 x h).2.1⟩⟩

theorem shape_dir (dir stem : Bytes) (sfx : Suffix) (hs : StemOk stem) (hx : sfx.Ok) (hd : dir ≠ [sep]) :
    NameShape (dir ++ [sep] ++ stem ++ sfx.bytes) :=
  ⟨stem, sfx, (dir_names dir stem sfx hs hx hd).1, (dir_names dir stem sfx hs hx hd).2,
    fun x h => ⟨(hs.2 x h).1, (hs.2 x h).2.1⟩⟩

/-- … and `dir = "/"` has the shape too, with `w = "//stem"` ('/' is 47, just above '.') -/
theorem shape_dir_any (dir stem : Bytes) (sfx : Suffix) (hs : StemOk stem) (hx : sfx.Ok) :
    NameShape (dir ++ [sep] ++ stem ++ sfx.bytes) := by
  by_cases hd : dir = [sep]
  · subst hd
    refine ⟨sep :: sep :: stem, sfx, (rootName_names stem sfx hs hx).1, (rootName_names stem sfx hs hx).2, ?_⟩
    intro x h
    simp only [List.mem_cons] at h
    rcases h with rfl | rfl | h
    · decide
    · decide
    · exact ⟨(hs.2 x h).1, (hs.2 x h).2.1⟩
  · exact shape_dir dir stem sfx hs hx hd

/-- stripping the extension does not change how two such paths compare -/
theorem compat_of_shape (s t : Bytes) (hs : NameShape s) (ht : NameShape t)
    (h : Str.ltCI (getFilename t) (getFilename s) = false) : Str.ltCI (nameOf t) (nameOf s) = false := by
  obtain ⟨ws, xs, e1, e2, hws⟩ := hs
  obtain ⟨wt, xt, f1, f2, hwt⟩ := ht
  rw [e1, f1] at h
  rw [e2, f2]
  cases hlt : Str.ltCI wt ws
  · rfl
  · have := ltCI_stems wt ws xt xs hwt hws hlt
    rw [this] at h; cases h

end Op2.Clm
