import Op2Proofs.Clm.Content
import Op2Proofs.Clm.Walk
import Op2Proofs.Clm.Reader
import Op2Proofs.ParserLemmas
import Op2Proofs.SortLemmas
/-!
# `Clm.create`: what success means, the index it writes, and how the reader sees it
-/
namespace Op2.Clm
open Op2 Op2.Wave
open Op2.Parser (decU32_encU32 encU32_length)

/-! ## PrepareIndex -/

theorem prepareIndex_none_iff : ∀ (items : List (Bytes × Nat)) (start : Nat),
    prepareIndex start items = none ↔ items ≠ [] ∧ start + (items.map (·.2)).sum > offsetLimit
  | [], start => by simp [prepareIndex]
  | (n, l) :: rest, start => by
    unfold prepareIndex
    by_cases h : start + l > offsetLimit
    · rw [if_pos h]
      simp only [List.map_cons, List.sum_cons, ne_eq, reduceCtorEq, not_false_eq_true, true_and, true_iff]
      omega
    · rw [if_neg h]
      have ih := prepareIndex_none_iff rest (start + l)
      simp only [Option.map_eq_none_iff, List.map_cons, List.sum_cons, ne_eq, reduceCtorEq, not_false_eq_true, true_and]
      rw [ih]
      constructor
      · rintro ⟨_, h2⟩; omega
      · intro h2
        refine ⟨?_, by omega⟩
        rintro rfl
        simp at h2
        omega

/-- the entries an index prepared from `items` holds: padded name, true running offset, length -/
def entriesOf : Nat → List (Bytes × Nat) → List Entry
  | _, [] => []
  | off, (n, l) :: rest => ⟨padName n, off, l⟩ :: entriesOf (off + l) rest

theorem entriesOf_length : ∀ (items : List (Bytes × Nat)) (start : Nat), (entriesOf start items).length = items.length
  | [], _ => rfl
  | (_, _) :: rest, start => by simp [entriesOf, entriesOf_length rest]

theorem padName_length (n : Bytes) : (padName n).length = 8 := by
  unfold padName
  simp only [List.length_append, zeros_length, List.length_take]
  omega

theorem prepareIndex_length : ∀ (items : List (Bytes × Nat)) (start : Nat) (idx : Bytes),
    prepareIndex start items = some idx → idx.length = 16 * items.length
  | [], _, idx, h => by simp [prepareIndex] at h; subst h; rfl
  | (n, l) :: rest, start, idx, h => by
    unfold prepareIndex at h
    split at h
    · cases h
    · simp only [Option.map_eq_some_iff] at h
      obtain ⟨idx', h1, rfl⟩ := h
      have := prepareIndex_length rest _ idx' h1
      simp only [entryBytes, List.length_append, padName_length, encU32_length, List.length_cons, this]
      omega

/-- the reader's entry parser inverts `PrepareIndex` (whatever follows the index) -/
theorem parse_prepared : ∀ (items : List (Bytes × Nat)) (start : Nat) (idx rest : Bytes),
    prepareIndex start items = some idx → parseEntries items.length (idx ++ rest) = entriesOf start items
  | [], _, idx, rest, _ => rfl
  | (n, l) :: items, start, idx, rest, h => by
    unfold prepareIndex at h
    split at h
    · cases h
    · rename_i hfit
      simp only [Option.map_eq_some_iff] at h
      obtain ⟨idx', h1, rfl⟩ := h
      have ih := parse_prepared items (start + l) idx' rest h1
      simp only [List.length_cons, parseEntries, entriesOf, entryBytes, List.append_assoc]
      have hp := padName_length n
      have e8 : (padName n ++ (encU32 start ++ (encU32 l ++ (idx' ++ rest)))).take 8 = padName n := take_app_len hp
      have d8 : (padName n ++ (encU32 start ++ (encU32 l ++ (idx' ++ rest)))).drop 8 = encU32 start ++ (encU32 l ++ (idx' ++ rest)) :=
        drop_app_len hp
      have d12 : (padName n ++ (encU32 start ++ (encU32 l ++ (idx' ++ rest)))).drop 12 = encU32 l ++ (idx' ++ rest) := by
        have : (padName n ++ (encU32 start ++ (encU32 l ++ (idx' ++ rest)))) = (padName n ++ encU32 start) ++ (encU32 l ++ (idx' ++ rest)) := by
          simp
        rw [this]; exact drop_app_len (by simp [hp, encU32_length])
      have d16 : (padName n ++ (encU32 start ++ (encU32 l ++ (idx' ++ rest)))).drop 16 = idx' ++ rest := by
        have : (padName n ++ (encU32 start ++ (encU32 l ++ (idx' ++ rest)))) = (padName n ++ encU32 start ++ encU32 l) ++ (idx' ++ rest) := by
          simp
        rw [this]; exact drop_app_len (by simp [hp, encU32_length])
      rw [e8, d8, d12, d16, ih]
      unfold offsetLimit at hfit
      rw [decU32_encU32 start (by omega), decU32_encU32 l (by omega)]

/-! ## intake / slices keep the list shape -/

theorem intakeAll_length : ∀ (cs : List Content) (infos : List Info), intakeAll cs = .ok infos → infos.length = cs.length
  | [], infos, h => by simp [intakeAll] at h; subst h; rfl
  | c :: cs, infos, h => by
    unfold intakeAll at h
    split at h
    · cases h
    · cases h
    · split at h
      · cases h
      · cases h
      · rename_i is his
        injection h with h
        subst h
        simp [intakeAll_length cs is his]

theorem slices_lens : ∀ (l : List (Content × Info)) (ds : List Content), slices l = some ds →
    ds.map Content.len = l.map (·.2.dataLen)
  | [], ds, h => by simp [slices] at h; subst h; rfl
  | (c, i) :: rest, ds, h => by
    unfold slices at h
    split at h
    · simp only [Option.map_eq_some_iff] at h
      obtain ⟨ds', h1, rfl⟩ := h
      simp [Content.slice_len, slices_lens rest ds' h1]
    · cases h

/-! ## what a successful `create` means -/

/-- the files in archive order -/
abbrev sorted (files : List (Bytes × Content)) : List (Bytes × Content) :=
  Str.sortCI (fun f : Bytes × Content => Path.getFilename f.1) files
/-- member names in archive order -/
abbrev namesOf (files : List (Bytes × Content)) : List Bytes := (sorted files).map (fun f => nameOf f.1)
abbrev fmtOf (infos : List Info) : Bytes := match infos with | [] => defaultFmt | i :: _ => i.fmt

/-- everything `create files = .ok a` says, clause by clause -/
def Created (files : List (Bytes × Content)) (a : Archive) (infos : List Info) (idx : Bytes) : Prop :=
  intakeAll ((sorted files).map (·.2)) = .ok infos ∧
  allSameFmt infos = true ∧
  (∀ n ∈ namesOf files, n.length ≤ nameMax) ∧
  Str.hasAdjacentDup (namesOf files) = false ∧
  prepareIndex (headerSize + (namesOf files).length * entrySize) ((namesOf files).zip (infos.map (·.dataLen))) = some idx ∧
  slices (((sorted files).map (·.2)).zip infos) = some a.datas ∧
  a.head = version ++ fmtOf infos ++ unknown ++ encU32 (namesOf files).length ++ idx

theorem create_ok_iff (files : List (Bytes × Content)) (a : Archive) :
    create files = .ok a ↔ ∃ infos idx, Created files a infos idx := by
  unfold create Created
  simp only
  constructor
  · intro h
    cases hint : intakeAll (List.map (fun x => x.snd) (Str.sortCI (fun f : Bytes × Content => Path.getFilename f.1) files)) with
    | hang => rw [hint] at h; cases h
    | err => rw [hint] at h; cases h
    | ok infos =>
      rw [hint] at h
      simp only at h
      by_cases hs : allSameFmt infos = true
      · rw [if_neg (by simp [hs])] at h
        by_cases hl : (List.any (List.map (fun f => nameOf f.1) (Str.sortCI (fun f : Bytes × Content => Path.getFilename f.1) files))
            (fun n => decide (n.length > nameMax)) = true)
        · rw [if_pos hl] at h; cases h
        · rw [if_neg hl] at h
          by_cases hd : Str.hasAdjacentDup (List.map (fun f => nameOf f.1) (Str.sortCI (fun f : Bytes × Content => Path.getFilename f.1) files)) = true
          · rw [if_pos hd] at h; cases h
          · rw [if_neg hd] at h
            cases hidx : prepareIndex (headerSize + (List.map (fun f => nameOf f.1) (Str.sortCI (fun f : Bytes × Content => Path.getFilename f.1) files)).length * entrySize)
                ((List.map (fun f => nameOf f.1) (Str.sortCI (fun f : Bytes × Content => Path.getFilename f.1) files)).zip (List.map (fun x => x.dataLen) infos)) with
            | none => rw [hidx] at h; cases h
            | some idx =>
              rw [hidx] at h
              simp only at h
              cases hds : slices ((List.map (fun x => x.snd) (Str.sortCI (fun f : Bytes × Content => Path.getFilename f.1) files)).zip infos) with
              | none => rw [hds] at h; cases h
              | some ds =>
                rw [hds] at h
                simp only at h
                injection h with h
                subst h
                refine ⟨infos, idx, rfl, hs, ?_, by simpa using hd, hidx, hds, rfl⟩
                intro n hn
                simp only [List.any_eq_true, decide_eq_true_eq, not_exists, not_and] at hl
                have := hl n hn
                omega
      · rw [if_pos (by simp [hs])] at h; cases h
  · rintro ⟨infos, idx, hint, hsame, hshort, hdup, hidx, hds, hhead⟩
    rw [hint]
    simp only
    rw [if_neg (by simp [hsame])]
    have : ¬ (List.any (List.map (fun f => nameOf f.1) (Str.sortCI (fun f : Bytes × Content => Path.getFilename f.1) files))
        (fun n => decide (n.length > nameMax)) = true) := by
      simp only [List.any_eq_true, decide_eq_true_eq, not_exists, not_and]
      intro n hn
      have := hshort n hn
      omega
    rw [if_neg this, if_neg (by simp [hdup]), hidx]
    simp only
    rw [hds]
    simp only
    cases a
    simp only at hhead hds ⊢
    subst hhead
    rfl

/-! ## facts about what `intake` returns -/

theorem intake_ok {c : Content} {i : Info} (h : intake c = .ok i) :
    headerOk c = true ∧ ∃ l p, find c tagFmt = .at l p ∧ readFormat c p = some i.fmt ∧
      find c tagData = .at i.dataLen i.dataPos := by
  unfold intake at h
  split at h
  · rename_i hh
    refine ⟨hh, ?_⟩
    unfold intakeBody at h
    cases hf : find c tagFmt with
    | fuelOut => rw [hf] at h; cases h
    | none => rw [hf] at h; cases h
    | «at» l p =>
      rw [hf] at h
      simp only at h
      cases hr : readFormat c p with
      | none => rw [hr] at h; cases h
      | some fmt =>
        rw [hr] at h
        simp only at h
        cases hd : find c tagData with
        | fuelOut => rw [hd] at h; cases h
        | none => rw [hd] at h; cases h
        | «at» dl dp =>
          rw [hd] at h
          simp only at h
          injection h with h
          subst h
          exact ⟨l, p, rfl, hr, rfl⟩
  · cases h

theorem readFormat_length {c : Content} {p : Nat} {f : Bytes} (h : readFormat c p = some f) : f.length = 18 := by
  unfold readFormat at h
  split at h
  · rename_i hin
    injection h with h
    subst h
    have := Content.read_length c p formatSize hin
    unfold formatSize at this
    simp only [List.length_append, List.length_take, formatSize, List.length_cons, List.length_nil, this]
    omega
  · cases h

theorem intakeAll_mem : ∀ (cs : List Content) (infos : List Info), intakeAll cs = .ok infos →
    ∀ k (hk : k < infos.length), ∃ c, cs[k]? = some c ∧ intake c = .ok infos[k]
  | [], infos, h, k, hk => by simp [intakeAll] at h; subst h; simp at hk
  | c :: cs, infos, h, k, hk => by
    unfold intakeAll at h
    cases hi : intake c with
    | hang => rw [hi] at h; cases h
    | err => rw [hi] at h; cases h
    | ok i =>
      rw [hi] at h
      simp only at h
      cases his : intakeAll cs with
      | hang => rw [his] at h; cases h
      | err => rw [his] at h; cases h
      | ok is =>
        rw [his] at h
        simp only at h
        injection h with h
        subst h
        cases k with
        | zero => exact ⟨c, rfl, hi⟩
        | succ k =>
          simp only [List.length_cons] at hk
          obtain ⟨c', h1, h2⟩ := intakeAll_mem cs is his k (by omega)
          exact ⟨c', by simpa using h1, by simpa using h2⟩

theorem fmtOf_length {cs : List Content} {infos : List Info} (h : intakeAll cs = .ok infos) : (fmtOf infos).length = 18 := by
  cases infos with
  | nil => decide
  | cons i rest =>
    obtain ⟨c, _, hc⟩ := intakeAll_mem cs (i :: rest) h 0 (by simp)
    obtain ⟨_, l, p, _, hr, _⟩ := intake_ok hc
    exact readFormat_length hr

/-! ## the bytes of a created archive and how the reader's parser sees them -/

theorem entriesOf_lens : ∀ (items : List (Bytes × Nat)) (start : Nat), (entriesOf start items).map (·.len) = items.map (·.2)
  | [], _ => rfl
  | (_, _) :: rest, start => by simp [entriesOf, entriesOf_lens rest]

theorem entriesOf_offs : ∀ (items : List (Bytes × Nat)) (start : Nat),
    (entriesOf start items).map (·.off) = Spec.offsetsFrom start (items.map (·.2))
  | [], _ => rfl
  | (_, _) :: rest, start => by simp [entriesOf, Spec.offsetsFrom, entriesOf_offs rest]

theorem entriesOf_names : ∀ (items : List (Bytes × Nat)) (start : Nat),
    (entriesOf start items).map (·.name8) = items.map (fun it => padName it.1)
  | [], _ => rfl
  | (_, _) :: rest, start => by simp [entriesOf, entriesOf_names rest]

theorem namesOf_length (files : List (Bytes × Content)) : (namesOf files).length = files.length := by
  simp only [List.length_map]
  exact (Str.sortCI_perm _ files).length_eq

theorem flatMap_toBytes_length (ds : List Content) : (ds.flatMap Content.toBytes).length = (ds.map Content.len).sum := by
  induction ds with
  | nil => rfl
  | cons d ds ih => simp [List.flatMap_cons, Content.toBytes_length, ih]

/-- summary of a created archive in terms of its index items -/
structure Shape (files : List (Bytes × Content)) (a : Archive) (infos : List Info) (idx : Bytes) : Prop where
  n_eq : (namesOf files).length = files.length
  infos_len : infos.length = files.length
  items_len : ((namesOf files).zip (infos.map (·.dataLen))).length = files.length
  items_lens : ((namesOf files).zip (infos.map (·.dataLen))).map (·.2) = infos.map (·.dataLen)
  items_names : ((namesOf files).zip (infos.map (·.dataLen))).map (·.1) = namesOf files
  datas_lens : a.datas.map Content.len = infos.map (·.dataLen)
  idx_len : idx.length = 16 * files.length
  fmt_len : (fmtOf infos).length = 18
  fits : files ≠ [] → headerSize + files.length * entrySize + (infos.map (·.dataLen)).sum ≤ offsetLimit
  bytes : a.toBytes = version ++ fmtOf infos ++ unknown ++ encU32 files.length ++ idx ++ a.datas.flatMap Content.toBytes

theorem Created.shape {files : List (Bytes × Content)} {a : Archive} {infos : List Info} {idx : Bytes}
    (h : Created files a infos idx) : Shape files a infos idx := by
  obtain ⟨hint, _, _, _, hidx, hds, hhead⟩ := h
  have hn := namesOf_length files
  have hil : infos.length = files.length := by
    rw [intakeAll_length _ _ hint, List.length_map]
    exact (Str.sortCI_perm _ files).length_eq
  have hzl : ((namesOf files).zip (infos.map (·.dataLen))).length = files.length := by
    rw [List.length_zip, hn, List.length_map, hil]; omega
  have hz2 : ((namesOf files).zip (infos.map (·.dataLen))).map (·.2) = infos.map (·.dataLen) := by
    apply List.map_snd_zip
    rw [hn, List.length_map, hil]; omega
  have hz1 : ((namesOf files).zip (infos.map (·.dataLen))).map (·.1) = namesOf files := by
    apply List.map_fst_zip
    rw [hn, List.length_map, hil]; omega
  have hdl : a.datas.map Content.len = infos.map (·.dataLen) := by
    rw [slices_lens _ _ hds]
    have : (List.map (fun x : Content × Info => x.2.dataLen) ((List.map (fun x => x.snd) (sorted files)).zip infos))
        = List.map (fun i : Info => i.dataLen) (List.map (·.2) ((List.map (fun x => x.snd) (sorted files)).zip infos)) := by
      simp [List.map_map]
    rw [this, List.map_snd_zip]
    rw [List.length_map, hil]
    exact Nat.le_of_eq (Str.sortCI_perm _ files).length_eq.symm
  refine ⟨hn, hil, hzl, hz2, hz1, hdl, ?_, fmtOf_length hint, ?_, ?_⟩
  · rw [prepareIndex_length _ _ _ hidx, hzl]
  · intro hne
    have := (prepareIndex_none_iff ((namesOf files).zip (infos.map (·.dataLen))) (headerSize + (namesOf files).length * entrySize))
    rw [hidx] at this
    simp only [reduceCtorEq, false_iff, not_and] at this
    have hne' : (namesOf files).zip (infos.map (·.dataLen)) ≠ [] := by
      intro e
      rw [e] at hzl
      simp at hzl
      exact hne (List.eq_nil_of_length_eq_zero hzl.symm)
    have := this hne'
    rw [hz2, hn] at this
    omega
  · unfold Archive.toBytes
    rw [hhead, hn]

/-! ## `create` always returns; refusals -/

theorem create_ne_hang (files : List (Bytes × Content)) (hlen : ∀ f ∈ files, f.2.len < 2 ^ 63) : create files ≠ .hang := by
  unfold create
  have hs : ∀ c ∈ (Str.sortCI (fun f : Bytes × Content => Path.getFilename f.1) files).map (·.2), c.len < 2 ^ 63 := by
    intro c hc
    obtain ⟨f, hf, rfl⟩ := List.mem_map.mp hc
    exact hlen f ((Str.sortCI_perm _ files).mem_iff.mp hf)
  have := intakeAll_ne_hang _ hs
  simp only
  split
  · rename_i e; exact absurd e this
  · simp
  · split; · simp
    split; · simp
    split; · simp
    split; · simp
    split <;> simp

/-- what is not an archive is an error (never a hang) -/
theorem create_err_of_not_ok (files : List (Bytes × Content)) (hlen : ∀ f ∈ files, f.2.len < 2 ^ 63)
    (h : ∀ a, create files ≠ .ok a) : create files = .err := by
  cases hc : create files with
  | ok a => exact absurd hc (h a)
  | err => rfl
  | hang => exact absurd hc (create_ne_hang files hlen)

theorem mem_sorted {files : List (Bytes × Content)} {f : Bytes × Content} : f ∈ sorted files ↔ f ∈ files :=
  (Str.sortCI_perm _ files).mem_iff

/-- in a created archive every source passed intake -/
theorem Created.intake_each {files : List (Bytes × Content)} {a : Archive} {infos : List Info} {idx : Bytes}
    (h : Created files a infos idx) : ∀ f ∈ files, ∃ i ∈ infos, intake f.2 = .ok i := by
  intro f hf
  have hf' : f.2 ∈ (sorted files).map (·.2) := List.mem_map.mpr ⟨f, mem_sorted.mpr hf, rfl⟩
  obtain ⟨k, hk, hkc⟩ := List.getElem_of_mem hf'
  have hlen := intakeAll_length _ _ h.1
  obtain ⟨c, hc1, hc2⟩ := intakeAll_mem _ _ h.1 k (by omega)
  rw [List.getElem?_eq_getElem hk, hkc] at hc1
  injection hc1 with hc1
  subst hc1
  exact ⟨_, List.getElem_mem _, hc2⟩

theorem allSameFmt_iff (infos : List Info) : allSameFmt infos = true ↔ ∀ i ∈ infos, ∀ j ∈ infos, i.fmt = j.fmt := by
  cases infos with
  | nil => simp [allSameFmt]
  | cons x rest =>
    simp only [allSameFmt, List.all_eq_true, beq_iff_eq]
    constructor
    · intro h i hi j hj
      have hx : ∀ y ∈ x :: rest, y.fmt = x.fmt := by
        intro y hy
        rcases List.mem_cons.mp hy with rfl | hy
        · rfl
        · exact h y hy
      rw [hx i hi, hx j hj]
    · intro h j hj
      exact h j (by simp [hj]) x (by simp)

end Op2.Clm
