import Op2Proofs.Clm.Layout
/-!
# Reopening a created archive: the view, and every member's extent
-/
namespace Op2.Clm
open Op2 Op2.Wave
open Op2.Parser (decU32_encU32 encU32_length)

/-- the reader accepts the layout and sees exactly the prepared entries -/
theorem open_layout (fmt : Bytes) (items : List (Bytes × Nat)) (idx D : Bytes) (hf : fmt.length = 18)
    (hidx : prepareIndex (60 + 16 * items.length) items = some idx) (hcap : items.length * 16 ≤ allocCap) :
    Clm.open (layoutBytes fmt items.length idx D) = .ok ⟨fmt, entriesOf (60 + 16 * items.length) items⟩ := by
  have hil := prepareIndex_length _ _ _ hidx
  have hlen := layout_length (n := items.length) (idx := idx) (D := D) hf
  have hn : items.length < W32 := by unfold allocCap at hcap; unfold W32; omega
  unfold Clm.open
  rw [if_neg (by unfold headerSize; omega)]
  rw [if_neg (by rw [layout_take32]; simp)]
  rw [if_neg (by rw [layout_unknown hf]; simp)]
  simp only [layout_count hf hn]
  rw [if_neg (by unfold entrySize; omega)]
  rw [if_neg (by unfold headerSize entrySize; omega)]
  rw [layout_fmt hf]
  unfold headerSize
  rw [layout_drop60 hf, parse_prepared _ _ _ _ hidx]

/-- member `i`'s recorded extent in `pre ++ data₀ ++ data₁ ++ …` is exactly `dataᵢ` when the recorded lengths are the
    data lengths and the first offset is `|pre|` -/
theorem extent_member : ∀ (items : List (Bytes × Nat)) (datas : List Content) (pre : Bytes) (i : Nat) (e : Entry),
    items.map (·.2) = datas.map Content.len → (entriesOf pre.length items)[i]? = some e →
    ∃ d, datas[i]? = some d ∧ e.len = d.len ∧ extent (pre ++ datas.flatMap Content.toBytes) e.off e.len = .ok d.toBytes
  | [], _, _, i, e, _, h => by simp [entriesOf] at h
  | (n, l) :: items, [], _, _, _, hl, _ => by simp at hl
  | (n, l) :: items, d :: ds, pre, 0, e, hl, h => by
    simp only [entriesOf, List.getElem?_cons_zero, Option.some.injEq] at h
    subst h
    simp only [List.map_cons, List.cons.injEq] at hl
    refine ⟨d, rfl, hl.1, ?_⟩
    simp only
    unfold extent
    have hdl := Content.toBytes_length d
    rw [if_pos (by simp only [List.length_append, List.flatMap_cons, hdl]; omega)]
    rw [List.flatMap_cons, drop_app_len rfl, take_app_len (by rw [hdl]; exact hl.1.symm)]
  | (n, l) :: items, d :: ds, pre, i + 1, e, hl, h => by
    simp only [entriesOf, List.getElem?_cons_succ] at h
    simp only [List.map_cons, List.cons.injEq] at hl
    have hpl : (pre ++ d.toBytes).length = pre.length + l := by
      rw [List.length_append, Content.toBytes_length, hl.1]
    rw [← hpl] at h
    obtain ⟨d', h1, h2, h3⟩ := extent_member items ds (pre ++ d.toBytes) i e hl.2 h
    refine ⟨d', by simpa using h1, h2, ?_⟩
    rw [List.flatMap_cons, ← List.append_assoc]
    exact h3

theorem entriesOf_get : ∀ (items : List (Bytes × Nat)) (start : Nat) (i : Nat) (hi : i < items.length),
    ∃ off, (entriesOf start items)[i]? = some ⟨padName items[i].1, off, items[i].2⟩
  | [], _, _, hi => by simp at hi
  | (n, l) :: items, start, 0, _ => ⟨start, rfl⟩
  | (n, l) :: items, start, i + 1, hi => by
    obtain ⟨off, h⟩ := entriesOf_get items (start + l) i (by simpa using hi)
    exact ⟨off, by simpa [entriesOf] using h⟩

/-- a name of at most 8 bytes without NUL is read back from its padded field -/
theorem entryName_padName (n : Bytes) (h0 : ∀ x ∈ n, x ≠ 0) (h8 : n.length ≤ 8) (off len : Nat) :
    entryName ⟨padName n, off, len⟩ = n := by
  unfold entryName padName
  simp only
  have tw : ∀ m : Bytes, (∀ x ∈ m, x ≠ 0) → m.takeWhile (· ≠ 0) = m := by
    intro m hm
    induction m with
    | nil => rfl
    | cons x xs ih =>
      have hx : x ≠ 0 := hm x (by simp)
      rw [List.takeWhile_cons_of_pos (by simpa using hx), ih (fun y hy => hm y (by simp [hy]))]
  rw [tw n h0, List.take_of_length_le h8]
  have : ∀ (m : Bytes) (k : Nat), (∀ x ∈ m, x ≠ 0) → (m ++ zeros k).takeWhile (· ≠ 0) = m := by
    intro m k hm
    induction m with
    | nil => cases k <;> simp [zeros, List.replicate]
    | cons x xs ih =>
      have hx : x ≠ 0 := hm x (by simp)
      rw [List.cons_append, List.takeWhile_cons_of_pos (by simpa using hx), ih (fun y hy => hm y (by simp [hy]))]
  exact this n _ h0

end Op2.Clm
