import Op2Proofs.Clm.Layout
/-!
# Reopening a created archive: the view, and every member's extent
-/
namespace Op2.Clm
open Op2 Op2.Wave
open Op2.Parser (decU32_encU32 encU32_length)

/-- the reader accepts the layout and sees exactly the prepared entries -/
theorem open_layout (fmt : Bytes) (items : List (Bytes × Nat)) (idx D : Bytes) (hf : fmt.length = 18)
    (hidx : prepareIndex (60 + 16 * items.length) items = some idx) (hcap : items.length * 16 ≤ allocCap) :
    Clm.open (layoutBytes fmt items.length idx D) = .ok ⟨fmt, entriesOf (60 + 16 * items.length) items⟩ := by
  have hil := prepareIndex_length _ _ _ hidx
  have hlen := layout_length (n := items.length) (idx := idx) (D := D) hf
  have hn : items.length < W32 := by unfold allocCap at hcap; unfold W32; omega
  unfold Clm.open
  rw [if_neg (by unfold headerSize; omega)]
  rw [if_neg (by rw [layout_take32]; simp)]
  rw [if_neg (by rw [layout_unknown hf]; simp)]
  simp only [layout_count hf hn]
  rw [if_neg (by unfold entrySize; omega)]
  rw [if_neg (by unfold headerSize entrySize; omega)]
  rw [layout_fmt hf]
  unfold headerSize
  rw [layout_drop60 hf, parse_prepared _ _ _ _ hidx]

/-- member `i`'s recorded extent in `pre ++ data₀ ++ data₁ ++ …` is exactly `dataᵢ` when the recorded lengths are the
    data lengths and the first offset is `|pre|` -/
theorem extent_member : ∀ (items : List (Bytes × Nat)) (datas : List Content) (pre : Bytes) (i : Nat) (e : Entry),
    items.map (·.2) = datas.map Content.len → (entriesOf pre.length items)[i]? = some e →
    ∃ d, datas[i]? = some d ∧ e.len = d.len ∧ extent (pre ++ datas.flatMap Content.toBytes) e.off e.len = .ok d.toBytes
  | [], _, _, i, e, _, h => by simp [entriesOf] at h
  | (n, l) :: items, [], _, _, _, hl, _ => by simp at hl
  | (n, l) :: items, d :: ds, pre, 0, e, hl, h => by
    simp only [entriesOf, List.getElem?_cons_zero, Option.some.injEq] at h
    subst h
    simp only [List.map_cons, List.cons.injEq] at hl
    refine ⟨d, rfl, hl.1, ?_⟩
    simp only
    unfold extent
    have hdl := Content.toBytes_length d
    rw [if_pos (by simp only [List.length_append, List.flatMap_cons, hdl]; omega)]
    rw [List.flatMap_cons, drop_app_len rfl, take_app_len (by rw [hdl]; exact hl.1.symm)]
  | (n, l) :: items, d :: ds, pre, i + 1, e, hl, h => by
    simp only [entriesOf, List.getElem?_cons_succ] at h
    simp only [List.map_cons, List.cons.injEq] at hl
    have hpl : (pre ++ d.toBytes).length = pre.length + l := by
      rw [List.length_append, Content.toBytes_length, hl.1]
    rw [← hpl] at h
    obtain ⟨d', h1, h2, h3⟩ := extent_member items ds (pre ++ d.toBytes) i e hl.2 h
    refine ⟨d', by simpa using h1, h2, ?_⟩
    rw [List.flatMap_cons, ← List.append_assoc]
    exact h3

theorem entriesOf_get : ∀ (items : List (Bytes × Nat)) (start : Nat) (i : Nat) (hi : i < items.length),
    ∃ off, (entriesOf start items)[i]? = some ⟨padName items[i].1, off, items[i].2⟩
  | [], _, _, hi => by simp at hi
  | (n, l) :: items, start, 0, _ => ⟨start, rfl⟩
  | (n, l) :: items, start, i + 1, hi => by
    obtain ⟨off, h⟩ := entriesOf_get items (start + l) i (by simpa using hi)
    exact ⟨off, by simpa [entriesOf] using h⟩

/-- a name of at most 8 bytes without NUL is read back from its padded field -/
theorem entryName_padName (n : Bytes) (h0 : ∀ x ∈ n, x ≠ 0) (h8 : n.length ≤ 8) (off len : Nat) :
    entryName ⟨padName n, off, len⟩ = n := by
  unfold entryName padName
  simp only
  have tw : ∀ m : Bytes, (∀ x ∈ m, x ≠ 0) → m.takeWhile (· ≠ 0) = m := by
    intro m hm
    induction m with
    | nil => rfl
    | cons x xs ih =>
      have hx : x ≠ 0 := hm x (by simp)
      rw [List.takeWhile_cons_of_pos (by simpa using hx), ih (fun y hy => hm y (by simp [hy]))]
  rw [tw n h0, List.take_of_length_le h8]
  have : ∀ (m : Bytes) (k : Nat), (∀ x ∈ m, x ≠ 0) → (m ++ zeros k).takeWhile (· ≠ 0) = m := by
    intro m k hm
    induction m with
    | nil => cases k <;> simp [zeros, List.replicate]
    | cons x xs ih =>
      have hx : x ≠ 0 := hm x (by simp)
      rw [List.cons_append, List.takeWhile_cons_of_pos (by simpa using hx), ih (fun y hy => hm y (by simp [hy]))]
  exact this n _ h0

theorem entriesOf_get? : ∀ (items : List (Bytes × Nat)) (start : Nat) (i : Nat) (it : Bytes × Nat), items[i]? = some it →
    ∃ off, (entriesOf start items)[i]? = some ⟨padName it.1, off, it.2⟩
  | [], _, _, _, h => by simp at h
  | (n, l) :: items, start, 0, it, h => by
    simp only [List.getElem?_cons_zero, Option.some.injEq] at h; subst h; exact ⟨start, rfl⟩
  | (n, l) :: items, start, i + 1, it, h => by
    obtain ⟨off, h'⟩ := entriesOf_get? items (start + l) i it (by simpa using h)
    exact ⟨off, by simpa [entriesOf] using h'⟩

theorem slices_get : ∀ (l : List (Content × Info)) (ds : List Content), slices l = some ds →
    ∀ (i : Nat) (c : Content) (info : Info), l[i]? = some (c, info) →
      info.dataPos + info.dataLen ≤ c.len ∧ ds[i]? = some (c.slice info.dataPos info.dataLen)
  | [], _, _, i, c, info, h => by simp at h
  | (c0, i0) :: rest, ds, hs, i, c, info, h => by
    unfold slices at hs
    split at hs
    · rename_i hin
      simp only [Option.map_eq_some_iff] at hs
      obtain ⟨ds', h1, rfl⟩ := hs
      cases i with
      | zero =>
        simp only [List.getElem?_cons_zero, Option.some.injEq, Prod.mk.injEq] at h
        obtain ⟨rfl, rfl⟩ := h
        exact ⟨hin, rfl⟩
      | succ i =>
        have := slices_get rest ds' h1 i c info (by simpa using h)
        exact ⟨this.1, by simpa using this.2⟩
    · cases hs

/-- **reopening any created archive**: the reader accepts it, sees the format and one entry per packed file whose name field
    is the padded name, whose length is the `data` chunk length found at intake, and whose extent is exactly the
    slice of the source at the position intake found -/
theorem reopen_created {files : List (Bytes × Content)} {a : Archive} {infos : List Info} {idx : Bytes}
    (h : Created files a infos idx) (hcap : files.length * 16 ≤ allocCap) :
    ∃ v, Clm.open a.toBytes = .ok v ∧ v.fmt = fmtOf infos ∧ v.count = files.length ∧
      ∀ (i : Nat) (p : Bytes) (c : Content) (info : Info), (sorted files)[i]? = some (p, c) → infos[i]? = some info →
        info.dataPos + info.dataLen ≤ c.len ∧
        ∃ off, v.entries[i]? = some ⟨padName (nameOf p), off, info.dataLen⟩ ∧
          extent a.toBytes off info.dataLen = .ok ((c.toBytes.drop info.dataPos).take info.dataLen) := by
  have sh := h.shape
  obtain ⟨hint, _, _, _, hidx, hds, hhead⟩ := h
  have hstart : headerSize + (namesOf files).length * entrySize
      = 60 + 16 * ((namesOf files).zip (infos.map (·.dataLen))).length := by
    rw [sh.items_len, sh.n_eq]; unfold headerSize entrySize; omega
  rw [hstart] at hidx
  have hbytes : a.toBytes = layoutBytes (fmtOf infos) ((namesOf files).zip (infos.map (·.dataLen))).length idx
      (a.datas.flatMap Content.toBytes) := by
    rw [sh.bytes, sh.items_len]; rfl
  have hopen := open_layout (fmtOf infos) _ idx (a.datas.flatMap Content.toBytes) sh.fmt_len hidx (by rw [sh.items_len]; exact hcap)
  refine ⟨_, by rw [hbytes]; exact hopen, rfl, ?_, ?_⟩
  · simp only [View.count, entriesOf_length, sh.items_len]
  · intro i p c info hs hi
    have hsl := slices_get _ _ hds i c info (by
      rw [List.getElem?_zip_eq_some]
      exact ⟨by rw [List.getElem?_map, hs]; rfl, hi⟩)
    refine ⟨hsl.1, ?_⟩
    have hitem : ((namesOf files).zip (infos.map (·.dataLen)))[i]? = some (nameOf p, info.dataLen) := by
      rw [List.getElem?_zip_eq_some]
      exact ⟨by rw [List.getElem?_map, hs]; rfl, by rw [List.getElem?_map, hi]; rfl⟩
    obtain ⟨off, he⟩ := entriesOf_get? _ (60 + 16 * ((namesOf files).zip (infos.map (·.dataLen))).length) i _ hitem
    refine ⟨off, he, ?_⟩
    -- the extent: `pre` is header + index
    have hpre : (version ++ fmtOf infos ++ unknown ++ encU32 files.length ++ idx).length
        = 60 + 16 * ((namesOf files).zip (infos.map (·.dataLen))).length := by
      simp only [List.length_append, version_length, unknown_length, encU32_length, sh.fmt_len, sh.idx_len, sh.items_len]
    rw [← hpre] at he
    obtain ⟨d, hd1, _, hd3⟩ := extent_member _ a.datas _ i _ (by rw [sh.items_lens, sh.datas_lens]) he
    rw [hsl.2] at hd1
    injection hd1 with hd1
    subst hd1
    rw [sh.bytes]
    simp only at hd3
    rw [hd3, Content.slice_toBytes _ _ _ hsl.1]

end Op2.Clm
