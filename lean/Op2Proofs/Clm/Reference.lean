import Op2Proofs.Clm.Sets
/-!
# The bytes `create` writes for a described set are the frozen reference encoder's
-/
namespace Op2.Clm
open Op2 Op2.Wave

/-- the index `PrepareIndex` writes, as a function -/
def indexOf : Nat → List (Bytes × Nat) → Bytes
  | _, [] => []
  | off, (n, l) :: rest => entryBytes n off l ++ indexOf (off + l) rest

theorem prepareIndex_eq_indexOf : ∀ (items : List (Bytes × Nat)) (start : Nat) (idx : Bytes),
    prepareIndex start items = some idx → idx = indexOf start items
  | [], _, idx, h => by simp [prepareIndex] at h; subst h; rfl
  | (n, l) :: rest, start, idx, h => by
    unfold prepareIndex at h
    split at h
    · cases h
    · simp only [Option.map_eq_some_iff] at h
      obtain ⟨idx', h1, rfl⟩ := h
      rw [indexOf, prepareIndex_eq_indexOf rest _ idx' h1]

theorem padName_ok (n : Bytes) (h0 : ∀ x ∈ n, x ≠ 0) (h8 : n.length ≤ 8) : padName n = n ++ zeros (8 - n.length) := by
  unfold padName
  have tw : ∀ m : Bytes, (∀ x ∈ m, x ≠ 0) → m.takeWhile (· ≠ 0) = m := by
    intro m hm
    induction m with
    | nil => rfl
    | cons x xs ih =>
      have hx : x ≠ 0 := hm x (by simp)
      rw [List.takeWhile_cons_of_pos (by simpa using hx), ih (fun y hy => hm y (by simp [hy]))]
  simp only [tw n h0, List.take_of_length_le h8]

/-- the reference encoder's index over `(name, data)` members is `indexOf` over `(name, |data|)` -/
theorem spec_index_eq : ∀ (members : List (Bytes × Bytes)) (start : Nat),
    (∀ m ∈ members, (∀ x ∈ m.1, x ≠ 0) ∧ m.1.length ≤ 8) →
    ((members.zip (Spec.offsetsFrom start (members.map (·.2.length)))).flatMap
        fun (m, o) => (m.1 ++ zeros (8 - m.1.length)) ++ encU32 o ++ encU32 m.2.length)
      = indexOf start (members.map (fun m => (m.1, m.2.length)))
  | [], _, _ => rfl
  | m :: rest, start, h => by
    have hm := h m (by simp)
    simp only [List.map_cons, Spec.offsetsFrom, List.zip_cons_cons, List.flatMap_cons, indexOf, entryBytes]
    rw [spec_index_eq rest (start + m.2.length) (fun x hx => h x (by simp [hx])), padName_ok m.1 hm.1 hm.2]

theorem slices_explicit {α : Type} (l : List α) (cont : α → Content) (info : α → Info)
    (h : ∀ x ∈ l, (info x).dataPos + (info x).dataLen ≤ (cont x).len) :
    slices ((l.map cont).zip (l.map info)) = some (l.map fun x => (cont x).slice (info x).dataPos (info x).dataLen) := by
  induction l with
  | nil => rfl
  | cons x xs ih =>
    simp only [List.map_cons, List.zip_cons_cons, slices, if_pos (h x (by simp)), ih (fun y hy => h y (by simp [hy])),
      Option.map_some]

theorem flatMap_eq_of_forall {α β : Type} (l : List α) (f g : α → List β) (h : ∀ x ∈ l, f x = g x) :
    l.flatMap f = l.flatMap g := by
  induction l with
  | nil => rfl
  | cons x xs ih => simp only [List.flatMap_cons, h x (by simp), ih (fun y hy => h y (by simp [hy]))]

end Op2.Clm
