import Op2Proofs.Clm.Create
/-!
# The bytes `version ++ fmt ++ unknown ++ count ++ index ++ data`: field access, the reader's view, `Spec.WF`
-/
namespace Op2.Clm
open Op2 Op2.Wave
open Op2.Parser (decU32_encU32 encU32_length)

/-- the byte layout every created archive has -/
def layoutBytes (fmt : Bytes) (n : Nat) (idx D : Bytes) : Bytes := version ++ fmt ++ unknown ++ encU32 n ++ idx ++ D

theorem version_length : version.length = 32 := by decide
theorem unknown_length : unknown.length = 6 := by decide

section
variable {fmt idx D : Bytes} {n : Nat} (hf : fmt.length = 18)
include hf

theorem layout_length : (layoutBytes fmt n idx D).length = 60 + idx.length + D.length := by
  simp only [layoutBytes, List.length_append, version_length, unknown_length, encU32_length, hf]

omit hf in
theorem layout_take32 : (layoutBytes fmt n idx D).take 32 = version := by
  have : layoutBytes fmt n idx D = version ++ (fmt ++ unknown ++ encU32 n ++ idx ++ D) := by simp [layoutBytes]
  rw [this]; exact take_app_len version_length

theorem layout_fmt : ((layoutBytes fmt n idx D).drop 32).take 18 = fmt := by
  have : layoutBytes fmt n idx D = version ++ (fmt ++ (unknown ++ encU32 n ++ idx ++ D)) := by simp [layoutBytes]
  rw [this, drop_app_len version_length]; exact take_app_len hf

theorem layout_unknown : ((layoutBytes fmt n idx D).drop 50).take 6 = unknown := by
  have : layoutBytes fmt n idx D = (version ++ fmt) ++ (unknown ++ (encU32 n ++ idx ++ D)) := by simp [layoutBytes]
  rw [this, drop_app_len (by simp [version_length, hf])]; exact take_app_len unknown_length

theorem layout_count (hn : n < W32) : decU32 ((layoutBytes fmt n idx D).drop 56) = n := by
  have : layoutBytes fmt n idx D = (version ++ fmt ++ unknown) ++ (encU32 n ++ (idx ++ D)) := by simp [layoutBytes]
  rw [this, drop_app_len (by simp [version_length, unknown_length, hf])]
  exact decU32_encU32 n hn _

theorem layout_drop60 : (layoutBytes fmt n idx D).drop 60 = idx ++ D := by
  have : layoutBytes fmt n idx D = (version ++ fmt ++ unknown ++ encU32 n) ++ (idx ++ D) := by simp [layoutBytes]
  rw [this]; exact drop_app_len (by simp [version_length, unknown_length, encU32_length, hf])
end

/-- positional reading of the index (the frozen description) agrees with the sequential entry parser -/
theorem spec_lens_eq_parse (b : Bytes) (n : Nat) :
    (List.range n).map (fun i => Spec.field32 b (60 + 16 * i + 12)) = (parseEntries n (b.drop 60)).map (·.len) := by
  apply List.ext_getElem?
  intro i
  by_cases hi : i < n
  · rw [List.getElem?_map, List.getElem?_map, parseEntries_get _ _ i hi, List.getElem?_range hi]
    simp only [Option.map_some, Spec.field32, List.drop_drop]
    congr 3
  · rw [List.getElem?_eq_none (by simp; omega), List.getElem?_eq_none (by simp [parseEntries_length]; omega)]

theorem spec_offs_eq_parse (b : Bytes) (n : Nat) :
    (List.range n).map (fun i => Spec.field32 b (60 + 16 * i + 8)) = (parseEntries n (b.drop 60)).map (·.off) := by
  apply List.ext_getElem?
  intro i
  by_cases hi : i < n
  · rw [List.getElem?_map, List.getElem?_map, parseEntries_get _ _ i hi, List.getElem?_range hi]
    simp only [Option.map_some, Spec.field32, List.drop_drop]
    congr 3
  · rw [List.getElem?_eq_none (by simp; omega), List.getElem?_eq_none (by simp [parseEntries_length]; omega)]

/-- an index prepared for `items` followed by data of the announced total length is a well-formed clump file -/
theorem wf_of_prepared (fmt : Bytes) (items : List (Bytes × Nat)) (idx D : Bytes) (hf : fmt.length = 18)
    (hidx : prepareIndex (60 + 16 * items.length) items = some idx)
    (hD : D.length = (items.map (·.2)).sum) (hn : items.length < W32) :
    Spec.WF (layoutBytes fmt items.length idx D) := by
  have hil := prepareIndex_length _ _ _ hidx
  have hcount : Spec.count (layoutBytes fmt items.length idx D) = items.length := layout_count hf hn
  have hparse : parseEntries items.length ((layoutBytes fmt items.length idx D).drop 60) = entriesOf (60 + 16 * items.length) items := by
    rw [layout_drop60 hf]; exact parse_prepared _ _ _ _ hidx
  have hlens : Spec.lens (layoutBytes fmt items.length idx D) = items.map (·.2) := by
    unfold Spec.lens; rw [hcount, spec_lens_eq_parse, hparse, entriesOf_lens]
  have hoffs : Spec.offs (layoutBytes fmt items.length idx D) = Spec.offsetsFrom (60 + 16 * items.length) (items.map (·.2)) := by
    unfold Spec.offs; rw [hcount, spec_offs_eq_parse, hparse, entriesOf_offs]
  have hlen := layout_length (n := items.length) (idx := idx) (D := D) hf
  refine ⟨by omega, ?_, ?_, ?_, ?_, ?_⟩
  · rw [layout_take32]; decide
  · rw [layout_unknown hf]; decide
  · rw [hcount]; omega
  · rw [hoffs, hcount, hlens]
  · rw [hcount, hlens, hlen, hil, hD]

end Op2.Clm
