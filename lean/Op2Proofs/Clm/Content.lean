import Op2Model.Clm
/-!
# `Content` (bytes + sparse zero tail): `read` and `slice` are what they say on the real bytes
-/
namespace Op2
open Op2

theorem zeros_length (n : Nat) : (zeros n).length = n := by simp [zeros]

theorem take_app_len {α : Type} {A B : List α} {n : Nat} (h : A.length = n) : (A ++ B).take n = A := by
  subst h; simp
theorem drop_app_len {α : Type} {A B : List α} {n : Nat} (h : A.length = n) : (A ++ B).drop n = B := by
  subst h; simp

namespace Content

theorem toBytes_length (c : Content) : c.toBytes.length = c.len := by
  simp [toBytes, len, zeros_length]

theorem zeros_drop (n k : Nat) : (zeros n).drop k = zeros (n - k) := by
  simp [zeros, List.drop_replicate]

theorem zeros_take (n k : Nat) : (zeros n).take k = zeros (min k n) := by
  simp [zeros, List.take_replicate]

theorem toBytes_drop (c : Content) (pos : Nat) :
    c.toBytes.drop pos = c.b.drop pos ++ zeros (c.z - (pos - c.b.length)) := by
  unfold toBytes
  rw [List.drop_append, zeros_drop]

/-- `read` is the window `[pos, pos+n)` of the real bytes (whatever `pos`, `n`) -/
theorem read_eq (c : Content) (pos n : Nat) : c.read pos n = (c.toBytes.drop pos).take n := by
  unfold read
  rw [toBytes_drop, List.take_append, List.take_append]
  simp only [zeros_take]
  congr 2
  omega

theorem read_length (c : Content) (pos n : Nat) (h : pos + n ≤ c.len) : (c.read pos n).length = n := by
  rw [read_eq, List.length_take, List.length_drop, toBytes_length]; omega

theorem slice_len (c : Content) (pos n : Nat) : (c.slice pos n).len = n := by
  unfold slice len
  simp only [List.length_take, List.length_drop]
  omega

/-- `slice` is the window `[pos, pos+n)` of the real bytes when it lies inside the file -/
theorem slice_toBytes (c : Content) (pos n : Nat) (h : pos + n ≤ c.len) :
    (c.slice pos n).toBytes = (c.toBytes.drop pos).take n := by
  unfold slice
  simp only [toBytes]
  rw [List.drop_append, List.take_append, zeros_drop, zeros_take]
  congr 2
  unfold len at h
  simp only [List.length_take, List.length_drop]
  omega

end Content
end Op2
