import Op2Model.Clm
import Op2Proofs.StrOrder
/-!
# Bare file names `stem[.ext]`: what the path model makes of them, and why sorting by file name sorts the stems
-/
namespace Op2.Clm
open Op2 Op2.Path

/-- `stem`, or `stem.ext`: no directory part, no further dot -/
inductive Suffix where
  | none
  | withExt (ext : Bytes)

def Suffix.bytes : Suffix → Bytes
  | .none => []
  | .withExt ext => Path.dot :: ext

def Suffix.Ok : Suffix → Prop
  | .none => True
  | .withExt ext => ∀ x ∈ ext, x ≠ Path.dot ∧ x ≠ sep

/-- stem characters: not '.', not '/', and folded value above '.' (letters, digits, underscore all qualify) -/
def StemOk (stem : Bytes) : Prop := stem ≠ [] ∧ ∀ x ∈ stem, 46 < x.toNat ∧ x.toNat < 255 ∧ x ≠ sep

theorem StemOk.ne_dot {stem : Bytes} (h : StemOk stem) : ∀ x ∈ stem, x ≠ dot := by
  intro x hx hd
  have := (h.2 x hx).1
  rw [hd] at this
  simp [dot] at this

theorem scan_nosep : ∀ (s : Bytes) (off start : Nat) (cur : Bytes) (acc : List Cmpt), (∀ x ∈ s, x ≠ sep) →
    scan s off start cur acc =
      if (cur.reverse ++ s).isEmpty then acc.reverse else (({ kind := .file, pos := start, text := cur.reverse ++ s } : Cmpt) :: acc).reverse
  | [], off, start, cur, acc, _ => by
    simp only [scan, List.append_nil, List.isEmpty_reverse]
  | c :: rest, off, start, cur, acc, h => by
    have hc : c ≠ sep := h c (by simp)
    simp only [scan, if_neg hc]
    rw [scan_nosep rest (off + 1) start (c :: cur) acc (fun x hx => h x (by simp [hx]))]
    simp

theorem split_nosep (s : Bytes) (hne : s ≠ []) (h : ∀ x ∈ s, x ≠ sep) : split s = [{ kind := .file, pos := 0, text := s }] := by
  cases s with
  | nil => exact absurd rfl hne
  | cons c0 r0 =>
    have hc : c0 ≠ sep := h c0 (by simp)
    unfold split
    simp only [if_neg hc]
    rw [scan_nosep _ 0 0 [] [] h]
    simp only [List.reverse_nil, List.nil_append, List.isEmpty_cons, Bool.false_eq_true, if_false, List.reverse_cons]
    unfold withTrailingDot
    have hl : ∃ l, (c0 :: r0).getLast? = some l ∧ l ≠ sep := by
      refine ⟨(c0 :: r0).getLast (by simp), List.getLast?_eq_some_getLast (by simp), ?_⟩
      exact h _ (List.getLast_mem _)
    obtain ⟨l, hl1, hl2⟩ := hl
    rw [hl1]
    simp [hl2]

theorem findIdx?_first {α : Type} (p : α → Bool) : ∀ (l1 : List α) (x : α) (l2 : List α), (∀ y ∈ l1, p y = false) → p x = true →
    (l1 ++ x :: l2).findIdx? p = some l1.length
  | [], x, l2, _, hx => by simp [List.findIdx?_cons, hx]
  | y :: l1, x, l2, h, hx => by
    have hy := h y (by simp)
    have ih := findIdx?_first p l1 x l2 (fun z hz => h z (by simp [hz])) hx
    simp [List.findIdx?_cons, hy, ih]

theorem findIdx?_none {α : Type} (p : α → Bool) (l : List α) (h : ∀ y ∈ l, p y = false) : l.findIdx? p = none := by
  simp only [List.findIdx?_eq_none_iff]; exact h

/-- file name and stripped name of a bare path -/
theorem bare_names (stem : Bytes) (sfx : Suffix) (hs : StemOk stem) (hx : sfx.Ok) :
    getFilename (stem ++ sfx.bytes) = stem ++ sfx.bytes ∧ nameOf (stem ++ sfx.bytes) = stem := by
  have hnd := hs.ne_dot
  have hall : ∀ x ∈ stem ++ sfx.bytes, x ≠ sep := by
    intro x hx'
    rcases List.mem_append.mp hx' with h | h
    · exact (hs.2 x h).2.2
    · cases sfx with
      | none => simp [Suffix.bytes] at h
      | withExt ext =>
        simp only [Suffix.bytes, List.mem_cons] at h
        rcases h with rfl | h
        · simp [dot, sep]
        · exact (hx x h).2
  have hne : stem ++ sfx.bytes ≠ [] := by
    intro e; exact hs.1 (List.append_eq_nil_iff.mp e).1
  have hsplit := split_nosep _ hne hall
  have hfn : getFilename (stem ++ sfx.bytes) = stem ++ sfx.bytes := by
    simp [getFilename, filename, hsplit]
  refine ⟨hfn, ?_⟩
  unfold nameOf changeFileExtension
  rw [hfn]
  unfold replaceExtension extCmpt
  rw [hsplit]
  simp only
  obtain ⟨c0, r0, hstem⟩ : ∃ c0 r0, stem = c0 :: r0 := by
    cases stem with
    | nil => exact absurd rfl hs.1
    | cons a b => exact ⟨a, b, rfl⟩
  have hc0 : c0 ≠ dot := hnd c0 (by rw [hstem]; simp)
  have hpos : extPos (stem ++ sfx.bytes) = match sfx with | .none => none | .withExt _ => some stem.length := by
    unfold extPos
    rw [if_neg (by simp [hstem])]
    rw [if_neg (by rw [hstem]; simp [hc0])]
    cases sfx with
    | none =>
      simp only [Suffix.bytes, List.append_nil]
      rw [findIdx?_none]
      intro y hy
      simp only [decide_eq_false_iff_not]
      exact hnd y (List.mem_reverse.mp hy)
    | withExt ext =>
      simp only [Suffix.bytes, List.reverse_append, List.reverse_cons, List.append_assoc, List.cons_append, List.nil_append]
      rw [findIdx?_first _ ext.reverse dot stem.reverse (by
        intro y hy; simp only [decide_eq_false_iff_not]; exact (hx y (List.mem_reverse.mp hy)).1) (by simp)]
      simp only [List.length_reverse, List.length_append, List.length_cons]
      congr 1; omega
  rw [hpos]
  cases sfx with
  | none => simp [Suffix.bytes]
  | withExt ext => simp [Suffix.bytes]

/-- appending `.ext` (or nothing) to two stems whose characters fold above '.' does not change how they compare -/
theorem ltCI_stems : ∀ (a b : Bytes) (sa sb : Suffix), (∀ x ∈ a, 46 < x.toNat ∧ x.toNat < 255) → (∀ x ∈ b, 46 < x.toNat ∧ x.toNat < 255) →
    Str.ltCI a b = true → Str.ltCI (a ++ sa.bytes) (b ++ sb.bytes) = true
  | [], [], _, _, _, _, h => by simp [Str.ltCI, Str.ltF] at h
  | _ :: _, [], _, _, _, _, h => by simp [Str.ltCI, Str.ltF] at h
  | [], y :: ys, sa, sb, _, hb, _ => by
    have hy := hb y (by simp)
    have hl : (46 : Int) < Str.lowerI y := by
      unfold Str.lowerI
      split
      · omega
      · split <;> omega
    cases sa with
    | none => simp [Suffix.bytes, Str.ltCI, Str.ltF]
    | withExt ext =>
      simp only [Suffix.bytes, List.nil_append, List.cons_append, Str.ltCI, Str.ltF]
      have : Str.lowerI dot = 46 := by decide
      rw [this, if_pos hl]
  | x :: xs, y :: ys, sa, sb, ha, hb, h => by
    simp only [Str.ltCI, Str.ltF, List.cons_append] at h ⊢
    split
    · rfl
    · rename_i h1
      rw [if_neg h1] at h
      split
      · rename_i h2; rw [if_pos h2] at h; exact h
      · rename_i h2
        rw [if_neg h2] at h
        exact ltCI_stems xs ys sa sb (fun z hz => ha z (by simp [hz])) (fun z hz => hb z (by simp [hz])) h

end Op2.Clm
