import Op2Model.Clm
/-!
# The CLM reader: what `open` returns is what the file records
-/
namespace Op2.Clm
open Op2

theorem parseEntries_length : ∀ (n : Nat) (b : Bytes), (parseEntries n b).length = n
  | 0, _ => rfl
  | n + 1, b => by simp [parseEntries, parseEntries_length n]

theorem parseEntries_get : ∀ (n : Nat) (b : Bytes) (i : Nat), i < n →
    (parseEntries n b)[i]? =
      some ⟨(b.drop (16 * i)).take 8, decU32 (b.drop (16 * i + 8)), decU32 (b.drop (16 * i + 12))⟩
  | 0, _, _, h => by omega
  | n + 1, b, 0, _ => by simp [parseEntries]
  | n + 1, b, i + 1, h => by
    have ih := parseEntries_get n (b.drop 16) i (by omega)
    simp only [parseEntries, List.getElem?_cons_succ]
    rw [ih]
    simp only [List.drop_drop]
    have e1 : 16 + 16 * i = 16 * (i + 1) := by omega
    have e2 : 16 + (16 * i + 8) = 16 * (i + 1) + 8 := by omega
    have e3 : 16 + (16 * i + 12) = 16 * (i + 1) + 12 := by omega
    rw [e1, e2, e3]

/-- what a successful `open` means -/
theorem open_ok {b : Bytes} {v : View} (h : Clm.open b = .ok v) :
    headerSize ≤ b.length ∧ b.take 32 = version ∧ (b.drop 50).take 6 = unknown ∧
    decU32 (b.drop 56) * entrySize ≤ allocCap ∧
    headerSize + decU32 (b.drop 56) * entrySize ≤ b.length ∧
    v = ⟨(b.drop 32).take 18, parseEntries (decU32 (b.drop 56)) (b.drop headerSize)⟩ := by
  unfold Clm.open at h
  split at h; · cases h
  split at h; · cases h
  split at h; · cases h
  simp only at h
  split at h; · cases h
  split at h; · cases h
  rename_i h1 h2 h3 h4 h5
  injection h with h
  refine ⟨by omega, ?_, ?_, by omega, by omega, h.symm⟩
  · exact Classical.byContradiction h2
  · exact Classical.byContradiction h3

end Op2.Clm
