import Op2Model.Clm
/-!
# The chunk walk of `ClmFile::FindChunk`: termination with the 64-bit cursor, fuel independence
-/
namespace Op2.Wave
open Op2

theorem decU32_lt (b : Bytes) : decU32 b < W32 := by
  unfold decU32 W32
  split
  · rename_i a b c d _
    have := a.toNat_lt; have := b.toNat_lt; have := c.toNat_lt; have := d.toNat_lt
    omega
  · omega

/-- one round of the walk, as an equation (no fuel bookkeeping) -/
theorem walk_succ (W : Nat) (c : Content) (tag : Bytes) (fuel pos : Nat) :
    walk W c tag (fuel + 1) pos =
      if pos + chunkHeaderSize ≤ c.len then
        if (c.read pos chunkHeaderSize).take 4 = tag then
          .at (decU32 ((c.read pos chunkHeaderSize).drop 4)) (pos + chunkHeaderSize)
        else if (pos + (decU32 ((c.read pos chunkHeaderSize).drop 4) + chunkHeaderSize)) % W < c.len then
          walk W c tag fuel ((pos + (decU32 ((c.read pos chunkHeaderSize).drop 4) + chunkHeaderSize)) % W)
        else .none
      else .none := by
  rfl

/-- with a cursor that cannot wrap (`len + 2^32 + 8 ≤ W`), `(len - pos) / 8 + 1` rounds always suffice -/
theorem walk_terminates (W : Nat) (c : Content) (tag : Bytes) (hW : c.len + W32 + 8 ≤ W) :
    ∀ fuel pos, (c.len - pos) / 8 + 1 ≤ fuel → walk W c tag fuel pos ≠ .fuelOut := by
  intro fuel
  induction fuel with
  | zero => intro pos h; omega
  | succ fuel ih =>
    intro pos h
    rw [walk_succ]
    split
    · rename_i hin
      split
      · simp
      · have hl := decU32_lt ((c.read pos chunkHeaderSize).drop 4)
        generalize decU32 ((c.read pos chunkHeaderSize).drop 4) = L at hl ⊢
        have hmod : (pos + (L + chunkHeaderSize)) % W = pos + (L + chunkHeaderSize) := by
          apply Nat.mod_eq_of_lt
          unfold chunkHeaderSize at hin ⊢
          omega
        rw [hmod]
        split
        · rename_i hlt
          apply ih
          unfold chunkHeaderSize at hin hlt ⊢
          omega
        · simp
    · simp

/-- more fuel never changes an answer that was reached -/
theorem walk_fuel_mono (W : Nat) (c : Content) (tag : Bytes) :
    ∀ fuel pos k, walk W c tag fuel pos ≠ .fuelOut → walk W c tag (fuel + k) pos = walk W c tag fuel pos := by
  intro fuel
  induction fuel with
  | zero => intro pos k h; exact absurd rfl h
  | succ fuel ih =>
    intro pos k h
    have e : fuel + 1 + k = (fuel + k) + 1 := by omega
    rw [e, walk_succ, walk_succ]
    rw [walk_succ] at h
    split
    · split
      · rfl
      · split
        · rename_i h1 h2 h3
          rw [if_pos h1, if_neg h2, if_pos h3] at h
          exact ih _ k h
        · rfl
    · rfl

theorem find_terminates (c : Content) (tag : Bytes) (hlen : c.len < 2 ^ 63) : find c tag ≠ .fuelOut := by
  unfold find
  split
  · simp
  · apply walk_terminates
    · unfold cursorW W64 W32; omega
    · unfold fuelFor riffHeaderSize; omega

theorem intake_ne_hang (c : Content) (hlen : c.len < 2 ^ 63) : intake c ≠ .hang := by
  have h1 := find_terminates c tagFmt hlen
  have h2 := find_terminates c tagData hlen
  unfold intake
  split
  · unfold intakeBody
    cases hf : find c tagFmt with
    | fuelOut => exact absurd hf h1
    | none => simp
    | «at» l p =>
      simp only
      cases hr : readFormat c p with
      | none => simp
      | some fmt =>
        simp only
        cases hd : find c tagData with
        | fuelOut => exact absurd hd h2
        | none => simp
        | «at» dl dp => simp
  · simp

theorem intakeAll_ne_hang : ∀ cs : List Content, (∀ c ∈ cs, c.len < 2 ^ 63) → intakeAll cs ≠ .hang
  | [], _ => by simp [intakeAll]
  | c :: cs, h => by
    have h1 := intake_ne_hang c (h c (by simp))
    have h2 := intakeAll_ne_hang cs (fun x hx => h x (by simp [hx]))
    unfold intakeAll
    split
    · rename_i e; exact absurd e h1
    · simp
    · split
      · rename_i e; exact absurd e h2
      · simp
      · simp

end Op2.Wave
