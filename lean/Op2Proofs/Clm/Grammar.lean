import Op2Proofs.Clm.Create
/-!
# Intake of a grammar-built RIFF/WAVE file: the walk skips the other chunks and finds `fmt ` / `data`
-/
namespace Op2.Wave
open Op2
open Op2.Parser (decU32_encU32 encU32_length)

theorem Chunk.enc_length (k : Chunk) (h : k.tag.length = 4) : k.enc.length = 8 + k.body.length := by
  simp [Chunk.enc, encU32_length, h]; omega

theorem encChunks_cons (k : Chunk) (ks : List Chunk) : encChunks (k :: ks) = k.enc ++ encChunks ks := by
  simp [encChunks]

theorem encChunks_append (a b : List Chunk) : encChunks (a ++ b) = encChunks a ++ encChunks b := by
  simp [encChunks]

theorem encChunks_length_ge : ∀ ks : List Chunk, (∀ k ∈ ks, k.tag.length = 4) → 8 * ks.length ≤ (encChunks ks).length
  | [], _ => by simp [encChunks]
  | k :: ks, h => by
    have := encChunks_length_ge ks (fun x hx => h x (by simp [hx]))
    rw [encChunks_cons, List.length_append, Chunk.enc_length k (h k (by simp))]
    simp only [List.length_cons]; omega

/-- reading at the end of a known prefix -/
theorem read_at (c : Content) (pre X rest : Bytes) (n : Nat) (h : c.toBytes = pre ++ (X ++ rest)) (hn : X.length = n) :
    c.read pre.length n = X := by
  rw [Content.read_eq, h, drop_app_len rfl, take_app_len hn]

/-- the walk passes every chunk of `ks` (none carries the wanted tag) and stops at `target` -/
theorem walk_skips (W : Nat) (c : Content) (tag : Bytes) (target : Chunk) (rest : Bytes)
    (ht : target.tag = tag) (ht4 : tag.length = 4) (htl : target.body.length < W32) (hW : c.len + W32 + 8 ≤ W)
    (hsmall : c.len < W32) :
    ∀ (ks : List Chunk) (pre : Bytes) (fuel : Nat),
      c.toBytes = pre ++ (encChunks ks ++ (target.enc ++ rest)) →
      (∀ k ∈ ks, k.tag.length = 4 ∧ k.tag ≠ tag) → ks.length < fuel →
      walk W c tag fuel pre.length = .at target.body.length (pre.length + (encChunks ks).length + 8)
  | [], pre, fuel, hc, _, hf => by
    obtain ⟨fuel, rfl⟩ : ∃ f, fuel = f + 1 := ⟨fuel - 1, by simp at hf; omega⟩
    rw [walk_succ]
    have hlen : c.len = pre.length + (target.enc.length + rest.length) := by
      rw [← Content.toBytes_length, hc]; simp [encChunks]
    have hte := Chunk.enc_length target (by rw [ht]; exact ht4)
    have hrd : c.read pre.length chunkHeaderSize = target.tag ++ encU32 target.body.length := by
      apply read_at c pre _ (target.body ++ rest)
      · rw [hc]; simp [encChunks, Chunk.enc]
      · simp [encU32_length, ht, ht4, chunkHeaderSize]
    rw [if_pos (by unfold chunkHeaderSize; omega), hrd]
    have t4 : (target.tag ++ encU32 target.body.length).take 4 = tag := by
      rw [take_app_len (by rw [ht]; exact ht4), ht]
    have d4 : (target.tag ++ encU32 target.body.length).drop 4 = encU32 target.body.length :=
      drop_app_len (by rw [ht]; exact ht4)
    rw [if_pos t4, d4]
    have := decU32_encU32 target.body.length htl []
    rw [List.append_nil] at this
    rw [this]
    simp [encChunks, chunkHeaderSize]
  | k :: ks, pre, fuel, hc, hk, hf => by
    obtain ⟨fuel, rfl⟩ : ∃ f, fuel = f + 1 := ⟨fuel - 1, by simp at hf; omega⟩
    have hk4 := (hk k (by simp)).1
    have hkt := (hk k (by simp)).2
    have hke := Chunk.enc_length k hk4
    have hte := Chunk.enc_length target (by rw [ht]; exact ht4)
    have hlen : c.len = pre.length + ((k.enc.length + (encChunks ks).length) + (target.enc.length + rest.length)) := by
      rw [← Content.toBytes_length, hc]; simp [encChunks_cons]; omega
    have hkl : k.body.length < W32 := by omega
    rw [walk_succ]
    have hrd : c.read pre.length chunkHeaderSize = k.tag ++ encU32 k.body.length := by
      apply read_at c pre _ (k.body ++ (encChunks ks ++ (target.enc ++ rest)))
      · rw [hc, encChunks_cons]; simp [Chunk.enc]
      · simp [encU32_length, hk4, chunkHeaderSize]
    rw [if_pos (by unfold chunkHeaderSize; omega), hrd]
    have t4 : ¬ (k.tag ++ encU32 k.body.length).take 4 = tag := by
      rw [take_app_len hk4]; exact hkt
    have d4 : (k.tag ++ encU32 k.body.length).drop 4 = encU32 k.body.length := drop_app_len hk4
    rw [if_neg t4, d4]
    have := decU32_encU32 k.body.length hkl []
    rw [List.append_nil] at this
    rw [this]
    have hmod : (pre.length + (k.body.length + chunkHeaderSize)) % W = pre.length + (k.body.length + chunkHeaderSize) := by
      apply Nat.mod_eq_of_lt; unfold chunkHeaderSize; omega
    rw [hmod, if_pos (by unfold chunkHeaderSize; omega)]
    have hpre : (pre ++ k.enc).length = pre.length + (k.body.length + chunkHeaderSize) := by
      rw [List.length_append, hke]; unfold chunkHeaderSize; omega
    rw [← hpre]
    rw [walk_skips W c tag target rest ht ht4 htl hW hsmall ks (pre ++ k.enc) fuel
      (by rw [hc, encChunks_cons]; simp) (fun x hx => hk x (by simp [hx])) (by simp at hf; omega)]
    rw [encChunks_cons]
    simp only [List.length_append]
    congr 1; omega

/-- where the audio data of a described file starts -/
def Desc.dataPos (d : Desc) : Nat :=
  12 + (encChunks d.pre).length + d.fmtChunk.enc.length + (encChunks d.mid).length + 8

def riff12 (d : Desc) : Bytes := tagRIFF ++ encU32 (4 + d.body.length) ++ tagWAVE

theorem riff12_length (d : Desc) : (riff12 d).length = 12 := by simp [riff12, tagRIFF, tagWAVE, encU32_length]

theorem Desc.enc_eq (d : Desc) : d.enc = riff12 d ++ d.body := rfl

/-- **intake of a described file**: the common format bytes with `cbSize` cleared, the position of the audio data and
    its true length; and that extent of the file is exactly the audio data -/
theorem intake_desc (c : Content) (d : Desc) (hc : c.toBytes = d.enc) (hv : d.Valid) :
    intake c = .ok ⟨d.fmt16 ++ [0, 0], d.dataPos, d.data.length⟩ ∧
    d.dataPos + d.data.length ≤ c.len ∧ (c.toBytes.drop d.dataPos).take d.data.length = d.data := by
  obtain ⟨h16, hpre, hmid, hsmall⟩ := hv
  have hpre4 : ∀ k ∈ d.pre, k.tag.length = 4 := fun k hk => (hpre k hk).1
  have hmid4 : ∀ k ∈ d.mid, k.tag.length = 4 := fun k hk => (hmid k hk).1
  have hfe : d.fmtChunk.enc.length = 8 + (16 + d.fmtExtra.length) := by
    rw [Chunk.enc_length _ (show tagFmt.length = 4 by decide)]; simp [Desc.fmtChunk, h16]
  have hde : d.dataChunk.enc.length = 8 + d.data.length := by
    rw [Chunk.enc_length _ (show tagData.length = 4 by decide)]; rfl
  have hbody : d.body.length = (encChunks d.pre).length + (d.fmtChunk.enc.length + ((encChunks d.mid).length + (d.dataChunk.enc.length + d.tail.length))) := by
    simp [Desc.body]
  have hlen : c.len = 12 + d.body.length := by
    rw [← Content.toBytes_length, hc, Desc.enc_eq, List.length_append, riff12_length]
  have hsmall' : c.len < W32 := by rw [← Content.toBytes_length, hc]; exact hsmall
  have hW : c.len + W32 + 8 ≤ cursorW := by unfold cursorW W64; unfold W32 at hsmall' ⊢; omega
  -- RIFF header
  have hr12 : c.read 0 riffHeaderSize = riff12 d := by
    have := read_at c [] (riff12 d) d.body 12 (by simpa [Desc.enc_eq] using hc) (riff12_length d)
    simpa [riffHeaderSize] using this
  have hok : headerOk c = true := by
    unfold headerOk
    rw [hr12]
    have t4 : (riff12 d).take 4 = tagRIFF := by
      have : riff12 d = tagRIFF ++ (encU32 (4 + d.body.length) ++ tagWAVE) := by simp [riff12]
      rw [this]; exact take_app_len (by decide)
    have d8 : (riff12 d).drop 8 = tagWAVE := by
      unfold riff12; exact drop_app_len (by simp [tagRIFF, encU32_length])
    have d4 : (riff12 d).drop 4 = encU32 (4 + d.body.length) ++ tagWAVE := by
      have : riff12 d = tagRIFF ++ (encU32 (4 + d.body.length) ++ tagWAVE) := by simp [riff12]
      rw [this]; exact drop_app_len (by decide)
    rw [t4, d8, d4, decU32_encU32 _ (by unfold W32 at hsmall'; omega)]
    have : u32 (4 + d.body.length + 8) = c.len := by unfold u32; unfold W32 at hsmall' ⊢; omega
    simp [this, riffHeaderSize, hlen]
  -- 'fmt '
  have hfmt : find c tagFmt = .at (d.fmt16 ++ d.fmtExtra).length (12 + (encChunks d.pre).length + 8) := by
    unfold find
    rw [if_neg (by unfold riffHeaderSize chunkHeaderSize; omega)]
    have := walk_skips cursorW c tagFmt d.fmtChunk (encChunks d.mid ++ (d.dataChunk.enc ++ d.tail)) rfl (by decide)
      (by show (d.fmt16 ++ d.fmtExtra).length < W32; rw [List.length_append, h16]; omega) hW hsmall' d.pre (riff12 d) (fuelFor c)
      (by rw [hc]; rfl) (fun k hk => ⟨(hpre k hk).1, (hpre k hk).2.1⟩)
      (by have := encChunks_length_ge d.pre hpre4; unfold fuelFor; omega)
    rw [riff12_length] at this
    exact this
  have hrf : readFormat c (12 + (encChunks d.pre).length + 8) = some (d.fmt16 ++ [0, 0]) := by
    unfold readFormat
    rw [if_pos (by unfold formatSize; omega)]
    have hsplit : c.toBytes = (riff12 d ++ encChunks d.pre ++ (tagFmt ++ encU32 (d.fmt16 ++ d.fmtExtra).length)) ++
        (d.fmt16 ++ (d.fmtExtra ++ (encChunks d.mid ++ (d.dataChunk.enc ++ d.tail)))) := by
      rw [hc, Desc.enc_eq, Desc.body]; simp [Chunk.enc, Desc.fmtChunk]
    have hpl : (riff12 d ++ encChunks d.pre ++ (tagFmt ++ encU32 (d.fmt16 ++ d.fmtExtra).length)).length
        = 12 + (encChunks d.pre).length + 8 := by
      simp [riff12_length, encU32_length, tagFmt]; omega
    rw [Content.read_eq, List.take_take, hsplit, drop_app_len hpl]
    have : min 16 formatSize = 16 := by decide
    rw [this, take_app_len h16]
  have hdata : find c tagData = .at d.data.length d.dataPos := by
    unfold find
    rw [if_neg (by unfold riffHeaderSize chunkHeaderSize; omega)]
    have hks : ∀ k ∈ d.pre ++ [d.fmtChunk] ++ d.mid, k.tag.length = 4 ∧ k.tag ≠ tagData := by
      intro k hk
      simp only [List.mem_append, List.mem_singleton] at hk
      rcases hk with (hk | hk) | hk
      · exact ⟨(hpre k hk).1, (hpre k hk).2.2⟩
      · subst hk; exact ⟨rfl, by show tagFmt ≠ tagData; decide⟩
      · exact hmid k hk
    have henc : encChunks (d.pre ++ [d.fmtChunk] ++ d.mid) = encChunks d.pre ++ (d.fmtChunk.enc ++ encChunks d.mid) := by
      simp [encChunks]
    have := walk_skips cursorW c tagData d.dataChunk d.tail rfl (by decide)
      (by show d.data.length < W32; omega) hW hsmall' (d.pre ++ [d.fmtChunk] ++ d.mid) (riff12 d) (fuelFor c)
      (by rw [hc, henc]; simp [Desc.enc_eq, Desc.body]) hks
      (by
        have := encChunks_length_ge _ (fun k hk => (hks k hk).1)
        rw [henc] at this
        simp only [List.length_append, List.length_cons, List.length_nil] at this ⊢
        unfold fuelFor; omega)
    rw [riff12_length, henc] at this
    show walk cursorW c tagData (fuelFor c) 12 = _
    rw [this]
    simp only [Desc.dataPos, List.length_append, Desc.dataChunk]
    congr 1; omega
  refine ⟨?_, ?_, ?_⟩
  · unfold intake
    rw [if_pos hok]
    unfold intakeBody
    rw [hfmt]
    simp only
    rw [hrf]
    simp only
    rw [hdata]
  · unfold Desc.dataPos; omega
  · have hsplit : c.toBytes = (riff12 d ++ encChunks d.pre ++ d.fmtChunk.enc ++ encChunks d.mid ++ (tagData ++ encU32 d.data.length)) ++
        (d.data ++ d.tail) := by
      rw [hc, Desc.enc_eq, Desc.body]; simp [Chunk.enc, Desc.dataChunk]
    have hpl : (riff12 d ++ encChunks d.pre ++ d.fmtChunk.enc ++ encChunks d.mid ++ (tagData ++ encU32 d.data.length)).length = d.dataPos := by
      simp only [List.length_append, riff12_length, encU32_length, Desc.dataPos]
      have : tagData.length = 4 := by decide
      omega
    rw [hsplit, drop_app_len hpl, take_app_len rfl]

end Op2.Wave
