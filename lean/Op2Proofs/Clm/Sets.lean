import Op2Proofs.Clm.Roundtrip
import Op2Proofs.Clm.Grammar
/-!
# Sets of described sources: sorting commutes with encoding, intake of every member, the extracted WAV
-/
namespace Op2.Clm
open Op2 Op2.Wave
open Op2.Parser (decU32_encU32 decU16_encU16 encU32_length)

theorem insertCI_map {α β : Type} (g : α → β) (key : β → Bytes) (x : α) :
    ∀ l : List α, Str.insertCI key (g x) (l.map g) = (Str.insertCI (fun a => key (g a)) x l).map g
  | [] => rfl
  | y :: ys => by
    simp only [Str.insertCI, List.map_cons]
    split
    · rfl
    · rw [List.map_cons, insertCI_map g key x ys]

theorem sortCI_map {α β : Type} (g : α → β) (key : β → Bytes) :
    ∀ l : List α, Str.sortCI key (l.map g) = (Str.sortCI (fun a => key (g a)) l).map g
  | [] => rfl
  | x :: xs => by
    show Str.insertCI key (g x) (Str.sortCI key (xs.map g)) = _
    rw [sortCI_map g key xs, insertCI_map]
    rfl

theorem intakeAll_of_forall {α : Type} (l : List α) (cont : α → Content) (info : α → Info)
    (h : ∀ x ∈ l, intake (cont x) = .ok (info x)) : intakeAll (l.map cont) = .ok (l.map info) := by
  induction l with
  | nil => rfl
  | cons x xs ih =>
    simp only [List.map_cons, intakeAll, h x (by simp)]
    rw [ih (fun y hy => h y (by simp [hy]))]

theorem allSameFmt_of_forall (infos : List Info) (f : Bytes) (h : ∀ i ∈ infos, i.fmt = f) : allSameFmt infos = true := by
  cases infos with
  | nil => rfl
  | cons i rest =>
    simp only [allSameFmt, List.all_eq_true, beq_iff_eq]
    intro j hj
    rw [h j (by simp [hj]), h i (by simp)]

theorem slices_of_forall {α : Type} (l : List α) (cont : α → Content) (info : α → Info)
    (h : ∀ x ∈ l, (info x).dataPos + (info x).dataLen ≤ (cont x).len) :
    ∃ ds, slices ((l.map cont).zip (l.map info)) = some ds := by
  induction l with
  | nil => exact ⟨[], rfl⟩
  | cons x xs ih =>
    obtain ⟨ds, hds⟩ := ih (fun y hy => h y (by simp [hy]))
    refine ⟨(cont x).slice (info x).dataPos (info x).dataLen :: ds, ?_⟩
    simp only [List.map_cons, List.zip_cons_cons, slices, if_pos (h x (by simp)), hds, Option.map_some]

/-- `WaveHeader::Create` followed by the payload is a self-consistent WAV -/
theorem wavHeader_selfConsistent (fmt payload : Bytes) (hf : 16 ≤ fmt.length) (hl : payload.length + 38 < W32) :
    Spec.SelfConsistentWav (wavHeader fmt payload.length ++ payload) (fmt.take 16) payload := by
  have h16 : (fmt.take 16).length = 16 := by simp; omega
  have hlen : (wavHeader fmt payload.length ++ payload).length = 46 + payload.length := by
    simp only [wavHeader, tagRIFF, tagWAVE, tagFmt, tagData, List.length_append, encU32_length, h16, List.length_cons, List.length_nil]
  unfold W32 at hl
  refine ⟨?_, ?_, ?_, ?_, ?_, ?_, ?_, ?_, ?_, ?_⟩
  · simp [wavHeader, tagRIFF]
  · rw [hlen]
    have : (wavHeader fmt payload.length ++ payload).drop 4 = encU32 (4 + 26 + 8 + payload.length) ++
        (tagWAVE ++ tagFmt ++ encU32 18 ++ (fmt.take 16 ++ [0, 0]) ++ tagData ++ encU32 payload.length ++ payload) := by
      simp [wavHeader, tagRIFF]
    rw [this, decU32_encU32 _ (by omega)]; omega
  · simp [wavHeader, tagRIFF, tagWAVE, encU32]
  · simp [wavHeader, tagRIFF, tagWAVE, tagFmt, encU32]
  · have : (wavHeader fmt payload.length ++ payload).drop 16 = encU32 18 ++
        ((fmt.take 16 ++ [0, 0]) ++ tagData ++ encU32 payload.length ++ payload) := by
      simp [wavHeader, tagRIFF, tagWAVE, tagFmt, encU32]
    rw [this, decU32_encU32 _ (by omega)]
  · simp only [wavHeader, tagRIFF, tagWAVE, tagFmt, tagData, encU32, List.cons_append, List.nil_append, List.append_assoc,
      List.drop_succ_cons, List.drop_zero]
    exact take_app_len h16
  · have : (wavHeader fmt payload.length ++ payload).drop 36 = encU16 0 ++ (tagData ++ encU32 payload.length ++ payload) := by
      have e : wavHeader fmt payload.length ++ payload = (tagRIFF ++ encU32 (4 + 26 + 8 + payload.length) ++ tagWAVE ++ tagFmt ++ encU32 18 ++ fmt.take 16)
          ++ (encU16 0 ++ (tagData ++ encU32 payload.length ++ payload)) := by
        simp [wavHeader, encU16]
      rw [e]
      exact drop_app_len (by simp [tagRIFF, tagWAVE, tagFmt, encU32_length, h16])
    rw [this, decU16_encU16 _ (by omega)]
  · have e : wavHeader fmt payload.length ++ payload = (tagRIFF ++ encU32 (4 + 26 + 8 + payload.length) ++ tagWAVE ++ tagFmt ++ encU32 18 ++ (fmt.take 16 ++ [0, 0]))
        ++ (tagData ++ (encU32 payload.length ++ payload)) := by
      simp [wavHeader]
    rw [e, drop_app_len (by simp [tagRIFF, tagWAVE, tagFmt, encU32_length, h16])]
    exact take_app_len (by decide)
  · have e : wavHeader fmt payload.length ++ payload = (tagRIFF ++ encU32 (4 + 26 + 8 + payload.length) ++ tagWAVE ++ tagFmt ++ encU32 18 ++ (fmt.take 16 ++ [0, 0]) ++ tagData)
        ++ (encU32 payload.length ++ payload) := by
      simp [wavHeader]
    rw [e, drop_app_len (by simp [tagRIFF, tagWAVE, tagFmt, tagData, encU32_length, h16])]
    exact decU32_encU32 _ (by omega) _
  · have e : wavHeader fmt payload.length ++ payload = (wavHeader fmt payload.length) ++ payload := rfl
    rw [e]
    exact drop_app_len (by
      simp only [wavHeader, tagRIFF, tagWAVE, tagFmt, tagData, List.length_append, encU32_length, h16, List.length_cons, List.length_nil])

end Op2.Clm
