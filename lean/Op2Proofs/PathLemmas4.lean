import Op2Proofs.PathLemmas3
/-!
# Op2Proofs.PathLemmas4 — extension laws: `replaceExtension` then `extension`

For a separator-free stem `base` and an extension body `s` (non-empty, no `.`, no `/`) the
extension of `base ++ "." ++ s` is `"." ++ s`; `replaceExtension f e` has exactly that shape with
`base` a prefix of `f`.
-/
namespace Op2.Path
open Op2

/-- the body of an extension argument: the text after one optional leading dot -/
def extBody : Bytes → Bytes
  | [] => []
  | c :: r => if c = dot then r else c :: r

/-- an extension in the library's own sense: `s` or `"." ++ s` with `s` non-empty, free of `.` and `/` -/
def IsExt (e : Bytes) : Prop := extBody e ≠ [] ∧ dot ∉ extBody e ∧ sep ∉ extBody e
instance (e : Bytes) : Decidable (IsExt e) := by unfold IsExt; infer_instance

theorem isExt_cases (e : Bytes) (h : IsExt e) :
    ∃ s, s ≠ [] ∧ dot ∉ s ∧ sep ∉ s ∧ (e = s ∨ e = dot :: s) := by
  cases e with
  | nil => exact absurd rfl h.1
  | cons c r =>
    by_cases hc : c = dot
    · subst hc
      have hb : extBody (dot :: r) = r := by simp [extBody]
      unfold IsExt at h; rw [hb] at h
      exact ⟨r, h.1, h.2.1, h.2.2, Or.inr rfl⟩
    · have hb : extBody (c :: r) = c :: r := by simp [extBody, hc]
      unfold IsExt at h; rw [hb] at h
      exact ⟨c :: r, h.1, h.2.1, h.2.2, Or.inl rfl⟩

theorem isExt_iff (e : Bytes) :
    IsExt e ↔ ∃ s, s ≠ [] ∧ dot ∉ s ∧ sep ∉ s ∧ (e = s ∨ e = dot :: s) := by
  constructor
  · exact isExt_cases e
  · rintro ⟨s, h1, h2, h3, rfl | rfl⟩
    · cases e with
      | nil => exact absurd rfl h1
      | cons c r =>
        have hc : c ≠ dot := by intro e; apply h2; simp [e]
        have hb : extBody (c :: r) = c :: r := by simp [extBody, hc]
        unfold IsExt; rw [hb]; exact ⟨h1, h2, h3⟩
    · have hb : extBody (dot :: s) = s := by simp [extBody]
      unfold IsExt; rw [hb]; exact ⟨h1, h2, h3⟩

/-! ## a separator-free string is a single `file` component at offset 0 -/

theorem scan_nosep (n : Bytes) : ∀ (off start : Nat) (cur : Bytes) (acc : List Cmpt), sep ∉ n →
    ¬ (cur = [] ∧ n = []) →
    scan n off start cur acc = (({ kind := Kind.file, pos := start, text := cur.reverse ++ n } : Cmpt) :: acc).reverse := by
  induction n with
  | nil =>
    intro off start cur acc _ hne
    have hc : cur ≠ [] := fun e => hne ⟨e, rfl⟩
    simp only [scan, isEmpty_eq_false hc, Bool.false_eq_true, if_false, List.append_nil]
  | cons c r ih =>
    intro off start cur acc h _
    simp only [List.mem_cons, not_or] at h
    have hc : c ≠ sep := fun e => h.1 e.symm
    simp only [scan, if_neg hc]
    rw [ih _ _ _ _ h.2 (by simp)]
    simp

theorem split_plain (n : Bytes) (h : Plain n) :
    split n = [({ kind := Kind.file, pos := 0, text := n } : Cmpt)] := by
  rw [split_rel n (plain_rel h), scan_nosep n 0 0 [] [] h.2 (by simp [h.1])]
  unfold withTrailingDot
  have hl : n.getLast? ≠ some sep := plain_getLast h
  cases hn : n.getLast? with
  | none => simp
  | some l =>
    have : l ≠ sep := by intro e; apply hl; rw [hn, e]
    simp [this]

theorem extCmpt_plain (n : Bytes) (h : Plain n) : extCmpt n = some (0, n) := by
  unfold extCmpt
  rw [split_plain n h]

/-! ## position of the last dot -/

theorem findIdx_first (p : UInt8 → Bool) (a : Bytes) (x : UInt8) (b : Bytes)
    (ha : ∀ y ∈ a, p y = false) (hx : p x = true) : (a ++ x :: b).findIdx? p = some a.length := by
  induction a with
  | nil => simp [List.findIdx?_cons, hx]
  | cons c r ih =>
    have hc : p c = false := ha c (by simp)
    simp only [List.cons_append, List.findIdx?_cons, hc, Bool.false_eq_true, if_false]
    rw [ih (fun y hy => ha y (by simp [hy]))]
    simp

theorem extPos_stem_dot_body (base s : Bytes) (hs : s ≠ []) (hd : dot ∉ s) :
    extPos (base ++ dot :: s) = some base.length := by
  unfold extPos
  have hne : (base ++ dot :: s).isEmpty = false := by cases base <;> rfl
  rw [hne]
  simp only [Bool.false_eq_true, if_false]
  have hfind : (base ++ dot :: s).reverse.findIdx? (· = dot) = some s.length := by
    have e : (base ++ dot :: s).reverse = s.reverse ++ dot :: base.reverse := by simp
    rw [e, findIdx_first _ s.reverse dot base.reverse]
    · simp
    · intro y hy
      have : y ∈ s := by simpa using hy
      simp only [decide_eq_false_iff_not]
      intro e; rw [e] at this; exact hd this
    · simp
  have hlen : (base ++ dot :: s).length = base.length + 1 + s.length := by simp; omega
  have hspos : 0 < s.length := List.length_pos_iff.mpr hs
  split
  · rename_i hcond
    -- only possible for base = [] and s a single byte
    have hb : base = [] := by
      apply List.eq_nil_of_length_eq_zero
      omega
    subst hb
    obtain ⟨x, rfl⟩ : ∃ x, s = [x] := by
      cases s with
      | nil => exact absurd rfl hs
      | cons x r =>
        cases r with
        | nil => exact ⟨x, rfl⟩
        | cons y r' => simp at hlen hcond <;> omega
    have hx : x ≠ dot := by intro e; apply hd; simp [e]
    simp [hx]
  · rw [hfind]
    simp only [hlen, Option.some.injEq]
    omega

/-- the extension of `stem.body` is `.body` -/
theorem extension_stem_dot_body (base s : Bytes) (hb : sep ∉ base) (hs : s ≠ []) (hd : dot ∉ s)
    (hsep : sep ∉ s) : extension (base ++ dot :: s) = dot :: s := by
  have hp : Plain (base ++ dot :: s) := by
    refine ⟨by simp, ?_⟩
    simp only [List.mem_append, List.mem_cons, not_or]
    exact ⟨hb, by decide, hsep⟩
  unfold extension
  rw [extCmpt_plain _ hp]
  simp only [extPos_stem_dot_body base s hs hd, List.drop_left]

/-! ## `replaceExtension` -/

theorem replaceExtension_shape (f : Bytes) (hf : sep ∉ f) :
    ∃ base, sep ∉ base ∧ ∀ e, replaceExtension f e =
      if !e.isEmpty ∧ e.head? ≠ some dot then base ++ [dot] ++ e else base ++ e := by
  refine ⟨match extCmpt f with
    | some (p, fn) => (match extPos fn with | some i => f.take (p + i) | none => f)
    | none => f, ?_, fun e => rfl⟩
  split
  · split
    · intro h; exact hf (List.mem_of_mem_take h)
    · exact hf
  · exact hf

theorem replaceExtension_isExt (f e : Bytes) (hf : sep ∉ f) (he : IsExt e) :
    ∃ base, sep ∉ base ∧ replaceExtension f e = base ++ dot :: extBody e := by
  obtain ⟨base, hb, hr⟩ := replaceExtension_shape f hf
  refine ⟨base, hb, ?_⟩
  rw [hr e]
  cases e with
  | nil => exact absurd rfl he.1
  | cons c r =>
    by_cases hc : c = dot
    · subst hc
      simp [extBody]
    · simp [extBody, hc]

theorem extension_replaceExtension (f e : Bytes) (hf : sep ∉ f) (he : IsExt e) :
    extension (replaceExtension f e) = dot :: extBody e := by
  obtain ⟨base, hb, hr⟩ := replaceExtension_isExt f e hf he
  rw [hr]
  exact extension_stem_dot_body base (extBody e) hb he.1 he.2.1 he.2.2

/-! ## `extensionMatches` -/

theorem toUpper_cons (c : UInt8) (r : Bytes) : Str.toUpper (c :: r) = Str.upperB c :: Str.toUpper r := rfl

theorem upperB_dot : Str.upperB dot = dot := by decide

theorem extensionMatches_of (x e e' : Bytes) (he : IsExt e) (hx : extension x = dot :: extBody e)
    (hu : Str.toUpper e' = Str.toUpper e) : extensionMatches x e' = true := by
  unfold extensionMatches
  simp only [hx, hu, beq_iff_eq]
  cases e with
  | nil => exact absurd rfl he.1
  | cons c r =>
    by_cases hc : c = dot
    · subst hc
      simp [extBody, toUpper_cons, upperB_dot]
    · have hcu : Str.upperB c ≠ dot := fun h => hc ((upperB_eq_dot c).mp h)
      simp [extBody, hc, toUpper_cons, upperB_dot, hcu]

theorem chext_matches (f e e' : Bytes) (hf : sep ∉ f) (he : IsExt e)
    (hu : Str.toUpper e' = Str.toUpper e) :
    extensionMatches (changeFileExtension f e) e' = true :=
  extensionMatches_of _ e e' he (extension_replaceExtension f e hf he) hu

end Op2.Path
