import Op2Model.Bmp
import Op2Model.Gen.Validate
import Op2Proofs.GenBridge
/-!
# Helpers for the bridging lemmas between `Op2.Gen.Validate` (the validation functions of the bitmap / tileset code,
regenerated from the C++ on every run) and the hand-written models `Op2Model/Bmp.lean`, `Op2Model/Tileset.lean`.

Every lemma has the form `flags = true → ∀ field values in the range of their C++ types, generated result = what the model
function decides`; it is proved by unfolding *every* generated definition (`gen_validate_simp`, generated with the file, so
the proof does not depend on how the source is cut into functions), normalising numerals and case-splitting — never by
following one spelling of the source.
-/
namespace Op2.GenValidate
open Op2 Op2.GenBridge

/-- what a generated validation function can say about a model outcome: returns / throws -/
def returns (ok : Bool) : Option Unit := if ok then some () else none

@[simp] theorem returns_true : returns true = some () := rfl
@[simp] theorem returns_false : returns false = none := rfl

theorem returns_decide (c : Prop) [Decidable c] : returns (decide c) = if c then some () else none := by
  by_cases h : c <;> simp [returns, h]
theorem isOk_ite {α : Type} (c : Prop) [Decidable c] (a : α) (e : Err) :
    (if c then Op2.Bmp.Out.ok a else Op2.Bmp.Out.err e : Op2.Bmp.Out α).isOk = decide c := by
  by_cases h : c <;> simp [Op2.Bmp.Out.isOk, h]

theorem bind_ite' {α β : Type} (c : Prop) [Decidable c] (a b : Option α) (f : α → Option β) :
    (if c then a else b).bind f = if c then a.bind f else b.bind f := by
  split <;> rfl

/-! masks `2^k - 1` as remainders (a harmless rewrite of `% 32` is `& 31`) -/
theorem and_1 (n : Nat) : n &&& 1 = n % 2 := Nat.and_two_pow_sub_one_eq_mod n 1
theorem and_3 (n : Nat) : n &&& 3 = n % 4 := Nat.and_two_pow_sub_one_eq_mod n 2
theorem and_7 (n : Nat) : n &&& 7 = n % 8 := Nat.and_two_pow_sub_one_eq_mod n 3
theorem and_15 (n : Nat) : n &&& 15 = n % 16 := Nat.and_two_pow_sub_one_eq_mod n 4
theorem and_31 (n : Nat) : n &&& 31 = n % 32 := Nat.and_two_pow_sub_one_eq_mod n 5
theorem and_63 (n : Nat) : n &&& 63 = n % 64 := Nat.and_two_pow_sub_one_eq_mod n 6
theorem and_255 (n : Nat) : n &&& 255 = n % 256 := Nat.and_two_pow_sub_one_eq_mod n 8

/-- numeral normalisation shared by all bridging proofs: casts and literal arithmetic, masks as remainders, comparisons between
    numerals decided and the `if`s they decide removed (everywhere, once, before any case split) -/
macro "genv_norm" : tactic =>
  `(tactic| try simp only [Op2.Gen.Formulas.castS, Op2.Gen.Formulas.castU, Int.reducePow, Int.reduceMod, Int.reduceSub, Int.reduceNeg,
      Int.reduceAdd, Int.reduceMul, Int.reduceDiv, Nat.reducePow, Nat.reduceSub, Nat.reduceAdd, Nat.reduceMul, Int.reduceToNat,
      Int.toNat_natCast, Int.ofNat_eq_natCast, and_1, and_3, and_7, and_15, and_31, and_63, and_255,
      Int.reduceEq, Int.reduceNe, Int.reduceLE, Int.reduceLT, Int.reduceGT, Int.reduceGE,
      Nat.reduceEqDiff, Nat.reduceLeDiff, Nat.reduceLT,
      or_self, or_false, false_or, or_true, true_or, and_false, false_and, and_true, true_and, not_true_eq_false, not_false_eq_true,
      if_true, if_false, ne_eq,
      Option.bind_some, Option.bind_none, bind_none', bind_some', returns_true, returns_false, isOk_ite, returns_decide] at *)

/-- `genv_norm` is wrapped in `try` (nothing to normalise is not an error): make sure it does elaborate and work -/
example (x : Int) (h : (x % 4294967296).toNat &&& Int.toNat 31 = 0 % 4294967296) : (x % 4294967296).toNat % 32 = 0 := by
  genv_norm
  exact h

/-- `genv_bits bits bi h8`: with `h8 : bits ≤ 8` and the goal mentioning `(bits : Int)`, one goal per value `0 … 8`, the natural
    number and its cast both replaced by numerals (so that shifts by the bit count evaluate) -/
macro "genv_bits" bits:ident _h8:ident : tactic =>
  `(tactic| (generalize hbi : (($bits : Nat) : Int) = bi at *
             have hcases : ($bits = 0 ∧ bi = 0) ∨ ($bits = 1 ∧ bi = 1) ∨ ($bits = 2 ∧ bi = 2) ∨ ($bits = 3 ∧ bi = 3) ∨ ($bits = 4 ∧ bi = 4) ∨
                 ($bits = 5 ∧ bi = 5) ∨ ($bits = 6 ∧ bi = 6) ∨ ($bits = 7 ∧ bi = 7) ∨ ($bits = 8 ∧ bi = 8) := by omega
             clear hbi
             rcases hcases with ⟨e1, e2⟩ | ⟨e1, e2⟩ | ⟨e1, e2⟩ | ⟨e1, e2⟩ | ⟨e1, e2⟩ | ⟨e1, e2⟩ | ⟨e1, e2⟩ | ⟨e1, e2⟩ | ⟨e1, e2⟩ <;>
               subst e1 <;> subst e2))

/-- unfold the shifts (only where the shift count is a numeral) and normalise again -/
macro "genv_shifts" : tactic =>
  `(tactic| (try simp only [Op2.Gen.Validate.shl, Op2.Gen.Validate.shr] at *) <;> genv_norm)

/-- case-split every remaining `if`/`match`; then syntactic equality, else linear arithmetic with `%` by literals, else
    congruence closure + linear arithmetic (`grind`: one non-linear product on both sides) -/
macro "genv_close" : tactic =>
  `(tactic| ((repeat' split) <;> (try simp only [Option.some.injEq, reduceCtorEq]) <;>
      first | with_reducible rfl | omega | (and_intros <;> first | with_reducible rfl | omega) | grind))

end Op2.GenValidate
