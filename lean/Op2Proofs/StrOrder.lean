import Op2Model.Str
/-!
# Lemmas: the folded "comes before" relation is a strict weak ordering (C19)
Generic in the folding function `f`; nothing here depends on what `tolower` does.
-/
namespace Op2.Str
variable {α : Type} (f : α → Int)

theorem ltF_irrefl : ∀ xs : List α, ltF f xs xs = false
  | [] => rfl
  | a :: as => by simp [ltF, ltF_irrefl as]

theorem ltF_trans : ∀ xs ys zs : List α, ltF f xs ys = true → ltF f ys zs = true → ltF f xs zs = true
  | [], [], _, h, _ => by simp [ltF] at h
  | [], _ :: _, [], _, h => by simp [ltF] at h
  | [], _ :: _, _ :: _, _, _ => rfl
  | _ :: _, [], _, h, _ => by simp [ltF] at h
  | _ :: _, _ :: _, [], _, h => by simp [ltF] at h
  | a :: as, b :: bs, c :: cs, h1, h2 => by
    simp only [ltF] at h1 h2 ⊢
    by_cases ab : f a < f b
    · by_cases bc : f b < f c
      · have : f a < f c := by omega
        simp [this]
      · by_cases cb : f b > f c
        · simp [bc, cb] at h2
        · have : f a < f c := by omega
          simp [this]
    · by_cases ba : f a > f b
      · simp [ab, ba] at h1
      · simp only [ab, ba, if_false] at h1
        by_cases bc : f b < f c
        · have : f a < f c := by omega
          simp [this]
        · by_cases cb : f b > f c
          · simp [bc, cb] at h2
          · simp only [bc, cb, if_false] at h2
            have e1 : ¬ f a < f c := by omega
            have e2 : ¬ f a > f c := by omega
            simp only [e1, e2, if_false]
            exact ltF_trans as bs cs h1 h2

theorem ltF_asymm (xs ys : List α) (h : ltF f xs ys = true) : ltF f ys xs = false := by
  cases h2 : ltF f ys xs
  · rfl
  · have := ltF_trans f xs ys xs h h2
    rw [ltF_irrefl] at this
    exact absurd this (by simp)

/-- incomparability is exactly folded equality -/
theorem incomp_iff_eqF : ∀ xs ys : List α, (ltF f xs ys = false ∧ ltF f ys xs = false) ↔ eqF f xs ys = true
  | [], [] => by simp [ltF, eqF]
  | [], _ :: _ => by simp [ltF, eqF]
  | _ :: _, [] => by simp [ltF, eqF]
  | a :: as, b :: bs => by
    simp only [ltF, eqF]
    by_cases ab : f a < f b
    · have : ¬ f a = f b := by omega
      simp [ab, this]
    · by_cases ba : f a > f b
      · have h1 : ¬ f a = f b := by omega
        have h2 : f b < f a := ba
        simp [ab, h1, h2]
      · have e : f a = f b := by omega
        have h2 : ¬ f b < f a := by omega
        have h3 : ¬ f b > f a := by omega
        have h4 : ¬ f a > f b := by omega
        rw [if_neg ab, if_neg h4, if_neg h2, if_neg h3]
        have : (f a == f b) = true := by rw [e]; exact beq_self_eq_true _
        rw [this, Bool.true_and]
        exact incomp_iff_eqF as bs

theorem eqF_refl : ∀ xs : List α, eqF f xs xs = true
  | [] => rfl
  | a :: as => by simp [eqF, eqF_refl as]

theorem eqF_symm : ∀ xs ys : List α, eqF f xs ys = true → eqF f ys xs = true
  | [], [], _ => rfl
  | a :: as, b :: bs, h => by
    simp only [eqF, Bool.and_eq_true, beq_iff_eq] at h ⊢
    exact ⟨h.1.symm, eqF_symm as bs h.2⟩
  | [], _ :: _, h => by simp [eqF] at h
  | _ :: _, [], h => by simp [eqF] at h

theorem eqF_trans : ∀ xs ys zs : List α, eqF f xs ys = true → eqF f ys zs = true → eqF f xs zs = true
  | [], [], [], _, _ => rfl
  | a :: as, b :: bs, c :: cs, h1, h2 => by
    simp only [eqF, Bool.and_eq_true, beq_iff_eq] at h1 h2 ⊢
    exact ⟨by omega, eqF_trans as bs cs h1.2 h2.2⟩
  | [], [], _ :: _, _, h => by simp [eqF] at h
  | [], _ :: _, _, h, _ => by simp [eqF] at h
  | _ :: _, [], _, h, _ => by simp [eqF] at h
  | _ :: _, _ :: _, [], _, h => by simp [eqF] at h

/-- incomparability is transitive: together with `ltF_irrefl`, `ltF_trans` this makes `ltF f`
    a strict weak ordering -/
theorem incomp_trans (xs ys zs : List α)
    (h1 : ltF f xs ys = false ∧ ltF f ys xs = false) (h2 : ltF f ys zs = false ∧ ltF f zs ys = false) :
    ltF f xs zs = false ∧ ltF f zs xs = false :=
  (incomp_iff_eqF f xs zs).mpr (eqF_trans f xs ys zs ((incomp_iff_eqF f xs ys).mp h1) ((incomp_iff_eqF f ys zs).mp h2))

/-- `a < b` and `a ~ c` give `c < b` -/
theorem ltF_of_eqF_left (a b c : List α) (hab : ltF f a b = true) (hac : eqF f a c = true) :
    ltF f c b = true := by
  cases hcb : ltF f c b
  · -- then either b < c or b ~ c; both contradict
    cases hbc : ltF f b c
    · have hbc' : eqF f c b = true := (incomp_iff_eqF f c b).mp ⟨hcb, hbc⟩
      have : eqF f a b = true := eqF_trans f a c b hac hbc'
      have := (incomp_iff_eqF f a b).mpr this
      rw [hab] at this; exact absurd this.1 (by simp)
    · have hacl : ltF f a c = true := ltF_trans f a b c hab hbc
      have := (incomp_iff_eqF f a c).mpr hac
      rw [hacl] at this; exact absurd this.1 (by simp)
  · rfl

end Op2.Str
