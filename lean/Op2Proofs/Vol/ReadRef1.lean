import Op2Model.Vol
import Op2Proofs.ParserLemmas
/-!
# Op2Proofs.Vol.ReadRef1 — generic lemmas for "the reader opens what the reference encoder wrote"

Reads in the middle of a concatenation, section headers, name table splitting, entry decoding, `countValid`.
-/
namespace Op2.Vol
open Op2

/-! ## reads in the middle of a concatenation -/

theorem drop_take_mid (pre mid post : Bytes) (p n : Nat) (hp : p = pre.length) (hn : n = mid.length) :
    ((pre ++ (mid ++ post)).drop p).take n = mid := by
  subst hp hn
  rw [List.drop_left', List.take_left']
  all_goals rfl

theorem readAt_split (file pre mid post : Bytes) (p n : Nat) (hf : file = pre ++ (mid ++ post))
    (hp : p = pre.length) (hn : n = mid.length) : readAt file p n = .ok mid := by
  subst hf
  unfold readAt
  rw [drop_take_mid pre mid post p n hp hn, if_pos]
  simp only [List.length_append]; omega

theorem readAt_mid (pre mid post : Bytes) : readAt (pre ++ mid ++ post) pre.length mid.length = .ok mid :=
  readAt_split _ pre mid post _ _ (List.append_assoc _ _ _) rfl rfl

/-- a read that runs over a prefix of what follows `pre` -/
theorem readAt_take (file pre rest : Bytes) (p n : Nat) (hf : file = pre ++ rest)
    (hp : p = pre.length) (hn : n ≤ rest.length) : readAt file p n = .ok (rest.take n) := by
  subst hf hp
  unfold readAt
  rw [List.drop_left', if_pos]
  · simp only [List.length_append]; omega
  · rfl

theorem slice_split (file pre mid post : Bytes) (p n : Nat) (hf : file = pre ++ (mid ++ post))
    (hp : p = pre.length) (hn : n = mid.length) (hb : p + n < W64) : View.slice file p n = .ok mid := by
  subst hf
  unfold View.slice
  rw [drop_take_mid pre mid post p n hp hn, if_neg, if_neg]
  · simp only [List.length_append]; omega
  · omega

/-! ## section headers -/

theorem sec_length (tag : Bytes) (len : Nat) (ht : tag.length = 4) : (Spec.sec tag len).length = 8 := by
  simp only [Spec.sec, List.length_append, ht, Parser.encU32_length]

theorem sec_take (tag : Bytes) (len : Nat) (ht : tag.length = 4) : (Spec.sec tag len).take 4 = tag := by
  unfold Spec.sec
  rw [List.take_left']; exact ht

theorem sec_dec (tag : Bytes) (len : Nat) (ht : tag.length = 4) (hl : len < 2147483648) :
    decU32 ((Spec.sec tag len).drop 4) = 2147483648 + len := by
  unfold Spec.sec
  rw [List.drop_left' ht]
  have := Parser.decU32_encU32 (2147483648 + len) (by omega) []
  rw [List.append_nil] at this; exact this

theorem readTag_split (file pre post tag : Bytes) (p len : Nat) (hf : file = pre ++ (Spec.sec tag len ++ post))
    (hp : p = pre.length) (ht : tag.length = 4) (hl : len < 2147483648) : readTag file p tag = .ok len := by
  unfold readTag
  rw [readAt_split file pre (Spec.sec tag len) post p secSize hf hp (by rw [sec_length _ _ ht]; rfl)]
  simp only [sec_take _ _ ht, sec_dec _ _ ht hl, padFlag]
  rw [if_neg (by simp), if_neg (by omega)]
  congr 1; omega

/-! ## lengths of the pieces -/

theorem zeros_length (n : Nat) : (zeros n).length = n := by simp [zeros]

theorem entries_length : ∀ (ms : List Spec.Member) (noff doff : Nat),
    (Spec.entries noff doff ms).length = 14 * ms.length
  | [], _, _ => rfl
  | m :: ms, noff, doff => by
    simp only [Spec.entries, List.length_append, Parser.encU32_length, Parser.encU16_length,
      entries_length ms, List.length_cons]
    omega

theorem unusedEntry_length : Spec.unusedEntry.length = 14 := rfl

theorem unused_length (u : Nat) : (List.replicate u Spec.unusedEntry).flatten.length = 14 * u := by
  induction u with
  | zero => rfl
  | succ u ih =>
    rw [List.replicate_succ, List.flatten_cons, List.length_append, ih, unusedEntry_length]; omega

theorem le_pad4 (n : Nat) : n ≤ Spec.pad4 n := by unfold Spec.pad4; omega

theorem block_length (m : Spec.Member) : (Spec.block m).length = Spec.blockLen m := by
  have := le_pad4 m.payload.length
  simp only [Spec.block, Spec.blockLen, List.length_append, zeros_length]
  rw [sec_length _ _ rfl]; omega

theorem blocks_length (ms : List Spec.Member) :
    (ms.flatMap Spec.block).length = (ms.map Spec.blockLen).sum := by
  induction ms with
  | nil => rfl
  | cons m ms ih =>
    rw [List.flatMap_cons, List.length_append, ih, block_length, List.map_cons, List.sum_cons]

theorem nameTable_cons (m : Spec.Member) (ms : List Spec.Member) :
    Spec.nameTable (m :: ms) = m.name ++ 0 :: Spec.nameTable ms := by
  simp [Spec.nameTable, List.flatMap_cons]

/-! ## the name table -/

theorem splitNamesGo_name (name : Bytes) (h0 : ∀ x ∈ name, x ≠ 0) (rest cur : Bytes) (acc : List Bytes) :
    splitNamesGo (name ++ 0 :: rest) cur acc = splitNamesGo rest [] ((cur.reverse ++ name) :: acc) := by
  induction name generalizing cur with
  | nil => simp [splitNamesGo]
  | cons c name ih =>
    have hc : c ≠ 0 := h0 c (by simp)
    rw [List.cons_append, splitNamesGo, if_neg hc, ih (fun x hx => h0 x (by simp [hx]))]
    simp

theorem splitNamesGo_table (ms : List Spec.Member) (h0 : ∀ m ∈ ms, ∀ x ∈ m.name, x ≠ 0) (acc : List Bytes) :
    splitNamesGo (Spec.nameTable ms) [] acc = acc.reverse ++ ms.map (·.name) := by
  induction ms generalizing acc with
  | nil => simp [Spec.nameTable, splitNamesGo]
  | cons m ms ih =>
    rw [nameTable_cons, splitNamesGo_name _ (h0 m (by simp)), ih (fun m' hm => h0 m' (by simp [hm]))]
    simp

theorem splitNames_table (ms : List Spec.Member) (h0 : ∀ m ∈ ms, ∀ x ∈ m.name, x ≠ 0) :
    splitNames (Spec.nameTable ms) = ms.map (·.name) := by
  unfold splitNames; rw [splitNamesGo_table ms h0]; rfl

/-! ## entries -/

theorem decEntry_enc (a b c e : Nat) (ha : a < 4294967296) (hb : b < 4294967296) (hc : c < 4294967296)
    (he : e < 65536) (rest : Bytes) :
    decEntry (encU32 a ++ (encU32 b ++ (encU32 c ++ (encU16 e ++ rest)))) = ⟨a, b, c, e⟩ := by
  unfold decEntry
  have d4 : (encU32 a ++ (encU32 b ++ (encU32 c ++ (encU16 e ++ rest)))).drop 4
      = encU32 b ++ (encU32 c ++ (encU16 e ++ rest)) := List.drop_left' rfl
  have d8 : (encU32 a ++ (encU32 b ++ (encU32 c ++ (encU16 e ++ rest)))).drop 8
      = encU32 c ++ (encU16 e ++ rest) := by
    rw [show (8 : Nat) = 4 + 4 from rfl, ← List.drop_drop, d4]; exact List.drop_left' rfl
  have d12 : (encU32 a ++ (encU32 b ++ (encU32 c ++ (encU16 e ++ rest)))).drop 12
      = encU16 e ++ rest := by
    rw [show (12 : Nat) = 8 + 4 from rfl, ← List.drop_drop, d8]; exact List.drop_left' rfl
  rw [d4, d8, d12, Parser.decU32_encU32 a ha, Parser.decU32_encU32 b hb, Parser.decU32_encU32 c hc,
    Parser.decU16_encU16 e he]

theorem drop14_enc (a b c e : Nat) (rest : Bytes) :
    (encU32 a ++ (encU32 b ++ (encU32 c ++ (encU16 e ++ rest)))).drop 14 = rest := by
  have : encU32 a ++ (encU32 b ++ (encU32 c ++ (encU16 e ++ rest)))
      = (encU32 a ++ (encU32 b ++ (encU32 c ++ encU16 e))) ++ rest := by simp only [List.append_assoc]
  rw [this]; exact List.drop_left' rfl

/-- the entries the encoder writes for the members, as values -/
def mEntries : Nat → Nat → List Spec.Member → List Entry
  | _, _, [] => []
  | noff, doff, m :: ms =>
    ⟨noff, doff, m.size, m.comp⟩ :: mEntries (noff + m.name.length + 1) (doff + Spec.blockLen m) ms

theorem mEntries_length : ∀ (ms : List Spec.Member) (noff doff : Nat), (mEntries noff doff ms).length = ms.length
  | [], _, _ => rfl
  | m :: ms, noff, doff => by simp only [mEntries, List.length_cons, mEntries_length ms]

theorem nameTable_length_cons (m : Spec.Member) (ms : List Spec.Member) :
    (Spec.nameTable (m :: ms)).length = m.name.length + 1 + (Spec.nameTable ms).length := by
  rw [nameTable_cons, List.length_append, List.length_cons]; omega

theorem decEntries_entries : ∀ (ms : List Spec.Member) (noff doff j : Nat) (rest : Bytes),
    (∀ m ∈ ms, Spec.memberOk m = true) → Spec.offsetsOk doff ms = true →
    noff + (Spec.nameTable ms).length ≤ 4294967296 →
    decEntries (ms.length + j) (Spec.entries noff doff ms ++ rest) = mEntries noff doff ms ++ decEntries j rest
  | [], _, _, j, rest, _, _, _ => by simp [Spec.entries, mEntries]
  | m :: ms, noff, doff, j, rest, hm, ho, hn => by
    have hmo := hm m (by simp)
    simp only [Spec.memberOk, Bool.and_eq_true, decide_eq_true_eq] at hmo
    simp only [Spec.offsetsOk, Bool.and_eq_true, decide_eq_true_eq] at ho
    rw [nameTable_length_cons] at hn
    have e1 : (m :: ms).length + j = (ms.length + j) + 1 := by simp only [List.length_cons]; omega
    rw [e1, decEntries]
    simp only [Spec.entries, List.append_assoc, entrySize]
    rw [decEntry_enc _ _ _ _ (by omega) ho.1 hmo.1.2 hmo.2, drop14_enc,
      decEntries_entries ms _ _ j rest (fun m' h' => hm m' (by simp [h'])) ho.2 (by omega)]
    rfl

theorem mEntries_nameOff : ∀ (ms : List Spec.Member) (noff doff : Nat),
    noff + (Spec.nameTable ms).length ≤ 4294967295 →
    ∀ e ∈ mEntries noff doff ms, e.nameOff ≠ invalidName
  | [], _, _, _, e, he => by simp [mEntries] at he
  | m :: ms, noff, doff, hn, e, he => by
    rw [nameTable_length_cons] at hn
    simp only [mEntries, List.mem_cons] at he
    rcases he with rfl | he
    · simp only [invalidName]; omega
    · exact mEntries_nameOff ms _ _ (by omega) e he

/-- the `i`-th entry: where its block starts, and the member's size and compression code -/
theorem mEntries_get : ∀ (ms : List Spec.Member) (noff doff i : Nat) (hi : i < ms.length),
    ∃ no, (mEntries noff doff ms)[i]? =
      some ⟨no, doff + ((ms.take i).map Spec.blockLen).sum, ms[i].size, ms[i].comp⟩
  | [], _, _, _, hi => by simp at hi
  | m :: ms, noff, doff, 0, _ => ⟨noff, by simp [mEntries]⟩
  | m :: ms, noff, doff, i + 1, hi => by
    obtain ⟨no, h⟩ := mEntries_get ms (noff + m.name.length + 1) (doff + Spec.blockLen m) i
      (by simpa using hi)
    refine ⟨no, ?_⟩
    simp only [mEntries, List.getElem?_cons_succ, List.take_succ_cons, List.map_cons, List.sum_cons,
      List.getElem_cons_succ]
    rw [h, Nat.add_assoc]

/-! ## `countValid` -/

theorem countValid_append (es rest : List Entry) (h : ∀ e ∈ es, e.nameOff ≠ invalidName) :
    countValid (es ++ rest) = es.length + countValid rest := by
  induction es with
  | nil => simp
  | cons e es ih =>
    rw [List.cons_append, countValid, if_neg (h e (by simp)), ih (fun e' h' => h e' (by simp [h'])),
      List.length_cons]
    omega

/-! ## decoding from a truncated buffer -/

theorem decU32_take (b : Bytes) (n : Nat) (hn : 4 ≤ n) : decU32 (b.take n) = decU32 b := by
  obtain ⟨m, rfl⟩ : ∃ m, n = m + 4 := ⟨n - 4, by omega⟩
  rcases b with _ | ⟨a0, _ | ⟨a1, _ | ⟨a2, _ | ⟨a3, t⟩⟩⟩⟩ <;> simp [decU32]

theorem decU16_take (b : Bytes) (n : Nat) (hn : 2 ≤ n) : decU16 (b.take n) = decU16 b := by
  obtain ⟨m, rfl⟩ : ∃ m, n = m + 2 := ⟨n - 2, by omega⟩
  rcases b with _ | ⟨a0, _ | ⟨a1, t⟩⟩ <;> simp [decU16]

theorem decEntry_take (b : Bytes) (n : Nat) (hn : 14 ≤ n) : decEntry (b.take n) = decEntry b := by
  unfold decEntry
  simp only [List.drop_take]
  rw [decU32_take _ _ (by omega), decU32_take _ _ (by omega), decU32_take _ _ (by omega),
    decU16_take _ _ (by omega)]

theorem decEntries_take : ∀ (k : Nat) (b : Bytes) (n : Nat), k * 14 ≤ n → decEntries k (b.take n) = decEntries k b
  | 0, _, _, _ => rfl
  | k + 1, b, n, hn => by
    simp only [decEntries, entrySize]
    rw [decEntry_take _ _ (by omega), List.drop_take, decEntries_take k _ _ (by omega)]

theorem decEntries_zero (b : Bytes) : decEntries 0 b = [] := rfl

theorem decEntries_unused (j u : Nat) (rest : Bytes) :
    countValid (decEntries (j + 1) ((List.replicate (u + 1) Spec.unusedEntry).flatten ++ rest)) = 0 := by
  rw [decEntries, countValid, if_pos]
  rw [List.replicate_succ, List.flatten_cons, List.append_assoc]
  unfold Spec.unusedEntry
  simp only [List.append_assoc]
  rw [decEntry_enc _ _ _ _ (by omega) (by omega) (by omega) (by omega)]
  rfl

end Op2.Vol
