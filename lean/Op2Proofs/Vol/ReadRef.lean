import Op2Proofs.Vol.ReadRef2
/-!
# Op2Proofs.Vol.ReadRef — the reader opens every archive of the reference encoder and returns what was encoded

`open_refEncode_partial`: for a well-formed description whose name table and index stay below the allocation cap
of the model (`allocCap`, 1 GiB), `Vol.open (Spec.refEncode d)` succeeds and the view gives back, member by
member, the name, the size field, the compression code and the stored bytes.
`open_refEncode` is the same under the single hypothesis `Spec.headerLen d ≤ allocCap`.

The statement without a cap (`open_refEncode_full`) is **false** for the frozen model: `Desc.wf` bounds the header
by 2^31, the reader refuses a name table of 2^30 bytes or more with `alloc` (`open_refEncode_alloc`).
-/
namespace Op2.Vol
open Op2

/-! ## views: calls in terms of the fields -/

theorem View.name_ok (v : View) (i : Nat) (n : Bytes) (hi : i < v.count) (hn : v.names[i]? = some n) :
    v.name i = .ok n := by
  unfold View.name View.verify vecIdx
  rw [if_neg (by omega)]
  simp only [hn]

theorem View.entry_ok (v : View) (i : Nat) (e : Entry) (hi : i < v.count) (he : v.entries[i]? = some e) :
    v.entry i = .ok e := by
  unfold View.entry View.verify vecIdx
  rw [if_neg (by omega)]
  simp only [he]

theorem View.stream_ok (v : View) (i : Nat) (e : Entry) (pre payload post : Bytes) (hi : i < v.count)
    (he : v.entries[i]? = some e)
    (hf : v.file = pre ++ (Spec.sec [86, 66, 76, 75] payload.length ++ (payload ++ post)))
    (hp : e.dataOff = pre.length) (hlen : payload.length < 2147483648) (hoff : e.dataOff < 4294967296) :
    v.stream i = .ok payload := by
  unfold View.stream View.blockHeader
  rw [View.entry_ok v i e hi he]
  simp only
  rw [readAt_split v.file pre _ (payload ++ post) e.dataOff secSize hf hp (by rw [sec_length _ _ rfl]; rfl)]
  simp only [sec_take _ _ (rfl : ([86, 66, 76, 75] : Bytes).length = 4),
    sec_dec _ _ (rfl : ([86, 66, 76, 75] : Bytes).length = 4) hlen]
  rw [if_neg (by simp [tagVBLK])]
  simp only [padFlag, secSize]
  have hm : (2147483648 + payload.length) % 2147483648 = payload.length := by omega
  rw [hm]
  exact slice_split v.file (pre ++ Spec.sec [86, 66, 76, 75] payload.length) payload post _ _
    (by rw [hf]; simp only [List.append_assoc])
    (by rw [List.length_append, sec_length _ _ rfl, hp]) rfl (by simp only [W64]; omega)

/-! ## well-formedness, unpacked -/

theorem wf_parts (d : Spec.Desc) (h : d.WF) :
    (∀ m ∈ d.members, Spec.memberOk m = true) ∧ Spec.headerLen d < 2147483648 ∧
    Spec.offsetsOk (Spec.headerLen d) d.members = true ∧ (d.slack < 14 ∨ 0 < d.unused) := by
  simp only [Spec.Desc.WF, Spec.Desc.wf, Bool.and_eq_true, Bool.or_eq_true, decide_eq_true_eq,
    List.all_eq_true] at h
  exact ⟨h.1.1.1, h.1.1.2, h.1.2, h.2⟩

theorem memberOk_name (m : Spec.Member) (h : Spec.memberOk m = true) : ∀ x ∈ m.name, x ≠ 0 := by
  simp only [Spec.memberOk, Bool.and_eq_true, Bool.not_eq_true'] at h
  intro x hx hx0
  subst hx0
  have := List.contains_iff_mem.mpr hx
  rw [h.1.1.1] at this
  exact Bool.false_ne_true this

theorem memberOk_payload (m : Spec.Member) (h : Spec.memberOk m = true) : m.payload.length < 2147483648 := by
  simp only [Spec.memberOk, Bool.and_eq_true, decide_eq_true_eq] at h
  exact h.1.1.2

theorem offsetsOk_get : ∀ (ms : List Spec.Member) (doff i : Nat), Spec.offsetsOk doff ms = true → i < ms.length →
    doff + ((ms.take i).map Spec.blockLen).sum < 4294967296
  | [], _, _, _, hi => by simp at hi
  | m :: ms, doff, 0, h, _ => by
    simp only [Spec.offsetsOk, Bool.and_eq_true, decide_eq_true_eq] at h
    simp only [List.take_zero, List.map_nil, List.sum_nil]; omega
  | m :: ms, doff, i + 1, h, hi => by
    simp only [Spec.offsetsOk, Bool.and_eq_true, decide_eq_true_eq] at h
    have := offsetsOk_get ms (doff + Spec.blockLen m) i h.2 (by simpa using hi)
    simp only [List.take_succ_cons, List.map_cons, List.sum_cons]; omega

/-! ## the encoder's output in the layout of the walk -/

/-- what follows the index section header, up to the end of the header -/
def idxBody (d : Spec.Desc) : Bytes :=
  Spec.entries 0 (Spec.headerLen d) d.members ++ ((List.replicate d.unused Spec.unusedEntry).flatten
    ++ zeros (Spec.pad4 (Spec.voliLen d) - 14 * (d.members.length + d.unused)))

def namePad0 (d : Spec.Desc) : Bytes := zeros (Spec.volsLen d - 4 - (Spec.nameTable d.members).length)

theorem header_eq (d : Spec.Desc) : Spec.header d =
    layout (Spec.headerLen d - 8) (Spec.volsLen d) (Spec.voliLen d) (Spec.nameTable d.members) (namePad0 d)
      (idxBody d) := by
  simp only [Spec.header, layout, idxBody, namePad0, List.append_assoc]

theorem refEncode_eq (d : Spec.Desc) : Spec.refEncode d =
    layout (Spec.headerLen d - 8) (Spec.volsLen d) (Spec.voliLen d) (Spec.nameTable d.members) (namePad0 d)
      (idxBody d ++ d.members.flatMap Spec.block) := by
  simp only [Spec.refEncode, Spec.header, layout, idxBody, namePad0, List.append_assoc]

theorem namePad0_length (d : Spec.Desc) :
    4 + (Spec.nameTable d.members).length + (namePad0 d).length = Spec.volsLen d := by
  have := le_pad4 (4 + (Spec.nameTable d.members).length)
  simp only [namePad0, zeros_length, Spec.volsLen]; omega

theorem idxBody_length (d : Spec.Desc) : (idxBody d).length = Spec.pad4 (Spec.voliLen d) := by
  have := le_pad4 (Spec.voliLen d)
  simp only [idxBody, List.length_append, entries_length, unused_length, zeros_length]
  simp only [Spec.voliLen] at this ⊢
  omega

theorem header_length (d : Spec.Desc) : (Spec.header d).length = Spec.headerLen d := by
  have := namePad0_length d
  rw [header_eq, layout_length, idxBody_length]
  simp only [Spec.headerLen]; omega

/-- the name table is part of the header -/
theorem nameTable_lt_header (d : Spec.Desc) : (Spec.nameTable d.members).length + 36 ≤ Spec.headerLen d := by
  have := le_pad4 (4 + (Spec.nameTable d.members).length)
  simp only [Spec.headerLen, Spec.volsLen]; omega

theorem voliLen_lt_header (d : Spec.Desc) : Spec.voliLen d + 36 ≤ Spec.headerLen d := by
  have := le_pad4 (Spec.voliLen d)
  have := le_pad4 (4 + (Spec.nameTable d.members).length)
  simp only [Spec.headerLen, Spec.volsLen]; omega

/-! ## the decoded index -/

/-- entries decoded behind the members' ones (unused slots, and zero padding when the slack reaches 14) -/
def tailEntries (d : Spec.Desc) : List Entry :=
  decEntries (d.unused + d.slack / 14) ((List.replicate d.unused Spec.unusedEntry).flatten
    ++ (zeros (Spec.pad4 (Spec.voliLen d) - 14 * (d.members.length + d.unused)) ++ d.members.flatMap Spec.block))

theorem decEntries_ref (d : Spec.Desc) (h : d.WF) :
    decEntries (Spec.voliLen d / 14) (idxBody d ++ d.members.flatMap Spec.block)
      = mEntries 0 (Spec.headerLen d) d.members ++ tailEntries d := by
  obtain ⟨hm, hh, ho, _⟩ := wf_parts d h
  have hk : Spec.voliLen d / 14 = d.members.length + (d.unused + d.slack / 14) := by
    simp only [Spec.voliLen]; omega
  have := nameTable_lt_header d
  rw [hk]
  simp only [idxBody, List.append_assoc]
  exact decEntries_entries d.members 0 (Spec.headerLen d) _ _ hm ho (by omega)

theorem countValid_tail (d : Spec.Desc) (h : d.WF) : countValid (tailEntries d) = 0 := by
  obtain ⟨_, _, _, hs⟩ := wf_parts d h
  unfold tailEntries
  rcases hu : d.unused with _ | u
  · have : d.slack / 14 = 0 := by omega
    rw [this]; rfl
  · rw [show u + 1 + d.slack / 14 = (u + d.slack / 14) + 1 by omega]
    exact decEntries_unused _ _ _

theorem countValid_ref (d : Spec.Desc) (h : d.WF) :
    countValid (mEntries 0 (Spec.headerLen d) d.members ++ tailEntries d) = d.members.length := by
  obtain ⟨_, hh, _, _⟩ := wf_parts d h
  have := nameTable_lt_header d
  rw [countValid_append _ _ (mEntries_nameOff d.members 0 (Spec.headerLen d) (by omega)),
    countValid_tail d h, mEntries_length]
  rfl

theorem names_ref (d : Spec.Desc) (h : d.WF) :
    splitNames (Spec.nameTable d.members) = d.members.map (·.name) :=
  splitNames_table d.members (fun m hm => memberOk_name m ((wf_parts d h).1 m hm))

/-! ## opening -/

/-- the view the reader builds from `refEncode d` -/
def refView (d : Spec.Desc) : View :=
  { file := Spec.refEncode d, names := d.members.map (·.name),
    entries := mEntries 0 (Spec.headerLen d) d.members ++ tailEntries d, count := d.members.length }

theorem open_refEncode_view (d : Spec.Desc) (h : d.WF) (hN : (Spec.nameTable d.members).length < allocCap)
    (hI : Spec.voliLen d / 14 * 14 ≤ allocCap) : Vol.open (Spec.refEncode d) = .ok (refView d) := by
  obtain ⟨hm, hh, ho, hs⟩ := wf_parts d h
  have h1 := nameTable_lt_header d
  have h2 := voliLen_lt_header d
  have h3 := namePad0_length d
  have h4 := le_pad4 (Spec.voliLen d)
  have hde := decEntries_ref d h
  have hcv := countValid_ref d h
  have hnm := names_ref d h
  have hvs : Spec.volsLen d + Spec.pad4 (Spec.voliLen d) + 32 = Spec.headerLen d := by
    simp only [Spec.headerLen]; omega
  have := openWith_layout (Spec.headerLen d - 8) (Spec.volsLen d) (Spec.voliLen d) (Spec.nameTable d.members)
    (namePad0 d) (idxBody d ++ d.members.flatMap Spec.block) (by omega) (by omega) (by omega) h3 (by omega)
    (by rw [layout_length, List.length_append, idxBody_length]; omega) hN
    (by rw [List.length_append, idxBody_length]; omega) hI
    (by rw [hde, hcv, hnm, List.length_map]; exact Nat.le_refl _)
  rw [hde, hcv, hnm, ← refEncode_eq] at this
  exact this

theorem refView_entry (d : Spec.Desc) (i : Nat) (hi : i < d.members.length) :
    ∃ no, (refView d).entries[i]? = some ⟨no, Spec.headerLen d + ((d.members.take i).map Spec.blockLen).sum,
      d.members[i].size, d.members[i].comp⟩ := by
  obtain ⟨no, hno⟩ := mEntries_get d.members 0 (Spec.headerLen d) i hi
  refine ⟨no, ?_⟩
  show (mEntries 0 (Spec.headerLen d) d.members ++ tailEntries d)[i]? = _
  rw [List.getElem?_append_left (by rw [mEntries_length]; exact hi)]
  exact hno

theorem refEncode_split (d : Spec.Desc) (i : Nat) (hi : i < d.members.length) :
    Spec.refEncode d = (Spec.header d ++ (d.members.take i).flatMap Spec.block)
      ++ (Spec.sec [86, 66, 76, 75] d.members[i].payload.length ++ (d.members[i].payload
        ++ (zeros (Spec.pad4 d.members[i].payload.length - d.members[i].payload.length)
          ++ (d.members.drop (i + 1)).flatMap Spec.block))) := by
  have hs : d.members = d.members.take i ++ d.members[i] :: d.members.drop (i + 1) := by
    rw [List.getElem_cons_drop, List.take_append_drop]
  unfold Spec.refEncode
  conv => lhs; rw [hs]
  simp only [List.flatMap_append, List.flatMap_cons, Spec.block, List.append_assoc]

theorem refView_members (d : Spec.Desc) (h : d.WF) (i : Nat) (hi : i < d.members.length) :
    (refView d).name i = .ok d.members[i].name ∧ (refView d).size i = .ok d.members[i].size ∧
    (refView d).kind i = .ok d.members[i].comp ∧ (refView d).stream i = .ok d.members[i].payload := by
  obtain ⟨hm, hh, ho, hs⟩ := wf_parts d h
  obtain ⟨no, he⟩ := refView_entry d i hi
  have hc : i < (refView d).count := hi
  refine ⟨?_, ?_, ?_, ?_⟩
  · apply View.name_ok _ _ _ hc
    show (d.members.map (·.name))[i]? = _
    rw [List.getElem?_map, List.getElem?_eq_getElem hi]; rfl
  · unfold View.size; rw [View.entry_ok _ _ _ hc he]; rfl
  · unfold View.kind; rw [View.entry_ok _ _ _ hc he]; rfl
  · exact View.stream_ok (refView d) i _ _ d.members[i].payload _ hc he (refEncode_split d i hi)
      (by rw [List.length_append, header_length, blocks_length])
      (memberOk_payload _ (hm _ (List.getElem_mem hi)))
      (offsetsOk_get d.members (Spec.headerLen d) i ho hi)

/-- the general statement: the two allocation refusals of the reader spelled out as hypotheses -/
theorem open_refEncode_partial (d : Spec.Desc) (h : d.WF)
    (hN : (Spec.nameTable d.members).length < allocCap) (hI : Spec.voliLen d / 14 * 14 ≤ allocCap) :
    ∃ v : View, Vol.open (Spec.refEncode d) = .ok v ∧ v.file = Spec.refEncode d ∧
      v.count = d.members.length ∧ v.names = d.members.map (·.name) ∧
      ∀ (i : Nat) (hi : i < d.members.length),
        v.name i = .ok d.members[i].name ∧ v.size i = .ok d.members[i].size ∧
        v.kind i = .ok d.members[i].comp ∧ v.stream i = .ok d.members[i].payload :=
  ⟨refView d, open_refEncode_view d h hN hI, rfl, rfl, rfl, fun i hi => refView_members d h i hi⟩

/-- **the reader opens every archive of the reference encoder whose header stays below the allocation cap, and
    returns exactly what was encoded** -/
theorem open_refEncode (d : Spec.Desc) (h : d.WF) (hcap : Spec.headerLen d ≤ allocCap) :
    ∃ v : View, Vol.open (Spec.refEncode d) = .ok v ∧ v.file = Spec.refEncode d ∧
      v.count = d.members.length ∧ v.names = d.members.map (·.name) ∧
      ∀ (i : Nat) (hi : i < d.members.length),
        v.name i = .ok d.members[i].name ∧ v.size i = .ok d.members[i].size ∧
        v.kind i = .ok d.members[i].comp ∧ v.stream i = .ok d.members[i].payload := by
  have h1 := nameTable_lt_header d
  have h2 := voliLen_lt_header d
  exact open_refEncode_partial d h (by omega) (by omega)

/-- the statement without a cap; it does **not** hold for the frozen model (see `open_refEncode_alloc`) -/
def open_refEncode_full : Prop :=
  ∀ (d : Spec.Desc), d.WF →
    ∃ v : View, Vol.open (Spec.refEncode d) = .ok v ∧ v.file = Spec.refEncode d ∧
      v.count = d.members.length ∧ v.names = d.members.map (·.name) ∧
      ∀ (i : Nat) (hi : i < d.members.length),
        v.name i = .ok d.members[i].name ∧ v.size i = .ok d.members[i].size ∧
        v.kind i = .ok d.members[i].comp ∧ v.stream i = .ok d.members[i].payload

/-- a well-formed description whose name table reaches the allocation cap is refused with `alloc` -/
theorem open_refEncode_alloc (d : Spec.Desc) (h : d.WF) (hN : allocCap ≤ (Spec.nameTable d.members).length) :
    Vol.open (Spec.refEncode d) = .error (.err .alloc) := by
  obtain ⟨hm, hh, ho, hs⟩ := wf_parts d h
  have h1 := nameTable_lt_header d
  have h2 := voliLen_lt_header d
  have h3 := namePad0_length d
  have h4 := le_pad4 (Spec.voliLen d)
  have hvs : Spec.volsLen d + Spec.pad4 (Spec.voliLen d) + 32 = Spec.headerLen d := by
    simp only [Spec.headerLen]; omega
  rw [refEncode_eq]
  exact openWith_layout_alloc _ _ _ _ _ _ Cfg.fixed (by omega) (by omega) h3 (by omega)
    (by rw [layout_length, List.length_append, idxBody_length]; omega) hN (by omega)


/-! ## the statement without a cap is false -/

/-- one member with an empty payload and a name of `n` bytes `1` -/
def bigDesc (n : Nat) : Spec.Desc :=
  { members := [⟨List.replicate n 1, [], 0, 0⟩], unused := 0, slack := 0 }

theorem bigDesc_table (n : Nat) : (Spec.nameTable (bigDesc n).members).length = n + 1 := by
  simp [bigDesc, Spec.nameTable]

theorem bigDesc_headerLen (n : Nat) : Spec.headerLen (bigDesc n) = 48 + Spec.pad4 (4 + (n + 1)) := by
  simp only [Spec.headerLen, Spec.volsLen, bigDesc_table, Spec.voliLen]
  simp only [bigDesc, Spec.pad4, List.length_cons, List.length_nil]
  omega

theorem bigDesc_wf (n : Nat) (hn : n + 100 < 2147483648) : (bigDesc n).WF := by
  have hl := bigDesc_headerLen n
  have hp : Spec.pad4 (4 + (n + 1)) ≤ n + 8 := by unfold Spec.pad4; omega
  have hm : Spec.memberOk ⟨List.replicate n 1, [], 0, 0⟩ = true := by
    simp [Spec.memberOk]
  show (bigDesc n).wf = true
  unfold Spec.Desc.wf
  simp only [Bool.and_eq_true, Bool.or_eq_true, decide_eq_true_eq]
  refine ⟨⟨⟨?_, by omega⟩, ?_⟩, Or.inl (Nat.zero_lt_succ _)⟩
  · simp only [bigDesc, List.all_cons, List.all_nil, hm, Bool.and_self]
  · show Spec.offsetsOk (Spec.headerLen (bigDesc n)) [⟨List.replicate n 1, [], 0, 0⟩] = true
    simp only [Spec.offsetsOk, Bool.and_true, decide_eq_true_eq]; omega

theorem not_open_refEncode_full : ¬ open_refEncode_full := by
  intro hfull
  obtain ⟨v, hv, _⟩ := hfull (bigDesc 1073741824) (bigDesc_wf _ (by omega))
  rw [open_refEncode_alloc _ (bigDesc_wf _ (by omega)) (by rw [bigDesc_table]; simp only [allocCap]; omega)] at hv
  exact nomatch hv

/-! ## non-vacuity -/

def exampleDesc : Spec.Desc :=
  { members := [⟨[97], [1, 2, 3], 3, 256⟩, ⟨[98], [4], 77, 259⟩], unused := 1, slack := 1 }

theorem exampleDesc_wf : exampleDesc.WF := by
  show exampleDesc.wf = true
  decide
example : Spec.headerLen exampleDesc ≤ allocCap := by decide

example : ∃ v : View, Vol.open (Spec.refEncode exampleDesc) = .ok v ∧ v.count = 2 ∧ v.names = [[97], [98]] ∧
    v.stream 0 = .ok [1, 2, 3] ∧ v.stream 1 = .ok [4] ∧ v.size 1 = .ok 77 ∧ v.kind 1 = .ok 259 := by
  obtain ⟨v, ho, _, hc, hn, hi⟩ := open_refEncode exampleDesc exampleDesc_wf (by decide)
  exact ⟨v, ho, hc, hn, (hi 0 (by decide)).2.2.2, (hi 1 (by decide)).2.2.2, (hi 1 (by decide)).2.1,
    (hi 1 (by decide)).2.2.1⟩

end Op2.Vol
