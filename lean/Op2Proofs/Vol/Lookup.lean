import Op2Model.Vol
import Op2Proofs.StrOrder
import Op2Proofs.SortLemmas
import Op2Proofs.Vol.Search
/-!
# Lemmas: looking a member up by name succeeds in any letter case (C02)

`View.index` / `View.contains` model the loop of `ArchiveFile::GetIndex`: the first `i < count` with
`Path.pathsAreEqual (name i) query`.

* a *plain* name (non-empty, no `/`, not `.`) is a single path component, so `pathsAreEqual` on plain names is
  equality of the upper-cased strings;
* `toupper` stored back into a `char` and `tolower` as an `int` identify the same bytes, so that equality is
  `StringUtility::IsEqual` (`eqCI`);
* hence the loop finds exactly the member whose name equals the query ignoring case — in particular a member name
  written in any letter case — and reports absence when there is none.
-/
namespace Op2.Vol
open Op2 Op2.Str

/-- what a file name can be: non-empty, no '/', not "." -/
def PlainName (n : Bytes) : Prop := n ≠ [] ∧ Path.sep ∉ n ∧ n ≠ [Path.dot]

/-! ## 1. a plain name is one path component -/

theorem scan_noSep : ∀ (s : Bytes) (off start : Nat) (cur : Bytes) (acc : List Path.Cmpt),
    Path.sep ∉ s → cur.reverse ++ s ≠ [] →
    Path.scan s off start cur acc
      = (({ kind := .file, pos := start, text := cur.reverse ++ s } : Path.Cmpt) :: acc).reverse
  | [], off, start, cur, acc, _, hne => by
    have hc : cur ≠ [] := by
      intro e; subst e; simp at hne
    cases cur with
    | nil => exact absurd rfl hc
    | cons c cs => simp [Path.scan]
  | c :: rest, off, start, cur, acc, hs, _ => by
    have hc : c ≠ Path.sep := by
      intro e; apply hs; rw [e]; exact List.mem_cons_self
    have hr : Path.sep ∉ rest := fun h => hs (List.mem_cons_of_mem _ h)
    rw [Path.scan, if_neg hc, scan_noSep rest (off + 1) start (c :: cur) acc hr (by simp)]
    simp

theorem mem_of_getLast?_eq_some' {α : Type} {l : List α} {a : α} (h : l.getLast? = some a) : a ∈ l := by
  obtain ⟨ys, e⟩ := List.getLast?_eq_some_iff.mp h
  rw [e]; simp

theorem withTrailingDot_noSep (s : Bytes) (cs : List Path.Cmpt) (hs : Path.sep ∉ s) :
    Path.withTrailingDot s cs = cs := by
  unfold Path.withTrailingDot
  split
  · rename_i l last hl _
    have : l ≠ Path.sep := by
      intro e; apply hs; rw [← e]; exact mem_of_getLast?_eq_some' hl
    rw [if_neg (fun h => this h.1)]
  · rfl

theorem split_plain (n : Bytes) (h : PlainName n) :
    Path.split n = [{ kind := .file, pos := 0, text := n }] := by
  obtain ⟨hne, hs, _⟩ := h
  cases n with
  | nil => exact absurd rfl hne
  | cons c0 r0 =>
    have hc : c0 ≠ Path.sep := by
      intro e; apply hs; rw [e]; exact List.mem_cons_self
    unfold Path.split
    simp only []
    rw [if_neg hc, withTrailingDot_noSep _ _ hs, scan_noSep (c0 :: r0) 0 0 [] [] hs (by simp)]
    simp

theorem elems_plain (n : Bytes) (h : PlainName n) : Path.elems n = [n] := by
  unfold Path.elems
  rw [split_plain n h]
  rfl

/-! ## 2. the two case folds identify the same bytes -/

theorem upperB_toNat (x : UInt8) :
    (upperB x).toNat = if 97 ≤ x.toNat ∧ x.toNat ≤ 122 then x.toNat - 32 else x.toNat := by
  have hx := x.toNat_lt
  unfold upperB
  split
  · rw [UInt8.toNat_ofNat']; omega
  · rfl

theorem upperB_eq_iff (x y : UInt8) : upperB x = upperB y ↔ lowerI x = lowerI y := by
  have hx := x.toNat_lt
  have hy := y.toNat_lt
  rw [← UInt8.toNat_inj, upperB_toNat, upperB_toNat]
  unfold lowerI
  generalize x.toNat = X at *
  generalize y.toNat = Y at *
  repeat' (first | omega | split)

theorem upperB_idem (x : UInt8) : upperB (upperB x) = upperB x := by
  have hx := x.toNat_lt
  rw [← UInt8.toNat_inj, upperB_toNat (upperB x), upperB_toNat x]
  generalize x.toNat = X at *
  by_cases a1 : 97 ≤ X ∧ X ≤ 122
  · rw [if_pos a1, if_neg (by omega)]
  · rw [if_neg a1, if_neg a1]

theorem lowerI_upperB (x : UInt8) : lowerI (upperB x) = lowerI x :=
  (upperB_eq_iff (upperB x) x).mp (upperB_idem x)

theorem toUpper_eq_iff : ∀ (a b : Bytes), toUpper a = toUpper b ↔ eqCI a b = true
  | [], [] => by simp [toUpper, eqCI, eqF]
  | [], _ :: _ => by simp [toUpper, eqCI, eqF]
  | _ :: _, [] => by simp [toUpper, eqCI, eqF]
  | x :: a, y :: b => by
    have ih := toUpper_eq_iff a b
    unfold toUpper eqCI at ih ⊢
    simp only [List.map_cons, List.cons.injEq, eqF, Bool.and_eq_true, beq_iff_eq]
    rw [upperB_eq_iff, ih]

theorem eqCI_toUpper (n : Bytes) : eqCI (toUpper n) n = true := by
  rw [← toUpper_eq_iff]
  unfold toUpper
  rw [List.map_map]
  apply List.map_congr_left
  intro x _
  exact upperB_idem x

/-! ## 3. plainness is invariant under case-insensitive equality -/

theorem lowerI_eq_sep (x : UInt8) (h : lowerI x = lowerI Path.sep) : x = Path.sep := by
  have hx := x.toNat_lt
  apply UInt8.toNat_inj.mp
  have e : Path.sep.toNat = 47 := rfl
  rw [e]
  have e2 : lowerI Path.sep = 47 := by decide
  rw [e2] at h
  unfold lowerI at h
  generalize x.toNat = X at *
  revert h
  repeat' (first | omega | split)

theorem lowerI_eq_dot (x : UInt8) (h : lowerI x = lowerI Path.dot) : x = Path.dot := by
  have hx := x.toNat_lt
  apply UInt8.toNat_inj.mp
  have e : Path.dot.toNat = 46 := rfl
  rw [e]
  have e2 : lowerI Path.dot = 46 := by decide
  rw [e2] at h
  unfold lowerI at h
  generalize x.toNat = X at *
  revert h
  repeat' (first | omega | split)

theorem sep_mem_of_eqCI : ∀ (a b : Bytes), eqCI a b = true → Path.sep ∈ a → Path.sep ∈ b
  | [], _, _, h => by simp at h
  | _ :: _, [], h, _ => by simp [eqCI, eqF] at h
  | x :: a, y :: b, h, hm => by
    unfold eqCI at h
    simp only [eqF, Bool.and_eq_true, beq_iff_eq] at h
    rcases List.mem_cons.mp hm with e | hm'
    · have : y = Path.sep := lowerI_eq_sep y (by rw [← h.1, ← e])
      rw [this]; exact List.mem_cons_self
    · exact List.mem_cons_of_mem _ (sep_mem_of_eqCI a b h.2 hm')

theorem plain_of_eqCI (a b : Bytes) (he : eqCI a b = true) (hb : PlainName b) : PlainName a := by
  obtain ⟨hne, hs, hd⟩ := hb
  refine ⟨?_, fun h => hs (sep_mem_of_eqCI a b he h), ?_⟩
  · intro e; subst e
    cases b with
    | nil => exact hne rfl
    | cons _ _ => simp [eqCI, eqF] at he
  · intro e; subst e
    match b, he with
    | [], he => simp [eqCI, eqF] at he
    | [y], he =>
      unfold eqCI at he
      simp only [eqF, Bool.and_eq_true, beq_iff_eq] at he
      have : y = Path.dot := lowerI_eq_dot y he.1.symm
      exact hd (by rw [this])
    | _ :: _ :: _, he => simp [eqCI, eqF] at he

theorem toUpper_plain (n : Bytes) (h : PlainName n) : PlainName (toUpper n) :=
  plain_of_eqCI _ _ (eqCI_toUpper n) h

theorem stripDots_plain (n : Bytes) (h : PlainName n) : Path.stripDots [n] = [n] := by
  unfold Path.stripDots
  rw [if_neg h.2.2]

theorem pathsAreEqual_plain (a b : Bytes) (ha : PlainName a) (hb : PlainName b) :
    Path.pathsAreEqual a b = eqCI a b := by
  unfold Path.pathsAreEqual
  rw [elems_plain _ (toUpper_plain a ha), elems_plain _ (toUpper_plain b hb),
    stripDots_plain _ (toUpper_plain a ha), stripDots_plain _ (toUpper_plain b hb)]
  rw [Bool.eq_iff_iff, ← toUpper_eq_iff]
  simp

/-! ## 4. any letter case -/

theorem lowerI_flipCase (b : UInt8) : lowerI (Spec.flipCase b) = lowerI b := by
  have hb := b.toNat_lt
  unfold Spec.flipCase
  split
  · rename_i h
    unfold lowerI
    have e : (UInt8.ofNat (b.toNat + 32)).toNat = b.toNat + 32 := by
      rw [UInt8.toNat_ofNat']; omega
    rw [e, if_pos h, if_neg (by omega), if_neg (by omega)]
  · rename_i h
    split
    · rename_i h2
      unfold lowerI
      have e : (UInt8.ofNat (b.toNat - 32)).toNat = b.toNat - 32 := by
        rw [UInt8.toNat_ofNat']; omega
      rw [e, if_neg h, if_neg (by omega : ¬ b.toNat = 255),
        if_pos (by omega : 65 ≤ b.toNat - 32 ∧ b.toNat - 32 ≤ 90)]
      have : b.toNat - 32 + 32 = b.toNat := by omega
      rw [this]
    · rfl

theorem eqCI_zipWith_flipCase : ∀ (ms : List Bool) (n : Bytes), n.length ≤ ms.length →
    eqF lowerI (List.zipWith (fun m b => if m then Spec.flipCase b else b) ms n) n = true
  | _, [], _ => by simp [eqF]
  | [], _ :: _, h => by simp at h
  | m :: ms, b :: n, h => by
    simp only [List.zipWith_cons_cons, eqF, Bool.and_eq_true, beq_iff_eq]
    refine ⟨?_, eqCI_zipWith_flipCase ms n (by simpa using h)⟩
    cases m
    · simp
    · simp [lowerI_flipCase]

theorem eqCI_anyCase (mask : List Bool) (n : Bytes) : eqCI (Spec.anyCase mask n) n = true := by
  unfold Spec.anyCase eqCI
  apply eqCI_zipWith_flipCase
  rw [List.length_append, List.length_replicate]
  omega

theorem anyCase_plain (mask : List Bool) (n : Bytes) (h : PlainName n) : PlainName (Spec.anyCase mask n) :=
  plain_of_eqCI _ _ (eqCI_anyCase mask n) h

/-! ## 5. the lookup loop -/

theorem name_ok (v : View) (hc : v.count = v.names.length) (j : Nat) (hj : j < v.names.length) :
    v.name j = .ok v.names[j] := by
  unfold View.name View.verify
  rw [if_neg (by omega)]
  simp only []
  unfold vecIdx
  rw [List.getElem?_eq_getElem hj]

theorem find_finds (v : View) (hc : v.count = v.names.length) (q : Bytes) (i : Nat) (hi : i < v.names.length)
    (hlt : ∀ k (hk : k < i), Path.pathsAreEqual (v.names[k]'(by omega)) q = false)
    (hat : Path.pathsAreEqual v.names[i] q = true) :
    ∀ (fuel j : Nat), j + fuel = v.count → j ≤ i → v.find q fuel j = .ok (some i)
  | 0, j, hf, hj => by omega
  | fuel + 1, j, hf, hj => by
    have hjl : j < v.names.length := by omega
    unfold View.find
    rw [name_ok v hc j hjl]
    simp only []
    by_cases e : j = i
    · subst e
      rw [if_pos hat]
    · have hk : j < i := by omega
      rw [hlt j hk]
      simp only [Bool.false_eq_true, if_false]
      exact find_finds v hc q i hi hlt hat fuel (j + 1) (by omega) (by omega)

theorem find_absent (v : View) (hc : v.count = v.names.length) (q : Bytes)
    (hno : ∀ k (hk : k < v.names.length), Path.pathsAreEqual v.names[k] q = false) :
    ∀ (fuel j : Nat), j + fuel = v.count → v.find q fuel j = .ok none
  | 0, _, _ => rfl
  | fuel + 1, j, hf => by
    have hjl : j < v.names.length := by omega
    unfold View.find
    rw [name_ok v hc j hjl]
    simp only []
    rw [hno j hjl]
    simp only [Bool.false_eq_true, if_false]
    exact find_absent v hc q hno fuel (j + 1) (by omega)

/-- lookup finds exactly the member whose name equals the query ignoring case -/
theorem index_finds (v : View) (hc : v.count = v.names.length) (hp : ∀ n ∈ v.names, PlainName n)
    (hn : NoDupCI id v.names) (i : Nat) (hi : i < v.names.length) (q : Bytes) (hq : PlainName q)
    (he : eqCI q v.names[i] = true) : v.index q = .ok i ∧ v.contains q = .ok true := by
  have hpk : ∀ k (hk : k < v.names.length), Path.pathsAreEqual v.names[k] q = eqCI v.names[k] q :=
    fun k hk => pathsAreEqual_plain _ _ (hp _ (List.getElem_mem hk)) hq
  have hat : Path.pathsAreEqual v.names[i] q = true := by
    rw [hpk i hi]; exact eqF_symm lowerI _ _ he
  have hlt : ∀ k (hk : k < i), Path.pathsAreEqual (v.names[k]'(by omega)) q = false := by
    intro k hk
    have hkl : k < v.names.length := by omega
    rw [hpk k hkl]
    cases hx : eqCI v.names[k] q
    · rfl
    · have h1 : eqCI v.names[k] v.names[i] = true := eqF_trans lowerI _ _ _ hx he
      have h2 := (List.pairwise_iff_getElem.mp hn) k i hkl hi hk
      simp only [id] at h2
      rw [h1] at h2
      exact absurd h2 (by simp)
  have hf := find_finds v hc q i hi hlt hat v.count 0 (by omega) (by omega)
  unfold View.index View.contains
  rw [hf]
  exact ⟨rfl, rfl⟩

theorem index_any_case (v : View) (hc : v.count = v.names.length) (hp : ∀ n ∈ v.names, PlainName n)
    (hn : NoDupCI id v.names) (i : Nat) (hi : i < v.names.length) (mask : List Bool) :
    v.index (Spec.anyCase mask v.names[i]) = .ok i ∧ v.contains (Spec.anyCase mask v.names[i]) = .ok true :=
  index_finds v hc hp hn i hi _ (anyCase_plain mask _ (hp _ (List.getElem_mem hi))) (eqCI_anyCase mask _)

/-- and a name that matches no member ignoring case is not found -/
theorem index_absent (v : View) (hc : v.count = v.names.length) (hp : ∀ n ∈ v.names, PlainName n)
    (q : Bytes) (hq : PlainName q) (hno : ∀ n ∈ v.names, eqCI q n = false) :
    v.index q = .error (.err .format) ∧ v.contains q = .ok false := by
  have hno' : ∀ k (hk : k < v.names.length), Path.pathsAreEqual v.names[k] q = false := by
    intro k hk
    rw [pathsAreEqual_plain _ _ (hp _ (List.getElem_mem hk)) hq]
    cases hx : eqCI v.names[k] q
    · rfl
    · have := eqF_symm lowerI _ _ hx
      have h2 := hno _ (List.getElem_mem hk)
      unfold eqCI at h2
      rw [this] at h2
      exact absurd h2 (by simp)
  have hf := find_absent v hc q hno' v.count 0 (by omega)
  unfold View.index View.contains
  rw [hf]
  exact ⟨rfl, rfl⟩

/-! ## non-vacuity -/

example : PlainName [97, 46, 116] := by
  refine ⟨by decide, by decide, by decide⟩
example : ¬ PlainName [97, 47, 116] := fun h => h.2.1 (by decide)
example : Path.pathsAreEqual [97] [65] = true := by decide
example : Path.pathsAreEqual [97, 46, 116] [65, 46, 84] = eqCI [97, 46, 116] [65, 46, 84] :=
  pathsAreEqual_plain _ _ ⟨by decide, by decide, by decide⟩ ⟨by decide, by decide, by decide⟩

/-- a two-member archive view: the hypotheses of the main theorems are satisfiable and the conclusions compute -/
def exView : View := { file := [], names := [[97, 46, 116], [66]], entries := [], count := 2 }

theorem exView_plain : ∀ n ∈ exView.names, PlainName n := by
  intro n hn
  simp only [exView, List.mem_cons, List.not_mem_nil, or_false] at hn
  rcases hn with e | e <;> subst e <;> exact ⟨by decide, by decide, by decide⟩

example : exView.index [65, 46, 84] = .ok 0 ∧ exView.contains [65, 46, 84] = .ok true :=
  index_finds exView rfl exView_plain
    (by unfold NoDupCI exView; decide) 0 (by decide) _ ⟨by decide, by decide, by decide⟩ (by decide)
example : exView.index (Spec.anyCase [true] [66]) = .ok 1 :=
  (index_any_case exView rfl exView_plain (by unfold NoDupCI exView; decide) 1 (by decide) [true]).1
example : exView.index [99] = .error (.err .format) ∧ exView.contains [99] = .ok false :=
  index_absent exView rfl exView_plain _ ⟨by decide, by decide, by decide⟩
    (by intro n hn
        simp only [exView, List.mem_cons, List.not_mem_nil, or_false] at hn
        rcases hn with e | e <;> subst e <;> decide)

end Op2.Vol
