import Op2Model.Vol
/-!
# Op2Proofs.Vol.Safety — the VOL reader never faults (C05, VOL part)
-/
namespace Op2.Vol
open Op2

/-- a computation that can only end in a value or an ordinary error -/
def NoFault {α : Type} (m : M α) : Prop := ∀ f : Fault, m ≠ .error (.fault f)

theorem noFault_ok {α : Type} (a : α) : NoFault (.ok a : M α) := by
  intro f h; cases h

theorem noFault_err {α : Type} (e : Err) : NoFault (.error (.err e) : M α) := by
  intro f h; cases h

theorem noFault_map {α β : Type} (g : α → β) (m : M α) (h : NoFault m) : NoFault (m.map g) := by
  intro f hf
  cases m with
  | ok a => simp [Except.map] at hf
  | error e =>
    simp only [Except.map, Except.error.injEq] at hf
    subst hf
    exact h f rfl

/-! ## primitives -/

theorem readAt_length {file : Bytes} {p n : Nat} {r : Bytes} (h : readAt file p n = .ok r) : r.length = n := by
  unfold readAt at h
  split at h
  · simp only [Except.ok.injEq] at h
    subst h
    simp only [List.length_take, List.length_drop]
    omega
  · cases h

theorem readAt_ok {file : Bytes} {p n : Nat} {r : Bytes} (h : readAt file p n = .ok r) :
    p + n ≤ file.length ∧ r = (file.drop p).take n := by
  unfold readAt at h
  split at h
  · simp only [Except.ok.injEq] at h
    exact ⟨by assumption, h.symm⟩
  · cases h

theorem readAt_noFault (file : Bytes) (p n : Nat) : NoFault (readAt file p n) := by
  intro f h
  unfold readAt at h
  split at h <;> cases h

theorem readTag_noFault (file : Bytes) (p : Nat) (tag : Bytes) : NoFault (readTag file p tag) := by
  intro f h
  unfold readTag at h
  split at h
  · next e he =>
    cases h
    exact readAt_noFault _ _ _ _ he
  · split at h
    · cases h
    · split at h <;> cases h

theorem countValid_le (es : List Entry) : countValid es ≤ es.length := by
  induction es with
  | nil => simp [countValid]
  | cons e es ih =>
    simp only [countValid, List.length_cons]
    split <;> omega

theorem decEntries_length (n : Nat) (b : Bytes) : (decEntries n b).length = n := by
  induction n generalizing b with
  | zero => simp [decEntries]
  | succ n ih => simp [decEntries, ih]

theorem vecIdx_noFault {α : Type} (l : List α) (i : Nat) (h : i < l.length) : NoFault (vecIdx l i) := by
  intro f hf
  unfold vecIdx at hf
  rw [List.getElem?_eq_getElem h] at hf
  cases hf

theorem vecIdx_ok {α : Type} {l : List α} {i : Nat} {a : α} (h : vecIdx l i = .ok a) : l[i]? = some a := by
  unfold vecIdx at h
  split at h
  · next b hb => cases h; exact hb
  · cases h

/-- `decU32` looks at four bytes only -/
theorem decU32_take4 (l : Bytes) : decU32 (l.take 4) = decU32 l := by
  match l with
  | [] => rfl
  | [_] => rfl
  | [_, _] => rfl
  | [_, _, _] => rfl
  | _ :: _ :: _ :: _ :: _ => rfl

theorem decU32_header (file : Bytes) (off : Nat) :
    decU32 (((file.drop off).take 8).drop 4) = decU32 (file.drop (off + 4)) := by
  rw [List.drop_take, List.drop_drop]
  exact decU32_take4 _


/-! ## opening -/

theorem copyInto_exact_noFault (n : Nat) (raw : Bytes) (h : raw.length = n) : NoFault (copyInto n raw) := by
  intro f hf
  unfold copyInto at hf
  rw [if_pos (by omega)] at hf
  cases hf

theorem openWith_fixed_noFault (b : Bytes) : NoFault (openWith Cfg.fixed b) := by
  intro f h
  unfold openWith at h
  simp only [Cfg.fixed] at h
  repeat' (split at h)
  all_goals try (cases h; done)
  all_goals try (cases h; first | exact readTag_noFault _ _ _ _ (by assumption) | exact readAt_noFault _ _ _ _ (by assumption))
  · -- the index table: the only copy into a sized buffer
    rename_i heq
    cases h
    simp only [if_true] at heq
    split at heq
    · split at heq
      · cases heq
      · split at heq
        · next e he => cases heq; exact readAt_noFault _ _ _ _ he
        · next raw hraw =>
          split at heq
          · next e he => cases heq; exact copyInto_exact_noFault _ _ (readAt_length hraw) _ he
          · cases heq
    · cases heq
  · simp only [Bool.true_and, decide_eq_true_eq] at h
    split at h <;> cases h

/-- what a successful `openWith` returns -/
theorem openWith_ok {cfg : Cfg} {b : Bytes} {v : View} (h : openWith cfg b = .ok v) :
    v.file = b ∧ v.count = countValid v.entries ∧ (cfg.d7 = true → v.count ≤ v.names.length) := by
  unfold openWith at h
  rcases cfg with ⟨d6, d7⟩
  cases d6 <;> cases d7 <;> simp only [Bool.false_eq_true, if_true, if_false, Bool.true_and, Bool.false_and, decide_eq_true_eq] at h
  all_goals repeat' (split at h)
  all_goals try (cases h; done)
  all_goals
    cases h
    refine ⟨rfl, rfl, ?_⟩
    intro hd
    first
      | (cases hd; done)
      | (show countValid _ ≤ (splitNames _).length
         omega)

/-! ## A. the invariant of an opened archive -/

/-- every index that `VerifyIndexInBounds` lets through is a position of both vectors -/
def View.Inv (v : View) : Prop := v.count ≤ v.names.length ∧ v.count ≤ v.entries.length

instance (v : View) : Decidable v.Inv := by unfold View.Inv; exact inferInstance

theorem open_inv (b : Bytes) (v : View) (h : Vol.open b = .ok v) : v.Inv ∧ v.file = b := by
  obtain ⟨hf, hc, hn⟩ := openWith_ok h
  refine ⟨⟨hn rfl, ?_⟩, hf⟩
  rw [hc]
  exact countValid_le _

/-! ## B. opening arbitrary bytes never faults -/

theorem open_noFault (b : Bytes) (f : Fault) : Vol.open b ≠ .error (.fault f) :=
  openWith_fixed_noFault b f

/-! ## C. calls on an opened archive never fault -/

namespace View

theorem verify_ok {v : View} {i : Nat} {u : Unit} (h : v.verify i = .ok u) : i < v.count := by
  unfold verify at h
  split at h
  · cases h
  · omega

theorem name_noFault (v : View) (hv : v.Inv) (i : Nat) : NoFault (v.name i) := by
  intro f h
  unfold name at h
  split at h
  · next e he =>
    cases h
    unfold verify at he
    split at he <;> cases he
  · next u hu =>
    have := verify_ok hu
    exact vecIdx_noFault _ _ (by have := hv.1; omega) f h

theorem entry_noFault (v : View) (hv : v.Inv) (i : Nat) : NoFault (v.entry i) := by
  intro f h
  unfold entry at h
  split at h
  · next e he =>
    cases h
    unfold verify at he
    split at he <;> cases he
  · next u hu =>
    have := verify_ok hu
    exact vecIdx_noFault _ _ (by have := hv.2; omega) f h

theorem size_noFault (v : View) (hv : v.Inv) (i : Nat) : NoFault (v.size i) :=
  noFault_map _ _ (entry_noFault v hv i)

theorem kind_noFault (v : View) (hv : v.Inv) (i : Nat) : NoFault (v.kind i) :=
  noFault_map _ _ (entry_noFault v hv i)

theorem find_noFault (v : View) (hv : v.Inv) (q : Bytes) (fuel i : Nat) : NoFault (v.find q fuel i) := by
  induction fuel generalizing i with
  | zero => intro f h; simp [find] at h
  | succ n ih =>
    intro f h
    unfold find at h
    split at h
    · next e he => cases h; exact name_noFault v hv i f he
    · split at h
      · cases h
      · exact ih _ f h

theorem index_noFault (v : View) (hv : v.Inv) (q : Bytes) : NoFault (v.index q) := by
  intro f h
  unfold index at h
  split at h
  · next e he => cases h; exact find_noFault v hv q _ _ f he
  · cases h
  · cases h

theorem contains_noFault (v : View) (hv : v.Inv) (q : Bytes) : NoFault (v.contains q) :=
  noFault_map _ _ (find_noFault v hv q _ _)

theorem blockHeader_noFault (v : View) (hv : v.Inv) (i : Nat) : NoFault (v.blockHeader i) := by
  intro f h
  unfold blockHeader at h
  split at h
  · next e he => cases h; exact entry_noFault v hv i f he
  · split at h
    · next e he => cases h; exact readAt_noFault _ _ _ f he
    · split at h <;> cases h

theorem slice_noFault (file : Bytes) (s l : Nat) : NoFault (slice file s l) := by
  intro f h
  unfold slice at h
  split at h
  · cases h
  · split at h <;> cases h

theorem stream_noFault (v : View) (hv : v.Inv) (i : Nat) : NoFault (v.stream i) := by
  intro f h
  unfold stream at h
  split at h
  · next e he => cases h; exact blockHeader_noFault v hv i f he
  · exact slice_noFault _ _ _ f h

theorem lzhLoad_noFault (v : View) (hv : v.Inv) (i : Nat) : NoFault (v.lzhLoad i) := by
  intro f h
  unfold lzhLoad at h
  split at h
  · next e he => cases h; exact blockHeader_noFault v hv i f he
  · split at h
    · cases h
    · exact noFault_map _ _ (slice_noFault _ _ _) f h

theorem extract_noFault (v : View) (hv : v.Inv) (i : Nat) : NoFault (v.extract i) := by
  intro f h
  unfold extract at h
  split at h
  · next e he => cases h; exact entry_noFault v hv i f he
  · split at h
    · exact noFault_map _ _ (stream_noFault v hv i) f h
    · split at h
      · exact noFault_map _ _ (lzhLoad_noFault v hv i) f h
      · cases h

end View

theorem Res.ofNat_ne_fault (m : M Nat) (h : NoFault m) (f : Fault) : Res.ofNat m ≠ .fail (.fault f) := by
  intro hf
  cases m with
  | ok a => cases hf
  | error e => simp only [Res.ofNat, Res.fail.injEq] at hf; subst hf; exact h f rfl

theorem Res.ofBytes_ne_fault (m : M Bytes) (h : NoFault m) (f : Fault) : Res.ofBytes m ≠ .fail (.fault f) := by
  intro hf
  cases m with
  | ok a => cases hf
  | error e => simp only [Res.ofBytes, Res.fail.injEq] at hf; subst hf; exact h f rfl

theorem step_view (o : Obj) (op : Op) : (o.step op).2.view = o.view := by
  cases op <;> simp only [Obj.step] <;> (try split) <;> rfl

theorem step_noFault (v : View) (hv : v.Inv) (r : Nat) (op : Op) (f : Fault) :
    (Obj.step { view := v, rpos := r } op).1 ≠ .fail (.fault f) := by
  cases op with
  | count => intro h; cases h
  | name i => exact Res.ofBytes_ne_fault _ (View.name_noFault v hv i) f
  | size i => exact Res.ofNat_ne_fault _ (View.size_noFault v hv i) f
  | kind i => exact Res.ofNat_ne_fault _ (View.kind_noFault v hv i) f
  | index q => exact Res.ofNat_ne_fault _ (View.index_noFault v hv q) f
  | contains q => exact Res.ofNat_ne_fault _ (noFault_map _ _ (View.contains_noFault v hv q)) f
  | stream i => exact Res.ofBytes_ne_fault _ (View.stream_noFault v hv i) f
  | streamByName q =>
    simp only [Obj.step]
    split
    · exact Res.ofBytes_ne_fault _ (View.stream_noFault v hv _) f
    · next e he =>
      intro h
      simp only [Res.fail.injEq] at h
      subst h
      exact View.index_noFault v hv q f he
  | extract i =>
    simp only [Obj.step]
    split
    · intro h; cases h
    · intro h; cases h
    · next e he =>
      intro h
      simp only [Res.fail.injEq] at h
      subst h
      exact View.extract_noFault v hv i f he

theorem run_noFault (v : View) (hv : v.Inv) (ops : List Op) (f : Fault) :
    ∀ o : Obj, o.view = v → Res.fail (.fault f) ∉ Obj.run o ops := by
  induction ops with
  | nil => intro o _ h; simp [Obj.run] at h
  | cons op ops ih =>
    intro o ho h
    simp only [Obj.run, List.mem_cons] at h
    rcases h with h | h
    · obtain ⟨ov, r⟩ := o
      simp only at ho
      subst ho
      exact step_noFault ov hv r op f h.symm
    · exact ih (o.step op).2 (by rw [step_view, ho]) h

theorem run_open_noFault (b : Bytes) (v : View) (h : Vol.open b = .ok v) (r : Nat) (ops : List Op) (f : Fault) :
    Res.fail (.fault f) ∉ Obj.run { view := v, rpos := r } ops :=
  run_noFault v (open_inv b v h).1 ops f _ rfl

/-! ## D. answers depend on the parsed archive only -/

theorem step_rpos_irrelevant (o : Obj) (r : Nat) (op : Op) :
    (Obj.step { o with rpos := r } op).1 = (o.step op).1 := by
  cases op <;> simp only [Obj.step] <;> (try split) <;> rfl

theorem step_fst_view (o o' : Obj) (h : o.view = o'.view) (op : Op) : (o.step op).1 = (o'.step op).1 := by
  obtain ⟨v, r⟩ := o
  obtain ⟨v', r'⟩ := o'
  simp only at h
  subst h
  exact step_rpos_irrelevant ⟨v, r'⟩ r op

theorem run_view_only (ops : List Op) : ∀ o o' : Obj, o.view = o'.view → Obj.run o ops = Obj.run o' ops := by
  induction ops with
  | nil => intro o o' _; rfl
  | cons op ops ih =>
    intro o o' h
    simp only [Obj.run]
    rw [step_fst_view o o' h op, ih (o.step op).2 (o'.step op).2 (by rw [step_view, step_view, h])]

theorem run_after_step (o : Obj) (op : Op) (ops : List Op) :
    Obj.run (o.step op).2 ops = Obj.run o ops :=
  run_view_only ops _ _ (step_view o op)

/-! ## E. streams are exact or refused -/

theorem stream_exact (v : View) (i : Nat) (b : Bytes) (h : v.stream i = .ok b) :
    ∃ e, i < v.count ∧ v.entries[i]? = some e ∧ e.dataOff + 8 ≤ v.file.length ∧
      (let len := decU32 (v.file.drop (e.dataOff + 4)) % padFlag
       e.dataOff + 8 + len ≤ v.file.length ∧ b = (v.file.drop (e.dataOff + 8)).take len ∧ b.length = len) := by
  unfold View.stream at h
  split at h
  · cases h
  next len p hbh =>
  unfold View.blockHeader at hbh
  split at hbh
  · cases hbh
  next e he =>
  split at hbh
  · cases hbh
  next hd hhd =>
  split at hbh
  · cases hbh
  simp only [Except.ok.injEq, Prod.mk.injEq] at hbh
  obtain ⟨hlen, hp⟩ := hbh
  unfold View.entry at he
  split at he
  · cases he
  next u hu =>
  have hi := View.verify_ok hu
  have hget := vecIdx_ok he
  obtain ⟨hb8, hhdeq⟩ := readAt_ok hhd
  unfold secSize at hb8 hhdeq hp
  refine ⟨e, hi, hget, hb8, ?_⟩
  have hl : len = decU32 (v.file.drop (e.dataOff + 4)) % padFlag := by
    rw [← hlen, hhdeq, decU32_header]
  subst hp
  unfold View.slice at h
  split at h
  · cases h
  split at h
  · cases h
  simp only [Except.ok.injEq] at h
  simp only
  rw [← hl]
  refine ⟨by omega, h.symm, ?_⟩
  rw [← h, List.length_take, List.length_drop]
  omega

theorem stream_never_short (v : View) (i : Nat) (e : Entry) (he : v.entries[i]? = some e) (hi : i < v.count)
    (hout : v.file.length < e.dataOff + 8 + decU32 (v.file.drop (e.dataOff + 4)) % padFlag) :
    ∃ x, v.stream i = .error (.err x) := by
  have hentry : v.entry i = .ok e := by
    unfold View.entry View.verify vecIdx
    rw [if_neg (by omega)]
    simp only [he]
  unfold View.stream View.blockHeader
  simp only [hentry]
  unfold readAt secSize
  by_cases h8 : e.dataOff + 8 ≤ v.file.length
  · rw [if_pos h8]
    simp only [decU32_header]
    by_cases ht : List.take 4 (List.take 8 (List.drop e.dataOff v.file)) ≠ tagVBLK
    · rw [if_pos ht]
      exact ⟨_, rfl⟩
    · rw [if_neg ht]
      unfold View.slice
      simp only
      split
      · exact ⟨_, rfl⟩
      · first
          | exact ⟨_, rfl⟩
          | (rw [if_pos (by omega)]; exact ⟨_, rfl⟩)
  · rw [if_neg h8]
    exact ⟨_, rfl⟩

end Op2.Vol
